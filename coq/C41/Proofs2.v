(* C41 — refinement: for EVERY input the trace and outcome produced by the model
   of fork_processes are accepted by the ideal supervisor of Spec.v (or the
   environment broke the fresh-pid rely condition). *)
From Coq Require Import List ZArith String Bool Arith Lia Setoid.
Import ListNotations.
From TV Require Import Lib.Obs C41.Model C41.Spec C41.Run C41.Proofs1.
Local Open Scope Z_scope.
Set Default Proof Using "Type".

(* ---------- simulation invariant: pid-keyed dict  <->  worker-keyed map ---------- *)
Definition Inv (n : nat) (ch : cmap) (w : wmap) : Prop :=
  forall pid i, cm_find pid ch = Some i <-> ((i < n)%nat /\ w i = Running pid).

Definition Started (n : nat) (w : wmap) : Prop :=
  forall i, (i < n)%nat -> w i <> NotStarted.

(* non-zero fork results still to come *)
Definition nz (fs : list Z) : list Z := filter (fun p => negb (p =? 0)) fs.

(* the rely condition, on the unread part of the fork oracle *)
Definition Fresh (n : nat) (fs : list Z) (w : wmap) : Prop :=
  NoDup (nz fs) /\ forall p, In p (nz fs) -> forall j, (j < n)%nat -> w j <> Running p.

Definition good (n : nat) (fs : list Z) (w : wmap) (v : verdict) : Prop :=
  v = Accept \/ (v = EnvBroken /\ ~ Fresh n fs w).

Lemma Inv_owner n ch w pid : Inv n ch w -> owner n w pid = cm_find pid ch.
Proof.
  intro HI. destruct (owner n w pid) as [i|] eqn:E.
  - apply owner_some in E. symmetry. apply HI. exact E.
  - destruct (cm_find pid ch) as [i|] eqn:F; auto.
    apply HI in F. destruct F as [Hi Hr]. exfalso. eapply owner_none; eauto.
Qed.

Lemma Inv_allfin n ch w :
  Inv n ch w -> Started n w -> (all_finished n w = true <-> ch = []).
Proof.
  intros HI HS. split.
  - intro H. destruct ch as [|[p i] ch]; auto. exfalso.
    assert (F : cm_find p ((p, i) :: ch) = Some i) by (simpl; rewrite Z.eqb_refl; reflexivity).
    apply HI in F. destruct F as [Hi Hr].
    rewrite all_finished_true in H. rewrite H in Hr by exact Hi. discriminate.
  - intro H. subst ch. apply all_finished_true. intros j Hj.
    destruct (w j) as [|p|] eqn:E; auto.
    + exfalso. eapply HS; eauto.
    + assert (F : cm_find p [] = Some j) by (apply HI; auto). discriminate.
Qed.

Lemma Inv_remove n ch w pid i :
  Inv n ch w -> cm_find pid ch = Some i -> Inv n (cm_remove pid ch) (upd w i Finished).
Proof.
  intros HI F q j. destruct (Z.eq_dec q pid) as [->|N].
  - rewrite cm_find_remove_same. split; [discriminate|].
    intros [Hj Hr]. exfalso. destruct (Nat.eq_dec j i) as [->|Nj].
    + rewrite upd_same in Hr. discriminate.
    + rewrite upd_other in Hr by exact Nj.
      assert (F2 : cm_find pid ch = Some j) by (apply HI; auto). congruence.
  - rewrite cm_find_remove_other by exact N. rewrite (HI q j).
    apply HI in F. destruct F as [Hi Hri].
    destruct (Nat.eq_dec j i) as [->|Nj].
    + rewrite upd_same. split; intros [_ H]; [|discriminate]. rewrite Hri in H. congruence.
    + rewrite upd_other by exact Nj. tauto.
Qed.

Lemma Inv_set n ch w1 w2 p i :
  Inv n ch w1 -> (i < n)%nat ->
  (forall j, (j < n)%nat -> w1 j <> Running p) ->
  (forall q, w1 i <> Running q) ->
  (forall j, w2 j = if Nat.eqb j i then Running p else w1 j) ->
  Inv n (cm_set p i ch) w2.
Proof.
  intros HI Hi Hfree Hidle Hw q j. rewrite cm_find_set, Hw.
  destruct (p =? q) eqn:E.
  - apply Z.eqb_eq in E. subst q. destruct (Nat.eqb j i) eqn:Ej.
    + apply Nat.eqb_eq in Ej. subst j. split; auto.
    + apply Nat.eqb_neq in Ej. split.
      * intro H. inversion H. congruence.
      * intros [Hj Hr]. exfalso. eapply Hfree; eauto.
  - apply Z.eqb_neq in E. rewrite (HI q j). destruct (Nat.eqb j i) eqn:Ej.
    + apply Nat.eqb_eq in Ej. subst j. split; intros [_ H].
      * exfalso. eapply Hidle; eauto.
      * inversion H. congruence.
    + tauto.
Qed.

Lemma Started_upd n w i x : Started n w -> x <> NotStarted -> Started n (upd w i x).
Proof.
  intros HS Hx j Hj. destruct (Nat.eq_dec j i) as [->|N].
  - rewrite upd_same. exact Hx.
  - rewrite upd_other by exact N. apply HS. exact Hj.
Qed.

Lemma nz_cons_nonzero p fs : (p =? 0) = false -> nz (p :: fs) = p :: nz fs.
Proof. intro E. unfold nz. simpl. rewrite E. reflexivity. Qed.

(* consuming a fresh non-zero pid for worker i keeps the rely condition on the rest *)
Lemma Fresh_step n p fs w w2 i :
  (p =? 0) = false -> Fresh n (p :: fs) w ->
  (forall j, w2 j = if Nat.eqb j i then Running p else w j) ->
  Fresh n fs w2.
Proof.
  intros E [ND HF] Hw. rewrite nz_cons_nonzero in ND, HF by exact E.
  apply NoDup_cons_iff in ND. destruct ND as [Hnotin ND]. split; auto.
  intros q Hq j Hj. rewrite Hw. destruct (Nat.eqb j i).
  - intro H. inversion H. subst q. contradiction.
  - apply HF; [right; exact Hq|exact Hj].
Qed.

Lemma Fresh_finish n fs w i : Fresh n fs w -> Fresh n fs (upd w i Finished).
Proof.
  intros [ND HF]. split; auto. intros q Hq j Hj.
  destruct (Nat.eq_dec j i) as [->|N].
  - rewrite upd_same. discriminate.
  - rewrite upd_other by exact N. apply HF; auto.
Qed.

Lemma Fresh_head_free n p fs w :
  (p =? 0) = false -> Fresh n (p :: fs) w -> forall j, (j < n)%nat -> w j <> Running p.
Proof.
  intros E [_ HF]. rewrite nz_cons_nonzero in HF by exact E. apply HF. left. reflexivity.
Qed.

Section WithEk.
Variable ek : nat * nat.   (* the exceptions os.fork / os.wait raise when their scripted results run out *)

(* ---------- unfolding equations ---------- *)
Lemma spec_sup_unfold n budget w r tr o :
  spec_sup ek n budget w r tr o =
  if all_finished n w then accept_if (is_nil tr && is_exit0 o)
  else
    match tr with
    | [] => accept_if (is_waiterr (snd ek) o)
    | EWait pid st :: tr1 =>
      match owner n w pid with
      | None => spec_sup ek n budget w r tr1 o
      | Some i =>
        match tr1 with
        | ELog i' pid' k :: tr2 =>
          if negb (Nat.eqb i' i && (pid' =? pid) && logkind_eqb k (expected_log st)) then Reject
          else if abnormal st then
            if r + 1 >? budget then accept_if (is_nil tr2 && is_toomany o)
            else
              match tr2 with
              | [] => accept_if (is_forkerr (fst ek) o)
              | EFork i'' p :: tr3 =>
                if negb (Nat.eqb i'' i) then Reject
                else if p =? 0 then accept_if (is_nil tr3 && is_child_of i o)
                else if pid_live n (upd w i Finished) p then EnvBroken
                else spec_sup ek n budget (upd w i (Running p)) (r + 1) tr3 o
              | _ => Reject
              end
          else spec_sup ek n budget (upd w i Finished) r tr2 o
        | _ => Reject
        end
      end
    | _ => Reject
    end.
Proof. destruct tr; reflexivity. Qed.

Lemma supervise_cons maxr pid st ws fs ch nr :
  ch <> [] ->
  supervise ek maxr ((pid, st) :: ws) fs ch nr =
  pre [EWait pid st]
      (match cm_find pid ch with
       | None => supervise ek maxr ws fs ch nr
       | Some id =>
         pre [ELog id pid (exit_log st)]
             (if abnormal_exit st then
                if nr + 1 >? maxr then ([], OTooMany)
                else match fs with
                     | [] => ([], (OForkErr (fst ek)))
                     | p :: fs' =>
                       if p =? 0 then ([EFork id 0], OChild id id)
                       else pre [EFork id p]
                                (supervise ek maxr ws fs' (cm_set p id (cm_remove pid ch)) (nr + 1))
                     end
              else supervise ek maxr ws fs (cm_remove pid ch) nr)
       end).
Proof. destruct ch; [congruence|reflexivity]. Qed.

Lemma is_child_of_refl i : is_child_of i (OChild i i) = true.
Proof. simpl. rewrite Nat.eqb_refl. reflexivity. Qed.

Ltac acc := left; simpl; rewrite ?Nat.eqb_refl; reflexivity.

(* ---------- the supervision loop refines the specification ---------- *)
Lemma supervise_ok n maxr : forall waits fs ch nr w,
  Inv n ch w -> Started n w ->
  good n fs w (spec_sup ek n maxr w nr (fst (supervise ek maxr waits fs ch nr))
                        (snd (supervise ek maxr waits fs ch nr))).
Proof.
  induction waits as [|[pid st] ws IH]; intros fs ch nr w HI HS.
  - (* os.wait() raises *)
    rewrite spec_sup_unfold. destruct ch as [|c ch].
    + simpl. rewrite (proj2 (Inv_allfin n [] w HI HS) eq_refl). acc.
    + simpl. destruct (all_finished n w) eqn:AF.
      * apply (Inv_allfin n (c :: ch) w HI HS) in AF. discriminate.
      * acc.
  - destruct ch as [|c ch0] eqn:Ech.
    + rewrite spec_sup_unfold. simpl.
      rewrite (proj2 (Inv_allfin n [] w HI HS) eq_refl). acc.
    + rewrite <- Ech in *. assert (Hne : ch <> []) by (rewrite Ech; discriminate).
      rewrite supervise_cons by exact Hne.
      rewrite spec_sup_unfold.
      destruct (all_finished n w) eqn:AF.
      { apply (Inv_allfin n ch w HI HS) in AF. contradiction. }
      cbn [pre fst snd app]. rewrite (Inv_owner n ch w pid HI).
      destruct (cm_find pid ch) as [i|] eqn:F.
      2:{ apply IH; assumption. }
      cbn [pre fst snd app].
      rewrite Nat.eqb_refl, Z.eqb_refl, exit_log_eq, logkind_eqb_refl. cbn [andb negb].
      rewrite abnormal_exit_eq.
      destruct (abnormal st) eqn:AB.
      * destruct (nr + 1 >? maxr) eqn:B.
        { acc. }
        destruct fs as [|p fs'].
        { acc. }
        destruct (p =? 0) eqn:P0.
        { cbn [fst snd]. rewrite Nat.eqb_refl. cbn [negb]. apply Z.eqb_eq in P0. subst p.
          rewrite Z.eqb_refl. rewrite is_child_of_refl. acc. }
        cbn [pre fst snd app]. rewrite Nat.eqb_refl. cbn [negb]. rewrite P0.
        destruct (pid_live n (upd w i Finished) p) eqn:PL.
        { right. split; [reflexivity|]. intro HF.
          apply pid_live_true in PL. destruct PL as [j [Hj Hr]].
          destruct (Nat.eq_dec j i) as [->|Nj]; [rewrite upd_same in Hr; discriminate|].
          rewrite upd_other in Hr by exact Nj.
          eapply Fresh_head_free; eauto. }
        assert (Hi : (i < n)%nat) by (apply HI in F; tauto).
        assert (HI2 : Inv n (cm_set p i (cm_remove pid ch)) (upd w i (Running p))).
        { eapply Inv_set with (w1 := upd w i Finished).
          - eapply Inv_remove; eauto.
          - exact Hi.
          - apply pid_live_false. exact PL.
          - intro q. rewrite upd_same. discriminate.
          - intro j. unfold upd. destruct (Nat.eqb j i); reflexivity. }
        assert (HS2 : Started n (upd w i (Running p))) by (apply Started_upd; [auto|discriminate]).
        destruct (IH fs' (cm_set p i (cm_remove pid ch)) (nr + 1) (upd w i (Running p)) HI2 HS2)
          as [G|[G NF]]; [left; exact G|right; split; [exact G|]].
        intro HF. apply NF. eapply Fresh_step with (i := i); eauto.
      * assert (HI2 : Inv n (cm_remove pid ch) (upd w i Finished)) by (eapply Inv_remove; eauto).
        assert (HS2 : Started n (upd w i Finished)) by (apply Started_upd; [auto|discriminate]).
        destruct (IH fs (cm_remove pid ch) nr (upd w i Finished) HI2 HS2)
          as [G|[G NF]]; [left; exact G|right; split; [exact G|]].
        intro HF. apply NF. apply Fresh_finish. exact HF.
Qed.

(* ---------- the start-up loop ---------- *)
Lemma start_all_nil maxr waits fs ch :
  start_all ek maxr waits [] fs ch = supervise ek maxr waits fs ch 0.
Proof. reflexivity. Qed.

Lemma start_all_cons maxr waits i ids fs ch :
  start_all ek maxr waits (i :: ids) fs ch =
  match fs with
  | [] => ([], OForkErr (fst ek))
  | pid :: fs' =>
    if pid =? 0 then ([EFork i 0], OChild i i)
    else pre [EFork i pid] (start_all ek maxr waits ids fs' (cm_set pid i ch))
  end.
Proof. reflexivity. Qed.

Lemma start_all_ok n maxr waits : forall m k fs ch w,
  (k + m = n)%nat -> Inv n ch w ->
  (forall i, (i < k)%nat -> w i <> NotStarted) ->
  (forall i, (k <= i)%nat -> w i = NotStarted) ->
  good n fs w (spec_init ek n maxr (seq k m) w (fst (start_all ek maxr waits (seq k m) fs ch))
                         (snd (start_all ek maxr waits (seq k m) fs ch))).
Proof.
  induction m as [|m IH]; intros k fs ch w Hkm HI Hlo Hhi.
  - cbn [seq spec_init]. rewrite start_all_nil. apply supervise_ok; auto. intros i Hi. apply Hlo. lia.
  - cbn [seq spec_init]. rewrite start_all_cons. destruct fs as [|p fs'].
    { acc. }
    destruct (p =? 0) eqn:P0.
    { cbn [fst snd]. rewrite Nat.eqb_refl. cbn [negb]. apply Z.eqb_eq in P0. subst p.
      rewrite Z.eqb_refl, is_child_of_refl. acc. }
    cbn [pre fst snd app]. rewrite Nat.eqb_refl. cbn [negb]. rewrite P0.
    destruct (pid_live n w p) eqn:PL.
    { right. split; [reflexivity|]. intro HF.
      apply pid_live_true in PL. destruct PL as [j [Hj Hr]].
      eapply Fresh_head_free; eauto. }
    assert (HI2 : Inv n (cm_set p k ch) (upd w k (Running p))).
    { eapply Inv_set with (w1 := w); eauto.
      - lia.
      - apply pid_live_false. exact PL.
      - intro q. rewrite Hhi by lia. discriminate. }
    destruct (IH (S k) fs' (cm_set p k ch) (upd w k (Running p))) as [G|[G NF]].
    + lia.
    + exact HI2.
    + intros i Hi. destruct (Nat.eq_dec i k) as [->|N].
      * rewrite upd_same. discriminate.
      * rewrite upd_other by exact N. apply Hlo. lia.
    + intros i Hi. rewrite upd_other by lia. apply Hhi. lia.
    + left. exact G.
    + right. split; [exact G|]. intro HF. apply NF. eapply Fresh_step with (i := k); eauto.
Qed.

(* ---------- the whole call ---------- *)
Lemma eff_procs_want np cpu : eff_procs np cpu = want_procs np cpu.
Proof.
  unfold eff_procs, eff_procs_d, want_procs. change (d_cpu_bound desc_expected) with 0. destruct np as [z|]; auto.
  destruct (z <=? 0) eqn:A, (0 <? z) eqn:B; auto; exfalso.
  - apply Z.leb_le in A. apply Z.ltb_lt in B. lia.
  - apply Z.leb_gt in A. apply Z.ltb_ge in B. lia.
Qed.

Lemma eff_budget_want mr : eff_budget mr = want_budget mr.
Proof. destruct mr; reflexivity. Qed.

Lemma Inv_init n : Inv n [] (fun _ => NotStarted).
Proof. intros pid i. simpl. split; [discriminate|]. intros [_ H]. discriminate. Qed.

Lemma fork_processes_None np cpu mr fs ws :
  fork_processes ek None np cpu mr fs ws =
  let x := start_all ek (eff_budget mr) ws (seq 0 (eff_procs np cpu)) fs [] in
  {| r_trace := EStart (eff_procs np cpu) :: fst x;
     r_out := snd x;
     r_task := match snd x with OChild _ t => Some t | _ => None end |}.
Proof. reflexivity. Qed.

Lemma fork_processes_good pt np cpu mr fs ws :
  match pt with
  | Some _ => spec_check ek pt np cpu mr (fork_processes ek pt np cpu mr fs ws) = Accept
  | None => good (want_procs np cpu) fs (fun _ => NotStarted)
                 (spec_check ek pt np cpu mr (fork_processes ek pt np cpu mr fs ws))
  end.
Proof.
  destruct pt as [t|].
  - simpl. rewrite Nat.eqb_refl. reflexivity.
  - rewrite fork_processes_None. cbn zeta. unfold spec_check. cbn [r_trace r_out r_task].
    rewrite eff_procs_want, eff_budget_want. rewrite Nat.eqb_refl.
    set (n := want_procs np cpu).
    assert (T : task_ok (snd (start_all ek (want_budget mr) ws (seq 0 n) fs []))
                        match snd (start_all ek (want_budget mr) ws (seq 0 n) fs []) with
                        | OChild _ t => Some t | _ => None end = true).
    { destruct (snd (start_all ek (want_budget mr) ws (seq 0 n) fs [])); simpl; auto.
      apply Nat.eqb_refl. }
    rewrite T. cbn [andb negb].
    apply start_all_ok; auto.
    + apply Inv_init.
    + intros i Hi. lia.
Qed.

Lemma never_rejected pt np cpu mr fs ws :
  spec_check ek pt np cpu mr (fork_processes ek pt np cpu mr fs ws) <> Reject.
Proof.
  pose proof (fork_processes_good pt np cpu mr fs ws) as H. destruct pt.
  - rewrite H. discriminate.
  - destruct H as [H|[H _]]; rewrite H; discriminate.
Qed.

Lemma accepted_when_fresh pt np cpu mr fs ws :
  NoDup (nz fs) ->
  spec_check ek pt np cpu mr (fork_processes ek pt np cpu mr fs ws) = Accept.
Proof.
  intro ND. pose proof (fork_processes_good pt np cpu mr fs ws) as H. destruct pt; auto.
  destruct H as [H|[_ NF]]; auto. exfalso. apply NF. split; auto.
  intros p _ j _. discriminate.
Qed.

End WithEk.
