(* C41 — tornado/process.py fork_processes: the multi-process supervisor.
   Executable model of the code as it is in /repo.  Definitions only.

   os.fork / os.wait are oracle streams supplied by the environment:
     forks : list Z          successive return values of os.fork()  (0 = "we are the child")
     waits : list (Z * Z)    successive return values (pid, status) of os.wait()
   Running out of an oracle stands for the corresponding system call raising
   (the exception propagates out of fork_processes unchanged).               *)
From Coq Require Import List ZArith Bool.
Import ListNotations.
Local Open Scope Z_scope.

(* ---------- wait-status macros (glibc, as used by CPython's os module) ---------- *)
Definition WTERMSIG (s : Z) : Z := Z.land s 127.
(* ((signed char)((s & 0x7f) + 1) >> 1) > 0 *)
Definition WIFSIGNALED (s : Z) : bool :=
  negb (Z.land s 127 =? 0) && negb (Z.land s 127 =? 127).
Definition WEXITSTATUS (s : Z) : Z := Z.land (Z.shiftr s 8) 255.

(* ---------- the `children` dict: pid -> task id ---------- *)
Definition cmap := list (Z * nat).

Fixpoint cm_find (pid : Z) (ch : cmap) : option nat :=
  match ch with
  | [] => None
  | (p, i) :: r => if p =? pid then Some i else cm_find pid r
  end.

Fixpoint cm_remove (pid : Z) (ch : cmap) : cmap :=
  match ch with
  | [] => []
  | (p, i) :: r => if p =? pid then cm_remove pid r else (p, i) :: cm_remove pid r
  end.

(* children[pid] = i   (the dict is never iterated, so the position is irrelevant) *)
Definition cm_set (pid : Z) (i : nat) (ch : cmap) : cmap := (pid, i) :: cm_remove pid ch.

(* ---------- observable events ---------- *)
Inductive logkind :=
| LSignal (sig : Z)      (* "child %d (pid %d) killed by signal %d, restarting" *)
| LStatus (code : Z)     (* "child %d (pid %d) exited with status %d, restarting" *)
| LNormal.               (* "child %d (pid %d) exited normally" *)

Inductive event :=
| EStart (n : nat)                         (* "Starting %d processes" *)
| EFork (id : nat) (pid : Z)               (* start_child(id): os.fork() returned pid *)
| EWait (pid : Z) (status : Z)             (* os.wait() returned (pid, status) *)
| ELog (id : nat) (pid : Z) (k : logkind). (* the supervisor's log record about an exit *)

Inductive outcome :=
| OChild (ret : nat) (task : nat)   (* fork_processes returned `ret` in a child whose _task_id is `task` *)
| OExit (code : Z)                  (* sys.exit(code) in the parent *)
| OTooMany                          (* RuntimeError("Too many child restarts, giving up") *)
| OOutOfForks                       (* os.fork() raised (oracle exhausted) *)
| OOutOfWaits                       (* os.wait() raised (oracle exhausted) *)
| OAssert.                          (* assert _task_id is None *)

Definition pre (es : list event) (x : list event * outcome) : list event * outcome :=
  (es ++ fst x, snd x).

Definition exit_log (st : Z) : logkind :=
  if WIFSIGNALED st then LSignal (WTERMSIG st)
  else if negb (WEXITSTATUS st =? 0) then LStatus (WEXITSTATUS st)
  else LNormal.

(* the code's if / elif / else chain: restart unless "exited normally" *)
Definition abnormal_exit (st : Z) : bool := WIFSIGNALED st || negb (WEXITSTATUS st =? 0).

(* ---------- the `while children:` loop; one os.wait() per iteration ---------- *)
Fixpoint supervise (maxr : Z) (waits : list (Z * Z)) (fs : list Z) (ch : cmap) (nr : Z)
  {struct waits} : list event * outcome :=
  match ch with
  | [] => ([], OExit 0)                         (* sys.exit(0) *)
  | _ :: _ =>
    match waits with
    | [] => ([], OOutOfWaits)
    | (pid, st) :: ws =>
      pre [EWait pid st]
      (match cm_find pid ch with
       | None => supervise maxr ws fs ch nr     (* if pid not in children: continue *)
       | Some id =>
         let ch' := cm_remove pid ch in         (* id = children.pop(pid) *)
         pre [ELog id pid (exit_log st)]
         (if abnormal_exit st then
            (* num_restarts += 1; if num_restarts > max_restarts: raise RuntimeError *)
            if nr + 1 >? maxr then ([], OTooMany)
            else
              (* new_id = start_child(id) *)
              match fs with
              | [] => ([], OOutOfForks)
              | p :: fs' =>
                if p =? 0 then ([EFork id 0], OChild id id)   (* child: _task_id = id; return id *)
                else pre [EFork id p] (supervise maxr ws fs' (cm_set p id ch') (nr + 1))
              end
          else supervise maxr ws fs ch' nr)     (* exited normally: continue *)
       end)
    end
  end.

(* ---------- `for i in range(num_processes): start_child(i)` then the loop ---------- *)
Fixpoint start_all (maxr : Z) (waits : list (Z * Z)) (ids : list nat) (fs : list Z) (ch : cmap)
  {struct ids} : list event * outcome :=
  match ids with
  | [] => supervise maxr waits fs ch 0
  | i :: ids' =>
    match fs with
    | [] => ([], OOutOfForks)
    | pid :: fs' =>
      if pid =? 0 then ([EFork i 0], OChild i i)
      else pre [EFork i pid] (start_all maxr waits ids' fs' (cm_set pid i ch))
    end
  end.

Record result := { r_trace : list event; r_out : outcome; r_task : option nat }.

(* num_processes None or <= 0  ->  cpu_count() *)
Definition eff_procs (nprocs : option Z) (cpu : nat) : nat :=
  match nprocs with
  | None => cpu
  | Some z => if z <=? 0 then cpu else Z.to_nat z
  end.
(* max_restarts None -> 100 *)
Definition eff_budget (maxr : option Z) : Z :=
  match maxr with None => 100 | Some m => m end.

(* pre_task: the value of the module global _task_id before the call
   (Some t = fork_processes called again inside a worker) *)
Definition fork_processes (pre_task : option nat) (nprocs : option Z) (cpu : nat)
           (maxr : option Z) (fs : list Z) (waits : list (Z * Z)) : result :=
  match pre_task with
  | Some t => {| r_trace := []; r_out := OAssert; r_task := Some t |}
  | None =>
    let n := eff_procs nprocs cpu in
    let x := start_all (eff_budget maxr) waits (seq 0 n) fs [] in
    {| r_trace := EStart n :: fst x;
       r_out := snd x;
       r_task := match snd x with OChild _ t => Some t | _ => None end |}
  end.
