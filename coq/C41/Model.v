(* C41 — tornado/process.py fork_processes: the multi-process supervisor.
   Executable model of the code as it is in /repo.  Definitions only.

   os.fork / os.wait are oracle streams supplied by the environment:
     forks : list Z          successive return values of os.fork()  (0 = "we are the child")
     waits : list (Z * Z)    successive return values (pid, status) of os.wait()
   Running out of an oracle stands for the corresponding system call raising
   (the exception propagates out of fork_processes unchanged).               *)
From Coq Require Import List ZArith Bool.
Import ListNotations.
Local Open Scope Z_scope.

(* ---------- wait-status macros (glibc, as used by CPython's os module) ---------- *)
Definition WTERMSIG (s : Z) : Z := Z.land s 127.
(* ((signed char)((s & 0x7f) + 1) >> 1) > 0 *)
Definition WIFSIGNALED (s : Z) : bool :=
  negb (Z.land s 127 =? 0) && negb (Z.land s 127 =? 127).
Definition WEXITSTATUS (s : Z) : Z := Z.land (Z.shiftr s 8) 255.

(* ---------- the `children` dict: pid -> task id ---------- *)
Definition cmap := list (Z * nat).

Fixpoint cm_find (pid : Z) (ch : cmap) : option nat :=
  match ch with
  | [] => None
  | (p, i) :: r => if p =? pid then Some i else cm_find pid r
  end.

Fixpoint cm_remove (pid : Z) (ch : cmap) : cmap :=
  match ch with
  | [] => []
  | (p, i) :: r => if p =? pid then cm_remove pid r else (p, i) :: cm_remove pid r
  end.

(* children[pid] = i   (the dict is never iterated, so the position is irrelevant) *)
Definition cm_set (pid : Z) (i : nat) (ch : cmap) : cmap := (pid, i) :: cm_remove pid ch.

(* ---------- observable events ---------- *)
Inductive logkind :=
| LSignal (sig : Z)      (* "child %d (pid %d) killed by signal %d, restarting" *)
| LStatus (code : Z)     (* "child %d (pid %d) exited with status %d, restarting" *)
| LNormal.               (* "child %d (pid %d) exited normally" *)

Inductive event :=
| EStart (n : nat)                         (* "Starting %d processes" *)
| EFork (id : nat) (pid : Z)               (* start_child(id): os.fork() returned pid *)
| EWait (pid : Z) (status : Z)             (* os.wait() returned (pid, status) *)
| ELog (id : nat) (pid : Z) (k : logkind). (* the supervisor's log record about an exit *)

Inductive outcome :=
| OChild (ret : nat) (task : nat)   (* fork_processes returned `ret` in a child whose _task_id is `task` *)
| OExit (code : Z)                  (* sys.exit(code) in the parent *)
| OTooMany                          (* RuntimeError("Too many child restarts, giving up") *)
| OForkErr (k : nat)                (* os.fork() raised; k names the exception (0 = oracle exhausted,
                                       1 = BlockingIOError/EAGAIN, 2 = OSError/ENOMEM); it propagates *)
| OWaitErr (k : nat)                (* os.wait() raised (0 = oracle exhausted, 1 = ChildProcessError/ECHILD,
                                       2 = InterruptedError/EINTR, 3 = other OSError); it propagates *)
| OAssert.                          (* assert _task_id is None *)

Definition pre (es : list event) (x : list event * outcome) : list event * outcome :=
  (es ++ fst x, snd x).

(* ---------- description of the decisions taken by the source text.  translators/c41_src.py
   regenerates one of these from tornado/process.py into Gen/C41_src.v on every run ---------- *)
Inductive stest := TSignaled      (* os.WIFSIGNALED(status) *)
                 | TExitNonzero   (* os.WEXITSTATUS(status) != 0 *)
                 | TExitZero.     (* os.WEXITSTATUS(status) == 0 *)
Inductive saction := ARestartSignal   (* warn "killed by signal WTERMSIG", fall through to the restart *)
                   | ARestartStatus   (* warn "exited with status WEXITSTATUS", fall through to the restart *)
                   | ANormal.         (* info "exited normally"; continue *)
Inductive cmpop := CGt | CGe.
Record fp_desc := {
  d_default_restarts : Z;                (* if max_restarts is None: max_restarts = <this> *)
  d_cpu_bound : Z;                       (* num_processes is None or num_processes <= <this>  ->  cpu_count() *)
  d_chain : list (stest * saction);      (* the if / elif branches, in order *)
  d_else : saction;                      (* the else branch *)
  d_budget_cmp : cmpop;                  (* num_restarts += 1; if num_restarts <cmp> max_restarts: raise *)
  d_exit_code : Z                        (* sys.exit(<this>) *)
}.

Definition desc_expected : fp_desc :=
  {| d_default_restarts := 100; d_cpu_bound := 0;
     d_chain := [(TSignaled, ARestartSignal); (TExitNonzero, ARestartStatus)];
     d_else := ANormal; d_budget_cmp := CGt; d_exit_code := 0 |}.

Definition eval_test (t : stest) (st : Z) : bool :=
  match t with
  | TSignaled => WIFSIGNALED st
  | TExitNonzero => negb (WEXITSTATUS st =? 0)
  | TExitZero => WEXITSTATUS st =? 0
  end.
Fixpoint pick (chain : list (stest * saction)) (els : saction) (st : Z) : saction :=
  match chain with
  | [] => els
  | (t, a) :: r => if eval_test t st then a else pick r els st
  end.
Definition action_log (a : saction) (st : Z) : logkind :=
  match a with
  | ARestartSignal => LSignal (WTERMSIG st)
  | ARestartStatus => LStatus (WEXITSTATUS st)
  | ANormal => LNormal
  end.
Definition action_restarts (a : saction) : bool := match a with ANormal => false | _ => true end.
Definition classify (d : fp_desc) (st : Z) : saction := pick (d_chain d) (d_else d) st.
Definition over_budget (d : fp_desc) (nr maxr : Z) : bool :=
  match d_budget_cmp d with CGt => nr >? maxr | CGe => nr >=? maxr end.

(* ---------- the `while children:` loop; one os.wait() per iteration.
   ek = (which exception os.fork raises, which exception os.wait raises) once its oracle is used up ---------- *)
Fixpoint supervise_d (d : fp_desc) (ek : nat * nat) (maxr : Z) (waits : list (Z * Z)) (fs : list Z)
         (ch : cmap) (nr : Z) {struct waits} : list event * outcome :=
  match ch with
  | [] => ([], OExit (d_exit_code d))            (* sys.exit(0) *)
  | _ :: _ =>
    match waits with
    | [] => ([], OWaitErr (snd ek))              (* os.wait() raises: propagates *)
    | (pid, st) :: ws =>
      pre [EWait pid st]
      (match cm_find pid ch with
       | None => supervise_d d ek maxr ws fs ch nr     (* if pid not in children: continue *)
       | Some id =>
         let ch' := cm_remove pid ch in               (* id = children.pop(pid) *)
         pre [ELog id pid (action_log (classify d st) st)]
         (if action_restarts (classify d st) then
            (* num_restarts += 1; if num_restarts > max_restarts: raise RuntimeError *)
            if over_budget d (nr + 1) maxr then ([], OTooMany)
            else
              (* new_id = start_child(id) *)
              match fs with
              | [] => ([], OForkErr (fst ek))         (* os.fork() raises: propagates *)
              | p :: fs' =>
                if p =? 0 then ([EFork id 0], OChild id id)   (* child: _task_id = id; return id *)
                else pre [EFork id p] (supervise_d d ek maxr ws fs' (cm_set p id ch') (nr + 1))
              end
          else supervise_d d ek maxr ws fs ch' nr)    (* exited normally: continue *)
       end)
    end
  end.

(* ---------- `for i in range(num_processes): start_child(i)` then the loop ---------- *)
Fixpoint start_all_d (d : fp_desc) (ek : nat * nat) (maxr : Z) (waits : list (Z * Z)) (ids : list nat)
         (fs : list Z) (ch : cmap) {struct ids} : list event * outcome :=
  match ids with
  | [] => supervise_d d ek maxr waits fs ch 0
  | i :: ids' =>
    match fs with
    | [] => ([], OForkErr (fst ek))
    | pid :: fs' =>
      if pid =? 0 then ([EFork i 0], OChild i i)
      else pre [EFork i pid] (start_all_d d ek maxr waits ids' fs' (cm_set pid i ch))
    end
  end.

Record result := { r_trace : list event; r_out : outcome; r_task : option nat }.

(* num_processes None or <= 0  ->  cpu_count() *)
Definition eff_procs_d (d : fp_desc) (nprocs : option Z) (cpu : nat) : nat :=
  match nprocs with
  | None => cpu
  | Some z => if z <=? d_cpu_bound d then cpu else Z.to_nat z
  end.
(* max_restarts None -> 100 *)
Definition eff_budget_d (d : fp_desc) (maxr : option Z) : Z :=
  match maxr with None => d_default_restarts d | Some m => m end.

(* pre_task: the value of the module global _task_id before the call
   (Some t = fork_processes called again inside a worker) *)
Definition fork_processes_d (d : fp_desc) (ek : nat * nat) (pre_task : option nat) (nprocs : option Z)
           (cpu : nat) (maxr : option Z) (fs : list Z) (waits : list (Z * Z)) : result :=
  match pre_task with
  | Some t => {| r_trace := []; r_out := OAssert; r_task := Some t |}
  | None =>
    let n := eff_procs_d d nprocs cpu in
    let x := start_all_d d ek (eff_budget_d d maxr) waits (seq 0 n) fs [] in
    {| r_trace := EStart n :: fst x;
       r_out := snd x;
       r_task := match snd x with OChild _ t => Some t | _ => None end |}
  end.

(* ---------- the model the theorems are about: the decisions of the source as read on 2026-09 ---------- *)
Definition exit_log (st : Z) : logkind := action_log (classify desc_expected st) st.
Definition abnormal_exit (st : Z) : bool := action_restarts (classify desc_expected st).
Definition supervise := supervise_d desc_expected.
Definition start_all := start_all_d desc_expected.
Definition eff_procs := eff_procs_d desc_expected.
Definition eff_budget := eff_budget_d desc_expected.
Definition fork_processes := fork_processes_d desc_expected.
