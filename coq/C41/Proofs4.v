(* C41 — top-level consequences of acceptance, and their composition with the
   refinement theorem for the model. *)
From Coq Require Import List ZArith Bool Arith Lia.
Import ListNotations.
From TV Require Import Lib.Obs C41.Model C41.Spec C41.Run C41.Proofs1 C41.Proofs2 C41.Proofs3.
Local Open Scope Z_scope.

Section WithEk.
Variable ek : nat * nat.   (* the exceptions os.fork / os.wait raise when their scripted results run out *)

Section Accepted.
  Variables (np : option Z) (cpu : nat) (mr : option Z) (res : result).
  Hypothesis ACC : spec_check ek None np cpu mr res = Accept.
  Let n := want_procs np cpu.
  Let B := want_budget mr.

  Lemma accepted_lifecycle :
    (forall i, (i < n)%nat ->
       exists s, life SNot (proj i (r_trace res)) = Some s /\ life_post ek (r_out res) i s) /\
    (forall i, (n <= i)%nat -> proj i (r_trace res) = []).
  Proof.
    destruct (spec_check_sound ek np cpu mr res ACC) as [tr [E [SI _]]]. rewrite E. split.
    - intros i Hi. rewrite proj_other by reflexivity.
      apply (SpecInit_life ek n B n 0%nat (fun _ => NotStarted) tr (r_out res) SI); auto.
      intros j Hj. lia.
    - intros i Hi. rewrite proj_other by reflexivity.
      eapply SpecInit_no_stranger; eauto.
  Qed.

  Lemma accepted_budget :
    (r_out res = OTooMany <-> abn (r_trace res) > Z.max 0 B) /\
    nforks (r_trace res) <= Z.of_nat n + Z.max 0 B.
  Proof.
    destruct (spec_check_sound ek np cpu mr res ACC) as [tr [E [SI _]]]. rewrite E.
    rewrite abn_cons, nforks_cons. cbn [is_abn_log is_fork].
    pose proof (SpecInit_budget _ _ _ _ _ _ _ SI) as [I1 I2]. rewrite seq_length in I2.
    split; [rewrite I1; lia|lia].
  Qed.

  Lemma accepted_exit c :
    r_out res = OExit c ->
    c = 0 /\ forall i, (i < n)%nat -> life SNot (proj i (r_trace res)) = Some SFin.
  Proof.
    intro E. split.
    - destruct (spec_check_sound ek np cpu mr res ACC) as [tr [_ [SI _]]].
      destruct (SpecInit_outcome _ _ _ _ _ _ _ _ SI eq_refl) as [I1 _]. eapply I1; eauto.
    - intros i Hi. destruct accepted_lifecycle as [L _].
      destruct (L i Hi) as [s [Ls [P1 _]]]. rewrite (P1 c E) in Ls. exact Ls.
  Qed.

  Lemma accepted_child a t :
    r_out res = OChild a t ->
    a = t /\ (a < n)%nat /\ r_task res = Some a /\ exists tr0, r_trace res = tr0 ++ [EFork a 0].
  Proof.
    intro E. destruct (spec_check_sound ek np cpu mr res ACC) as [tr [Et [SI T]]].
    destruct (SpecInit_outcome _ _ _ _ _ _ _ _ SI eq_refl) as [_ [I2 _]].
    destruct (I2 a t E) as [A1 [A2 [tr0 A3]]]. rewrite E in T. subst t.
    repeat split; auto. exists (EStart n :: tr0). rewrite Et, A3. reflexivity.
  Qed.

  Lemma accepted_parent_task :
    (forall a t, r_out res <> OChild a t) -> r_task res = None.
  Proof.
    intro H. destruct (spec_check_sound ek np cpu mr res ACC) as [tr [_ [_ T]]].
    rewrite T. destruct (r_out res); auto. exfalso. eapply H; eauto.
  Qed.

  Lemma accepted_logs : logs_ok None (r_trace res).
  Proof.
    destruct (spec_check_sound ek np cpu mr res ACC) as [tr [E [SI _]]]. rewrite E.
    simpl. eapply SpecInit_logs; eauto.
  Qed.
End Accepted.

(* a wait result for a pid the supervisor does not know changes nothing *)
Lemma unknown_pid_ignored maxr pid st ws fs ch nr :
  ch <> [] -> cm_find pid ch = None ->
  supervise ek maxr ((pid, st) :: ws) fs ch nr = pre [EWait pid st] (supervise ek maxr ws fs ch nr).
Proof. intros Hne F. rewrite supervise_cons by exact Hne. rewrite F. reflexivity. Qed.

(* ---------- the model, for every input whose fork results are distinct ---------- *)
Lemma model_meets_statement np cpu mr fs ws :
  NoDup (nz fs) ->
  let res := fork_processes ek None np cpu mr fs ws in
  let n := want_procs np cpu in
  let B := want_budget mr in
  (forall i, (i < n)%nat ->
     exists s, life SNot (proj i (r_trace res)) = Some s /\ life_post ek (r_out res) i s) /\
  (forall i, (n <= i)%nat -> proj i (r_trace res) = []) /\
  (r_out res = OTooMany <-> abn (r_trace res) > Z.max 0 B) /\
  nforks (r_trace res) <= Z.of_nat n + Z.max 0 B /\
  (forall c, r_out res = OExit c ->
     c = 0 /\ forall i, (i < n)%nat -> life SNot (proj i (r_trace res)) = Some SFin) /\
  (forall a t, r_out res = OChild a t ->
     a = t /\ (a < n)%nat /\ r_task res = Some a /\ exists tr0, r_trace res = tr0 ++ [EFork a 0]) /\
  logs_ok None (r_trace res).
Proof.
  intros ND res n B.
  pose proof (accepted_when_fresh ek None np cpu mr fs ws ND) as ACC. fold res in ACC.
  pose proof (accepted_lifecycle np cpu mr res ACC) as [L1 L2].
  pose proof (accepted_budget np cpu mr res ACC) as [B1 B2].
  repeat split; auto.
  - apply B1.
  - apply B1.
  - eapply accepted_exit; eauto.
  - eapply accepted_exit; eauto.
  - eapply (accepted_child np cpu mr res ACC a t); eauto.
  - eapply (accepted_child np cpu mr res ACC a t); eauto.
  - eapply (accepted_child np cpu mr res ACC a t); eauto.
  - eapply (accepted_child np cpu mr res ACC a t); eauto.
  - eapply accepted_logs; eauto.
Qed.

(* RuntimeError exactly when the restarts exceed the budget holds for EVERY input,
   colliding pids included: proved directly on the model *)
Lemma supervise_budget maxr : forall ws fs ch nr,
  0 <= nr <= Z.max 0 maxr ->
  let x := supervise ek maxr ws fs ch nr in
  (snd x = OTooMany <-> nr + abn (fst x) > Z.max 0 maxr) /\ nr + nforks (fst x) <= Z.max 0 maxr.
Proof.
  induction ws as [|[pid st] ws IH]; intros fs ch nr Hr; cbn zeta.
  - destruct ch; simpl; change (abn []) with 0; change (nforks []) with 0;
      (split; [split; [discriminate|lia]|lia]).
  - destruct ch as [|c ch0] eqn:Ech.
    { simpl; change (abn []) with 0; change (nforks []) with 0;
        (split; [split; [discriminate|lia]|lia]). }
    rewrite <- Ech. assert (Hne : ch <> []) by (rewrite Ech; discriminate).
    rewrite supervise_cons by exact Hne. cbn [pre fst snd app].
    rewrite abn_cons, nforks_cons. cbn [is_abn_log is_fork].
    destruct (cm_find pid ch) as [i|].
    2:{ specialize (IH fs ch nr Hr). cbn zeta in IH. destruct IH as [I1 I2].
        split; [rewrite I1; lia|lia]. }
    cbn [pre fst snd app]. rewrite abn_cons, nforks_cons, exit_log_eq, is_abn_expected.
    cbn [is_fork]. rewrite abnormal_exit_eq.
    destruct (abnormal st) eqn:AB.
    + destruct (Z.gtb_spec (nr + 1) maxr) as [G|G].
      { cbn [fst snd]. change (abn []) with 0; change (nforks []) with 0.
        split; [split; [lia|reflexivity]|lia]. }
      destruct fs as [|p fs'].
      { cbn [fst snd]. change (abn []) with 0; change (nforks []) with 0.
        split; [split; [discriminate|lia]|lia]. }
      destruct (p =? 0).
      { cbn [fst snd]. rewrite abn_cons, nforks_cons. cbn [is_abn_log is_fork].
        change (abn []) with 0; change (nforks []) with 0.
        split; [split; [discriminate|lia]|lia]. }
      cbn [pre fst snd app]. rewrite abn_cons, nforks_cons. cbn [is_abn_log is_fork].
      specialize (IH fs' (cm_set p i (cm_remove pid ch)) (nr + 1) ltac:(lia)).
      cbn zeta in IH. destruct IH as [I1 I2]. split; [rewrite I1; lia|lia].
    + specialize (IH fs (cm_remove pid ch) nr Hr). cbn zeta in IH. destruct IH as [I1 I2].
      split; [rewrite I1; lia|lia].
Qed.

Lemma start_all_budget maxr ws : forall ids fs ch,
  let x := start_all ek maxr ws ids fs ch in
  (snd x = OTooMany <-> abn (fst x) > Z.max 0 maxr) /\
  nforks (fst x) <= Z.of_nat (length ids) + Z.max 0 maxr.
Proof.
  induction ids as [|i ids IH]; intros fs ch; cbn zeta.
  - rewrite start_all_nil. cbn [length]. destruct (supervise_budget maxr ws fs ch 0 ltac:(lia)) as [I1 I2].
    split; [rewrite I1; lia|lia].
  - rewrite start_all_cons. destruct fs as [|p fs'].
    { cbn [fst snd]. change (abn []) with 0; change (nforks []) with 0.
      split; [split; [discriminate|lia]|lia]. }
    destruct (p =? 0).
    { cbn [fst snd]. rewrite abn_cons, nforks_cons. cbn [is_abn_log is_fork length].
      change (abn []) with 0; change (nforks []) with 0.
      split; [split; [discriminate|lia]|lia]. }
    cbn [pre fst snd app]. rewrite abn_cons, nforks_cons. cbn [is_abn_log is_fork length].
    specialize (IH fs' (cm_set p i ch)). cbn zeta in IH. destruct IH as [I1 I2].
    split; [rewrite I1; lia|lia].
Qed.

Lemma model_budget_all_inputs np cpu mr fs ws :
  let res := fork_processes ek None np cpu mr fs ws in
  (r_out res = OTooMany <-> abn (r_trace res) > Z.max 0 (want_budget mr)) /\
  nforks (r_trace res) <= Z.of_nat (want_procs np cpu) + Z.max 0 (want_budget mr).
Proof.
  cbn zeta. rewrite fork_processes_None. cbn zeta. cbn [r_out r_trace].
  rewrite eff_procs_want, eff_budget_want, abn_cons, nforks_cons. cbn [is_abn_log is_fork].
  pose proof (start_all_budget (want_budget mr) ws (seq 0 (want_procs np cpu)) fs []) as H.
  cbn zeta in H. rewrite seq_length in H. destruct H as [I1 I2].
  split; [rewrite I1; lia|lia].
Qed.

End WithEk.

Lemma status_macros st :
  WIFSIGNALED st = signaled st /\ WTERMSIG st = st mod 128 /\
  WEXITSTATUS st = (st / 256) mod 256 /\ abnormal_exit st = abnormal st.
Proof.
  repeat split; [apply WIFSIGNALED_eq|apply WTERMSIG_eq|apply WEXITSTATUS_eq|apply abnormal_exit_eq].
Qed.

Lemma abnormal_meaning :
  (forall c, 0 <= c < 256 -> abnormal (c * 256) = negb (c =? 0)) /\
  (forall s k, 1 <= s < 127 -> 0 <= k <= 1 -> abnormal (s + 128 * k) = true).
Proof. split; [exact abnormal_exited|exact abnormal_signaled]. Qed.

