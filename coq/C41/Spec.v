(* C41 — the PROPERTY as an executable acceptor of observables, written
   independently of the model: it is keyed by WORKER (task id -> lifecycle
   state), not by pid, decodes wait statuses arithmetically (mod / div, no bit
   operations), and never looks at the oracles' unread future.  Definitions only.

   The acceptor replays an observed trace (fork / wait / log events) and final
   outcome against the ideal supervisor:
     * ids 0..n-1 are started once each, in order, before anything else;
     * a wait result for a pid that no live worker runs is ignored;
     * the worker that ran the reaped pid is marked finished if the exit was
       normal; if it was abnormal (signal, or non-zero exit code) it is
       restarted WITH THE SAME ID, unless that would exceed the restart budget,
       in which case the supervisor must fail (RuntimeError);
     * the supervisor exits, with status 0, exactly when every worker finished;
     * a process in which fork returned 0 returns its own id and has it as task id.
        * an exception raised by os.fork / os.wait (kind given by ek) ends the call, unchanged, at once.
   Environment assumption (rely): fork never returns the pid of a worker that is
   still running (true of every real kernel).  A trace that breaks it yields
   EnvBroken and nothing is required of the rest.                               *)
From Coq Require Import List ZArith Bool Arith.
Import ListNotations.
From TV Require Import C41.Model.
Local Open Scope Z_scope.

(* ---------- wait status, arithmetically ---------- *)
Definition term_sig (st : Z) : Z := st mod 128.
Definition exit_code (st : Z) : Z := (st / 256) mod 256.
Definition signaled (st : Z) : bool := negb (term_sig st =? 0) && negb (term_sig st =? 127).
(* "exited abnormally": killed by a signal, or non-zero exit status *)
Definition abnormal (st : Z) : bool := signaled st || negb (exit_code st =? 0).
Definition expected_log (st : Z) : logkind :=
  if signaled st then LSignal (term_sig st)
  else if negb (exit_code st =? 0) then LStatus (exit_code st) else LNormal.

(* ---------- per-worker lifecycle state ---------- *)
Inductive wstate := NotStarted | Running (pid : Z) | Finished.
Definition wmap := nat -> wstate.
Definition upd (w : wmap) (i : nat) (x : wstate) : wmap :=
  fun j => if Nat.eqb j i then x else w j.

Definition runs (pid : Z) (s : wstate) : bool :=
  match s with Running p => p =? pid | _ => false end.
Definition is_finished (s : wstate) : bool :=
  match s with Finished => true | _ => false end.

(* the worker (task id < n) currently running pid, if any *)
Definition owner (n : nat) (w : wmap) (pid : Z) : option nat :=
  find (fun i => runs pid (w i)) (seq 0 n).
Definition pid_live (n : nat) (w : wmap) (pid : Z) : bool :=
  existsb (fun i => runs pid (w i)) (seq 0 n).
Definition all_finished (n : nat) (w : wmap) : bool :=
  forallb (fun i => is_finished (w i)) (seq 0 n).

Inductive verdict := Accept | Reject | EnvBroken.

Definition logkind_eqb (a b : logkind) : bool :=
  match a, b with
  | LSignal x, LSignal y => x =? y
  | LStatus x, LStatus y => x =? y
  | LNormal, LNormal => true
  | _, _ => false
  end.

Definition accept_if (b : bool) : verdict := if b then Accept else Reject.

Definition is_child_of (i : nat) (o : outcome) : bool :=
  match o with OChild r t => Nat.eqb r i && Nat.eqb t i | _ => false end.
Definition is_exit0 (o : outcome) : bool :=
  match o with OExit c => c =? 0 | _ => false end.
Definition is_toomany (o : outcome) : bool := match o with OTooMany => true | _ => false end.
(* an exception raised by os.fork / os.wait must come out of the call unchanged *)
Definition is_forkerr (k : nat) (o : outcome) : bool := match o with OForkErr k' => Nat.eqb k' k | _ => false end.
Definition is_waiterr (k : nat) (o : outcome) : bool := match o with OWaitErr k' => Nat.eqb k' k | _ => false end.
Definition is_nil {A} (l : list A) : bool := match l with [] => true | _ => false end.

(* ---------- supervision phase ---------- *)
Fixpoint spec_sup (ek : nat * nat) (n : nat) (budget : Z) (w : wmap) (r : Z) (tr : list event) (o : outcome)
  {struct tr} : verdict :=
  if all_finished n w then accept_if (is_nil tr && is_exit0 o)
  else
    match tr with
    | [] => accept_if (is_waiterr (snd ek) o)
    | EWait pid st :: tr1 =>
      match owner n w pid with
      | None => spec_sup ek n budget w r tr1 o          (* unknown pid: nothing may happen *)
      | Some i =>
        match tr1 with
        | ELog i' pid' k :: tr2 =>
          if negb (Nat.eqb i' i && (pid' =? pid) && logkind_eqb k (expected_log st)) then Reject
          else if abnormal st then
            if r + 1 >? budget then accept_if (is_nil tr2 && is_toomany o)
            else
              match tr2 with
              | [] => accept_if (is_forkerr (fst ek) o)
              | EFork i'' p :: tr3 =>
                if negb (Nat.eqb i'' i) then Reject
                else if p =? 0 then accept_if (is_nil tr3 && is_child_of i o)
                else if pid_live n (upd w i Finished) p then EnvBroken
                else spec_sup ek n budget (upd w i (Running p)) (r + 1) tr3 o
              | _ => Reject
              end
          else spec_sup ek n budget (upd w i Finished) r tr2 o
        | _ => Reject
        end
      end
    | _ => Reject
    end.

(* ---------- start-up phase: ids in order ---------- *)
Fixpoint spec_init (ek : nat * nat) (n : nat) (budget : Z) (ids : list nat) (w : wmap) (tr : list event) (o : outcome)
  {struct ids} : verdict :=
  match ids with
  | [] => spec_sup ek n budget w 0 tr o
  | i :: ids' =>
    match tr with
    | [] => accept_if (is_forkerr (fst ek) o)
    | EFork i' p :: tr1 =>
      if negb (Nat.eqb i' i) then Reject
      else if p =? 0 then accept_if (is_nil tr1 && is_child_of i o)
      else if pid_live n w p then EnvBroken
      else spec_init ek n budget ids' (upd w i (Running p)) tr1 o
    | _ => Reject
    end
  end.

Definition opt_nat_eqb (a b : option nat) : bool :=
  match a, b with
  | None, None => true
  | Some x, Some y => Nat.eqb x y
  | _, _ => false
  end.

(* task id visible in the process after the call *)
Definition task_ok (o : outcome) (task : option nat) : bool :=
  match o with
  | OChild _ t => opt_nat_eqb task (Some t)
  | _ => opt_nat_eqb task None
  end.

(* the number of workers / the budget the caller asked for *)
Definition want_procs (nprocs : option Z) (cpu : nat) : nat :=
  match nprocs with
  | Some z => if 0 <? z then Z.to_nat z else cpu
  | None => cpu
  end.
Definition want_budget (maxr : option Z) : Z :=
  match maxr with Some m => m | None => 100 end.

Definition spec_check (ek : nat * nat) (pre_task : option nat) (nprocs : option Z) (cpu : nat) (maxr : option Z)
           (res : result) : verdict :=
  match pre_task with
  | Some t =>
    accept_if (is_nil (r_trace res) && opt_nat_eqb (r_task res) (Some t)
               && match r_out res with OAssert => true | _ => false end)
  | None =>
    let n := want_procs nprocs cpu in
    match r_trace res with
    | EStart n' :: tr =>
      if negb (Nat.eqb n' n && task_ok (r_out res) (r_task res)) then Reject
      else spec_init ek n (want_budget maxr) (seq 0 n) (fun _ => NotStarted) tr (r_out res)
    | _ => Reject
    end
  end.
