(* C41 — executable entry points used by the correspondence check. *)
From Coq Require Import List ZArith String Bool Arith.
Import ListNotations.
From TV Require Import Lib.Obs C41.Model C41.Spec Gen.C41_src.
Local Open Scope Z_scope.

(* one case: (_task_id before the call, num_processes, cpu_count(), max_restarts,
              os.fork() results, os.wait() results) *)
(* ... preceded by ek = (exception kind raised by os.fork, by os.wait, when the scripted results run out) *)
Definition input := ((nat * nat) * option nat * option Z * nat * option Z * list Z * list (Z * Z))%type.

Definition onat (n : nat) : obs := OInt (Z.of_nat n).

Definition render_event (e : event) : obs :=
  match e with
  | EStart n => OList [OTag "start"; onat n]
  | EFork i p => OList [OTag "fork"; onat i; OInt p]
  | EWait p s => OList [OTag "wait"; OInt p; OInt s]
  | ELog i p (LSignal x) => OList [OTag "log"; onat i; OInt p; OTag "signal"; OInt x]
  | ELog i p (LStatus x) => OList [OTag "log"; onat i; OInt p; OTag "status"; OInt x]
  | ELog i p LNormal => OList [OTag "log"; onat i; OInt p; OTag "normal"]
  end.

Definition render_outcome (o : outcome) : obs :=
  match o with
  | OChild r t => OList [OTag "child"; onat r; onat t]
  | OExit c => OList [OTag "exit"; OInt c]
  | OTooMany => OTag "RuntimeError"
  | OForkErr k => OList [OTag "forkerr"; onat k]
  | OWaitErr k => OList [OTag "waiterr"; onat k]
  | OAssert => OTag "AssertionError"
  end.

Definition render_task (t : option nat) : obs :=
  match t with None => ONone | Some n => onat n end.

Definition render (r : result) : obs :=
  OList [OList (map render_event (r_trace r)); render_outcome (r_out r); render_task (r_task r)].

Definition run_case (c : input) : obs :=
  let '(ek, pt, np, cpu, mr, fs, ws) := c in render (fork_processes_d src_desc ek pt np cpu mr fs ws).

(* ---------- reading an observable back (None = not a well-formed observable) ---------- *)
Definition znat (z : Z) : option nat := if z <? 0 then None else Some (Z.to_nat z).

Definition parse_event (o : obs) : option event :=
  match o with
  | OList [OTag t; OInt a] =>
    if String.eqb t "start" then option_map EStart (znat a) else None
  | OList [OTag t; OInt a; OInt b] =>
    if String.eqb t "fork" then option_map (fun i => EFork i b) (znat a)
    else if String.eqb t "wait" then Some (EWait a b) else None
  | OList [OTag t; OInt a; OInt b; OTag k] =>
    if String.eqb t "log" && String.eqb k "normal" then option_map (fun i => ELog i b LNormal) (znat a)
    else None
  | OList [OTag t; OInt a; OInt b; OTag k; OInt x] =>
    if String.eqb t "log" && String.eqb k "signal" then option_map (fun i => ELog i b (LSignal x)) (znat a)
    else if String.eqb t "log" && String.eqb k "status" then option_map (fun i => ELog i b (LStatus x)) (znat a)
    else None
  | _ => None
  end.

Fixpoint parse_events (l : list obs) : option (list event) :=
  match l with
  | [] => Some []
  | o :: l' =>
    match parse_event o, parse_events l' with
    | Some e, Some es => Some (e :: es)
    | _, _ => None
    end
  end.

Definition parse_outcome (o : obs) : option outcome :=
  match o with
  | OList [OTag t; OInt a; OInt b] =>
    if String.eqb t "child" then
      match znat a, znat b with Some r, Some k => Some (OChild r k) | _, _ => None end
    else None
  | OList [OTag t; OInt c] =>
    if String.eqb t "exit" then Some (OExit c)
    else if String.eqb t "forkerr" then option_map OForkErr (znat c)
    else if String.eqb t "waiterr" then option_map OWaitErr (znat c)
    else None
  | OTag t =>
    if String.eqb t "RuntimeError" then Some OTooMany
    else if String.eqb t "AssertionError" then Some OAssert
    else None
  | _ => None
  end.

Definition parse_task (o : obs) : option (option nat) :=
  match o with
  | ONone => Some None
  | OInt z => option_map Some (znat z)
  | _ => None
  end.

Definition parse (o : obs) : option result :=
  match o with
  | OList [OList es; oo; ot] =>
    match parse_events es, parse_outcome oo, parse_task ot with
    | Some tr, Some out, Some t => Some {| r_trace := tr; r_out := out; r_task := t |}
    | _, _, _ => None
    end
  | _ => None
  end.

Definition not_rejected (v : verdict) : bool := match v with Reject => false | _ => true end.

(* the property on an observable: it must be well formed and the ideal
   supervisor of Spec.v must not reject it *)
Definition check_case (c : input) (o : obs) : bool :=
  let '(ek, pt, np, cpu, mr, _, _) := c in
  match parse o with
  | None => false
  | Some res => not_rejected (spec_check ek pt np cpu mr res)
  end.

(* used by the harness for the input-distribution histogram only *)
Definition verdict_case (c : input) (o : obs) : obs :=
  let '(ek, pt, np, cpu, mr, _, _) := c in
  match parse o with
  | None => OTag "unparsable"
  | Some res => match spec_check ek pt np cpu mr res with
                | Accept => OTag "accept" | Reject => OTag "reject" | EnvBroken => OTag "envbroken" end
  end.
