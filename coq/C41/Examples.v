(* C41 — concrete instances: the hypotheses of the theorems are satisfiable on
   non-trivial inputs, and the rely condition is really needed. *)
From Coq Require Import List ZArith Bool Arith Lia.
Import ListNotations.
From TV Require Import Lib.Obs C41.Model C41.Spec C41.Run C41.Proofs1 C41.Proofs2 C41.Proofs3 C41.Proofs4 C41.Proofs5.
Local Open Scope Z_scope.

(* the scenario of tornado/test/process_test.py: 3 workers, worker 1 killed by SIGKILL,
   restarted as pid 104, everybody then exits 0 *)
Definition ex_forks := [101; 102; 103; 104].
Definition ex_waits := [(102, 9); (101, 0); (103, 0); (104, 0)].

Example ex_fresh : NoDup (nz ex_forks).
Proof. vm_compute. repeat constructor; simpl; intuition discriminate. Qed.

Example ex_exit :
  fork_processes (0,0)%nat None (Some 3) 8%nat None ex_forks ex_waits =
  {| r_trace := [EStart 3; EFork 0 101; EFork 1 102; EFork 2 103;
                 EWait 102 9; ELog 1 102 (LSignal 9); EFork 1 104;
                 EWait 101 0; ELog 0 101 LNormal; EWait 103 0; ELog 2 103 LNormal;
                 EWait 104 0; ELog 1 104 LNormal];
     r_out := OExit 0; r_task := None |}.
Proof. vm_compute. reflexivity. Qed.

Example ex_exit_accepted :
  spec_check (0,0)%nat None (Some 3) 8%nat None (fork_processes (0,0)%nat None (Some 3) 8%nat None ex_forks ex_waits) = Accept.
Proof. vm_compute. reflexivity. Qed.

Example ex_lifecycle_worker1 :
  life SNot (proj 1 (r_trace (fork_processes (0,0)%nat None (Some 3) 8%nat None ex_forks ex_waits))) = Some SFin.
Proof. vm_compute. reflexivity. Qed.

(* budget 1, two abnormal exits: RuntimeError at the second one *)
Example ex_toomany :
  r_out (fork_processes (0,0)%nat None (Some 2) 8%nat (Some 1) [10; 11; 12; 13]
                        [(99, 0); (10, 256); (11, 0); (12, 9); (5, 5)]) = OTooMany.
Proof. vm_compute. reflexivity. Qed.

(* fork returns 0 while restarting worker 1: that process returns 1 and has task id 1 *)
Example ex_child :
  let r := fork_processes (0,0)%nat None (Some 2) 8%nat (Some 2) [10; 11; 0] [(11, 15)] in
  r_out r = OChild 1 1 /\ r_task r = Some 1%nat.
Proof. vm_compute. split; reflexivity. Qed.

(* called again inside a worker: assertion, nothing forked *)
Example ex_nested :
  fork_processes (0,0)%nat (Some 1%nat) (Some 2) 8%nat None [10; 11] [] =
  {| r_trace := []; r_out := OAssert; r_task := Some 1%nat |}.
Proof. reflexivity. Qed.

(* the rely condition matters: if fork returned the pid of a still-running worker the
   dict entry is overwritten, worker 0 is forgotten and the supervisor exits 0 although
   worker 0 never exited.  The acceptor classifies this trace EnvBroken. *)
Example ex_collision :
  let r := fork_processes (0,0)%nat None (Some 2) 8%nat None [10; 10] [(10, 0)] in
  r_out r = OExit 0 /\
  proj 0 (r_trace r) = [EFork 0 10] /\
  spec_check (0,0)%nat None (Some 2) 8%nat None r = EnvBroken.
Proof. vm_compute. repeat split; reflexivity. Qed.

(* a pid may be reused once its previous owner was reaped: still accepted *)
Example ex_pid_reuse :
  spec_check (0,0)%nat None (Some 1) 8%nat (Some 3)
    (fork_processes (0,0)%nat None (Some 1) 8%nat (Some 3) [10; 10; 10] [(10, 9); (10, 256); (10, 0)]) = Accept.
Proof. vm_compute. reflexivity. Qed.

(* status shapes *)
Example ex_status_core : abnormal 139 = true /\ expected_log 139 = LSignal 11.   (* SIGSEGV + core *)
Proof. vm_compute. split; reflexivity. Qed.
Example ex_status_exit3 : abnormal 768 = true /\ expected_log 768 = LStatus 3.
Proof. vm_compute. split; reflexivity. Qed.

(* os.wait() raising ChildProcessError (kind 1) while worker 0 is still running: it comes out unchanged,
   after the single scripted wait result was consumed *)
Example ex_wait_echild :
  let r := fork_processes (2,1)%nat None (Some 1) 8%nat None [10] [(77, 9)] in
  r_trace r = [EStart 1; EFork 0 10; EWait 77 9] /\ r_out r = OWaitErr 1 /\
  spec_check (2,1)%nat None (Some 1) 8%nat None r = Accept.
Proof. vm_compute. repeat split; reflexivity. Qed.

(* os.fork() raising (kind 2) at a restart: worker 0 is left crashed, the call fails with that exception *)
Example ex_fork_fails_at_restart :
  let r := fork_processes (2,1)%nat None (Some 1) 8%nat None [10] [(10, 9)] in
  r_out r = OForkErr 2 /\ life SNot (proj 0 (r_trace r)) = Some SCrashed.
Proof. vm_compute. repeat split; reflexivity. Qed.

(* the exact rely condition, computed from the trace alone *)
Example ex_trace_fresh :
  trace_fresh (r_trace (fork_processes (0,0)%nat None (Some 1) 8%nat (Some 3) [10; 10; 10] [(10, 9); (10, 256); (10, 0)])) = true /\
  trace_fresh (r_trace (fork_processes (0,0)%nat None (Some 2) 8%nat None [10; 10] [(10, 0)])) = false.
Proof. vm_compute. split; reflexivity. Qed.

(* max_restarts None means 100: the 101st abnormal exit fails the supervisor *)
Example ex_default_budget :
  let fs := map Z.of_nat (seq 10 120) in
  let ws k := map (fun i => (Z.of_nat i, 9)) (seq 10 k) in
  r_out (fork_processes (0,0)%nat None (Some 1) 8%nat None fs (ws 100%nat)) = OWaitErr 0 /\
  r_out (fork_processes (0,0)%nat None (Some 1) 8%nat None fs (ws 101%nat)) = OTooMany.
Proof. vm_compute. split; reflexivity. Qed.
