(* C41 — what acceptance MEANS.  The boolean acceptor of Spec.v is sound for a
   declarative (inductive) specification of the ideal supervisor, and every
   accepted observable — the model's (Proofs2) or one recorded from the
   implementation — has the properties spelled out in the statement of C41:
   per-worker lifecycle, restart budget, exit status, child's task id. *)
From Coq Require Import List ZArith Bool Arith Lia Setoid.
Import ListNotations.
From TV Require Import Lib.Obs C41.Model C41.Spec C41.Run C41.Proofs1 C41.Proofs2.
Local Open Scope Z_scope.
Set Default Proof Using "Type".

(* ================= declarative specification ================= *)
Inductive SpecSup (ek : nat * nat) (n : nat) (B : Z) : wmap -> Z -> list event -> outcome -> Prop :=
| SS_exit w r :
    all_finished n w = true -> SpecSup ek n B w r [] (OExit 0)
| SS_nowait w r :
    all_finished n w = false -> SpecSup ek n B w r [] (OWaitErr (snd ek))
| SS_unknown w r pid st tr o :
    all_finished n w = false -> owner n w pid = None ->
    SpecSup ek n B w r tr o -> SpecSup ek n B w r (EWait pid st :: tr) o
| SS_normal w r pid st i tr o :
    all_finished n w = false -> owner n w pid = Some i -> abnormal st = false ->
    SpecSup ek n B (upd w i Finished) r tr o ->
    SpecSup ek n B w r (EWait pid st :: ELog i pid (expected_log st) :: tr) o
| SS_giveup w r pid st i :
    all_finished n w = false -> owner n w pid = Some i -> abnormal st = true ->
    r + 1 > B ->
    SpecSup ek n B w r [EWait pid st; ELog i pid (expected_log st)] OTooMany
| SS_forkfail w r pid st i :
    all_finished n w = false -> owner n w pid = Some i -> abnormal st = true ->
    r + 1 <= B ->
    SpecSup ek n B w r [EWait pid st; ELog i pid (expected_log st)] (OForkErr (fst ek))
| SS_child w r pid st i :
    all_finished n w = false -> owner n w pid = Some i -> abnormal st = true ->
    r + 1 <= B ->
    SpecSup ek n B w r [EWait pid st; ELog i pid (expected_log st); EFork i 0] (OChild i i)
| SS_restart w r pid st i p tr o :
    all_finished n w = false -> owner n w pid = Some i -> abnormal st = true ->
    r + 1 <= B -> p <> 0 -> pid_live n (upd w i Finished) p = false ->
    SpecSup ek n B (upd w i (Running p)) (r + 1) tr o ->
    SpecSup ek n B w r (EWait pid st :: ELog i pid (expected_log st) :: EFork i p :: tr) o.

Inductive SpecInit (ek : nat * nat) (n : nat) (B : Z) : list nat -> wmap -> list event -> outcome -> Prop :=
| SI_done w tr o : SpecSup ek n B w 0 tr o -> SpecInit ek n B [] w tr o
| SI_forkfail i ids w : SpecInit ek n B (i :: ids) w [] (OForkErr (fst ek))
| SI_child i ids w : SpecInit ek n B (i :: ids) w [EFork i 0] (OChild i i)
| SI_start i ids w p tr o :
    p <> 0 -> pid_live n w p = false ->
    SpecInit ek n B ids (upd w i (Running p)) tr o ->
    SpecInit ek n B (i :: ids) w (EFork i p :: tr) o.

Section WithEk.
Variable ek : nat * nat.

(* ---------- small inversions of the boolean tests ---------- *)
Lemma accept_if_true b : accept_if b = Accept -> b = true.
Proof. destruct b; simpl; [auto|discriminate]. Qed.

Lemma is_nil_true {A} (l : list A) : is_nil l = true -> l = [].
Proof. destruct l; simpl; [auto|discriminate]. Qed.

Lemma is_exit0_true o : is_exit0 o = true -> o = OExit 0.
Proof. destruct o; simpl; try discriminate. intro H. apply Z.eqb_eq in H. subst. reflexivity. Qed.
Lemma is_toomany_true o : is_toomany o = true -> o = OTooMany.
Proof. destruct o; simpl; try discriminate; auto. Qed.
Lemma is_forkerr_true o : is_forkerr (fst ek) o = true -> o = OForkErr (fst ek).
Proof. destruct o; simpl; try discriminate. intro H. apply Nat.eqb_eq in H. subst. reflexivity. Qed.
Lemma is_waiterr_true o : is_waiterr (snd ek) o = true -> o = OWaitErr (snd ek).
Proof. destruct o; simpl; try discriminate. intro H. apply Nat.eqb_eq in H. subst. reflexivity. Qed.
Lemma is_child_of_true i o : is_child_of i o = true -> o = OChild i i.
Proof.
  destruct o; simpl; try discriminate. intro H. apply andb_true_iff in H. destruct H as [A C].
  apply Nat.eqb_eq in A. apply Nat.eqb_eq in C. subst. reflexivity.
Qed.

(* ---------- soundness of the acceptor ---------- *)
Lemma spec_sup_sound n B : forall k tr w r o,
  (length tr <= k)%nat -> spec_sup ek n B w r tr o = Accept -> SpecSup ek n B w r tr o.
Proof.
  induction k as [|k IH]; intros tr w r o Hlen H; rewrite spec_sup_unfold in H.
  - destruct tr; [|simpl in Hlen; lia].
    destruct (all_finished n w) eqn:AF.
    + apply accept_if_true in H. simpl in H. apply is_exit0_true in H. subst. constructor. exact AF.
    + apply accept_if_true, is_waiterr_true in H. subst. constructor. exact AF.
  - destruct (all_finished n w) eqn:AF.
    { apply accept_if_true, andb_true_iff in H. destruct H as [H1 H2].
      apply is_nil_true in H1. apply is_exit0_true in H2. subst. constructor. exact AF. }
    destruct tr as [|e tr1].
    { apply accept_if_true, is_waiterr_true in H. subst. constructor. exact AF. }
    destruct e as [?|? ?|pid st|? ? ?]; try discriminate.
    simpl in Hlen.
    destruct (owner n w pid) as [i|] eqn:OW.
    2:{ apply SS_unknown; auto. apply IH; [lia|exact H]. }
    destruct tr1 as [|e tr2]; [discriminate|].
    destruct e as [?|? ?|? ?|i' pid' k']; try discriminate.
    simpl in Hlen.
    destruct (Nat.eqb i' i && (pid' =? pid) && logkind_eqb k' (expected_log st)) eqn:T;
      cbn [negb] in H; [|discriminate].
    apply andb_true_iff in T. destruct T as [T T3]. apply andb_true_iff in T. destruct T as [T1 T2].
    apply Nat.eqb_eq in T1. apply Z.eqb_eq in T2. apply logkind_eqb_eq in T3. subst i' pid' k'.
    destruct (abnormal st) eqn:AB.
    2:{ apply SS_normal; auto. apply IH; [lia|exact H]. }
    destruct (r + 1 >? B) eqn:Bd.
    { apply accept_if_true, andb_true_iff in H. destruct H as [H1 H2].
      apply is_nil_true in H1. apply is_toomany_true in H2. subst.
      apply SS_giveup; auto. apply Z.gtb_lt in Bd. lia. }
    assert (Hb : r + 1 <= B).
    { destruct (Z.gtb_spec (r + 1) B); [discriminate|lia]. }
    destruct tr2 as [|e tr3].
    { apply accept_if_true, is_forkerr_true in H. subst. apply SS_forkfail; auto. }
    destruct e as [?|i'' p|? ?|? ? ?]; try discriminate.
    simpl in Hlen.
    destruct (Nat.eqb i'' i) eqn:T1; cbn [negb] in H; [|discriminate].
    apply Nat.eqb_eq in T1. subst i''.
    destruct (p =? 0) eqn:P0.
    { apply accept_if_true, andb_true_iff in H. destruct H as [H1 H2].
      apply is_nil_true in H1. apply is_child_of_true in H2. apply Z.eqb_eq in P0. subst.
      apply SS_child; auto. }
    destruct (pid_live n (upd w i Finished) p) eqn:PL; [discriminate|].
    apply SS_restart; auto.
    + apply Z.eqb_neq. exact P0.
    + apply IH; [lia|exact H].
Qed.

Lemma spec_init_sound n B : forall ids w tr o,
  spec_init ek n B ids w tr o = Accept -> SpecInit ek n B ids w tr o.
Proof.
  induction ids as [|i ids IH]; intros w tr o H; simpl in H.
  - constructor. eapply spec_sup_sound; [apply le_n|exact H].
  - destruct tr as [|e tr1].
    { apply accept_if_true, is_forkerr_true in H. subst. constructor. }
    destruct e as [?|i' p|? ?|? ? ?]; try discriminate.
    destruct (Nat.eqb i' i) eqn:T1; cbn [negb] in H; [|discriminate].
    apply Nat.eqb_eq in T1. subst i'.
    destruct (p =? 0) eqn:P0.
    { apply accept_if_true, andb_true_iff in H. destruct H as [H1 H2].
      apply is_nil_true in H1. apply is_child_of_true in H2. apply Z.eqb_eq in P0. subst.
      constructor. }
    destruct (pid_live n w p) eqn:PL; [discriminate|].
    apply SI_start; auto. apply Z.eqb_neq. exact P0.
Qed.

Lemma opt_nat_eqb_true a b : opt_nat_eqb a b = true -> a = b.
Proof.
  destruct a, b; simpl; try discriminate; auto. intro H. apply Nat.eqb_eq in H. subst. reflexivity.
Qed.

(* what an accepted observable of a fresh call looks like *)
Lemma spec_check_sound np cpu mr res :
  spec_check ek None np cpu mr res = Accept ->
  exists tr,
    r_trace res = EStart (want_procs np cpu) :: tr /\
    SpecInit ek (want_procs np cpu) (want_budget mr) (seq 0 (want_procs np cpu))
             (fun _ => NotStarted) tr (r_out res) /\
    r_task res = match r_out res with OChild _ t => Some t | _ => None end.
Proof.
  unfold spec_check. intro H. destruct (r_trace res) as [|e tr]; [discriminate|].
  destruct e as [n'|? ?|? ?|? ? ?]; try discriminate.
  destruct (Nat.eqb n' (want_procs np cpu) && task_ok (r_out res) (r_task res)) eqn:T;
    cbn [negb] in H; [|discriminate].
  apply andb_true_iff in T. destruct T as [T1 T2]. apply Nat.eqb_eq in T1. subst n'.
  exists tr. split; [reflexivity|]. split.
  - apply spec_init_sound. exact H.
  - unfold task_ok in T2. destruct (r_out res); apply opt_nat_eqb_true in T2; exact T2.
Qed.

(* an accepted observable of a call made inside a worker *)
Lemma spec_check_sound_nested t np cpu mr res :
  spec_check ek (Some t) np cpu mr res = Accept ->
  r_trace res = [] /\ r_out res = OAssert /\ r_task res = Some t.
Proof.
  unfold spec_check. intro H. apply accept_if_true in H.
  apply andb_true_iff in H. destruct H as [H H3]. apply andb_true_iff in H. destruct H as [H1 H2].
  apply is_nil_true in H1. apply opt_nat_eqb_true in H2.
  destruct (r_out res); try discriminate. auto.
Qed.

(* ================= per-worker lifecycle ================= *)
Inductive lstate := SNot | SRun (pid : Z) | SCrashed | SFin | SChild.

Definition of_w (s : wstate) : lstate :=
  match s with NotStarted => SNot | Running p => SRun p | Finished => SFin end.

(* the events that concern worker i *)
Definition mentions (i : nat) (e : event) : bool :=
  match e with
  | EFork j _ => Nat.eqb j i
  | ELog j _ _ => Nat.eqb j i
  | _ => false
  end.
Definition proj (i : nat) (tr : list event) : list event := filter (mentions i) tr.

(* start -> running pid -> (exits normally: finished, nothing more)
                         | (exits abnormally: crashed -> restarted, running the new pid ...) *)
Definition lstep (s : lstate) (e : event) : option lstate :=
  match s, e with
  | SNot, EFork _ p => Some (if p =? 0 then SChild else SRun p)
  | SCrashed, EFork _ p => Some (if p =? 0 then SChild else SRun p)
  | SRun p, ELog _ p' k =>
    if p' =? p then Some (match k with LNormal => SFin | _ => SCrashed end) else None
  | _, _ => None
  end.

Fixpoint life (s : lstate) (l : list event) : option lstate :=
  match l with
  | [] => Some s
  | e :: l' => match lstep s e with Some s' => life s' l' | None => None end
  end.

(* how the final lifecycle state of worker i constrains the outcome of the call *)
Definition life_post (o : outcome) (i : nat) (s : lstate) : Prop :=
  (forall c, o = OExit c -> s = SFin) /\
  (s = SCrashed -> o = OTooMany \/ o = (OForkErr (fst ek))) /\
  (s = SChild -> o = OChild i i) /\
  (s = SNot -> o = (OForkErr (fst ek)) \/ exists j, o = OChild j j).

Lemma lstep_log i pid st :
  lstep (SRun pid) (ELog i pid (expected_log st)) = Some (if abnormal st then SCrashed else SFin).
Proof.
  simpl. rewrite Z.eqb_refl. destruct (abnormal st) eqn:AB.
  - destruct (expected_log st) eqn:E; auto.
    apply expected_log_normal in E. congruence.
  - apply expected_log_normal in AB. rewrite AB. reflexivity.
Qed.

Lemma lstep_fork_crashed i p : p <> 0 -> lstep SCrashed (EFork i p) = Some (SRun p).
Proof. intro N. simpl. apply Z.eqb_neq in N. rewrite N. reflexivity. Qed.

Lemma of_w_cases s : of_w s <> SCrashed /\ of_w s <> SChild.
Proof. destruct s; simpl; split; discriminate. Qed.

Lemma proj_other i e tr : mentions i e = false -> proj i (e :: tr) = proj i tr.
Proof. intro H. unfold proj. simpl. rewrite H. reflexivity. Qed.
Lemma proj_same i e tr : mentions i e = true -> proj i (e :: tr) = e :: proj i tr.
Proof. intro H. unfold proj. simpl. rewrite H. reflexivity. Qed.

Lemma neq_eqb_false (j i : nat) : j <> i -> Nat.eqb j i = false.
Proof. intro N. apply Nat.eqb_neq. exact N. Qed.

Lemma SpecSup_life n B w r tr o :
  SpecSup ek n B w r tr o ->
  forall i, (i < n)%nat ->
  exists s, life (of_w (w i)) (proj i tr) = Some s /\
    (forall c, o = OExit c -> s = SFin) /\
    (s = SCrashed -> o = OTooMany \/ o = (OForkErr (fst ek))) /\
    (s = SChild -> o = OChild i i) /\
    (s = SNot -> w i = NotStarted).
Proof.
  induction 1 as [w r AF|w r AF|w r pid st tr o AF OW _ IH|w r pid st j tr o AF OW AB _ IH
                  |w r pid st j AF OW AB Bd|w r pid st j AF OW AB Bd|w r pid st j AF OW AB Bd
                  |w r pid st j p tr o AF OW AB Bd P0 PL _ IH]; intros i Hi.
  - (* exit *)
    exists (of_w (w i)). split; [reflexivity|].
    rewrite all_finished_true in AF. rewrite (AF i Hi). simpl.
    repeat split; auto; try discriminate.
  - (* wait fails *)
    exists (of_w (w i)). split; [reflexivity|].
    destruct (of_w_cases (w i)) as [N1 N2].
    repeat split; try discriminate; try contradiction.
    intro E. destruct (w i); simpl in E; try discriminate. reflexivity.
  - (* unknown pid *)
    rewrite proj_other by reflexivity. apply IH. exact Hi.
  - (* normal exit of worker j *)
    apply owner_some in OW. destruct OW as [Hj Hr].
    rewrite proj_other by reflexivity.
    destruct (Nat.eq_dec j i) as [->|N].
    + rewrite proj_same by (simpl; apply Nat.eqb_refl).
      rewrite Hr. cbn [of_w life]. rewrite lstep_log, AB.
      destruct (IH i Hi) as [s [L P]]. rewrite upd_same in L, P. exists s. split; [exact L|].
      destruct P as [P1 [P2 [P3 P4]]]. repeat split; auto.
      intro E. apply P4 in E. discriminate.
    + rewrite proj_other by (simpl; apply neq_eqb_false; exact N).
      destruct (IH i Hi) as [s [L P]]. rewrite upd_other in L, P by auto. exists s. auto.
  - (* budget exceeded *)
    apply owner_some in OW. destruct OW as [Hj Hr].
    rewrite proj_other by reflexivity.
    destruct (Nat.eq_dec j i) as [->|N].
    + rewrite proj_same by (simpl; apply Nat.eqb_refl).
      rewrite Hr. cbn [of_w life proj filter]. rewrite lstep_log, AB.
      exists SCrashed. repeat split; auto; discriminate.
    + rewrite proj_other by (simpl; apply neq_eqb_false; exact N).
      exists (of_w (w i)). split; [reflexivity|]. destruct (of_w_cases (w i)) as [N1 N2].
      repeat split; try discriminate; try contradiction.
      intro E. destruct (w i); simpl in E; try discriminate. reflexivity.
  - (* fork fails at restart *)
    apply owner_some in OW. destruct OW as [Hj Hr].
    rewrite proj_other by reflexivity.
    destruct (Nat.eq_dec j i) as [->|N].
    + rewrite proj_same by (simpl; apply Nat.eqb_refl).
      rewrite Hr. cbn [of_w life proj filter]. rewrite lstep_log, AB.
      exists SCrashed. repeat split; auto; discriminate.
    + rewrite proj_other by (simpl; apply neq_eqb_false; exact N).
      exists (of_w (w i)). split; [reflexivity|]. destruct (of_w_cases (w i)) as [N1 N2].
      repeat split; try discriminate; try contradiction.
      intro E. destruct (w i); simpl in E; try discriminate. reflexivity.
  - (* child at restart *)
    apply owner_some in OW. destruct OW as [Hj Hr].
    rewrite proj_other by reflexivity.
    destruct (Nat.eq_dec j i) as [->|N].
    + rewrite proj_same by (simpl; apply Nat.eqb_refl).
      rewrite proj_same by (simpl; apply Nat.eqb_refl).
      rewrite Hr. cbn [of_w life proj filter]. rewrite lstep_log, AB. cbn [lstep Z.eqb].
      exists SChild. repeat split; auto; discriminate.
    + rewrite proj_other by (simpl; apply neq_eqb_false; exact N).
      rewrite proj_other by (simpl; apply neq_eqb_false; exact N).
      exists (of_w (w i)). split; [reflexivity|]. destruct (of_w_cases (w i)) as [N1 N2].
      repeat split; try discriminate; try contradiction.
      intro E. destruct (w i); simpl in E; try discriminate. reflexivity.
  - (* restart of worker j with the same id *)
    apply owner_some in OW. destruct OW as [Hj Hr].
    rewrite proj_other by reflexivity.
    destruct (Nat.eq_dec j i) as [->|N].
    + rewrite proj_same by (simpl; apply Nat.eqb_refl).
      rewrite proj_same by (simpl; apply Nat.eqb_refl).
      rewrite Hr. cbn [of_w life]. rewrite lstep_log, AB. rewrite lstep_fork_crashed by exact P0.
      destruct (IH i Hi) as [s [L P]]. rewrite upd_same in L, P. exists s. split; [exact L|].
      destruct P as [P1 [P2 [P3 P4]]]. repeat split; auto.
      intro E. apply P4 in E. discriminate.
    + rewrite proj_other by (simpl; apply neq_eqb_false; exact N).
      rewrite proj_other by (simpl; apply neq_eqb_false; exact N).
      destruct (IH i Hi) as [s [L P]]. rewrite upd_other in L, P by auto. exists s. auto.
Qed.

Lemma SpecInit_life n B : forall m k w tr o,
  SpecInit ek n B (seq k m) w tr o ->
  (k + m = n)%nat ->
  (forall i, (i < k)%nat -> w i <> NotStarted) ->
  (forall i, (k <= i)%nat -> w i = NotStarted) ->
  forall i, (i < n)%nat ->
  exists s, life (of_w (w i)) (proj i tr) = Some s /\ life_post o i s.
Proof.
  induction m as [|m IH]; intros k w tr o H Hkm Hlo Hhi i Hi.
  - simpl in H. inversion H as [w' tr' o' HS| | |]; subst.
    destruct (SpecSup_life _ _ _ _ _ _ HS i Hi) as [s [L [P1 [P2 [P3 P4]]]]].
    exists s. split; [exact L|]. repeat split; auto.
    intro E. apply P4 in E. exfalso. eapply Hlo; eauto. lia.
  - cbn [seq] in H. inversion H as [|i0 ids0 w0|i0 ids0 w0|i0 ids0 w0 p tr1 o0 P0 PL HI']; subst.
    + (* fork fails *)
      exists (of_w (w i)). split; [reflexivity|]. destruct (of_w_cases (w i)) as [N1 N2].
      unfold life_post. repeat split; try discriminate; try contradiction. auto.
    + (* child *)
      destruct (Nat.eq_dec k i) as [->|N].
      * rewrite proj_same by (simpl; apply Nat.eqb_refl).
        rewrite Hhi by lia. cbn [of_w life proj filter lstep Z.eqb].
        exists SChild. unfold life_post. repeat split; auto; discriminate.
      * rewrite proj_other by (simpl; apply neq_eqb_false; exact N).
        exists (of_w (w i)). split; [reflexivity|]. destruct (of_w_cases (w i)) as [N1 N2].
        unfold life_post. repeat split; try discriminate; try contradiction.
        intros _. right. exists k. reflexivity.
    + (* started *)
      assert (IHk := IH (S k) (upd w k (Running p)) tr1 o HI').
      destruct (Nat.eq_dec k i) as [->|N].
      * rewrite proj_same by (simpl; apply Nat.eqb_refl).
        rewrite Hhi by lia. cbn [of_w life lstep].
        apply Z.eqb_neq in P0. rewrite P0.
        destruct (IHk ltac:(lia)) with (i := i) as [s [L P]]; auto.
        { intros j Hj. destruct (Nat.eq_dec j i) as [->|Nj];
            [rewrite upd_same; discriminate|rewrite upd_other by exact Nj; apply Hlo; lia]. }
        { intros j Hj. rewrite upd_other by lia. apply Hhi. lia. }
        rewrite upd_same in L. exists s. split; [exact L|exact P].
      * rewrite proj_other by (simpl; apply neq_eqb_false; exact N).
        destruct (IHk ltac:(lia)) with (i := i) as [s [L P]]; auto.
        { intros j Hj. destruct (Nat.eq_dec j k) as [->|Nj];
            [rewrite upd_same; discriminate|rewrite upd_other by exact Nj; apply Hlo; lia]. }
        { intros j Hj. rewrite upd_other by lia. apply Hhi. lia. }
        rewrite upd_other in L by auto. exists s. split; [exact L|exact P].
Qed.

(* no event ever mentions a task id outside 0..n-1 *)
Lemma SpecSup_no_stranger n B w r tr o :
  SpecSup ek n B w r tr o -> forall i, (n <= i)%nat -> proj i tr = [].
Proof.
  induction 1 as [w r AF|w r AF|w r pid st tr o AF OW _ IH|w r pid st j tr o AF OW AB _ IH
                  |w r pid st j AF OW AB Bd|w r pid st j AF OW AB Bd|w r pid st j AF OW AB Bd
                  |w r pid st j p tr o AF OW AB Bd P0 PL _ IH]; intros i Hi;
    try reflexivity;
    try (apply owner_some in OW; destruct OW as [Hj _];
         assert (Ne : Nat.eqb j i = false) by (apply Nat.eqb_neq; lia));
    unfold proj; simpl; try rewrite Ne; try reflexivity; try (apply IH; exact Hi).
Qed.

Lemma SpecInit_no_stranger n B : forall m k w tr o,
  SpecInit ek n B (seq k m) w tr o -> (k + m = n)%nat ->
  forall i, (n <= i)%nat -> proj i tr = [].
Proof.
  induction m as [|m IH]; intros k w tr o H Hkm i Hi.
  - simpl in H. inversion H; subst. eapply SpecSup_no_stranger; eauto.
  - cbn [seq] in H. inversion H as [|i0 ids0 w0|i0 ids0 w0|i0 ids0 w0 p tr1 o0 P0 PL HI']; subst.
    + reflexivity.
    + rewrite proj_other by (simpl; apply Nat.eqb_neq; lia). reflexivity.
    + rewrite proj_other by (simpl; apply Nat.eqb_neq; lia).
      eapply IH; eauto. lia.
Qed.

(* ================= restart budget ================= *)
Definition is_abn_log (e : event) : bool :=
  match e with ELog _ _ LNormal => false | ELog _ _ _ => true | _ => false end.
Definition is_fork (e : event) : bool := match e with EFork _ _ => true | _ => false end.
(* abnormal exits the supervisor handled / forks it made *)
Definition abn (tr : list event) : Z := Z.of_nat (length (filter is_abn_log tr)).
Definition nforks (tr : list event) : Z := Z.of_nat (length (filter is_fork tr)).

Lemma is_abn_expected i pid st : is_abn_log (ELog i pid (expected_log st)) = abnormal st.
Proof.
  simpl. destruct (abnormal st) eqn:AB.
  - destruct (expected_log st) eqn:E; auto. apply expected_log_normal in E. congruence.
  - apply expected_log_normal in AB. rewrite AB. reflexivity.
Qed.

Lemma abn_cons e tr : abn (e :: tr) = (if is_abn_log e then 1 else 0) + abn tr.
Proof. unfold abn. simpl. destruct (is_abn_log e); simpl length; lia. Qed.
Lemma nforks_cons e tr : nforks (e :: tr) = (if is_fork e then 1 else 0) + nforks tr.
Proof. unfold nforks. simpl. destruct (is_fork e); simpl length; lia. Qed.

Lemma SpecSup_budget n B w r tr o :
  SpecSup ek n B w r tr o -> 0 <= r <= Z.max 0 B ->
  (o = OTooMany <-> r + abn tr > Z.max 0 B) /\
  r + nforks tr <= Z.max 0 B /\
  nforks tr <= abn tr <= nforks tr + 1.
Proof.
  induction 1 as [w r AF|w r AF|w r pid st tr o AF OW _ IH|w r pid st j tr o AF OW AB _ IH
                  |w r pid st j AF OW AB Bd|w r pid st j AF OW AB Bd|w r pid st j AF OW AB Bd
                  |w r pid st j p tr o AF OW AB Bd P0 PL _ IH]; intro Hr;
    repeat rewrite abn_cons; repeat rewrite nforks_cons;
    try rewrite is_abn_expected; try rewrite AB; cbn [is_abn_log is_fork];
    try (change (abn []) with 0); try (change (nforks []) with 0).
  - split; [split; [discriminate|lia]|lia].
  - split; [split; [discriminate|lia]|lia].
  - destruct (IH Hr) as [I1 [I2 I3]]. split; [|lia]. rewrite I1. lia.
  - destruct (IH Hr) as [I1 [I2 I3]]. split; [|lia]. rewrite I1. lia.
  - split; [split; [lia|reflexivity]|lia].
  - split; [split; [discriminate|lia]|lia].
  - split; [split; [discriminate|lia]|lia].
  - destruct (IH ltac:(lia)) as [I1 [I2 I3]]. split; [|lia]. rewrite I1. lia.
Qed.

Lemma SpecInit_budget n B : forall ids w tr o,
  SpecInit ek n B ids w tr o ->
  (o = OTooMany <-> abn tr > Z.max 0 B) /\
  nforks tr <= Z.of_nat (length ids) + Z.max 0 B.
Proof.
  induction 1 as [w tr o HS|i ids w|i ids w|i ids w p tr o P0 PL _ IH];
    repeat rewrite abn_cons; repeat rewrite nforks_cons; cbn [is_abn_log is_fork length];
    try (change (abn []) with 0); try (change (nforks []) with 0).
  - destruct (SpecSup_budget n B w 0 tr o HS ltac:(lia)) as [I1 [I2 I3]].
    split; [|lia]. rewrite I1. lia.
  - split; [split; [discriminate|lia]|lia].
  - split; [split; [discriminate|lia]|lia].
  - destruct IH as [I1 I2]. split; [|lia]. rewrite I1. lia.
Qed.

(* ================= every log record is justified by the wait result just before it ================= *)
Fixpoint logs_ok (prev : option (Z * Z)) (tr : list event) : Prop :=
  match tr with
  | [] => True
  | ELog _ pid k :: t =>
    match prev with
    | Some (p, st) => p = pid /\ k = expected_log st
    | None => False
    end /\ logs_ok None t
  | EWait p st :: t => logs_ok (Some (p, st)) t
  | _ :: t => logs_ok None t
  end.

Lemma SpecSup_logs n B w r tr o : SpecSup ek n B w r tr o -> logs_ok None tr.
Proof.
  induction 1; simpl; auto.
  (* unknown pid: the next event is a wait or the end, never a log *)
  match goal with H : SpecSup _ _ _ _ _ ?t _ |- logs_ok _ ?t => inversion H; subst; simpl in *; auto end.
Qed.

Lemma SpecInit_logs n B ids w tr o : SpecInit ek n B ids w tr o -> logs_ok None tr.
Proof.
  induction 1; simpl; auto. eapply SpecSup_logs; eauto.
Qed.

(* ================= a child returns, and sees, its own id; exit code ================= *)
Lemma SpecSup_outcome n B w r tr o :
  SpecSup ek n B w r tr o ->
  (forall c, o = OExit c -> c = 0) /\
  (forall a t, o = OChild a t -> a = t /\ (a < n)%nat /\ exists tr0, tr = tr0 ++ [EFork a 0]) /\
  o <> OAssert.
Proof.
  induction 1 as [w r AF|w r AF|w r pid st tr o AF OW _ IH|w r pid st j tr o AF OW AB _ IH
                  |w r pid st j AF OW AB Bd|w r pid st j AF OW AB Bd|w r pid st j AF OW AB Bd
                  |w r pid st j p tr o AF OW AB Bd P0 PL _ IH];
    try (split; [|split]; [intros c E; try discriminate; try (inversion E; reflexivity)
                          |intros a t E; try discriminate|discriminate]).
  - destruct IH as [I1 [I2 I3]]. split; [exact I1|split; [|exact I3]].
    intros a t E. destruct (I2 a t E) as [A1 [A2 [tr0 A3]]]. subst tr.
    repeat split; auto. exists (EWait pid st :: tr0). reflexivity.
  - destruct IH as [I1 [I2 I3]]. split; [exact I1|split; [|exact I3]].
    intros a t E. destruct (I2 a t E) as [A1 [A2 [tr0 A3]]]. subst tr.
    repeat split; auto. exists (EWait pid st :: ELog j pid (expected_log st) :: tr0). reflexivity.
  - inversion E; subst. apply owner_some in OW. destruct OW as [Hj _].
    repeat split; auto. exists [EWait pid st; ELog t pid (expected_log st)]. reflexivity.
  - destruct IH as [I1 [I2 I3]]. split; [exact I1|split; [|exact I3]].
    intros a t E. destruct (I2 a t E) as [A1 [A2 [tr0 A3]]]. subst tr.
    repeat split; auto.
    exists (EWait pid st :: ELog j pid (expected_log st) :: EFork j p :: tr0). reflexivity.
Qed.

Lemma SpecInit_outcome n B : forall m k w tr o,
  SpecInit ek n B (seq k m) w tr o -> (k + m = n)%nat ->
  (forall c, o = OExit c -> c = 0) /\
  (forall a t, o = OChild a t -> a = t /\ (a < n)%nat /\ exists tr0, tr = tr0 ++ [EFork a 0]) /\
  o <> OAssert.
Proof.
  induction m as [|m IH]; intros k w tr o H Hkm.
  - simpl in H. inversion H; subst. eapply SpecSup_outcome; eauto.
  - cbn [seq] in H. inversion H as [|i0 ids0 w0|i0 ids0 w0|i0 ids0 w0 p tr1 o0 P0 PL HI']; subst.
    + repeat split; intros; discriminate.
    + split; [intros; discriminate|split; [|discriminate]].
      intros a t E. inversion E; subst. repeat split; auto; [lia|]. exists []. reflexivity.
    + destruct (IH (S k) _ _ _ HI' ltac:(lia)) as [I1 [I2 I3]].
      split; [exact I1|split; [|exact I3]].
      intros a t E. destruct (I2 a t E) as [A1 [A2 [tr0 A3]]]. subst tr1.
      repeat split; auto. exists (EFork k p :: tr0). reflexivity.
Qed.

End WithEk.
