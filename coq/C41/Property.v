(* C41 — The multi-process supervisor restarts exactly the failed workers.
   Property theorems only; definitions are in Model.v / Spec.v / Proofs3.v (SpecSup, SpecInit,
   life, proj, life_post, abn, nforks, logs_ok), proofs in Proofs1..4.v, instances in Examples.v.

   Inputs of the model `fork_processes ek pt np cpu mr fs ws`:
     pt  = value of _task_id before the call (Some = called inside a worker)
     np, cpu, mr = num_processes, cpu_count(), max_restarts
     ek  = (kind of exception os.fork raises, kind os.wait raises) once its scripted results are used up
     fs  = the successive results of os.fork()  (0 = this process is the child)
     ws  = the successive results (pid, status) of os.wait()
   `fork_processes` = `fork_processes_d desc_expected`; the correspondence runs `fork_processes_d src_desc`
   where src_desc is regenerated from tornado/process.py on every run (Gen/C41_src.v) - theorem 0.
   Everything below is for ALL values of these inputs (all histories, all fault sequences). *)
From Coq Require Import List ZArith Bool.
Import ListNotations.
From TV Require Import Lib.Obs C41.Model C41.Spec C41.Run
     C41.Proofs1 C41.Proofs2 C41.Proofs3 C41.Proofs4 C41.Proofs5 C41.SrcExpected Gen.C41_src Gen.C41_equiv.
Local Open Scope Z_scope.

(* ---- 0. the decisions read from the source text on this run (default budget 100, `<= 0` -> cpu_count(),
        the if/elif/else chain WIFSIGNALED / WEXITSTATUS != 0 / else with what each branch does, `>` in the
        budget test, sys.exit(0)) and the rest of the function's text are the ones the model was written
        from; and the model the correspondence executes is therefore the model of the theorems below *)
Theorem C41_source_is_the_modelled_one :
  src_desc = desc_expected /\ src_skeleton = expected_skeleton.
Proof. exact source_is_the_modelled_one. Qed.
Print Assumptions C41_source_is_the_modelled_one.

Theorem C41_run_case_is_the_model :
  forall ek pt np cpu mr fs ws,
    run_case (ek, pt, np, cpu, mr, fs, ws) = render (fork_processes ek pt np cpu mr fs ws).
Proof. exact run_case_is_model. Qed.
Print Assumptions C41_run_case_is_the_model.

(* ---- 1. refinement: the model never produces an observable that the ideal, worker-keyed
        supervisor of Spec.v rejects ... *)
Theorem C41_supervisor_never_rejected :
  forall ek pt np cpu mr fs ws,
    spec_check ek pt np cpu mr (fork_processes ek pt np cpu mr fs ws) <> Reject.
Proof. exact never_rejected. Qed.
Print Assumptions C41_supervisor_never_rejected.

(* ... and it is accepted outright whenever the non-zero fork results are distinct (sufficient form
   of the rely condition "fork never returns the pid of a still-running worker"; reuse of a reaped
   pid is accepted too, see Examples.ex_pid_reuse; without the condition see Examples.ex_collision) *)
Theorem C41_supervisor_accepted_when_pids_fresh :
  forall ek pt np cpu mr fs ws,
    NoDup (filter (fun p => negb (p =? 0)) fs) ->
    spec_check ek pt np cpu mr (fork_processes ek pt np cpu mr fs ws) = Accept.
Proof. exact accepted_when_fresh. Qed.
Print Assumptions C41_supervisor_accepted_when_pids_fresh.

(* EXACT form of the rely condition, for every input: the verdict on the model's observable is Accept
   if and only if the trace itself never shows os.fork returning the pid of a worker that was forked and
   not yet reaped (trace_fresh, computed from fork and exit-record events alone); otherwise EnvBroken *)
Theorem C41_verdict_is_accept_iff_no_live_pid_collision :
  forall ek np cpu mr fs ws,
    spec_check ek None np cpu mr (fork_processes ek None np cpu mr fs ws)
    = if trace_fresh (r_trace (fork_processes ek None np cpu mr fs ws)) then Accept else EnvBroken.
Proof. exact verdict_exact. Qed.
Print Assumptions C41_verdict_is_accept_iff_no_live_pid_collision.

(* the checker applied to every implementation trace holds of every model trace *)
Theorem C41_model_satisfies_checker : forall c, check_case c (run_case c) = true.
Proof. exact check_case_run_case. Qed.
Print Assumptions C41_model_satisfies_checker.

(* ---- 2. what acceptance means (for ANY observable: the model's, or one recorded from the
        implementation by the harness).  The boolean acceptor is sound for the declarative rules
        SpecInit / SpecSup of Proofs3.v: ids 0..n-1 started once in order; unknown pids skipped;
        normal exit = finished; abnormal exit = restart with the same id, RuntimeError if the
        budget would be exceeded; exit 0 exactly when all finished. *)
Theorem C41_accepted_traces_are_derivable :
  forall ek np cpu mr res,
    spec_check ek None np cpu mr res = Accept ->
    exists tr,
      r_trace res = EStart (want_procs np cpu) :: tr /\
      SpecInit ek (want_procs np cpu) (want_budget mr) (seq 0 (want_procs np cpu))
               (fun _ => NotStarted) tr (r_out res) /\
      r_task res = match r_out res with OChild _ t => Some t | _ => None end.
Proof. exact spec_check_sound. Qed.
Print Assumptions C41_accepted_traces_are_derivable.

(* per-worker lifecycle: the events about worker i < n form
      fork, (abnormal-exit log of that pid, fork)*, [normal-exit log | abnormal-exit log]
   i.e. started once, restarted with the SAME id exactly after an abnormal exit, never after a
   normal one; a worker may be left crashed only if the call failed (RuntimeError / fork error);
   no event ever mentions an id >= n *)
Theorem C41_worker_lifecycle :
  forall ek np cpu mr res,
    spec_check ek None np cpu mr res = Accept ->
    (forall i, (i < want_procs np cpu)%nat ->
       exists s, life SNot (proj i (r_trace res)) = Some s /\ life_post ek (r_out res) i s) /\
    (forall i, (want_procs np cpu <= i)%nat -> proj i (r_trace res) = []).
Proof. exact accepted_lifecycle. Qed.
Print Assumptions C41_worker_lifecycle.

(* every log record (exit attributed to worker i, pid, kind) directly follows the wait result for
   that pid and carries the kind decoded from that status *)
Theorem C41_exit_records_match_wait_results :
  forall ek np cpu mr res,
    spec_check ek None np cpu mr res = Accept -> logs_ok None (r_trace res).
Proof. exact accepted_logs. Qed.
Print Assumptions C41_exit_records_match_wait_results.

(* the supervisor exits only with status 0 and only after every worker's last incarnation
   exited normally *)
Theorem C41_exit_only_after_all_workers_exited_normally :
  forall ek np cpu mr res c,
    spec_check ek None np cpu mr res = Accept ->
    r_out res = OExit c ->
    c = 0 /\ forall i, (i < want_procs np cpu)%nat -> life SNot (proj i (r_trace res)) = Some SFin.
Proof. intros ek np cpu mr res c A. exact (accepted_exit ek np cpu mr res A c). Qed.
Print Assumptions C41_exit_only_after_all_workers_exited_normally.

(* RuntimeError exactly when the abnormal exits outnumber the budget; never more than
   n + budget forks *)
Theorem C41_failure_iff_budget_exceeded :
  forall ek np cpu mr res,
    spec_check ek None np cpu mr res = Accept ->
    (r_out res = OTooMany <-> abn (r_trace res) > Z.max 0 (want_budget mr)) /\
    nforks (r_trace res) <= Z.of_nat (want_procs np cpu) + Z.max 0 (want_budget mr).
Proof. exact accepted_budget. Qed.
Print Assumptions C41_failure_iff_budget_exceeded.

(* the same, directly on the model, for EVERY input (no rely condition needed) *)
Theorem C41_model_failure_iff_budget_exceeded :
  forall ek np cpu mr fs ws,
    let res := fork_processes ek None np cpu mr fs ws in
    (r_out res = OTooMany <-> abn (r_trace res) > Z.max 0 (want_budget mr)) /\
    nforks (r_trace res) <= Z.of_nat (want_procs np cpu) + Z.max 0 (want_budget mr).
Proof. exact model_budget_all_inputs. Qed.
Print Assumptions C41_model_failure_iff_budget_exceeded.

(* the process in which fork returned 0 returns its own id, has it as task id, and it is the id
   of the fork that made it; in the parent task_id() stays None *)
Theorem C41_child_sees_its_own_task_id :
  forall ek np cpu mr res a t,
    spec_check ek None np cpu mr res = Accept ->
    r_out res = OChild a t ->
    a = t /\ (a < want_procs np cpu)%nat /\ r_task res = Some a /\
    exists tr0, r_trace res = tr0 ++ [EFork a 0].
Proof. intros ek np cpu mr res a t A. exact (accepted_child ek np cpu mr res A a t). Qed.
Print Assumptions C41_child_sees_its_own_task_id.

Theorem C41_parent_has_no_task_id :
  forall ek np cpu mr res,
    spec_check ek None np cpu mr res = Accept ->
    (forall a t, r_out res <> OChild a t) -> r_task res = None.
Proof. exact accepted_parent_task. Qed.
Print Assumptions C41_parent_has_no_task_id.

(* an exception raised by os.fork / os.wait (ECHILD, EINTR, EAGAIN ...) comes out of the call unchanged *)
Theorem C41_system_call_errors_propagate_unchanged :
  forall ek np cpu mr res,
    spec_check ek None np cpu mr res = Accept ->
    (forall k, r_out res = OWaitErr k -> k = snd ek) /\ (forall k, r_out res = OForkErr k -> k = fst ek).
Proof. exact accepted_errors. Qed.
Print Assumptions C41_system_call_errors_propagate_unchanged.

(* ... and on the model, for EVERY input, it is raised by the very call that found its results used up:
   all scripted wait (resp. fork) results were consumed before it, none is skipped or retried *)
Theorem C41_model_system_call_errors :
  forall ek np cpu mr fs ws,
    let res := fork_processes ek None np cpu mr fs ws in
    (forall k, r_out res = OWaitErr k -> k = snd ek /\ nwaits (r_trace res) = Z.of_nat (length ws)) /\
    (forall k, r_out res = OForkErr k -> k = fst ek /\ nforks (r_trace res) = Z.of_nat (length fs)).
Proof. exact model_errors_propagate. Qed.
Print Assumptions C41_model_system_call_errors.

(* calling fork_processes inside a worker forks nothing *)
Theorem C41_nested_call_refused :
  forall ek t np cpu mr res,
    spec_check ek (Some t) np cpu mr res = Accept ->
    r_trace res = [] /\ r_out res = OAssert /\ r_task res = Some t.
Proof. exact spec_check_sound_nested. Qed.
Print Assumptions C41_nested_call_refused.

(* ---- 3. the statement of C41 for the model itself: all histories, all fault sequences,
        distinct fork results *)
Theorem C41_model_meets_statement :
  forall ek np cpu mr fs ws,
    NoDup (filter (fun p => negb (p =? 0)) fs) ->
    let res := fork_processes ek None np cpu mr fs ws in
    let n := want_procs np cpu in
    let B := want_budget mr in
    (forall i, (i < n)%nat ->
       exists s, life SNot (proj i (r_trace res)) = Some s /\ life_post ek (r_out res) i s) /\
    (forall i, (n <= i)%nat -> proj i (r_trace res) = []) /\
    (r_out res = OTooMany <-> abn (r_trace res) > Z.max 0 B) /\
    nforks (r_trace res) <= Z.of_nat n + Z.max 0 B /\
    (forall c, r_out res = OExit c ->
       c = 0 /\ forall i, (i < n)%nat -> life SNot (proj i (r_trace res)) = Some SFin) /\
    (forall a t, r_out res = OChild a t ->
       a = t /\ (a < n)%nat /\ r_task res = Some a /\ exists tr0, r_trace res = tr0 ++ [EFork a 0]) /\
    logs_ok None (r_trace res).
Proof. exact model_meets_statement. Qed.
Print Assumptions C41_model_meets_statement.

(* unknown pids are ignored: the loop state is unchanged *)
Theorem C41_unknown_pid_ignored :
  forall ek maxr pid st ws fs ch nr,
    ch <> [] -> cm_find pid ch = None ->
    supervise ek maxr ((pid, st) :: ws) fs ch nr = pre [EWait pid st] (supervise ek maxr ws fs ch nr).
Proof. exact unknown_pid_ignored. Qed.
Print Assumptions C41_unknown_pid_ignored.

(* ---- 4. wait statuses: the os.W* bit macros of the model equal the arithmetic reading used by the
        specification, and for the statuses a terminated child can have "abnormal" means what the
        docstring says *)
Theorem C41_status_macros :
  forall st, WIFSIGNALED st = signaled st /\ WTERMSIG st = st mod 128 /\
             WEXITSTATUS st = (st / 256) mod 256 /\ abnormal_exit st = abnormal st.
Proof. exact status_macros. Qed.
Print Assumptions C41_status_macros.

Theorem C41_abnormal_means_signal_or_nonzero_exit :
  (forall c, 0 <= c < 256 -> abnormal (c * 256) = negb (c =? 0)) /\
  (forall s k, 1 <= s < 127 -> 0 <= k <= 1 -> abnormal (s + 128 * k) = true).
Proof. exact abnormal_meaning. Qed.
Print Assumptions C41_abnormal_means_signal_or_nonzero_exit.
