(* C41 — basic facts: wait-status decoding, the children map, the worker map,
   and the render/parse round trip of observables. *)
From Coq Require Import List ZArith String Bool Arith Lia.
Import ListNotations.
From TV Require Import Lib.Obs C41.Model C41.Spec C41.Run.
Local Open Scope Z_scope.

(* ---------- status macros: bit operations = arithmetic reading ---------- *)
Lemma WTERMSIG_eq st : WTERMSIG st = term_sig st.
Proof.
  unfold WTERMSIG, term_sig. change 127 with (Z.ones 7). rewrite Z.land_ones by lia. reflexivity.
Qed.

Lemma WEXITSTATUS_eq st : WEXITSTATUS st = exit_code st.
Proof.
  unfold WEXITSTATUS, exit_code. change 255 with (Z.ones 8).
  rewrite Z.land_ones by lia. rewrite Z.shiftr_div_pow2 by lia. reflexivity.
Qed.

Lemma WIFSIGNALED_eq st : WIFSIGNALED st = signaled st.
Proof.
  unfold WIFSIGNALED, signaled. fold (WTERMSIG st). rewrite WTERMSIG_eq. reflexivity.
Qed.

Lemma abnormal_exit_eq st : abnormal_exit st = abnormal st.
Proof.
  unfold abnormal_exit, classify, desc_expected, abnormal.
  cbn [d_chain d_else pick eval_test]. rewrite WIFSIGNALED_eq, WEXITSTATUS_eq.
  destruct (signaled st), (exit_code st =? 0); reflexivity.
Qed.

Lemma exit_log_eq st : exit_log st = expected_log st.
Proof.
  unfold exit_log, classify, desc_expected, expected_log.
  cbn [d_chain d_else pick eval_test]. rewrite WIFSIGNALED_eq, WEXITSTATUS_eq.
  destruct (signaled st), (exit_code st =? 0); cbn [negb action_log];
    rewrite ?WTERMSIG_eq, ?WEXITSTATUS_eq; reflexivity.
Qed.

Lemma logkind_eqb_refl k : logkind_eqb k k = true.
Proof. destruct k; simpl; auto using Z.eqb_refl. Qed.

Lemma logkind_eqb_eq a b : logkind_eqb a b = true -> a = b.
Proof.
  destruct a, b; simpl; intro H; try discriminate; try reflexivity;
    apply Z.eqb_eq in H; subst; reflexivity.
Qed.

(* the log kind tells whether the exit was abnormal *)
Lemma expected_log_normal st : expected_log st = LNormal <-> abnormal st = false.
Proof.
  unfold expected_log, abnormal.
  destruct (signaled st); simpl; [split; discriminate|].
  destruct (exit_code st =? 0); simpl; split; auto; discriminate.
Qed.

(* for the statuses os.wait() can report for a terminated child
   (exit code c: c*256;  signal s, core flag k: s + 128k) "normal" means status 0 *)
Lemma abnormal_exited c : 0 <= c < 256 -> abnormal (c * 256) = negb (c =? 0).
Proof.
  intro H. unfold abnormal, signaled, term_sig, exit_code.
  replace ((c * 256) mod 128) with 0.
  2:{ replace (c * 256) with ((c * 2) * 128) by lia. rewrite Z.mod_mul by lia. reflexivity. }
  rewrite Z.div_mul by lia. rewrite Z.mod_small by lia. reflexivity.
Qed.

Lemma abnormal_signaled s k : 1 <= s < 127 -> 0 <= k <= 1 -> abnormal (s + 128 * k) = true.
Proof.
  intros Hs Hk. unfold abnormal, signaled, term_sig.
  replace ((s + 128 * k) mod 128) with s.
  2:{ replace (s + 128 * k) with (s + k * 128) by lia. rewrite Z.mod_add by lia. rewrite Z.mod_small by lia. reflexivity. }
  replace (s =? 0) with false by (symmetry; apply Z.eqb_neq; lia).
  replace (s =? 127) with false by (symmetry; apply Z.eqb_neq; lia).
  reflexivity.
Qed.

(* ---------- children map ---------- *)
Lemma cm_find_remove_same pid ch : cm_find pid (cm_remove pid ch) = None.
Proof.
  induction ch as [|[p i] ch IH]; simpl; auto.
  destruct (p =? pid) eqn:E; simpl; auto. rewrite E. exact IH.
Qed.

Lemma cm_find_remove_other pid q ch : q <> pid -> cm_find q (cm_remove pid ch) = cm_find q ch.
Proof.
  intro N. induction ch as [|[p i] ch IH]; simpl; auto.
  destruct (p =? pid) eqn:E; simpl.
  - apply Z.eqb_eq in E. subst p. destruct (pid =? q) eqn:E2; auto.
    apply Z.eqb_eq in E2. congruence.
  - rewrite IH. reflexivity.
Qed.

Lemma cm_find_set p i q ch :
  cm_find q (cm_set p i ch) = if p =? q then Some i else cm_find q ch.
Proof.
  unfold cm_set. simpl. destruct (p =? q) eqn:E; auto.
  apply cm_find_remove_other. apply Z.eqb_neq in E. congruence.
Qed.

(* ---------- worker map ---------- *)
Lemma upd_same w i x : upd w i x i = x.
Proof. unfold upd. rewrite Nat.eqb_refl. reflexivity. Qed.

Lemma upd_other w i x j : j <> i -> upd w i x j = w j.
Proof. intro N. unfold upd. destruct (Nat.eqb j i) eqn:E; auto. apply Nat.eqb_eq in E. contradiction. Qed.

Lemma runs_true pid s : runs pid s = true <-> s = Running pid.
Proof.
  destruct s; simpl; split; try discriminate; intro H.
  - apply Z.eqb_eq in H. subst. reflexivity.
  - inversion H. apply Z.eqb_refl.
Qed.

Lemma pid_live_true n w p :
  pid_live n w p = true <-> exists j, (j < n)%nat /\ w j = Running p.
Proof.
  unfold pid_live. rewrite existsb_exists. split.
  - intros [j [Hin Hr]]. apply in_seq in Hin. apply runs_true in Hr. exists j. split; [lia|auto].
  - intros [j [Hj Hr]]. exists j. split; [apply in_seq; lia|apply runs_true; auto].
Qed.

Lemma pid_live_false n w p :
  pid_live n w p = false <-> forall j, (j < n)%nat -> w j <> Running p.
Proof.
  split.
  - intros H j Hj Hr. assert (pid_live n w p = true) by (apply pid_live_true; eauto). congruence.
  - intro H. destruct (pid_live n w p) eqn:E; auto.
    apply pid_live_true in E. destruct E as [j [Hj Hr]]. exfalso. eapply H; eauto.
Qed.

Lemma all_finished_true n w :
  all_finished n w = true <-> forall j, (j < n)%nat -> w j = Finished.
Proof.
  unfold all_finished. rewrite forallb_forall. split.
  - intros H j Hj. specialize (H j). rewrite in_seq in H.
    destruct (w j); simpl in H; auto; exfalso; assert (false = true) by (apply H; lia); discriminate.
  - intros H j Hin. apply in_seq in Hin. rewrite H by lia. reflexivity.
Qed.

Lemma owner_some n w pid i :
  owner n w pid = Some i -> (i < n)%nat /\ w i = Running pid.
Proof.
  unfold owner. intro H. apply find_some in H. destruct H as [Hin Hr].
  apply in_seq in Hin. apply runs_true in Hr. split; [lia|auto].
Qed.

Lemma owner_none n w pid :
  owner n w pid = None -> forall j, (j < n)%nat -> w j <> Running pid.
Proof.
  unfold owner. intros H j Hj Hr.
  eapply find_none with (x := j) in H; [|apply in_seq; lia].
  apply runs_true in Hr. congruence.
Qed.

(* ---------- render / parse round trip ---------- *)
Lemma znat_of_nat n : znat (Z.of_nat n) = Some n.
Proof.
  unfold znat. replace (Z.of_nat n <? 0) with false by (symmetry; apply Z.ltb_ge; lia).
  rewrite Nat2Z.id. reflexivity.
Qed.

Lemma parse_render_event e : parse_event (render_event e) = Some e.
Proof.
  destruct e as [n|i p|p s|i p k]; [| | |destruct k]; cbn; unfold onat; cbn;
    try rewrite znat_of_nat; reflexivity.
Qed.

Lemma parse_render_events l : parse_events (map render_event l) = Some l.
Proof.
  induction l as [|e l IH]; [reflexivity|].
  cbn [map parse_events]. rewrite parse_render_event, IH. reflexivity.
Qed.

Lemma parse_render_outcome o : parse_outcome (render_outcome o) = Some o.
Proof.
  destruct o; cbn; unfold onat; cbn; try rewrite !znat_of_nat; reflexivity.
Qed.

Lemma parse_render_task t : parse_task (render_task t) = Some t.
Proof. destruct t; cbn; unfold onat; cbn; try rewrite znat_of_nat; reflexivity. Qed.

Lemma parse_render r : parse (render r) = Some r.
Proof.
  destruct r as [tr o t]. unfold render, parse. cbn [r_trace r_out r_task].
  rewrite parse_render_events, parse_render_outcome, parse_render_task. reflexivity.
Qed.
