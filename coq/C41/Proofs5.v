(* C41 — (a) the rely condition made EXACT: the model's observable is accepted if and only if
   the trace itself shows no fork result equal to the pid of a forked-and-not-yet-reaped worker
   (otherwise the verdict is EnvBroken);  (b) exceptions of os.fork / os.wait come out unchanged;
   (c) the model run by the correspondence is the one regenerated from the source text. *)
From Coq Require Import List ZArith Bool Arith Lia Setoid.
Import ListNotations.
From TV Require Import Lib.Obs C41.Model C41.Spec C41.Run C41.Proofs1 C41.Proofs2 C41.Proofs3 C41.Proofs4
     C41.SrcExpected Gen.C41_src Gen.C41_equiv.
Local Open Scope Z_scope.
Set Default Proof Using "Type".

(* pids forked and not yet reaped, computed from the observable alone; false = a fork returned one of them *)
Fixpoint fresh_from (live : list Z) (tr : list event) : bool :=
  match tr with
  | [] => true
  | EFork _ p :: t =>
    if p =? 0 then fresh_from live t
    else if existsb (Z.eqb p) live then false
    else fresh_from (p :: live) t
  | ELog _ p _ :: t => fresh_from (filter (fun q => negb (q =? p)) live) t
  | _ :: t => fresh_from live t
  end.
Definition trace_fresh (tr : list event) : bool := fresh_from [] tr.

Definition exact_verdict (b : bool) : verdict := if b then Accept else EnvBroken.

Definition LiveInv (live : list Z) (ch : cmap) : Prop :=
  forall p, In p live <-> cm_find p ch <> None.

Lemma existsb_Zeqb p l : existsb (Z.eqb p) l = true <-> In p l.
Proof.
  rewrite existsb_exists. split.
  - intros [x [Hin E]]. apply Z.eqb_eq in E. subst. exact Hin.
  - intro H. exists p. split; [exact H|apply Z.eqb_refl].
Qed.

Lemma LiveInv_remove live ch pid :
  LiveInv live ch -> LiveInv (filter (fun q => negb (q =? pid)) live) (cm_remove pid ch).
Proof.
  intros L p. rewrite filter_In. destruct (Z.eq_dec p pid) as [->|N].
  - rewrite cm_find_remove_same, Z.eqb_refl. simpl. split; [intros [_ H]; discriminate|congruence].
  - rewrite cm_find_remove_other by exact N. rewrite (L p).
    replace (p =? pid) with false by (symmetry; apply Z.eqb_neq; exact N). simpl. tauto.
Qed.

Lemma LiveInv_add live ch p i : LiveInv live ch -> LiveInv (p :: live) (cm_set p i ch).
Proof.
  intros L q. rewrite cm_find_set. simpl. destruct (p =? q) eqn:E.
  - apply Z.eqb_eq in E. subst. split; [discriminate|auto].
  - apply Z.eqb_neq in E. rewrite (L q). split; [intros [H|H]; [contradiction|exact H]|auto].
Qed.

Lemma pid_live_existsb n ch w live p :
  Inv n ch w -> LiveInv live ch -> pid_live n w p = existsb (Z.eqb p) live.
Proof.
  intros HI L. destruct (existsb (Z.eqb p) live) eqn:E.
  - apply existsb_Zeqb in E. apply L in E. destruct (cm_find p ch) as [j|] eqn:F; [|congruence].
    apply HI in F. apply pid_live_true. exists j. exact F.
  - apply pid_live_false. intros j Hj Hr.
    assert (F : cm_find p ch = Some j) by (apply HI; auto).
    assert (In p live) by (apply L; congruence).
    apply existsb_Zeqb in H. congruence.
Qed.

Definition is_wait (e : event) : bool := match e with EWait _ _ => true | _ => false end.
Definition nwaits (tr : list event) : Z := Z.of_nat (length (filter is_wait tr)).
Lemma nwaits_cons e tr : nwaits (e :: tr) = (if is_wait e then 1 else 0) + nwaits tr.
Proof. unfold nwaits. simpl. destruct (is_wait e); simpl length; lia. Qed.

Section WithEk.
Variable ek : nat * nat.

Ltac acc := simpl; rewrite ?Nat.eqb_refl; reflexivity.

Lemma supervise_exact n maxr : forall waits fs ch nr w live,
  Inv n ch w -> Started n w -> LiveInv live ch ->
  spec_sup ek n maxr w nr (fst (supervise ek maxr waits fs ch nr))
           (snd (supervise ek maxr waits fs ch nr))
  = exact_verdict (fresh_from live (fst (supervise ek maxr waits fs ch nr))).
Proof.
  induction waits as [|[pid st] ws IH]; intros fs ch nr w live HI HS HL.
  - rewrite spec_sup_unfold. destruct ch as [|c ch].
    + simpl. rewrite (proj2 (Inv_allfin n [] w HI HS) eq_refl). acc.
    + simpl. destruct (all_finished n w) eqn:AF.
      * apply (Inv_allfin n (c :: ch) w HI HS) in AF. discriminate.
      * acc.
  - destruct ch as [|c ch0] eqn:Ech.
    + rewrite spec_sup_unfold. simpl.
      rewrite (proj2 (Inv_allfin n [] w HI HS) eq_refl). acc.
    + rewrite <- Ech in *. assert (Hne : ch <> []) by (rewrite Ech; discriminate).
      rewrite supervise_cons by exact Hne.
      rewrite spec_sup_unfold.
      destruct (all_finished n w) eqn:AF.
      { apply (Inv_allfin n ch w HI HS) in AF. contradiction. }
      cbn [pre fst snd app fresh_from]. rewrite (Inv_owner n ch w pid HI).
      destruct (cm_find pid ch) as [i|] eqn:F.
      2:{ apply IH; assumption. }
      cbn [pre fst snd app fresh_from].
      rewrite Nat.eqb_refl, Z.eqb_refl, exit_log_eq, logkind_eqb_refl. cbn [andb negb].
      rewrite abnormal_exit_eq.
      assert (HI1 : Inv n (cm_remove pid ch) (upd w i Finished)) by (eapply Inv_remove; eauto).
      assert (HL1 : LiveInv (filter (fun q => negb (q =? pid)) live) (cm_remove pid ch))
        by (apply LiveInv_remove; exact HL).
      destruct (abnormal st) eqn:AB.
      * destruct (nr + 1 >? maxr) eqn:B.
        { acc. }
        destruct fs as [|p fs'].
        { acc. }
        destruct (p =? 0) eqn:P0.
        { cbn [fst snd fresh_from]. rewrite Nat.eqb_refl. cbn [negb]. apply Z.eqb_eq in P0. subst p.
          rewrite Z.eqb_refl. rewrite is_child_of_refl. acc. }
        cbn [pre fst snd app fresh_from]. rewrite Nat.eqb_refl. cbn [negb]. rewrite P0.
        rewrite (pid_live_existsb n _ _ _ p HI1 HL1).
        destruct (existsb (Z.eqb p) (filter (fun q => negb (q =? pid)) live)) eqn:EX.
        { reflexivity. }
        assert (PL : pid_live n (upd w i Finished) p = false)
          by (rewrite (pid_live_existsb n _ _ _ p HI1 HL1); exact EX).
        assert (Hi : (i < n)%nat) by (apply HI in F; tauto).
        apply IH.
        -- eapply Inv_set with (w1 := upd w i Finished).
           ++ exact HI1.
           ++ exact Hi.
           ++ apply pid_live_false. exact PL.
           ++ intro q. rewrite upd_same. discriminate.
           ++ intro j. unfold upd. destruct (Nat.eqb j i); reflexivity.
        -- apply Started_upd; [auto|discriminate].
        -- apply LiveInv_add. exact HL1.
      * apply IH; auto. apply Started_upd; [auto|discriminate].
Qed.

Lemma start_all_exact n maxr waits : forall m k fs ch w live,
  (k + m = n)%nat -> Inv n ch w -> LiveInv live ch ->
  (forall i, (i < k)%nat -> w i <> NotStarted) ->
  (forall i, (k <= i)%nat -> w i = NotStarted) ->
  spec_init ek n maxr (seq k m) w (fst (start_all ek maxr waits (seq k m) fs ch))
            (snd (start_all ek maxr waits (seq k m) fs ch))
  = exact_verdict (fresh_from live (fst (start_all ek maxr waits (seq k m) fs ch))).
Proof.
  induction m as [|m IH]; intros k fs ch w live Hkm HI HL Hlo Hhi.
  - cbn [seq spec_init]. rewrite start_all_nil. apply supervise_exact; auto.
    intros i Hi. apply Hlo. lia.
  - cbn [seq spec_init]. rewrite start_all_cons. destruct fs as [|p fs'].
    { acc. }
    destruct (p =? 0) eqn:P0.
    { cbn [fst snd fresh_from]. rewrite Nat.eqb_refl. cbn [negb]. apply Z.eqb_eq in P0. subst p.
      rewrite Z.eqb_refl, is_child_of_refl. acc. }
    cbn [pre fst snd app fresh_from]. rewrite Nat.eqb_refl. cbn [negb]. rewrite P0.
    rewrite (pid_live_existsb n _ _ _ p HI HL).
    destruct (existsb (Z.eqb p) live) eqn:EX.
    { reflexivity. }
    assert (PL : pid_live n w p = false) by (rewrite (pid_live_existsb n _ _ _ p HI HL); exact EX).
    apply IH.
    + lia.
    + eapply Inv_set with (w1 := w); eauto.
      * lia.
      * apply pid_live_false. exact PL.
      * intro q. rewrite Hhi by lia. discriminate.
    + apply LiveInv_add. exact HL.
    + intros i Hi. destruct (Nat.eq_dec i k) as [->|N].
      * rewrite upd_same. discriminate.
      * rewrite upd_other by exact N. apply Hlo. lia.
    + intros i Hi. rewrite upd_other by lia. apply Hhi. lia.
Qed.

(* the verdict on the model's observable is decided by the observable's own pid history *)
Lemma verdict_exact np cpu mr fs ws :
  spec_check ek None np cpu mr (fork_processes ek None np cpu mr fs ws)
  = exact_verdict (trace_fresh (r_trace (fork_processes ek None np cpu mr fs ws))).
Proof.
  rewrite fork_processes_None. cbn zeta. unfold spec_check, trace_fresh. cbn [r_trace r_out r_task fresh_from].
  rewrite eff_procs_want, eff_budget_want. rewrite Nat.eqb_refl.
  set (n := want_procs np cpu).
  assert (T : task_ok (snd (start_all ek (want_budget mr) ws (seq 0 n) fs []))
                      match snd (start_all ek (want_budget mr) ws (seq 0 n) fs []) with
                      | OChild _ t => Some t | _ => None end = true).
  { destruct (snd (start_all ek (want_budget mr) ws (seq 0 n) fs [])); simpl; auto.
    apply Nat.eqb_refl. }
  rewrite T. cbn [andb negb].
  apply start_all_exact; auto.
  - apply Inv_init.
  - intro p. simpl. split; [contradiction|congruence].
  - intros i Hi. lia.
Qed.

(* ---------- exceptions of the system calls come out unchanged ---------- *)
Lemma SpecSup_errors n B w r tr o :
  SpecSup ek n B w r tr o ->
  (forall k, o = OWaitErr k -> k = snd ek) /\ (forall k, o = OForkErr k -> k = fst ek).
Proof.
  induction 1; try assumption; split; intros k E; try discriminate; inversion E; reflexivity.
Qed.

Lemma SpecInit_errors n B ids w tr o :
  SpecInit ek n B ids w tr o ->
  (forall k, o = OWaitErr k -> k = snd ek) /\ (forall k, o = OForkErr k -> k = fst ek).
Proof.
  induction 1; try assumption; try (eapply SpecSup_errors; eauto; fail);
    split; intros k E; try discriminate; inversion E; reflexivity.
Qed.

Lemma accepted_errors np cpu mr res :
  spec_check ek None np cpu mr res = Accept ->
  (forall k, r_out res = OWaitErr k -> k = snd ek) /\ (forall k, r_out res = OForkErr k -> k = fst ek).
Proof.
  intro A. destruct (spec_check_sound ek np cpu mr res A) as [tr [_ [SI _]]].
  eapply SpecInit_errors; eauto.
Qed.

(* on the model, for every input: an error outcome carries the environment's own exception, and it
   is raised by the call that found its oracle empty: every scripted result was consumed before it *)
Lemma supervise_errors maxr : forall ws fs ch nr,
  let x := supervise ek maxr ws fs ch nr in
  (forall k, snd x = OWaitErr k -> k = snd ek /\ nwaits (fst x) = Z.of_nat (length ws)) /\
  (forall k, snd x = OForkErr k -> k = fst ek /\ nforks (fst x) = Z.of_nat (length fs)).
Proof.
  induction ws as [|[pid st] ws IH]; intros fs ch nr; cbn zeta.
  - destruct ch; simpl; split; intros k E; try discriminate; inversion E; auto.
  - destruct ch as [|c ch0] eqn:Ech.
    { simpl; split; intros k E; discriminate. }
    rewrite <- Ech. assert (Hne : ch <> []) by (rewrite Ech; discriminate).
    rewrite supervise_cons by exact Hne. cbn [pre fst snd app].
    rewrite nforks_cons, nwaits_cons. cbn [is_fork is_wait length].
    destruct (cm_find pid ch) as [i|].
    2:{ destruct (IH fs ch nr) as [I1 I2]. split; intros k E.
        - destruct (I1 k E). split; [auto|lia].
        - destruct (I2 k E). split; [auto|lia]. }
    cbn [pre fst snd app]. rewrite nforks_cons, nwaits_cons. cbn [is_fork is_wait].
    destruct (abnormal_exit st).
    + destruct (nr + 1 >? maxr).
      { cbn [fst snd]. split; intros k E; discriminate. }
      destruct fs as [|p fs'].
      { cbn [fst snd]. split; intros k E; try discriminate. inversion E. split; auto. }
      destruct (p =? 0).
      { cbn [fst snd]. split; intros k E; discriminate. }
      cbn [pre fst snd app]. rewrite nforks_cons, nwaits_cons. cbn [is_fork is_wait length].
      destruct (IH fs' (cm_set p i (cm_remove pid ch)) (nr + 1)) as [I1 I2]. split; intros k E.
      * destruct (I1 k E). split; [auto|lia].
      * destruct (I2 k E). split; [auto|lia].
    + destruct (IH fs (cm_remove pid ch) nr) as [I1 I2]. split; intros k E.
      * destruct (I1 k E). split; [auto|lia].
      * destruct (I2 k E). split; [auto|lia].
Qed.

Lemma start_all_errors maxr ws : forall ids fs ch,
  let x := start_all ek maxr ws ids fs ch in
  (forall k, snd x = OWaitErr k -> k = snd ek /\ nwaits (fst x) = Z.of_nat (length ws)) /\
  (forall k, snd x = OForkErr k -> k = fst ek /\ nforks (fst x) = Z.of_nat (length fs)).
Proof.
  induction ids as [|i ids IH]; intros fs ch; cbn zeta.
  - rewrite start_all_nil. apply supervise_errors.
  - rewrite start_all_cons. destruct fs as [|p fs'].
    { cbn [fst snd]. split; intros k E; try discriminate. inversion E. split; auto. }
    destruct (p =? 0).
    { cbn [fst snd]. split; intros k E; discriminate. }
    cbn [pre fst snd app]. rewrite nforks_cons, nwaits_cons. cbn [is_fork is_wait length].
    destruct (IH fs' (cm_set p i ch)) as [I1 I2]. split; intros k E.
    * destruct (I1 k E). split; [auto|lia].
    * destruct (I2 k E). split; [auto|lia].
Qed.

Lemma model_errors_propagate np cpu mr fs ws :
  let res := fork_processes ek None np cpu mr fs ws in
  (forall k, r_out res = OWaitErr k -> k = snd ek /\ nwaits (r_trace res) = Z.of_nat (length ws)) /\
  (forall k, r_out res = OForkErr k -> k = fst ek /\ nforks (r_trace res) = Z.of_nat (length fs)).
Proof.
  cbn zeta. rewrite fork_processes_None. cbn zeta. cbn [r_out r_trace].
  rewrite nforks_cons, nwaits_cons. cbn [is_fork is_wait].
  destruct (start_all_errors (eff_budget mr) ws (seq 0 (eff_procs np cpu)) fs []) as [A1 A2].
  split; intros k E; [destruct (A1 k E)|destruct (A2 k E)]; split; auto; lia.
Qed.

End WithEk.

(* ---------- the model run by the correspondence is the model of the theorems ---------- *)
Lemma run_case_is_model ek pt np cpu mr fs ws :
  run_case (ek, pt, np, cpu, mr, fs, ws) = render (fork_processes ek pt np cpu mr fs ws).
Proof. unfold run_case. rewrite src_desc_is_expected. reflexivity. Qed.

Lemma check_case_run_case c : check_case c (run_case c) = true.
Proof.
  destruct c as [[[[[[ek pt] np] cpu] mr] fs] ws]. rewrite run_case_is_model.
  unfold check_case. rewrite parse_render.
  pose proof (never_rejected ek pt np cpu mr fs ws) as H.
  destruct (spec_check ek pt np cpu mr (fork_processes ek pt np cpu mr fs ws)); auto; congruence.
Qed.

Lemma source_is_the_modelled_one :
  src_desc = desc_expected /\ src_skeleton = expected_skeleton.
Proof. split; [exact src_desc_is_expected|exact src_skeleton_is_expected]. Qed.
