(* C41 - the text of fork_processes the model was written from (tornado/process.py as of the 2026-09 snapshot),
   normalised by ast.unparse, with the pieces that translators/c41_src.py turns into an fp_desc replaced by
   <markers>.  Gen/C41_equiv.v proves the text regenerated on every run equal to this one.  Definitions only. *)
From Coq Require Import String.
Definition expected_skeleton : string :=
"if sys.platform == 'win32':
    raise Exception('fork not available on windows')
<DEFAULT_RESTARTS>
assert _task_id is None
<CPU_COUNT_RULE>
gen_log.info('Starting %d processes', num_processes)
children = {}
def start_child(i: int) -> int | None:
    pid = os.fork()
    if pid == 0:
        _reseed_random()
        global _task_id
        _task_id = i
        return i
    else:
        children[pid] = i
        return None
for i in range(num_processes):
    id = start_child(i)
    if id is not None:
        return id
num_restarts = 0
while children:
    pid, status = os.wait()
    if pid not in children:
        continue
    id = children.pop(pid)
    <CLASSIFY>
    num_restarts += 1
    <BUDGET_TEST>
    new_id = start_child(id)
    if new_id is not None:
        return new_id
<SYS_EXIT>"%string.
