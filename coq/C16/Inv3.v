(* C16 -- invariant preservation by timers, write_message, close(); whole steps; whole runs. *)
From Coq Require Import List NArith Arith Bool Lia.
Import ListNotations.
From TV Require Import Lib.Obs C16.Model C16.Spec C16.Inv C16.Inv2.

(* ---------- periodic_ping / closing timer ---------- *)
Lemma tick_ok : forall c a s,
  Jb a s = true -> Jd a s ->
  exists a', okstep a s (tick c s) a'
             /\ (a_sent a = true -> s_sc (fst (tick c s)) = true).
Proof.
  intros c a s Hb Hd.
  destruct (Jb_parts _ _ Hb) as (He & Hs & Hs2 & _ & _ & Hp & Hw & _).
  brk. cbn in He, Hs, Hs2, Hp, Hw. subst.
  unfold tick, send_ping, abort, proto_close, okstep.
  destruct s_ping0; unf;
    destruct s_st0; try (specialize (Hp eq_refl); discriminate);
    destruct s_wait0; try (specialize (Hw eq_refl); discriminate);
    destruct a_sent0; try (specialize (Hs eq_refl); discriminate);
    destruct s_sc0; try (destruct (Hs2 eq_refl eq_refl); discriminate);
    try destruct s_pong0; unf;
    try destruct (N.eqb (ping_timeout c) 0); try destruct (N.ltb (ping_timeout c) (ping_interval c));
    try destruct s_ct0; unf; cbn;
    (eexists; split; [repeat split; fin Hb Hd | auto; try (intros; discriminate)]).
Qed.

(* ---------- write_message, ping() ---------- *)
Lemma write_ok : forall r a s,
  Jb a s = true -> Jd a s -> a_sc a = s_sc s ->
  fst (write r s) = s
  /\ mon_items a (snd (write r s)) = Some a
  /\ counts (snd (write r s)) = expected EWrite a.
Proof.
  intros r a s Hb Hd Hsc.
  destruct (Jb_parts _ _ Hb) as (He & Hs & Hs2 & Hhc & Hcs & _ & _ & _ & _ & Hl & Hh).
  brk. cbn in *|-. subst.
  unfold write, is_closing, expected, expected_b, closing. unf. cbn [a_sent a_hc a_sc a_local is_some].
  destruct s_hconn0, s_sc0, s_ct0, s_st0, a_sent0, a_local0; cbn;
    try (specialize (Hs eq_refl); discriminate);
    try (specialize (Hcs eq_refl); discriminate);
    try (specialize (Hl eq_refl); discriminate);
    try (destruct (Hs2 eq_refl eq_refl); discriminate);
    try (destruct (Hh eq_refl) as [? | [? | ?]]; discriminate);
    destruct a_hc0; cbn; try (specialize (Hhc eq_refl); discriminate); auto.
Qed.

Lemma app_ping_ok : forall a s,
  Jb a s = true -> Jd a s -> a_sc a = s_sc s ->
  fst (app_ping s) = s
  /\ mon_items a (snd (app_ping s)) = Some a
  /\ counts (snd (app_ping s)) = expected EAppPing a.
Proof.
  intros a s Hb Hd Hsc.
  destruct (Jb_parts _ _ Hb) as (He & Hs & Hs2 & Hhc & Hcs & _ & _ & _ & _ & Hl & Hh).
  brk. cbn in *|-. subst.
  unfold app_ping, is_closing, expected, expected_b, closing. unf. cbn [a_sent a_hc a_sc a_local is_some].
  destruct s_hconn0, s_sc0, s_ct0, s_st0, a_sent0, a_local0; cbn;
    try (specialize (Hs eq_refl); discriminate);
    try (specialize (Hcs eq_refl); discriminate);
    try (specialize (Hl eq_refl); discriminate);
    try (destruct (Hs2 eq_refl eq_refl); discriminate);
    try (destruct (Hh eq_refl) as [? | [? | ?]]; discriminate);
    destruct a_hc0; cbn; try (specialize (Hhc eq_refl); discriminate); auto.
Qed.

(* ---------- handler.close / conn.close ---------- *)
Lemma local_close_ok : forall code reason a s,
  Jb a s = true -> Jd a s -> a_sc a = s_sc s ->
  exists a',
    mon_items (note_event (ELocalClose code reason) a) (snd (local_close code reason s)) = Some a'
    /\ Jb a' (fst (local_close code reason s)) = true /\ Jd a' (fst (local_close code reason s))
    /\ a_sc a' = a_sc a
    /\ (s_sc s = true -> s_sc (fst (local_close code reason s)) = true)
    /\ counts (snd (local_close code reason s)) = expected (ELocalClose code reason) a
    /\ (negb (closing a) && negb (close_args_ok code reason) = true -> fst (local_close code reason s) = s).
Proof.
  intros code reason a s Hb Hd Hsc.
  destruct (Jb_parts _ _ Hb) as (He & Hs & Hs2 & Hhc & Hcs & _ & _ & _ & _ & Hl & Hh).
  brk. cbn in He, Hs, Hs2, Hhc, Hcs, Hl, Hh, Hsc. subst.
  unfold local_close, proto_close, note_event, expected, expected_b, closing. unf.
  cbn [is_close_ev a_sent a_hc a_sc a_local is_some].
  destruct (close_args_ok code reason); rewrite ?orb_true_r, ?orb_false_r, ?andb_false_r, ?andb_true_r;
    destruct s_hconn0; unf;
    destruct s_st0, a_sent0; try (specialize (Hs eq_refl); discriminate);
    destruct s_sc0; try (destruct (Hs2 eq_refl eq_refl); discriminate);
    destruct a_local0; try (specialize (Hl eq_refl); discriminate);
    try (destruct (Hh eq_refl) as [? | [? | ?]]; discriminate);
    destruct s_ct0; try (specialize (Hcs eq_refl); discriminate);
    destruct a_hc0; try (specialize (Hhc eq_refl); discriminate);
    destruct s_wait0; unf; cbn;
    (eexists; repeat split; fin Hb Hd).
Qed.

(* ---------- the synchronous part of one event ---------- *)
Definition wcount (e : event) (a : acc) (o : list item) : Prop := counts o = expected e a.

Lemma note_event_id : forall e a, is_close_ev e = false -> note_event e a = a.
Proof. intros e a H. destruct a; unfold note_event; cbn. rewrite H, orb_false_r. reflexivity. Qed.

Lemma act_ok : forall c e a s q,
  Jb a s = true -> Jd a s -> a_sc a = s_sc s ->
  exists a1,
    mon_items (note_event e a) (snd (act c e (s, q))) = Some a1
    /\ Jb a1 (fst (fst (act c e (s, q)))) = true /\ Jd a1 (fst (fst (act c e (s, q))))
    /\ a_sc a1 = a_sc a
    /\ (s_sc s = true -> s_sc (fst (fst (act c e (s, q)))) = true)
    /\ (e = ETick -> a_sent a = true -> s_sc (fst (fst (act c e (s, q)))) = true)
    /\ wcount e a (snd (act c e (s, q))).
Proof.
  intros c e a s q Hb Hd Hsc. unfold wcount.
  destruct e as [code reason|f| | | | | | | |]; cbn [act].
  - destruct (local_close_ok code reason a s Hb Hd Hsc) as (a1 & K1 & K2 & K3 & K4 & K5 & K6 & K7).
    exists a1. destruct (local_close code reason s) as [s1 o]. cbn [fst snd] in *.
    repeat split; auto; try discriminate.
  - rewrite note_event_id by reflexivity. exists a. cbn. repeat split; auto; try discriminate.
  - rewrite note_event_id by reflexivity. exists a. cbn. repeat split; auto; try discriminate.
  - rewrite note_event_id by reflexivity. exists a. cbn [fst snd mon_items].
    destruct (okstep_sc_true a s Hb Hd) as (B1 & B2).
    repeat split; auto; try discriminate; try (destruct s; reflexivity).
  - rewrite note_event_id by reflexivity.
    destruct (tick_ok c a s Hb Hd) as (a1 & (K1 & K2 & K3 & K4 & K5 & K6 & K7 & K8) & K9).
    exists a1. destruct (tick c s) as [s1 o]. cbn [fst snd] in *.
    repeat split; auto; try apply K8.
  - rewrite note_event_id by reflexivity. exists a. cbn [fst snd mon_items].
    assert (Jb a (match s_loop s with LBlocked => set_loop LRead s | _ => s end) = true
            /\ Jd a (match s_loop s with LBlocked => set_loop LRead s | _ => s end)
            /\ s_sc (match s_loop s with LBlocked => set_loop LRead s | _ => s end) = s_sc s) as (B1 & B2 & B3).
    { brk. unf. destruct s_loop0; unf; repeat split; auto; bsolve Hb. }
    repeat split; auto; try discriminate; try (rewrite B3; auto).
  - rewrite note_event_id by reflexivity.
    destruct (s_loop s) eqn:Hl; cbn [fst snd mon_items mon_item];
      try (exists a; repeat split; auto; try discriminate; fail).
    destruct (abort_ok a s Hb Hd) as (Ab & Ad & Asc & Act & Alo & Aca & Ahc & _).
    exists a.
    assert (Jb a (set_loop LRead (abort s)) = true /\ Jd a (set_loop LRead (abort s))
            /\ s_sc (set_loop LRead (abort s)) = true) as (B1 & B2 & B3).
    { rewrite Hl in Alo. revert Ab Ad Asc Alo. generalize (abort s) as s'. intros s' Ab Ad Asc Alo.
      brk. unf. cbn in Alo, Asc. subst. repeat split; auto; try (bsolve Ab). }
    repeat split; auto; try discriminate.
  - rewrite note_event_id by reflexivity. exists a. cbn [fst snd mon_items].
    assert (Jb a (match s_loop s with LOpening => set_loop LRead s | _ => s end) = true
            /\ Jd a (match s_loop s with LOpening => set_loop LRead s | _ => s end)
            /\ s_sc (match s_loop s with LOpening => set_loop LRead s | _ => s end) = s_sc s) as (B1 & B2 & B3).
    { brk. unf. destruct s_loop0; unf; repeat split; auto; bsolve Hb. }
    repeat split; auto; try discriminate; try (rewrite B3; auto).
  - rewrite note_event_id by reflexivity.
    destruct (write_ok (c_role c) a s Hb Hd Hsc) as (W1 & W2 & W3).
    exists a. destruct (write (c_role c) s) as [s1 o]. cbn [fst snd] in *. subst s1.
    repeat split; auto; try discriminate.
  - rewrite note_event_id by reflexivity.
    destruct (app_ping_ok a s Hb Hd Hsc) as (W1 & W2 & W3).
    exists a. destruct (app_ping s) as [s1 o]. cbn [fst snd] in *. subst s1.
    repeat split; auto; try discriminate.
Qed.

(* ---------- the invariant at event boundaries ---------- *)
Definition Inv (a : acc) (m : mstate) : Prop :=
  Jb a (fst m) = true /\ Jd a (fst m) /\ a_sc a = s_sc (fst m)
  /\ (s_loop (fst m) = LRead -> s_sc (fst m) = false).

Lemma step_ok : forall c e a m,
  Inv a m ->
  exists a', mon_step a e (snd (step c e m), snap_of (fst (fst (step c e m)))) = Some a'
             /\ Inv a' (fst (step c e m)).
Proof.
  intros c e a [s q] (Hb & Hd & Hsc & Hrd). cbn [fst] in *.
  destruct (act_ok c e a s q Hb Hd Hsc) as (a1 & A1 & A2 & A3 & A4 & A5 & A6 & A7).
  unfold step. destruct (act c e (s, q)) as [[s1 q1] o1]. cbn [fst snd] in *.
  destruct (settle_ok (c_role c) q1 a1 s1 A2 A3) as (a2 & S).
  destruct (settle (c_role c) s1 q1) as [[s2 q2] o2].
  destruct S as (S1 & S2 & S3 & S4 & S5 & S6 & S7 & S8 & S9).
  cbn [fst snd].
  exists (note_sc (s_sc s2) a2).
  destruct (Jb_parts _ _ S2) as (P1 & P2 & P3 & P4 & P5 & P6 & P7 & P8 & P9 & P10 & P11).
  split.
  - unfold mon_step. rewrite (mon_items_app _ _ _ _ A1), S1.
    cbn [snap_of n_sc n_loop].
    assert (E1 : negb (is_some (a_echo a2)) = true) by (rewrite P1; reflexivity).
    assert (E2 : implb (is_some (a_hc a2) && a_sent a2) (s_sc s2) = true).
    { destruct (is_some (a_hc a2)) eqn:Eh; cbn; auto. rewrite (P5 (P4 eq_refl)). destruct (a_sent a2); reflexivity. }
    assert (E3 : match e with ETick => implb (a_sent a) (s_sc s2) | _ => true end = true).
    { destruct e; auto. destruct (a_sent a) eqn:Es; cbn; auto. }
    assert (E4 : implb (s_sc s2 && negb (is_blocked (tag_of (s_loop s2)))) (a_fired a2) = true).
    { rewrite P8. destruct (s_loop s2) eqn:El; cbn.
      - rewrite andb_false_r. reflexivity.
      - rewrite (S9 eq_refl). reflexivity.
      - rewrite andb_false_r. reflexivity.
      - destruct (s_sc s2); reflexivity. }
    assert (E5 : implb (a_sc a) (s_sc s2) = true).
    { rewrite Hsc. destruct (s_sc s) eqn:Es; cbn; auto. }
    assert (E6 : list_eqb Nat.eqb (counts (o1 ++ o2)) (expected e a) = true).
    { rewrite (counts_app_quiet _ _ S8). unfold wcount in A7. rewrite A7.
      clear. induction (expected e a) as [|x l IHl]; cbn; auto. rewrite Nat.eqb_refl; auto. }
    rewrite E1, E2, E3, E4, E5, E6. reflexivity.
  - unfold Inv. cbn [fst].
    assert (Jb (note_sc (s_sc s2) a2) s2 = Jb a2 s2) as -> by (destruct a2; reflexivity).
    assert (Jd (note_sc (s_sc s2) a2) s2 <-> Jd a2 s2) as -> by (destruct a2; reflexivity).
    repeat split; auto; try (destruct a2; reflexivity).
Qed.

(* ---------- whole runs ---------- *)
Lemma run_ok : forall c evs a m,
  Inv a m -> exists a', mon_run a evs (run_from c m evs) = Some a' /\ Inv a' (final_from c m evs).
Proof.
  intros c evs. induction evs as [|e evs IH]; intros a m HI; cbn [run_from final_from mon_run].
  - exists a; auto.
  - destruct (step_ok c e a m HI) as (a1 & M1 & I1).
    destruct (step c e m) as [m' o]. cbn [fst snd] in *.
    rewrite M1. apply IH; auto.
Qed.

Lemma Inv_init : forall c, Inv acc0 (init c, []).
Proof.
  intros c. unfold Inv, init, acc0, Jb, Jd, ping_none, loop_done; cbn.
  destruct (ping_interval c =? 0)%N, (c_role c), (c_aopen c); cbn; repeat split; auto; discriminate.
Qed.

Theorem model_satisfies_monitor : forall c evs, check_trace evs (run c evs) = true.
Proof.
  intros c evs. unfold check_trace, run.
  destruct (run_ok c evs acc0 (init c, []) (Inv_init c)) as (a' & H & _).
  rewrite H. reflexivity.
Qed.
