(* C16 -- the trace <-> observable codec round trip, so that the checker applied to the
   model's own observable is the monitor applied to the model's trace. *)
From Coq Require Import List NArith ZArith Bool String Lia.
Import ListNotations.
From TV Require Import Lib.Obs C16.Model C16.Spec C16.Run.

Lemma dec_N_enc : forall n, dec_N (OInt (Z.of_N n)) = Some n.
Proof.
  intros n. unfold dec_N.
  destruct (Z.of_N n <? 0)%Z eqn:E.
  - apply Z.ltb_lt in E. pose proof (N2Z.is_nonneg n). lia.
  - rewrite N2Z.id. reflexivity.
Qed.
Lemma dec_oN_enc : forall o, dec_oN (enc_oN o) = Some o.
Proof. intros [n|]; [|reflexivity]. unfold enc_oN, enc_N, dec_oN. rewrite dec_N_enc. reflexivity. Qed.
Lemma dec_oL_enc : forall o, dec_oL (enc_oL o) = Some o.
Proof. intros [l|]; reflexivity. Qed.
Lemma dec_kind_enc : forall k, dec_kind (enc_kind k) = Some k.
Proof. intros []; reflexivity. Qed.

Ltac seq := cbn [String.eqb Ascii.eqb Bool.eqb andb].

Lemma dec_frame_enc : forall f, dec_frame (enc_frame f) = Some f.
Proof.
  intros [[|b|c r|c]|k| | | |]; try reflexivity;
    unfold enc_frame, dec_frame, enc_N; seq; rewrite ?dec_N_enc, ?dec_kind_enc; reflexivity.
Qed.

Lemma dec_item_enc : forall i, dec_item (enc_item i) = Some i.
Proof.
  intros [[c r| | |]|f| |c r| | | | | |]; try reflexivity.
  - unfold enc_item, dec_item. seq. rewrite dec_oN_enc. reflexivity.
  - unfold enc_item, dec_item.
    assert (E : exists l, enc_frame f = OList l).
    { destruct f as [[| | |]| | | | |]; cbn; eauto. }
    destruct E as (l & E). pose proof (dec_frame_enc f) as D. rewrite E in *.
    seq. rewrite D. reflexivity.
  - unfold enc_item, dec_item.
    pose proof (dec_oN_enc c) as D1. pose proof (dec_oL_enc r) as D2.
    destruct c as [n|], r as [l|]; cbn [enc_oN enc_oL enc_N] in *; seq; rewrite ?D1, ?D2; reflexivity.
Qed.

Lemma dec_ltag_enc : forall t, dec_ltag (enc_ltag t) = Some t.
Proof. intros []; reflexivity. Qed.
Lemma dec_snap_enc : forall n, dec_snap (enc_snap n) = Some n.
Proof. intros [a b c d e t]. unfold enc_snap, dec_snap. cbn [n_sc n_ct n_st n_wait n_hconn n_loop]. rewrite dec_ltag_enc. reflexivity. Qed.
Lemma dec_list_map : forall {A} (enc : A -> obs) (dec : obs -> option A),
  (forall x, dec (enc x) = Some x) -> forall l, dec_list dec (map enc l) = Some l.
Proof. intros A enc dec H. induction l as [|x l IH]; cbn; auto. rewrite H, IH. reflexivity. Qed.
Lemma dec_step_enc : forall o, dec_step (enc_step o) = Some o.
Proof.
  intros [its n]. unfold enc_step, dec_step. cbn [fst snd].
  rewrite (dec_list_map enc_item dec_item dec_item_enc), dec_snap_enc. reflexivity.
Qed.
Theorem dec_trace_enc : forall t, dec_trace (enc_trace t) = Some t.
Proof. intros t. unfold enc_trace, dec_trace. apply (dec_list_map enc_step dec_step dec_step_enc). Qed.
