(* C16 phase 4 -- tearing the TCP connection down, for both roles and both initiators. *)
From Coq Require Import List NArith Arith Bool Lia.
Import ListNotations.
From TV Require Import Lib.Obs C16.Model C16.Spec C16.Run C16.Inv C16.Inv2 C16.Inv3 C16.Sound C16.Proofs.

(* ---------- a small extra invariant: once client_terminated, no closing timer is armed ---------- *)
Definition Kb (s : state) : bool := implb (s_ct s) (negb (s_wait s)).

Ltac kbrute :=
  unf; cbn [fst snd];
  repeat match goal with
         | |- context [if ?b then _ else _] => is_var b; destruct b
         | H : context [if ?b then _ else _] |- _ => is_var b; destruct b
         end;
  unf; cbn in *; auto; try discriminate.

Lemma K_proto_close : forall c r s, Kb s = true -> Kb (fst (proto_close c r s)) = true.
Proof.
  intros c r s H. destruct s as [ct st sc wait pc pr pg po lo hc ca hco hr].
  unfold Kb, proto_close in *. unf. destruct st, sc, ct, wait; cbn in *; auto.
Qed.

Lemma K_abort : forall s, Kb (abort s) = true.
Proof. intros s. rewrite abort_eq. destruct s; reflexivity. Qed.

Lemma K_loop_finish : forall r s, Kb s = true -> Kb (fst (loop_finish r s)) = true.
Proof.
  intros r s H. unfold loop_finish, notify. destruct r.
  - destruct (s_hconn (set_hclose (s_pcode s) (s_preason s) s)) eqn:E.
    + pose proof (K_abort (set_hclose (s_pcode s) (s_preason s) s)) as A.
      destruct (abort (set_hclose (s_pcode s) (s_preason s) s)) as [ct st sc wait pc pr pg po lo hc ca hco hr].
      unfold Kb in *. unf. destruct ca; cbn in *; auto.
    + destruct s as [ct st sc wait pc pr pg po lo hc ca hco hr]. unfold Kb in *. unf. destruct ca; cbn in *; auto.
  - destruct s as [ct st sc wait pc pr pg po lo hc ca hco hr]. unfold Kb in *. cbn in *. auto.
Qed.

Lemma K_handle_frame : forall r f s, Kb s = true -> Kb (fst (handle_frame r f s)) = true.
Proof.
  intros r f s H. destruct f as [p|k| | | |]; cbn [handle_frame].
  - (* Close: client_terminated is set and close() then disarms the timer *)
    destruct s as [ct st sc wait pc pr pg po lo hc ca hco hr].
    unfold Kb, proto_close. destruct p as [|b|c [|x rs]|c]; unf; destruct st, sc, wait; reflexivity.
  - destruct k; cbn [fst]; auto; try apply K_abort.
  - destruct (s_sc s); cbn [fst]; auto; try apply K_abort.
  - cbn [fst]. exact H.
  - try apply K_abort; auto.
  - destruct (proto_close (Some 1009%N) (Some too_big_reason) s). apply K_abort.
Qed.

Lemma K_settle : forall r q s, Kb s = true -> Kb (fst (fst (settle r s q))) = true.
Proof.
  intros r q. induction q as [|it q IH]; intros s H; cbn [settle]; destruct (s_loop s); auto.
  - destruct (s_ct s).
    + pose proof (K_loop_finish r s H). destruct (loop_finish r s); auto.
    + destruct (s_sc s); auto.
      pose proof (K_loop_finish r (abort s) (K_abort s)). destruct (loop_finish r (abort s)); auto.
  - destruct (s_ct s).
    + pose proof (K_loop_finish r s H). destruct (loop_finish r s); auto.
    + destruct (s_sc s).
      * pose proof (K_loop_finish r (abort s) (K_abort s)). destruct (loop_finish r (abort s)); auto.
      * assert (C : Kb (fst (consume r it s)) = true).
        { destruct it; cbn [consume]; [apply K_handle_frame; auto | destruct s; exact H]. }
        destruct (consume r it s) as [s1 o1]. cbn [fst] in C.
        specialize (IH s1 C). destruct (settle r s1 q) as [[s2 q2] o2]. auto.
Qed.

Lemma K_local_close : forall code reason s, Kb s = true -> Kb (fst (local_close code reason s)) = true.
Proof.
  intros code reason s H. unfold local_close. destruct (s_hconn s); cbn [fst]; auto.
  destruct (negb (s_st s) && negb (s_sc s) && negb (close_args_ok code reason)); cbn [fst]; auto.
  pose proof (K_proto_close code reason s H). destruct (proto_close code reason s) as [s1 o].
  destruct s1; exact H0.
Qed.

Lemma K_tick : forall c s, Kb s = true -> Kb (fst (tick c s)) = true.
Proof.
  intros c s H. unfold tick, send_ping. destruct (s_ping s).
  - destruct (s_wait s); cbn [fst]; auto; try apply K_abort.
  - destruct (s_sc (set_pong false s)); cbn [fst]; exact H.
  - destruct (s_pong s).
    + destruct (N.ltb (ping_timeout c) (ping_interval c)); [exact H|].
      destruct (s_sc (set_pong false s)); cbn [fst]; exact H.
    + apply K_proto_close; auto.
  - destruct (s_sc (set_pong false s)); cbn [fst]; exact H.
Qed.

Lemma K_act : forall c e s q, Kb s = true -> Kb (fst (fst (act c e (s, q)))) = true.
Proof.
  intros c e s q H. destruct e as [code reason|f| | | | | | | |]; cbn [act].
  - pose proof (K_local_close code reason s H). destruct (local_close code reason s); auto.
  - exact H.
  - exact H.
  - exact H.
  - pose proof (K_tick c s H). destruct (tick c s); auto.
  - destruct (s_loop s); cbn [fst]; exact H.
  - destruct (s_loop s); cbn [fst]; auto; try apply K_abort.
  - destruct (s_loop s); cbn [fst]; exact H.
  - unfold write. destruct (negb (s_hconn s) || is_closing s); exact H.
  - unfold app_ping. destruct (negb (s_hconn s) || is_closing s); exact H.
Qed.

Lemma K_final : forall c evs, Kb (fst (final c evs)) = true.
Proof.
  intros c evs. unfold final.
  assert (G : forall m, Kb (fst m) = true -> Kb (fst (final_from c m evs)) = true).
  { induction evs as [|e evs IH]; intros m H; cbn [final_from]; auto.
    apply IH. destruct m as [s q]. unfold step.
    pose proof (K_act c e s q H) as A. destruct (act c e (s, q)) as [[s1 q1] o1]. cbn [fst] in A.
    pose proof (K_settle (c_role c) q1 s1 A) as B.
    destruct (settle (c_role c) s1 q1) as [[s2 q2] o2]. exact B. }
  apply G. unfold init, Kb. reflexivity.
Qed.

(* ---------- runs, one event at a time ---------- *)
Lemma run_from_snoc : forall c evs m e,
  run_from c m (evs ++ [e])
  = run_from c m evs ++ [(snd (step c e (final_from c m evs)), snap_of (fst (fst (step c e (final_from c m evs)))))].
Proof.
  intros c evs. induction evs as [|x evs IH]; intros m e; cbn [app run_from final_from].
  - destruct (step c e m) as [m' o]. reflexivity.
  - destruct (step c x m) as [m' o]. cbn [fst]. rewrite IH. reflexivity.
Qed.

Lemma items_snoc : forall c evs e,
  items_of (run c (evs ++ [e])) = items_of (run c evs) ++ snd (step c e (final c evs)).
Proof.
  intros c evs e. unfold run, final. rewrite run_from_snoc. unfold items_of.
  rewrite map_app, concat_app. cbn. rewrite app_nil_r. reflexivity.
Qed.

Lemma first_hclose_split : forall l,
  existsb is_hclose l = true ->
  exists l1 p l2, l = l1 ++ IHandled (FClose p) :: l2 /\ first_hc l1 = None.
Proof.
  induction l as [|i l IH]; cbn [existsb]; intros H; [discriminate|].
  destruct (is_hclose i) eqn:E.
  - destruct i as [f|f| | | | | | | |]; try discriminate. destruct f as [p| | | | |]; try discriminate.
    exists [], p, l. split; reflexivity.
  - cbn in H. destruct (IH H) as (l1 & p & l2 & L1 & L2).
    exists (i :: l1), p, l2. split; [rewrite L1; reflexivity|].
    destruct i as [f|f| | | | | | | |]; cbn; auto. destruct f; cbn; auto; discriminate.
Qed.

(* whenever the peer's Close has been received, ours is on the wire too *)
Lemma received_close_implies_sent : forall c evs,
  existsb is_hclose (items_of (run c evs)) = true -> existsb is_sclose (items_of (run c evs)) = true.
Proof.
  intros c evs H. destruct (first_hclose_split _ H) as (l1 & p & l2 & L1 & L2).
  rewrite L1, existsb_app. destruct (existsb is_sclose l1) eqn:E; auto.
  destruct (model_echo c evs l1 p l2 L1 L2 E) as (l3 & l4 & L3 & _).
  cbn [existsb is_sclose]. rewrite L3, existsb_app. cbn. rewrite orb_true_r. reflexivity.
Qed.

(* ---------- the teardown theorem ---------- *)
(* Any role, any ping configuration, any history, any event.  If the step of this event takes a
   Close frame of the peer off the wire, then at the end of that very step
     - our own Close frame is on the wire (it was already, or it is echoed in this step),
     - the TCP stream is closed, and
     - no closing timeout is armed (none was needed on the echoing side; the initiator's is disarmed). *)
Lemma teardown_on_receipt : forall c evs e,
  let st := step c e (final c evs) in
  existsb is_hclose (snd st) = true ->
  s_sc (fst (fst st)) = true
  /\ s_wait (fst (fst st)) = false
  /\ (existsb is_sclose (items_of (run c evs)) = false -> existsb is_sclose (snd st) = true).
Proof.
  intros c evs e st H. subst st.
  assert (F : fst (step c e (final c evs)) = final c (evs ++ [e])).
  { unfold final. rewrite final_from_snoc. reflexivity. }
  assert (Hh : existsb is_hclose (items_of (run c (evs ++ [e]))) = true).
  { rewrite items_snoc, existsb_app, H. apply orb_true_r. }
  rewrite F. split; [|split].
  - apply model_both_closed_tcp_down; auto.
  - pose proof (K_final c (evs ++ [e])) as K. unfold Kb in K.
    destruct (model_terminated_flags c (evs ++ [e])) as (_ & _).
    destruct (reach c (evs ++ [e])) as (a & R & (Hb & _)).
    destruct (accepted_summary _ _ _ R) as (_ & S2 & _).
    destruct (Jb_parts _ _ Hb) as (_ & _ & _ & P4 & _).
    rewrite (P4 ltac:(rewrite S2; exact Hh)) in K. cbn in K.
    destruct (s_wait (fst (final c (evs ++ [e])))); auto; discriminate.
  - intros Hn. pose proof (received_close_implies_sent c (evs ++ [e]) Hh) as S.
    rewrite items_snoc, existsb_app, Hn in S. exact S.
Qed.

(* The initiating side: after our Close frame went out, as long as the stream is still open the
   closing timeout is armed and it is the only timer (periodic_ping is cancelled); the stream is
   closed when that timer fires (C16_tcp_closed_when_closing_timeout_elapses) or, by the lemma
   above, on receipt of the peer's Close. *)
Lemma initiator_waits_with_timer : forall c evs,
  existsb is_sclose (items_of (run c evs)) = true ->
  s_sc (fst (final c evs)) = false ->
  s_wait (fst (final c evs)) = true /\ s_ping (fst (final c evs)) = PNone
  /\ s_sc (fst (final c (evs ++ [ETick]))) = true.
Proof.
  intros c evs Hs Hsc.
  destruct (reach c evs) as (a & R & (Hb & _)).
  destruct (accepted_summary _ _ _ R) as (S1 & _).
  destruct (Jb_parts _ _ Hb) as (_ & P2 & P3 & _).
  assert (St : s_st (fst (final c evs)) = true) by (apply P2; rewrite S1; exact Hs).
  destruct (P3 St Hsc) as (_ & W).
  repeat split; auto.
  - apply model_one_timer; auto.
  - apply model_closing_timeout; auto.
Qed.
