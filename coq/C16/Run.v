(* C16 -- executable entry points used by the correspondence check, and the
   encoding of traces as the shared observable type. *)
From Coq Require Import List NArith ZArith Bool String.
Import ListNotations.
From TV Require Import Lib.Obs C16.Model C16.Spec.
Local Open Scope string_scope.

Definition enc_N (n : N) : obs := OInt (Z.of_N n).
Definition enc_oN (o : option N) : obs := match o with Some n => enc_N n | None => ONone end.
Definition enc_oL (o : option (list N)) : obs := match o with Some l => OBytes l | None => ONone end.

Definition enc_kind (k : msgkind) : obs :=
  OTag (match k with MSync => "s" | MAsync => "a" | MRaise => "r" | MCoRaise => "c" end).
Definition enc_frame (f : frame) : obs :=
  match f with
  | FClose CPEmpty => OList [OTag "Close"]
  | FClose (CPOne b) => OList [OTag "Close1"; enc_N b]
  | FClose (CPCode c r) => OList [OTag "CloseCode"; enc_N c; OBytes r]
  | FClose (CPBadUtf8 c) => OList [OTag "CloseBad"; enc_N c]
  | FMsg k => OList [OTag "Msg"; enc_kind k]
  | FPing => OList [OTag "Ping"]
  | FPong => OList [OTag "Pong"]
  | FBad => OList [OTag "Bad"]
  | FBig => OList [OTag "Big"]
  end.
Definition enc_item (i : item) : obs :=
  match i with
  | ISent (SClose c r) => OList [OTag "Sent"; OTag "Close"; enc_oN c; OBytes r]
  | ISent SData => OList [OTag "Sent"; OTag "Data"]
  | ISent SPing => OList [OTag "Sent"; OTag "Ping"]
  | ISent SPong => OList [OTag "Sent"; OTag "Pong"]
  | IHandled f => OList [OTag "Handled"; enc_frame f]
  | IOnMessage => OTag "OnMessage"
  | IOnClose c r => OList [OTag "OnClose"; enc_oN c; enc_oL r]
  | IWriteOk => OTag "WriteOk"
  | IWriteErr => OTag "WriteErr"
  | IPingOk => OTag "PingOk"
  | IPingErr => OTag "PingErr"
  | ICloseErr => OTag "CloseErr"
  | ILogExc => OTag "LogExc"
  end.
Definition enc_ltag (t : ltag) : obs :=
  OTag (match t with TOpening => "opening" | TRead => "read" | TBlocked => "blocked" | TEnded => "ended" end).
Definition enc_snap (n : snap) : obs :=
  OList [OBool (n_sc n); OBool (n_ct n); OBool (n_st n); OBool (n_wait n); OBool (n_hconn n); enc_ltag (n_loop n)].
Definition enc_step (o : list item * snap) : obs :=
  OList [OList (map enc_item (fst o)); enc_snap (snd o)].
Definition enc_trace (t : trace) : obs := OList (map enc_step t).

(* ---- decoding (used to apply the monitor to the implementation's observable) ---- *)
Definition dec_N (o : obs) : option N :=
  match o with OInt z => if (z <? 0)%Z then None else Some (Z.to_N z) | _ => None end.
Definition dec_oN (o : obs) : option (option N) :=
  match o with ONone => Some None | _ => match dec_N o with Some n => Some (Some n) | None => None end end.
Definition dec_oL (o : obs) : option (option (list N)) :=
  match o with ONone => Some None | OBytes l => Some (Some l) | _ => None end.
Definition dec_kind (o : obs) : option msgkind :=
  match o with
  | OTag t => if t =? "s" then Some MSync else if t =? "a" then Some MAsync else if t =? "r" then Some MRaise else if t =? "c" then Some MCoRaise else None
  | _ => None
  end.
Definition dec_frame (o : obs) : option frame :=
  match o with
  | OList [OTag t] =>
      if t =? "Close" then Some (FClose CPEmpty) else if t =? "Ping" then Some FPing
      else if t =? "Pong" then Some FPong else if t =? "Bad" then Some FBad
      else if t =? "Big" then Some FBig else None
  | OList [OTag t; x] =>
      if t =? "Close1" then match dec_N x with Some b => Some (FClose (CPOne b)) | None => None end
      else if t =? "CloseBad" then match dec_N x with Some c => Some (FClose (CPBadUtf8 c)) | None => None end
      else if t =? "Msg" then match dec_kind x with Some k => Some (FMsg k) | None => None end
      else None
  | OList [OTag t; x; OBytes r] =>
      if t =? "CloseCode" then match dec_N x with Some c => Some (FClose (CPCode c r)) | None => None end else None
  | _ => None
  end.
Definition dec_item (o : obs) : option item :=
  match o with
  | OTag t =>
      if t =? "OnMessage" then Some IOnMessage else if t =? "WriteOk" then Some IWriteOk
      else if t =? "WriteErr" then Some IWriteErr else if t =? "LogExc" then Some ILogExc
      else if t =? "PingOk" then Some IPingOk else if t =? "PingErr" then Some IPingErr
      else if t =? "CloseErr" then Some ICloseErr else None
  | OList [OTag t; OTag u] =>
      if t =? "Sent" then
        if u =? "Data" then Some (ISent SData) else if u =? "Ping" then Some (ISent SPing)
        else if u =? "Pong" then Some (ISent SPong) else None
      else None
  | OList [OTag t; OTag u; c; OBytes r] =>
      if (t =? "Sent") && (u =? "Close") then
        match dec_oN c with Some c' => Some (ISent (SClose c' r)) | None => None end
      else None
  | OList [OTag t; OList f] =>
      if t =? "Handled" then match dec_frame (OList f) with Some f' => Some (IHandled f') | None => None end else None
  | OList [OTag t; c; r] =>
      if t =? "OnClose" then
        match dec_oN c, dec_oL r with Some c', Some r' => Some (IOnClose c' r') | _, _ => None end
      else None
  | _ => None
  end.
Definition dec_ltag (o : obs) : option ltag :=
  match o with
  | OTag t => if t =? "read" then Some TRead else if t =? "blocked" then Some TBlocked
              else if t =? "ended" then Some TEnded else if t =? "opening" then Some TOpening else None
  | _ => None
  end.
Definition dec_snap (o : obs) : option snap :=
  match o with
  | OList [OBool a; OBool b; OBool c; OBool d; OBool e; t] =>
      match dec_ltag t with Some t' => Some (mksnap a b c d e t') | None => None end
  | _ => None
  end.
Fixpoint dec_list {A} (f : obs -> option A) (l : list obs) : option (list A) :=
  match l with
  | [] => Some []
  | x :: l' => match f x, dec_list f l' with Some a, Some r => Some (a :: r) | _, _ => None end
  end.
Definition dec_step (o : obs) : option (list item * snap) :=
  match o with
  | OList [OList its; n] =>
      match dec_list dec_item its, dec_snap n with Some i, Some n' => Some (i, n') | _, _ => None end
  | _ => None
  end.
Definition dec_trace (o : obs) : option trace :=
  match o with OList l => dec_list dec_step l | _ => None end.

(* ---- entry points ---- *)
Definition run_case (i : cfg * list event) : obs := enc_trace (run (fst i) (snd i)).

(* the property, applied to an observable (the implementation's, in the check) *)
Definition check_case (i : cfg * list event) (o : obs) : bool :=
  match dec_trace o with
  | Some t => check_trace (snd i) t
  | None => false
  end.
