(* C16 -- invariant preservation by the receive loop, the timers, write_message and
   close(); then by a whole step and a whole run. *)
From Coq Require Import List NArith Bool Btauto Lia.
Import ListNotations.
From TV Require Import Lib.Obs C16.Model C16.Spec C16.Inv.

Lemma Jb_intro : forall a s,
  a_echo a = None ->
  (a_sent a = true -> s_st s = true) ->
  (s_st s = true -> s_sc s = false -> a_sent a = true /\ s_wait s = true) ->
  (is_some (a_hc a) = true -> s_ct s = true) ->
  (s_ct s = true -> s_sc s = true) ->
  (s_st s = true -> pn (s_ping s) = true) ->
  (s_wait s = true -> pn (s_ping s) = true) ->
  a_fired a = ld (s_loop s) ->
  (s_called s = true -> a_fired a = true) ->
  (a_local a = true -> s_hconn s = false) ->
  (s_hconn s = false -> a_local a = true \/ s_sc s = true \/ s_st s = true) ->
  Jb a s = true.
Proof.
  intros a s H1 H2 H3 H4 H5 H6 H7 H8 H9 H10 H11.
  unfold Jb, ping_none, loop_done. rewrite H1, H8. cbn [is_some negb].
  rewrite !andb_true_iff. repeat split.
  - destruct (a_sent a); cbn; auto.
  - destruct (s_st s), (s_sc s); cbn; auto. destruct (H3 eq_refl eq_refl) as [-> ->]; auto.
  - destruct (is_some (a_hc a)); cbn; auto.
  - destruct (s_ct s); cbn; auto.
  - destruct (s_st s); cbn; auto.
  - destruct (s_wait s); cbn; auto.
  - apply eqb_reflx.
  - destruct (s_called s); cbn; auto. rewrite <- H8; auto.
  - destruct (a_local a); cbn; auto. rewrite H10; auto.
  - destruct (s_hconn s); cbn; auto. destruct (H11 eq_refl) as [-> | [-> | ->]]; cbn; auto; rewrite ?orb_true_r; auto.
Qed.

Lemma okstep_sc_true : forall a s, Jb a s = true -> Jd a s ->
  Jb a (set_sc true s) = true /\ Jd a (set_sc true s).
Proof.
  intros a s Hb Hd.
  destruct (Jb_parts _ _ Hb) as (P1 & P2 & P3 & P4 & P5 & P6 & P7 & P8 & P9 & P10 & P11).
  split; [|destruct s; exact Hd].
  apply Jb_intro; destruct s; cbn in *; auto; try (intros; discriminate).
Qed.

(* ---------- _receive_frame_loop ---------- *)
Lemma settle_ok : forall r q a s,
  Jb a s = true -> Jd a s ->
  exists a',
    let '(s', q', o) := settle r s q in
    mon_items a o = Some a' /\ Jb a' s' = true /\ Jd a' s'
    /\ a_sc a' = a_sc a /\ a_local a' = a_local a
    /\ (s_sc s = true -> s_sc s' = true)
    /\ (s_hconn s = false -> s_hconn s' = false)
    /\ quiet o
    /\ (s_loop s' = LRead -> s_sc s' = false).
Proof.
  intros r q. induction q as [|it q IH]; intros a s Hb Hd.
  - cbn [settle]. destruct (s_loop s) eqn:Hl.
    + exists a. cbn. repeat split; auto; try solve [unfold quiet in *; tauto]; try (intros E; rewrite E in Hl; discriminate).
    + destruct (s_ct s) eqn:Hct.
      * destruct (loop_finish_ok r a s Hb Hd Hl) as (a' & (H1 & H2 & H3 & H4 & H5 & H6 & H7 & H8) & H9).
        exists a'. destruct (loop_finish r s) as [s1 o]. cbn in *.
        repeat split; auto; try solve [unfold quiet in *; tauto]; try (intros E; rewrite E in H9; discriminate).
      * destruct (s_sc s) eqn:Hsc.
        -- destruct (abort_ok a s Hb Hd) as (Ab & Ad & Asc & Act & Alo & Aca & Ahc & _).
           rewrite <- Alo in Hl.
           destruct (loop_finish_ok r a (abort s) Ab Ad Hl) as (a' & (H1 & H2 & H3 & H4 & H5 & H6 & H7 & H8) & H9).
           exists a'. destruct (loop_finish r (abort s)) as [s1 o]. cbn in *.
           repeat split; auto; try solve [unfold quiet in *; tauto]; try (intros E; rewrite E in H9; discriminate).
           all: try (intros E; rewrite Ahc in H7; auto).
        -- exists a. cbn. repeat split; auto; try (intros; discriminate).
    + exists a. cbn. repeat split; auto; try solve [unfold quiet in *; tauto]; try (intros E; rewrite E in Hl; discriminate).
    + exists a. cbn. repeat split; auto; try solve [unfold quiet in *; tauto]; try (intros E; rewrite E in Hl; discriminate).
  - cbn [settle]. destruct (s_loop s) eqn:Hl.
    + exists a. cbn. repeat split; auto; try solve [unfold quiet in *; tauto]; try (intros E; rewrite E in Hl; discriminate).
    + destruct (s_ct s) eqn:Hct.
      * destruct (loop_finish_ok r a s Hb Hd Hl) as (a' & (H1 & H2 & H3 & H4 & H5 & H6 & H7 & H8) & H9).
        exists a'. destruct (loop_finish r s) as [s1 o]. cbn in *.
        repeat split; auto; try solve [unfold quiet in *; tauto]; try (intros E; rewrite E in H9; discriminate).
      * destruct (s_sc s) eqn:Hsc.
        -- destruct (abort_ok a s Hb Hd) as (Ab & Ad & Asc & Act & Alo & Aca & Ahc & _).
           rewrite <- Alo in Hl.
           destruct (loop_finish_ok r a (abort s) Ab Ad Hl) as (a' & (H1 & H2 & H3 & H4 & H5 & H6 & H7 & H8) & H9).
           exists a'. destruct (loop_finish r (abort s)) as [s1 o]. cbn in *.
           repeat split; auto; try solve [unfold quiet in *; tauto]; try (intros E; rewrite E in H9; discriminate).
           all: try (intros E; rewrite Ahc in H7; auto).
        -- (* take one item off the wire, then continue *)
           assert (exists a1, okstep a s (consume r it s) a1) as (a1 & K1 & K2 & K3 & K4 & K5 & K6 & K7 & K8).
           { destruct it as [f|]; cbn [consume].
             - destruct (handle_frame_ok r f a s Hb Hd Hl Hct Hsc) as (a1 & K & _). exists a1; exact K.
             - destruct (okstep_sc_true a s Hb Hd) as (B1 & B2).
               exists a. unfold okstep; cbn [fst snd mon_items].
               repeat split; auto; try (destruct s; cbn in *; auto; fail). }
           destruct (consume r it s) as [s1 o1]. cbn [fst snd] in *.
           destruct (IH a1 s1 K2 K3) as (a2 & IH2).
           exists a2. destruct (settle r s1 q) as [[s2 q2] o2].
           destruct IH2 as (L1 & L2 & L3 & L4 & L5 & L6 & L7 & L8 & L9).
           split; [rewrite (mon_items_app _ _ _ _ K1); exact L1|].
           repeat split; auto; try congruence; try solve [apply quiet_app; auto].
           all: try (destruct (quiet_app _ _ K8 L8) as (Q1 & Q2 & Q3); assumption).
    + exists a. cbn. repeat split; auto; try solve [unfold quiet in *; tauto]; try (intros E; rewrite E in Hl; discriminate).
    + exists a. cbn. repeat split; auto; try solve [unfold quiet in *; tauto]; try (intros E; rewrite E in Hl; discriminate).
Qed.
