(* C16 -- the inductive invariant relating the model state to the monitor state, and
   its preservation by every primitive of the model. *)
From Coq Require Import List NArith Arith Bool Btauto Lia.
Import ListNotations.
From TV Require Import Lib.Obs C16.Model C16.Spec.

Definition pn (p : pstate) : bool := match p with PNone => true | _ => false end.
Definition ld (l : lstate) : bool := match l with LDone => true | _ => false end.
Definition ping_none (s : state) := pn (s_ping s).
Definition loop_done (s : state) := ld (s_loop s).

(* control part (booleans) *)
Definition Jb (a : acc) (s : state) : bool :=
  implb (a_sent a) (s_st s)
  && implb (s_st s && negb (s_sc s)) (a_sent a && s_wait s)
  && implb (is_some (a_hc a)) (s_ct s)
  && implb (s_ct s) (s_sc s)
  && implb (s_st s) (ping_none s)
  && implb (s_wait s) (ping_none s)
  && Bool.eqb (a_fired a) (loop_done s)
  && implb (s_called s) (a_fired a)
  && implb (a_local a) (negb (s_hconn s))
  && implb (negb (s_hconn s)) (a_local a || s_sc s || s_st s)
  && negb (is_some (a_echo a)).

(* data part *)
Definition Jd (a : acc) (s : state) : Prop :=
  match a_hc a with
  | None => s_pcode s = None /\ s_preason s = None
  | Some p => s_pcode s = code_of p /\ s_preason s = reason_of p
  end.

Definition quiet (l : list item) : Prop := counts l = zeros.

Definition okstep (a : acc) (s : state) (r : state * list item) (a' : acc) : Prop :=
  mon_items a (snd r) = Some a' /\ Jb a' (fst r) = true /\ Jd a' (fst r)
  /\ a_sc a' = a_sc a /\ a_local a' = a_local a
  /\ (s_sc s = true -> s_sc (fst r) = true)
  /\ (s_hconn s = false -> s_hconn (fst r) = false)
  /\ quiet (snd r).

Lemma bimp : forall x y : bool, implb x y = true -> x = true -> y = true.
Proof. intros [] []; simpl; congruence. Qed.

Lemma oN_eqb_refl : forall x, oN_eqb x x = true.
Proof. intros [x|]; simpl; auto. apply N.eqb_refl. Qed.
Lemma list_eqb_refl : forall l : list N, list_eqb N.eqb l l = true.
Proof. induction l; simpl; auto. rewrite N.eqb_refl; auto. Qed.
Lemma oL_eqb_refl : forall x, oL_eqb x x = true.
Proof. intros [x|]; simpl; auto. apply list_eqb_refl. Qed.

Lemma mon_items_app : forall l1 l2 a a1,
  mon_items a l1 = Some a1 -> mon_items a (l1 ++ l2) = mon_items a1 l2.
Proof.
  induction l1 as [|i l1 IH]; intros l2 a a1 H; simpl in *.
  - inversion H; auto.
  - destruct (mon_item a i) as [a2|]; try discriminate. eauto.
Qed.

Lemma cnt_app : forall f l1 l2, cnt f (l1 ++ l2) = (cnt f l1 + cnt f l2)%nat.
Proof. intros. unfold cnt. rewrite filter_app, app_length. reflexivity. Qed.
Lemma counts_app_quiet : forall l1 l2, quiet l2 -> counts (l1 ++ l2) = counts l1.
Proof.
  unfold quiet, counts, zeros; intros l1 l2 H.
  injection H as H1 H2 H3 H4 H5 H6.
  rewrite !cnt_app, H1, H2, H3, H4, H5, H6, !Nat.add_0_r. reflexivity.
Qed.
Lemma quiet_app : forall l1 l2, quiet l1 -> quiet l2 -> quiet (l1 ++ l2).
Proof. intros l1 l2 A B. unfold quiet. rewrite (counts_app_quiet _ _ B). exact A. Qed.
Lemma quiet_nil : quiet [].
Proof. reflexivity. Qed.

(* solve  Jb new = true  from  H : Jb old = true : case analysis on the boolean atoms, one at
   a time, pruning the cases excluded by H as early as possible *)
Ltac bstep :=
  match goal with
  | |- context [is_some ?x] => is_var x; destruct x
  | |- context [pn ?x] => is_var x; destruct (pn x)
  | |- context [ld ?x] => is_var x; destruct (ld x)
  | |- context [if ?b then _ else _] => is_var b; destruct b
  | |- context [negb ?b] => is_var b; destruct b
  | |- context [andb ?b _] => is_var b; destruct b
  | |- context [orb ?b _] => is_var b; destruct b
  | |- context [andb _ ?b] => is_var b; destruct b
  | |- context [orb _ ?b] => is_var b; destruct b
  end.
Ltac bsolve H :=
  revert H;
  unfold Jb, ping_none, loop_done, implb, Bool.eqb;
  cbn [s_ct s_st s_sc s_wait s_pcode s_preason s_ping s_pong s_loop s_hconn s_called s_hcode s_hreason a_sent a_hc a_fired a_local a_sc a_echo is_some pn ld negb andb orb];
  repeat (first [ solve [intros; reflexivity] | solve [intros; discriminate] | bstep;
                  cbn [is_some pn ld negb andb orb] ]);
  try solve [intros; reflexivity]; try solve [intros; discriminate].

Ltac brk :=
  repeat match goal with
         | s : state |- _ => destruct s as [s_ct0 s_st0 s_sc0 s_wait0 s_pcode0 s_preason0 s_ping0 s_pong0 s_loop0 s_hconn0 s_called0 s_hcode0 s_hreason0]
         | a : acc |- _ => destruct a as [a_sent0 a_hc0 a_fired0 a_local0 a_sc0 a_echo0]
         end.

Ltac unf := cbv beta iota delta [set_ct set_st set_sc set_wait set_pcode set_preason set_ping set_pong set_loop set_hconn set_called set_hclose s_ct s_st s_sc s_wait s_pcode s_preason s_ping s_pong s_loop s_hconn s_called s_hcode s_hreason fst snd] in *.

Ltac brk' := brk; unf.

Ltac fin Hb Hd :=
  unf; cbn in *;
  first [ reflexivity | assumption | solve [intros; congruence] | solve [destruct Hd; auto]
        | solve [bsolve Hb] | idtac ].

Lemma Jb_parts : forall a s, Jb a s = true ->
  a_echo a = None
  /\ (a_sent a = true -> s_st s = true)
  /\ (s_st s = true -> s_sc s = false -> a_sent a = true /\ s_wait s = true)
  /\ (is_some (a_hc a) = true -> s_ct s = true)
  /\ (s_ct s = true -> s_sc s = true)
  /\ (s_st s = true -> pn (s_ping s) = true)
  /\ (s_wait s = true -> pn (s_ping s) = true)
  /\ a_fired a = ld (s_loop s)
  /\ (s_called s = true -> a_fired a = true)
  /\ (a_local a = true -> s_hconn s = false)
  /\ (s_hconn s = false -> a_local a = true \/ s_sc s = true \/ s_st s = true).
Proof.
  intros a s H. unfold Jb, ping_none, loop_done in H. rewrite !andb_true_iff in H.
  destruct H as ((((((((((H1 & H2) & H3) & H4) & H5) & H6) & H7) & H8) & H9) & H10) & H11).
  repeat split.
  - destruct (a_echo a); simpl in *; auto; discriminate.
  - intros E; rewrite E in H1; simpl in H1; auto.
  - destruct (s_st s), (s_sc s), (a_sent a); simpl in *; auto; discriminate.
  - destruct (s_st s), (s_sc s), (a_sent a), (s_wait s); simpl in *; auto; discriminate.
  - intros E; rewrite E in H3; auto.
  - intros E; rewrite E in H4; auto.
  - intros E; rewrite E in H5; auto.
  - intros E; rewrite E in H6; auto.
  - apply eqb_prop; auto.
  - intros E; rewrite E in H8; auto.
  - intros E; rewrite E in H9; simpl in H9. destruct (s_hconn s); auto; discriminate.
  - intros E; rewrite E in H10; simpl in H10. rewrite !orb_true_iff in H10. tauto.
Qed.

Ltac fin0 Hb :=
  unf; cbn in *;
  first [ reflexivity | assumption | solve [intros; congruence] | solve [auto]
        | solve [bsolve Hb] | idtac ].

(* ---------- proto_close ---------- *)
Lemma proto_close_ok : forall code reason a s,
  Jb a s = true -> Jd a s ->
  exists a', okstep a s (proto_close code reason s) a'
             /\ a_hc a' = a_hc a /\ a_fired a' = a_fired a
             /\ s_loop (fst (proto_close code reason s)) = s_loop s
             /\ s_called (fst (proto_close code reason s)) = s_called s
             /\ s_ct (fst (proto_close code reason s)) = s_ct s
             /\ (s_ct s = true -> s_sc (fst (proto_close code reason s)) = true).
Proof.
  intros code reason a s Hb Hd.
  destruct (Jb_parts _ _ Hb) as (He & Hs & _). brk. cbn in He, Hs. subst a_echo0.
  unfold proto_close, okstep. unf.
  destruct s_st0, s_sc0, s_ct0, s_wait0, a_sent0; try (specialize (Hs eq_refl); discriminate);
    (eexists; repeat split; fin Hb Hd).
Qed.

(* ---------- _abort ---------- *)
Lemma abort_eq : forall s,
  abort s = set_ping PNone (set_wait false (set_sc true (set_st true (set_ct true s)))).
Proof. intros s. destruct s; unfold abort, proto_close; unf; cbn. reflexivity. Qed.

Lemma abort_ok : forall a s,
  Jb a s = true -> Jd a s ->
  Jb a (abort s) = true /\ Jd a (abort s)
  /\ s_sc (abort s) = true /\ s_ct (abort s) = true
  /\ s_loop (abort s) = s_loop s /\ s_called (abort s) = s_called s /\ s_hconn (abort s) = s_hconn s
  /\ s_pcode (abort s) = s_pcode s /\ s_preason (abort s) = s_preason s.
Proof.
  intros a s Hb Hd. rewrite abort_eq. brk. unf. repeat split; fin Hb Hd.
Qed.

(* ---------- end of the receive loop: the close notification ---------- *)
Lemma loop_finish_ok : forall r a s,
  Jb a s = true -> Jd a s -> s_loop s = LRead ->
  exists a', okstep a s (loop_finish r s) a' /\ s_loop (fst (loop_finish r s)) = LDone.
Proof.
  intros r a s Hb Hd Hl.
  destruct (Jb_parts _ _ Hb) as (He & _ & _ & _ & _ & _ & _ & Hf & Hc & _ & Hh).
  rewrite Hl in Hf. cbn in Hf.
  assert (Hcal : s_called s = false) by (destruct (s_called s); auto; specialize (Hc eq_refl); congruence).
  brk. cbn in He, Hf, Hcal, Hl. subst.
  unfold loop_finish, notify, okstep, abort, proto_close. unf.
  destruct r, s_hconn0; unf; cbn;
    (destruct a_hc0 as [p|]; destruct Hd as [Hd1 Hd2]; cbn in Hd1, Hd2; subst; cbn;
     rewrite ?oN_eqb_refl, ?oL_eqb_refl; cbn;
     (eexists; repeat split; fin0 Hb)).
Qed.

(* ---------- one frame taken off the wire ---------- *)
Lemma handle_frame_ok : forall r f a s,
  Jb a s = true -> Jd a s -> s_loop s = LRead -> s_ct s = false -> s_sc s = false ->
  exists a', okstep a s (handle_frame r f s) a'
             /\ (s_loop (fst (handle_frame r f s)) = LRead \/ s_loop (fst (handle_frame r f s)) = LBlocked).
Proof.
  intros r f a s Hb Hd Hl Hct Hsc.
  destruct (Jb_parts _ _ Hb) as (He & Hs & Hs2 & Hhc & _).
  brk. cbn in He, Hs, Hs2, Hhc, Hl, Hct, Hsc. subst.
  assert (a_hc0 = None) by (destruct a_hc0; auto; specialize (Hhc eq_refl); discriminate). subst.
  destruct Hd as [Hd1 Hd2]; cbn in Hd1, Hd2; subst.
  unfold handle_frame, okstep, abort, proto_close.
  destruct s_st0, a_sent0;
    try (specialize (Hs eq_refl); discriminate);
    try (destruct (Hs2 eq_refl eq_refl); discriminate);
    (destruct f as [p|k| | | |];
     [ destruct p as [|b|c rs|c]; [ | | destruct rs | ]
     | destruct k
     | | | | ];
     unf; destruct s_wait0; unf; cbn; rewrite ?oN_eqb_refl, ?N.eqb_refl; cbn;
     (eexists; split; [repeat split; fin0 Hb | auto])).
Qed.
