(* C16 -- what acceptance by the monitor means: Prop-level consequences for ANY trace
   (the model's or the implementation's), and the codec round trip. *)
From Coq Require Import List NArith ZArith Arith Bool String Lia.
Import ListNotations.
From TV Require Import Lib.Obs C16.Model C16.Spec C16.Run.

(* ---------- summaries: the monitor state is a function of the history ---------- *)
Lemma mon_item_summary : forall a i a',
  mon_item a i = Some a' ->
  a_sent a' = a_sent a || is_sclose i
  /\ a_hc a' = or_else (a_hc a) (first_hc [i])
  /\ a_fired a' = a_fired a || is_onclose i
  /\ a_local a' = a_local a /\ a_sc a' = a_sc a.
Proof.
  intros a i a' H. destruct a as [sent hc fired loc sc echo].
  assert (D : forall x : option cpay, or_else x None = x) by (intros [x|]; reflexivity).
  destruct i as [[c r| | |]|[p|k| | | |]| |c r| | | | | |]; cbn in H; cbn [first_hc is_sclose is_onclose];
    try (inversion H; subst; cbn; rewrite ?D, ?orb_false_r; repeat split; auto; fail).
  - destruct sent; try discriminate. destruct echo as [e|].
    + destruct (oN_eqb c e && is_nil r); inversion H; subst; cbn; rewrite ?D, ?orb_false_r; repeat split; auto.
    + inversion H; subst; cbn; rewrite ?D, ?orb_false_r; repeat split; auto.
  - destruct sent; inversion H; subst; cbn; rewrite ?D, ?orb_false_r; repeat split; auto.
  - destruct sent; inversion H; subst; cbn; rewrite ?D, ?orb_false_r; repeat split; auto.
  - destruct hc; inversion H; subst; cbn; rewrite ?orb_false_r; repeat split; auto.
  - destruct fired; try discriminate.
    destruct (match hc with Some p => (code_of p, reason_of p) | None => (None, None) end) as [ec er].
    destruct (oN_eqb c ec && oL_eqb r er); inversion H; subst; cbn; rewrite ?D, ?orb_false_r; repeat split; auto.
Qed.

Lemma or_else_assoc : forall (a b c : option cpay), or_else (or_else a b) c = or_else a (or_else b c).
Proof. intros [a|] [b|] [c|]; reflexivity. Qed.
Lemma first_hc_app : forall l1 l2, first_hc (l1 ++ l2) = or_else (first_hc l1) (first_hc l2).
Proof.
  induction l1 as [|i l1 IH]; intros l2; cbn [app first_hc]; auto.
  destruct i as [f|f| | | | | | | |]; auto. destruct f; auto.
Qed.

Lemma mon_items_summary : forall l a a',
  mon_items a l = Some a' ->
  a_sent a' = a_sent a || existsb is_sclose l
  /\ a_hc a' = or_else (a_hc a) (first_hc l)
  /\ a_fired a' = a_fired a || existsb is_onclose l
  /\ a_local a' = a_local a /\ a_sc a' = a_sc a.
Proof.
  induction l as [|i l IH]; intros a a' H; cbn [mon_items] in H.
  - inversion H; subst. cbn. rewrite !orb_false_r. destruct (a_hc a'); auto.
  - destruct (mon_item a i) as [a1|] eqn:E; try discriminate.
    destruct (mon_item_summary _ _ _ E) as (A1 & A2 & A3 & A4 & A5).
    destruct (IH _ _ H) as (B1 & B2 & B3 & B4 & B5).
    change (i :: l) with ([i] ++ l). rewrite first_hc_app.
    cbn [app existsb]. rewrite B1, B2, B3, B4, B5, A1, A2, A3, A4, A5.
    rewrite !orb_assoc, or_else_assoc. auto.
Qed.

(* the monitor never accepts a second Close frame or a data frame once ours is out *)
Lemma mon_items_after_sent : forall l a a',
  mon_items a l = Some a' -> a_sent a = true ->
  existsb is_sclose l = false /\ existsb is_data l = false /\ existsb is_sping l = false.
Proof.
  induction l as [|i l IH]; intros a a' H Hs; cbn [mon_items] in H; auto.
  destruct (mon_item a i) as [a1|] eqn:E; try discriminate.
  destruct (mon_item_summary _ _ _ E) as (A1 & _).
  assert (Hs1 : a_sent a1 = true) by (rewrite A1, Hs; reflexivity).
  destruct (IH _ _ H Hs1) as (B1 & B2 & B3). cbn [existsb]. rewrite B1, B2, B3, !orb_false_r.
  destruct a as [sent hc fired loc sc echo]; cbn in Hs; subst.
  destruct i as [[c r| | |]|f| |c r| | | | | |]; cbn in E |- *; auto; discriminate.
Qed.

(* ... nor a second close notification *)
Lemma mon_items_after_fired : forall l a a',
  mon_items a l = Some a' -> a_fired a = true -> existsb is_onclose l = false.
Proof.
  induction l as [|i l IH]; intros a a' H Hs; cbn [mon_items] in H; auto.
  destruct (mon_item a i) as [a1|] eqn:E; try discriminate.
  destruct (mon_item_summary _ _ _ E) as (_ & _ & A3 & _).
  assert (Hs1 : a_fired a1 = true) by (rewrite A3, Hs; reflexivity).
  cbn [existsb]. rewrite (IH _ _ H Hs1), orb_false_r.
  destruct a as [sent hc fired loc sc echo]; cbn in Hs; subst.
  destruct i as [f|f| |c r| | | | | |]; cbn in E |- *; auto; discriminate.
Qed.

Lemma mon_items_split : forall l1 l2 a a',
  mon_items a (l1 ++ l2) = Some a' ->
  exists a1, mon_items a l1 = Some a1 /\ mon_items a1 l2 = Some a'.
Proof.
  induction l1 as [|i l1 IH]; intros l2 a a' H; cbn in *.
  - eauto.
  - destruct (mon_item a i); try discriminate. eauto.
Qed.

(* the notification carries the first received Close *)
Lemma mon_items_onclose_args : forall l1 c r l2 a a',
  mon_items a (l1 ++ IOnClose c r :: l2) = Some a' ->
  match or_else (a_hc a) (first_hc l1) with
  | Some p => c = code_of p /\ r = reason_of p
  | None => c = None /\ r = None
  end.
Proof.
  intros l1 c r l2 a a' H.
  destruct (mon_items_split _ _ _ _ H) as (a1 & E1 & H').
  destruct (mon_items_summary _ _ _ E1) as (_ & A2 & _). rewrite <- A2.
  cbn [mon_items mon_item] in H'.
  destruct (a_fired a1); try discriminate.
  destruct (a_hc a1) as [p|].
  - destruct (oN_eqb c (code_of p) && oL_eqb r (reason_of p)) eqn:E; try discriminate.
    apply andb_true_iff in E as [E2 E3]. split.
    + destruct c, (code_of p); cbn in E2; try discriminate; auto. apply N.eqb_eq in E2; congruence.
    + destruct r, (reason_of p); cbn in E3; try discriminate; auto.
      f_equal. apply (list_eqb_sound N.eqb); auto. intros x y Hxy; apply N.eqb_eq; auto.
  - destruct (oN_eqb c None && oL_eqb r None) eqn:E; try discriminate.
    apply andb_true_iff in E as [E2 E3]. destruct c, r; cbn in *; try discriminate; auto.
Qed.

(* ---------- flattening: the per-item part of the monitor ignores a_local / a_sc ---------- *)
Definition with_ls (l c : bool) (a : acc) : acc :=
  mkacc (a_sent a) (a_hc a) (a_fired a) l c (a_echo a).

Lemma mon_item_ls : forall a i l c,
  mon_item (with_ls l c a) i = option_map (with_ls l c) (mon_item a i).
Proof.
  intros [sent hc fired loc sc echo] i l c.
  destruct i as [[cc r| | |]|[p|k| | | |]| |cc r| | | | | |]; cbn; auto.
  - destruct sent; auto. destruct echo; auto. destruct (oN_eqb cc o && is_nil r); auto.
  - destruct sent; auto.
  - destruct sent; auto.
  - destruct hc; auto.
  - destruct fired; auto.
    destruct (match hc with Some p => (code_of p, reason_of p) | None => (None, None) end) as [ec er].
    destruct (oN_eqb cc ec && oL_eqb r er); auto.
Qed.

Lemma mon_items_ls : forall its a l c,
  mon_items (with_ls l c a) its = option_map (with_ls l c) (mon_items a its).
Proof.
  induction its as [|i its IH]; intros a l c; cbn [mon_items]; auto.
  rewrite mon_item_ls. destruct (mon_item a i); cbn; auto.
Qed.

Lemma mon_step_inv : forall a e its n a1,
  mon_step a e (its, n) = Some a1 ->
  exists b, mon_items a its = Some b /\ a1 = with_ls (a_local a || is_close_ev e) (n_sc n) b.
Proof.
  intros a e its n a1 H. unfold mon_step in H.
  assert (E : note_event e a = with_ls (a_local a || is_close_ev e) (a_sc a) a) by (destruct a; reflexivity).
  rewrite E, mon_items_ls in H.
  destruct (mon_items a its) as [b|]; cbn in H; try discriminate.
  match type of H with (if ?c then _ else _) = _ => destruct c end; try discriminate.
  inversion H. exists b. split; auto.
Qed.

Lemma mon_items_join : forall l1 l2 a a1,
  mon_items a l1 = Some a1 -> mon_items a (l1 ++ l2) = mon_items a1 l2.
Proof.
  induction l1 as [|i l1 IH]; intros l2 a a1 H; cbn in *.
  - inversion H; auto.
  - destruct (mon_item a i); try discriminate. eauto.
Qed.

Lemma mon_run_flat : forall evs t a a',
  mon_run a evs t = Some a' ->
  exists b, mon_items a (items_of t) = Some b /\ a' = with_ls (a_local a') (a_sc a') b.
Proof.
  induction evs as [|e evs IH]; intros t a a' H; destruct t as [|[its n] t]; cbn [mon_run] in H; try discriminate.
  - inversion H; subst. exists a'. split; auto. destruct a'; reflexivity.
  - destruct (mon_step a e (its, n)) as [a1|] eqn:E; try discriminate.
    destruct (mon_step_inv _ _ _ _ _ E) as (b0 & B1 & B2).
    destruct (IH _ _ _ H) as (b1 & C1 & C2).
    subst a1. rewrite mon_items_ls in C1.
    destruct (mon_items b0 (items_of t)) as [b2|] eqn:E2; cbn in C1; try discriminate.
    inversion C1; subst b1.
    exists b2. split.
    + change (items_of ((its, n) :: t)) with (its ++ items_of t).
      rewrite (mon_items_join _ _ _ _ B1). exact E2.
    + rewrite C2. destruct b2; reflexivity.
Qed.

(* ---------- Prop-level meaning of acceptance, for any trace ---------- *)

(* at most one Close frame, and no data frame after it *)
Theorem accepted_close_once_then_silent : forall evs t l1 c r l2,
  check_trace evs t = true ->
  items_of t = l1 ++ ISent (SClose c r) :: l2 ->
  existsb is_sclose l1 = false /\ existsb is_sclose l2 = false /\ existsb is_data l2 = false
  /\ existsb is_sping l2 = false.
Proof.
  intros evs t l1 c r l2 H E. unfold check_trace in H.
  destruct (mon_run acc0 evs t) as [a'|] eqn:R; try discriminate.
  destruct (mon_run_flat _ _ _ _ R) as (b & B & _). rewrite E in B.
  destruct (mon_items_split _ _ _ _ B) as (a1 & E1 & E2).
  cbn [mon_items] in E2.
  destruct (mon_item a1 (ISent (SClose c r))) as [a2|] eqn:E3; try discriminate.
  destruct (mon_items_summary _ _ _ E1) as (S1 & _).
  destruct (mon_item_summary _ _ _ E3) as (S2 & _).
  assert (a_sent a1 = false) by (destruct a1 as [[] ? ? ? ? ?]; cbn in E3; auto; discriminate).
  split.
  - rewrite H0 in S1. cbn in S1. auto.
  - apply (mon_items_after_sent _ _ _ E2). rewrite S2. cbn. apply orb_true_r.
Qed.

(* the close notification is delivered at most once and carries the first received Close *)
Theorem accepted_on_close_once_with_peer_code : forall evs t l1 c r l2,
  check_trace evs t = true ->
  items_of t = l1 ++ IOnClose c r :: l2 ->
  existsb is_onclose l1 = false /\ existsb is_onclose l2 = false
  /\ match first_hc l1 with
     | Some p => c = code_of p /\ r = reason_of p
     | None => c = None /\ r = None
     end.
Proof.
  intros evs t l1 c r l2 H E. unfold check_trace in H.
  destruct (mon_run acc0 evs t) as [a'|] eqn:R; try discriminate.
  destruct (mon_run_flat _ _ _ _ R) as (b & B & _). rewrite E in B.
  assert (A := mon_items_onclose_args _ _ _ _ _ _ B). cbn in A.
  destruct (mon_items_split _ _ _ _ B) as (a1 & E1 & E2).
  cbn [mon_items] in E2.
  destruct (mon_item a1 (IOnClose c r)) as [a2|] eqn:E3; try discriminate.
  destruct (mon_items_summary _ _ _ E1) as (_ & _ & S1 & _).
  destruct (mon_item_summary _ _ _ E3) as (_ & _ & S2 & _).
  assert (a_fired a1 = false) by (destruct a1 as [? ? [] ? ? ?]; cbn in E3; auto; discriminate).
  repeat split; auto.
  - rewrite H0 in S1. cbn in S1. auto.
  - apply (mon_items_after_fired _ _ _ E2). rewrite S2. cbn. apply orb_true_r.
Qed.

(* ---------- the rest of the monitor state as a function of the history ---------- *)
Lemma mon_run_ls : forall evs t a a',
  mon_run a evs t = Some a' ->
  a_local a' = a_local a || existsb is_close_ev evs /\ a_sc a' = last_sc (a_sc a) t.
Proof.
  induction evs as [|e evs IH]; intros t a a' H; destruct t as [|[its n] t]; cbn [mon_run] in H; try discriminate.
  - inversion H; subst. cbn. rewrite orb_false_r. auto.
  - destruct (mon_step a e (its, n)) as [a1|] eqn:E; try discriminate.
    destruct (mon_step_inv _ _ _ _ _ E) as (b0 & B1 & B2).
    destruct (IH _ _ _ H) as (C1 & C2). subst a1. cbn in C1, C2.
    cbn [existsb last_sc]. rewrite C1, C2, orb_assoc. auto.
Qed.

Lemma is_some_first_hc : forall l, is_some (first_hc l) = existsb is_hclose l.
Proof.
  induction l as [|i l IH]; cbn [first_hc existsb]; auto.
  destruct i as [f|f| | | | | | | |]; cbn; auto. destruct f; cbn; auto.
Qed.

Lemma accepted_summary : forall evs t a,
  mon_run acc0 evs t = Some a ->
  a_sent a = existsb is_sclose (items_of t)
  /\ is_some (a_hc a) = existsb is_hclose (items_of t)
  /\ a_fired a = existsb is_onclose (items_of t)
  /\ a_local a = existsb is_close_ev evs
  /\ a_sc a = last_sc false t.
Proof.
  intros evs t a R.
  destruct (mon_run_flat _ _ _ _ R) as (b & B & E).
  destruct (mon_items_summary _ _ _ B) as (S1 & S2 & S3 & _).
  destruct (mon_run_ls _ _ _ _ R) as (L1 & L2).
  cbn in S1, S2, S3, L1, L2.
  rewrite E. cbn [with_ls a_sent a_hc a_fired a_local a_sc].
  rewrite S1, S2, S3, is_some_first_hc. auto.
Qed.

Lemma closing_summary : forall evs t a,
  mon_run acc0 evs t = Some a -> closing a = closing_obs evs t.
Proof.
  intros evs t a R. destruct (accepted_summary _ _ _ R) as (S1 & S2 & S3 & S4 & S5).
  unfold closing, closing_obs. rewrite S1, S2, S4, S5. reflexivity.
Qed.

(* what one accepted step guarantees *)
Lemma mon_step_facts : forall a e its n a',
  mon_step a e (its, n) = Some a' ->
  (e = ETick -> a_sent a = true -> n_sc n = true)
  /\ (a_sc a = true -> n_sc n = true)
  /\ counts its = expected e a.
Proof.
  intros a e its n a' H. unfold mon_step in H.
  destruct (mon_items (note_event e a) its) as [a1|]; try discriminate.
  match type of H with (if ?c then _ else _) = _ => destruct c eqn:C end; try discriminate.
  rewrite !andb_true_iff in C. destruct C as (((((C1 & C2) & C3) & C4) & C5) & C6).
  repeat split; intros; subst.
  - rewrite H1 in C3. exact C3.
  - rewrite H0 in C5. exact C5.
  - apply (list_eqb_sound Nat.eqb); auto. intros x y Hxy. apply Nat.eqb_eq; auto.
Qed.

(* ---------- the echo ---------- *)
Lemma oN_eqb_eq : forall a b, oN_eqb a b = true -> a = b.
Proof. intros [a|] [b|] H; cbn in H; try discriminate; auto. apply N.eqb_eq in H; congruence. Qed.

Lemma mon_items_echo_pending : forall l a b e,
  mon_items a l = Some b -> a_echo a = Some e -> a_sent a = false -> is_some (a_hc a) = true ->
  a_echo b = None ->
  exists l3 l4, l = l3 ++ ISent (SClose e []) :: l4 /\ existsb is_sclose l3 = false.
Proof.
  induction l as [|i l IH]; intros a b e H He Hs Hh Hb; cbn [mon_items] in H.
  - inversion H; subst. congruence.
  - destruct (mon_item a i) as [a1|] eqn:E; try discriminate.
    destruct a as [sent hc fired loc sc echo]. cbn in He, Hs, Hh. subst.
    destruct hc as [p0|]; try discriminate.
    assert (K : forall a1', a1' = mkacc false (Some p0) (a_fired a1') loc sc (Some e) ->
                mon_items a1' l = Some b -> is_sclose i = false ->
                exists l3 l4, i :: l = l3 ++ ISent (SClose e []) :: l4 /\ existsb is_sclose l3 = false).
    { intros a1' Ha H1 Hi. destruct (IH a1' b e H1) as (l3 & l4 & L1 & L2); try (rewrite Ha; reflexivity); auto.
      exists (i :: l3), l4. split; [rewrite L1; reflexivity | cbn; rewrite Hi; exact L2]. }
    destruct i as [[c r| | |]|[p|k| | | |]| |c r| | | | | |]; cbn in E;
      try (inversion E; subst a1; apply (K _ eq_refl H eq_refl)).
    + (* our Close frame *)
      destruct (oN_eqb c e && is_nil r) eqn:C; try discriminate.
      apply andb_true_iff in C as [C1 C2]. apply oN_eqb_eq in C1. subst c.
      destruct r; try discriminate.
      exists [], l. split; auto.
    + destruct fired; try discriminate.
      destruct (oN_eqb c (code_of p0) && oL_eqb r (reason_of p0)); try discriminate.
      inversion E; subst a1. apply (K _ eq_refl H eq_refl).
Qed.

Lemma mon_run_echo_none : forall evs t a a',
  mon_run a evs t = Some a' -> a_echo a = None -> a_echo a' = None.
Proof.
  induction evs as [|e evs IH]; intros t a a' H Ha; destruct t as [|[its n] t]; cbn [mon_run] in H; try discriminate.
  - inversion H; subst; auto.
  - destruct (mon_step a e (its, n)) as [a1|] eqn:E; try discriminate.
    apply (IH _ _ _ H).
    unfold mon_step in E. destruct (mon_items (note_event e a) its) as [a2|]; try discriminate.
    match type of E with (if ?c then _ else _) = _ => destruct c eqn:C end; try discriminate.
    rewrite !andb_true_iff in C. destruct C as (((((C1 & _) & _) & _) & _) & _).
    inversion E; subst a1. cbn. destruct (a_echo a2); cbn in C1; auto; discriminate.
Qed.

(* when the first Close frame of the peer is taken off the wire and ours has not been sent,
   ours follows -- before any other Close frame -- with the peer's code and no reason *)
Theorem accepted_echo : forall evs t l1 p l2,
  check_trace evs t = true ->
  items_of t = l1 ++ IHandled (FClose p) :: l2 ->
  first_hc l1 = None -> existsb is_sclose l1 = false ->
  exists l3 l4, l2 = l3 ++ ISent (SClose (code_of p) []) :: l4 /\ existsb is_sclose l3 = false.
Proof.
  intros evs t l1 p l2 H E Hh Hs. unfold check_trace in H.
  destruct (mon_run acc0 evs t) as [a'|] eqn:R; try discriminate.
  pose proof (mon_run_echo_none _ _ _ _ R eq_refl) as En.
  destruct (mon_run_flat _ _ _ _ R) as (b & B & Eb).
  assert (Enb : a_echo b = None) by (rewrite Eb in En; exact En).
  rewrite E in B.
  destruct (mon_items_split _ _ _ _ B) as (a1 & E1 & E2).
  destruct (mon_items_summary _ _ _ E1) as (S1 & S2 & _).
  cbn in S1, S2. rewrite Hs in S1. rewrite Hh in S2.
  cbn [mon_items] in E2.
  destruct (mon_item a1 (IHandled (FClose p))) as [a2|] eqn:E3; try discriminate.
  destruct a1 as [sent hc fired loc sc echo]. cbn in S1, S2. subst. cbn in E3. inversion E3; subst a2.
  apply (mon_items_echo_pending _ _ _ _ E2); auto.
Qed.
