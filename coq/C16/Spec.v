(* C16 -- the property as an online monitor over what is observed (frames put on the
   wire, frames taken off the wire, application callbacks, write_message results and
   a few flags after every event).  Independent of the model: it never looks at the
   protocol state machine, only at observations.  Definitions only. *)
From Coq Require Import List NArith Bool.
Import ListNotations.
From TV Require Import Lib.Obs C16.Model.
Local Open Scope N_scope.

Definition oN_eqb (a b : option N) : bool :=
  match a, b with Some x, Some y => x =? y | None, None => true | _, _ => false end.
Definition oL_eqb (a b : option (list N)) : bool :=
  match a, b with Some x, Some y => list_eqb N.eqb x y | None, None => true | _, _ => false end.
Definition is_nil {A} (l : list A) : bool := match l with [] => true | _ => false end.
Definition is_some {A} (o : option A) : bool := match o with Some _ => true | None => false end.

(* what a peer Close payload announces *)
Definition code_of (p : cpay) : option N :=
  match p with CPCode c _ | CPBadUtf8 c => Some c | _ => None end.
Definition reason_of (p : cpay) : option (list N) :=
  match p with
  | CPCode _ (x :: r) => Some (x :: r)
  | CPBadUtf8 _ => Some bad_reason_decoded     (* undecodable bytes are reported as U+FFFD *)
  | _ => None
  end.

Record acc := mkacc {
  a_sent : bool;               (* we have put a Close frame on the wire *)
  a_hc : option cpay;          (* first Close frame taken off the wire *)
  a_fired : bool;              (* the close notification was delivered *)
  a_local : bool;              (* the application called close() *)
  a_sc : bool;                 (* the TCP stream was down after the previous event *)
  a_echo : option (option N)   (* a Close was received and ours must now follow with this code *)
}.
Definition acc0 : acc := mkacc false None false false false None.

Definition mon_item (a : acc) (it : item) : option acc :=
  match it with
  | ISent (SClose c r) =>
      if a_sent a then None                                   (* at most one Close frame *)
      else match a_echo a with
           | Some e =>
               if oN_eqb c e && is_nil r                      (* the echo carries the peer's code *)
               then Some (mkacc true (a_hc a) (a_fired a) (a_local a) (a_sc a) None)
               else None
           | None => Some (mkacc true (a_hc a) (a_fired a) (a_local a) (a_sc a) None)
           end
  | ISent SData => if a_sent a then None else Some a          (* no data frame after our Close *)
  | ISent SPing => if a_sent a then None else Some a          (* nor a ping *)
  | ISent SPong => Some a
  | IHandled (FClose p) =>
      match a_hc a with
      | Some _ => Some a
      | None => Some (mkacc (a_sent a) (Some p) (a_fired a) (a_local a) (a_sc a)
                            (if a_sent a then None else Some (code_of p)))
      end
  | IOnClose c r =>
      if a_fired a then None                                  (* never twice *)
      else
        let '(ec, er) := match a_hc a with
                         | Some p => (code_of p, reason_of p)
                         | None => (None, None)
                         end in
        if oN_eqb c ec && oL_eqb r er                         (* the peer's code and reason *)
        then Some (mkacc (a_sent a) (a_hc a) true (a_local a) (a_sc a) (a_echo a))
        else None
  | _ => Some a
  end.

Fixpoint mon_items (a : acc) (l : list item) : option acc :=
  match l with
  | [] => Some a
  | it :: l' => match mon_item a it with Some a' => mon_items a' l' | None => None end
  end.

Definition is_wok (i : item) := match i with IWriteOk => true | _ => false end.
Definition is_werr (i : item) := match i with IWriteErr => true | _ => false end.
Definition is_data (i : item) := match i with ISent SData => true | _ => false end.
Definition is_pok (i : item) := match i with IPingOk => true | _ => false end.
Definition is_perr (i : item) := match i with IPingErr => true | _ => false end.
Definition is_cerr (i : item) := match i with ICloseErr => true | _ => false end.
Definition cnt (f : item -> bool) (l : list item) : nat := length (filter f l).
(* how often each application-call outcome / data frame occurs in a step *)
Definition counts (l : list item) : list nat :=
  [cnt is_wok l; cnt is_werr l; cnt is_data l; cnt is_pok l; cnt is_perr l; cnt is_cerr l].
Definition zeros : list nat := [0; 0; 0; 0; 0; 0]%nat.

(* "closing", as the application can know it *)
Definition closing (a : acc) : bool := a_sent a || is_some (a_hc a) || a_sc a || a_local a.

(* a coroutine of the application (on_message, or open()) is pending: the receive loop cannot run *)
Definition is_blocked (t : ltag) := match t with TBlocked | TOpening => true | _ => false end.
(* the application closed: close() was called with arguments a Close frame can be built from *)
Definition is_close_ev (e : event) :=
  match e with ELocalClose c r => close_args_ok c r | _ => false end.

Definition note_event (e : event) (a : acc) : acc :=
  mkacc (a_sent a) (a_hc a) (a_fired a) (a_local a || is_close_ev e) (a_sc a) (a_echo a).
Definition note_sc (b : bool) (a : acc) : acc :=
  mkacc (a_sent a) (a_hc a) (a_fired a) (a_local a) b (a_echo a).

(* what the application calls of this event must produce, given whether we were closing before it:
   write_message / ping() raise WebSocketClosedError exactly when closing (and then put nothing on
   the wire); close() raises exactly when it would have to build a Close frame from unencodable
   arguments; nothing else writes data frames *)
Definition expected_b (e : event) (cl : bool) : list nat :=
  match e with
  | EWrite => if cl then [0; 1; 0; 0; 0; 0]%nat else [1; 0; 1; 0; 0; 0]%nat
  | EAppPing => if cl then [0; 0; 0; 0; 1; 0]%nat else [0; 0; 0; 1; 0; 0]%nat
  | ELocalClose c r => if negb cl && negb (close_args_ok c r) then [0; 0; 0; 0; 0; 1]%nat else zeros
  | _ => zeros
  end.
Definition expected (e : event) (a : acc) : list nat := expected_b e (closing a).

Definition mon_step (a : acc) (e : event) (o : list item * snap) : option acc :=
  let '(its, n) := o in
  match mon_items (note_event e a) its with
  | None => None
  | Some a1 =>
      let ok_echo := negb (is_some (a_echo a1)) in                      (* the echo is immediate *)
      let ok_both := implb (is_some (a_hc a1) && a_sent a1) (n_sc n) in (* both closed: TCP down *)
      let ok_timer := match e with ETick => implb (a_sent a) (n_sc n) | _ => true end in  (* closing timeout *)
      let ok_fired := implb (n_sc n && negb (is_blocked (n_loop n))) (a_fired a1) in      (* reported once down *)
      let ok_mono := implb (a_sc a) (n_sc n) in
      let ok_write := list_eqb Nat.eqb (counts its) (expected e a) in
      if ok_echo && ok_both && ok_timer && ok_fired && ok_mono && ok_write
      then Some (note_sc (n_sc n) a1)
      else None
  end.

Fixpoint mon_run (a : acc) (evs : list event) (t : trace) : option acc :=
  match evs, t with
  | [], [] => Some a
  | e :: evs', o :: t' => match mon_step a e o with Some a' => mon_run a' evs' t' | None => None end
  | _, _ => None
  end.

Definition check_trace (evs : list event) (t : trace) : bool := is_some (mon_run acc0 evs t).

(* ---------- vocabulary for the Prop-level statements ---------- *)
Definition is_sclose (i : item) := match i with ISent (SClose _ _) => true | _ => false end.
Definition is_sping (i : item) := match i with ISent SPing => true | _ => false end.
Definition is_hclose (i : item) := match i with IHandled (FClose _) => true | _ => false end.
Definition is_onclose (i : item) := match i with IOnClose _ _ => true | _ => false end.
Definition items_of (t : trace) : list item := concat (map fst t).
Fixpoint first_hc (l : list item) : option cpay :=
  match l with
  | [] => None
  | IHandled (FClose p) :: _ => Some p
  | _ :: l' => first_hc l'
  end.
Fixpoint last_sc (d : bool) (t : trace) : bool :=
  match t with [] => d | (_, n) :: t' => last_sc (n_sc n) t' end.
Definition or_else {A} (a b : option A) : option A := match a with Some _ => a | None => b end.
(* what the application can know: our Close is out, the peer's Close came in, TCP is down, or it closed *)
Definition closing_obs (evs : list event) (t : trace) : bool :=
  existsb is_sclose (items_of t) || existsb is_hclose (items_of t) || last_sc false t || existsb is_close_ev evs.
