(* C16 -- theorems about the model for ALL configurations and event lists. *)
From Coq Require Import List NArith Arith Bool Lia.
Import ListNotations.
From TV Require Import Lib.Obs C16.Model C16.Spec C16.Run C16.Inv C16.Inv2 C16.Inv3 C16.Sound C16.Codec.

Lemma checker_accepts_model : forall i, check_case i (run_case i) = true.
Proof.
  intros [c evs]. unfold check_case, run_case. cbn [fst snd].
  rewrite dec_trace_enc. apply model_satisfies_monitor.
Qed.

Lemma reach : forall c evs,
  exists a, mon_run acc0 evs (run c evs) = Some a /\ Inv a (final c evs).
Proof. intros c evs. apply run_ok. apply Inv_init. Qed.

Lemma final_from_snoc : forall c evs m e,
  final_from c m (evs ++ [e]) = fst (step c e (final_from c m evs)).
Proof. intros c evs. induction evs as [|x evs IH]; intros m e; cbn [app final_from]; auto. Qed.

(* ---- frames on the wire ---- *)
Lemma model_close_once_then_silent : forall c evs l1 cc r l2,
  items_of (run c evs) = l1 ++ ISent (SClose cc r) :: l2 ->
  existsb is_sclose l1 = false /\ existsb is_sclose l2 = false /\ existsb is_data l2 = false
  /\ existsb is_sping l2 = false.
Proof. intros c evs l1 cc r l2. apply (accepted_close_once_then_silent evs). apply model_satisfies_monitor. Qed.

Lemma model_echo : forall c evs l1 p l2,
  items_of (run c evs) = l1 ++ IHandled (FClose p) :: l2 ->
  first_hc l1 = None -> existsb is_sclose l1 = false ->
  exists l3 l4, l2 = l3 ++ ISent (SClose (code_of p) []) :: l4 /\ existsb is_sclose l3 = false.
Proof. intros c evs l1 p l2. apply (accepted_echo evs). apply model_satisfies_monitor. Qed.

(* ---- the close notification ---- *)
Lemma model_on_close_once : forall c evs l1 cc r l2,
  items_of (run c evs) = l1 ++ IOnClose cc r :: l2 ->
  existsb is_onclose l1 = false /\ existsb is_onclose l2 = false
  /\ match first_hc l1 with
     | Some p => cc = code_of p /\ r = reason_of p
     | None => cc = None /\ r = None
     end.
Proof. intros c evs l1 cc r l2. apply (accepted_on_close_once_with_peer_code evs). apply model_satisfies_monitor. Qed.

Lemma model_reported_once_down : forall c evs,
  s_sc (fst (final c evs)) = true ->
  s_loop (fst (final c evs)) <> LBlocked -> s_loop (fst (final c evs)) <> LOpening ->
  existsb is_onclose (items_of (run c evs)) = true.
Proof.
  intros c evs Hsc Hl Ho.
  destruct (reach c evs) as (a & R & (Hb & _ & _ & Hrd)).
  destruct (accepted_summary _ _ _ R) as (_ & _ & S3 & _).
  destruct (Jb_parts _ _ Hb) as (_ & _ & _ & _ & _ & _ & _ & P8 & _).
  rewrite <- S3, P8.
  destruct (s_loop (fst (final c evs))) eqn:E; cbn; auto; try congruence.
  rewrite (Hrd eq_refl) in Hsc. discriminate.
Qed.

(* the connection went down while a coroutine of the application was pending (open(), or an
   asynchronous on_message): the notification is delivered as soon as that coroutine completes *)
Lemma settle_down_finishes : forall r s q,
  s_sc s = true -> s_loop s = LRead -> s_loop (fst (fst (settle r s q))) = LDone.
Proof.
  intros r s q Hsc Hl.
  assert (F : forall s0, s_loop (fst (loop_finish r s0)) = LDone).
  { intros s0. unfold loop_finish. destruct (notify r s0) as [s1 o]. destruct s1; reflexivity. }
  destruct q as [|it q]; cbn [settle]; rewrite Hl, Hsc.
  - destruct (s_ct s).
    + specialize (F s). destruct (loop_finish r s); exact F.
    + specialize (F (abort s)). destruct (loop_finish r (abort s)); exact F.
  - destruct (s_ct s).
    + specialize (F s). destruct (loop_finish r s); exact F.
    + specialize (F (abort s)). destruct (loop_finish r (abort s)); exact F.
Qed.

Lemma model_reported_when_pending_callback_completes : forall c evs e,
  s_sc (fst (final c evs)) = true ->
  (s_loop (fst (final c evs)) = LOpening /\ e = EOpenDone)
  \/ (s_loop (fst (final c evs)) = LBlocked /\ e = EMsgDone) ->
  existsb is_onclose (items_of (run c (evs ++ [e]))) = true.
Proof.
  intros c evs e Hsc Hc.
  assert (Hd : s_loop (fst (final c (evs ++ [e]))) = LDone).
  { unfold final. rewrite final_from_snoc. fold (final c evs).
    destruct (final c evs) as [s q]. cbn [fst] in *.
    unfold step.
    destruct Hc as [[Hl ->] | [Hl ->]]; cbn [act]; rewrite Hl;
      (destruct (settle (c_role c) (set_loop LRead s) q) as [[s2 q2] o2] eqn:E; cbn [fst];
       change s2 with (fst (fst (s2, q2, o2))); rewrite <- E;
       apply settle_down_finishes; destruct s; cbn in *; auto). }
  destruct (reach c (evs ++ [e])) as (a & R & (Hb & _)).
  destruct (accepted_summary _ _ _ R) as (_ & _ & S3 & _).
  destruct (Jb_parts _ _ Hb) as (_ & _ & _ & _ & _ & _ & _ & P8 & _).
  rewrite <- S3, P8, Hd. reflexivity.
Qed.

(* an asynchronous on_message that fails is handled like a synchronous one that raises:
   the connection is aborted and the close notification is delivered *)
Lemma model_failed_async_on_message_aborts_and_notifies : forall c evs,
  s_loop (fst (final c evs)) = LBlocked ->
  s_sc (fst (final c (evs ++ [EMsgFail]))) = true
  /\ existsb is_onclose (items_of (run c (evs ++ [EMsgFail]))) = true.
Proof.
  intros c evs Hl.
  assert (Hd : s_loop (fst (final c (evs ++ [EMsgFail]))) = LDone
               /\ s_sc (fst (final c (evs ++ [EMsgFail]))) = true).
  { destruct (reach c evs) as (a0 & R0 & (Hb0 & Hd0 & _)).
    destruct (abort_ok _ _ Hb0 Hd0) as (_ & _ & Asc & _).
    unfold final. rewrite final_from_snoc. fold (final c evs).
    destruct (final c evs) as [s q]. cbn [fst] in *.
    unfold step. cbn [act]. rewrite Hl.
    assert (S1 : s_sc (set_loop LRead (abort s)) = true) by (destruct (abort s); cbn in *; auto).
    assert (S2 : s_loop (set_loop LRead (abort s)) = LRead) by (destruct (abort s); reflexivity).
    pose proof (settle_down_finishes (c_role c) _ q S1 S2) as F.
    assert (G : s_sc (fst (fst (settle (c_role c) (set_loop LRead (abort s)) q))) = true).
    { destruct (reach c evs) as (a1 & _ & _). clear a1.
      assert (Jb a0 (set_loop LRead (abort s)) = true /\ Jd a0 (set_loop LRead (abort s))) as (B1 & B2).
      { destruct (abort_ok _ _ Hb0 Hd0) as (Ab & Ad & _ & _ & Alo & _).
        rewrite Hl in Alo. revert Ab Ad Alo. generalize (abort s) as s'. intros s' Ab Ad Alo.
        destruct s'; cbn in Alo; subst; split; auto. }
      destruct (settle_ok (c_role c) q a0 _ B1 B2) as (a2 & S).
      destruct (settle (c_role c) (set_loop LRead (abort s)) q) as [[s2 q2] o2].
      destruct S as (_ & _ & _ & _ & _ & S6 & _). cbn [fst]. auto. }
    destruct (settle (c_role c) (set_loop LRead (abort s)) q) as [[s2 q2] o2]. cbn [fst] in *. auto. }
  destruct Hd as (Hd & Hs). split; auto.
  destruct (reach c (evs ++ [EMsgFail])) as (a & R & (Hb & _)).
  destruct (accepted_summary _ _ _ R) as (_ & _ & S3 & _).
  destruct (Jb_parts _ _ Hb) as (_ & _ & _ & _ & _ & _ & _ & P8 & _).
  rewrite <- S3, P8, Hd. reflexivity.
Qed.

(* ---- tearing the TCP connection down ---- *)
Lemma model_both_closed_tcp_down : forall c evs,
  existsb is_hclose (items_of (run c evs)) = true ->
  s_sc (fst (final c evs)) = true.
Proof.
  intros c evs Hh.
  destruct (reach c evs) as (a & R & (Hb & _)).
  destruct (accepted_summary _ _ _ R) as (_ & S2 & _).
  destruct (Jb_parts _ _ Hb) as (_ & _ & _ & P4 & P5 & _).
  apply P5, P4. rewrite S2. exact Hh.
Qed.

Lemma model_terminated_flags : forall c evs,
  let s := fst (final c evs) in
  (s_ct s = true -> s_sc s = true)
  /\ (s_st s = true -> s_sc s = false -> s_wait s = true).
Proof.
  intros c evs s. subst s.
  destruct (reach c evs) as (a & R & (Hb & _)).
  destruct (Jb_parts _ _ Hb) as (_ & _ & P3 & _ & P5 & _).
  split; auto. intros A B. apply (P3 A B).
Qed.

Lemma model_closing_timeout : forall c evs,
  existsb is_sclose (items_of (run c evs)) = true ->
  s_sc (fst (final c (evs ++ [ETick]))) = true.
Proof.
  intros c evs Hs.
  destruct (reach c evs) as (a & R & HI).
  destruct (accepted_summary _ _ _ R) as (S1 & _).
  destruct (step_ok c ETick a (final c evs) HI) as (a' & M & _).
  destruct (mon_step_facts _ _ _ _ _ M) as (F1 & _).
  unfold final. rewrite final_from_snoc. fold (final c evs).
  apply (F1 eq_refl). rewrite S1. exact Hs.
Qed.

Lemma model_tcp_stays_down : forall c evs e,
  s_sc (fst (final c evs)) = true -> s_sc (fst (final c (evs ++ [e]))) = true.
Proof.
  intros c evs e Hs.
  destruct (reach c evs) as (a & R & HI).
  destruct (step_ok c e a (final c evs) HI) as (a' & M & _).
  destruct (mon_step_facts _ _ _ _ _ M) as (_ & F2 & _).
  unfold final. rewrite final_from_snoc. fold (final c evs).
  apply F2. destruct HI as (_ & _ & Hsc & _). rewrite Hsc. exact Hs.
Qed.

(* ---- the application's calls: write_message, ping(), close() ---- *)
Lemma model_api_calls : forall c evs e,
  counts (snd (step c e (final c evs))) = expected_b e (closing_obs evs (run c evs)).
Proof.
  intros c evs e.
  destruct (reach c evs) as (a & R & HI).
  destruct (step_ok c e a (final c evs) HI) as (a' & M & _).
  destruct (mon_step_facts _ _ _ _ _ M) as (_ & _ & F3).
  rewrite F3. unfold expected. rewrite (closing_summary _ _ _ R). reflexivity.
Qed.

Lemma model_write_after_closing_fails : forall c evs,
  closing_obs evs (run c evs) = true ->
  let its := snd (step c EWrite (final c evs)) in
  cnt is_wok its = 0%nat /\ cnt is_werr its = 1%nat /\ cnt is_data its = 0%nat.
Proof.
  intros c evs Hc its. subst its. pose proof (model_api_calls c evs EWrite) as H.
  rewrite Hc in H. cbn in H. unfold counts in H. injection H as H1 H2 H3 _ _ _. auto.
Qed.

Lemma model_write_before_closing_succeeds : forall c evs,
  closing_obs evs (run c evs) = false ->
  let its := snd (step c EWrite (final c evs)) in
  cnt is_wok its = 1%nat /\ cnt is_werr its = 0%nat /\ cnt is_data its = 1%nat.
Proof.
  intros c evs Hc its. subst its. pose proof (model_api_calls c evs EWrite) as H.
  rewrite Hc in H. cbn in H. unfold counts in H. injection H as H1 H2 H3 _ _ _. auto.
Qed.

Lemma model_ping_raises_iff_closing : forall c evs,
  let its := snd (step c EAppPing (final c evs)) in
  if closing_obs evs (run c evs)
  then cnt is_pok its = 0%nat /\ cnt is_perr its = 1%nat
  else cnt is_pok its = 1%nat /\ cnt is_perr its = 0%nat.
Proof.
  intros c evs its. subst its. pose proof (model_api_calls c evs EAppPing) as H.
  destruct (closing_obs evs (run c evs)); cbn in H; unfold counts in H; injection H as _ _ _ H4 H5 _; auto.
Qed.

(* close() raises exactly when it would have to build a Close frame from unencodable arguments ... *)
Lemma model_close_raises_iff_unencodable : forall c evs code reason,
  cnt is_cerr (snd (step c (ELocalClose code reason) (final c evs)))
  = if negb (closing_obs evs (run c evs)) && negb (close_args_ok code reason) then 1%nat else 0%nat.
Proof.
  intros c evs code reason. pose proof (model_api_calls c evs (ELocalClose code reason)) as H.
  cbn [expected_b] in H.
  destruct (negb (closing_obs evs (run c evs)) && negb (close_args_ok code reason));
    unfold counts, zeros in H; injection H as _ _ _ _ _ H6; auto.
Qed.

(* ... and then it has changed nothing *)
Lemma model_close_that_raises_changes_nothing : forall c code reason m,
  In ICloseErr (snd (act c (ELocalClose code reason) m)) -> fst (act c (ELocalClose code reason) m) = m.
Proof.
  intros c code reason [s q] H. cbn [act] in *. unfold local_close in *.
  destruct (s_hconn s).
  - destruct (negb (s_st s) && negb (s_sc s) && negb (close_args_ok code reason)).
    + reflexivity.
    + exfalso. unfold proto_close in H.
      destruct (s_st s); [|destruct (s_sc s)]; cbn in H;
        repeat match goal with H : _ \/ _ |- _ => destruct H end; try discriminate; auto.
  - reflexivity.
Qed.

(* ---- timers never race: the closing timer is only armed after periodic_ping is cancelled ---- *)
Lemma model_one_timer : forall c evs,
  s_wait (fst (final c evs)) = true -> s_ping (fst (final c evs)) = PNone.
Proof.
  intros c evs Hw.
  destruct (reach c evs) as (a & R & (Hb & _)).
  destruct (Jb_parts _ _ Hb) as (_ & _ & _ & _ & _ & _ & P7 & _).
  specialize (P7 Hw). destruct (s_ping (fst (final c evs))); auto; discriminate.
Qed.

(* non-vacuity: concrete runs that meet the hypotheses above *)
Example ex_crossing_closes :
  items_of (run (mkcfg Server None false)
                [ELocalClose (Some 1000%N) None; ERecv (FClose (CPCode 1001%N [98%N])); EWrite])
  = [ISent (SClose (Some 1000%N) []); IHandled (FClose (CPCode 1001%N [98%N]));
     IOnClose (Some 1001%N) (Some [98%N]); IWriteErr].
Proof. reflexivity. Qed.

Example ex_echo :
  items_of (run (mkcfg Client None false) [ERecv (FClose (CPBadUtf8 1002%N))])
  = [IHandled (FClose (CPBadUtf8 1002%N)); ISent (SClose (Some 1002%N) []);
     IOnClose (Some 1002%N) (Some bad_reason_decoded)].
Proof. reflexivity. Qed.

Example ex_torn_down_during_open :     (* close() inside a coroutine open(), closing timeout, open() returns *)
  run (mkcfg Server None true) [ELocalClose (Some 1001%N) (Some [98%N]); ETick; EOpenDone]
  = [([ISent (SClose (Some 1001%N) [98%N])], mksnap false false true true false TOpening);
     ([], mksnap true true true false false TOpening);
     ([IOnClose None None], mksnap true true true false false TEnded)].
Proof. reflexivity. Qed.

Example ex_ping_timeout_then_timer :
  map snd (run (mkcfg Client (Some (3%N, Some 2%N)) false) [ETick; ETick; EWrite; ETick])
  = [mksnap false false false false true TRead; mksnap false false true true true TRead;
     mksnap false false true true true TRead; mksnap true true true false true TEnded].
Proof. reflexivity. Qed.
