(* C16 -- WebSocket close handshake: executable model of the close-state machine of
   tornado/websocket.py (WebSocketProtocol13.close / _abort / _handle_message(0x8) /
   _receive_frame_loop / periodic_ping / is_closing, WebSocketHandler.close /
   write_message / on_connection_close / on_ws_connection_close and the
   WebSocketClientConnection counterparts).  Definitions only. *)
From Coq Require Import List NArith Bool.
Import ListNotations.
Local Open Scope N_scope.

(* ---------- vocabulary ---------- *)
Inductive role := Server (* WebSocketHandler *) | Client (* WebSocketClientConnection, callback style *).

(* what the application's on_message does with a message *)
Inductive msgkind :=
| MSync
| MAsync     (* returns a Future, resolved by EMsgDone or failed by EMsgFail *)
| MRaise     (* raises synchronously *)
| MCoRaise.  (* a coroutine that raises before its first await *)

(* payload of a Close frame sent by the peer.  The UTF-8 codec itself is not
   modelled: the peer (harness) encodes [reason] (code points); CPBadUtf8 is a
   reason that is not valid UTF-8. *)
Inductive cpay :=
| CPEmpty
| CPOne (b : N)                          (* 1-byte payload: no code *)
| CPCode (code : N) (reason : list N)    (* reason = [] : exactly two bytes *)
| CPBadUtf8 (code : N).                 (* code + the two bytes FF FE *)

(* bytes.decode("utf-8", "replace") of FF FE: two U+FFFD *)
Definition bad_reason_decoded : list N := [65533; 65533].

Inductive frame :=
| FClose (p : cpay)
| FMsg (k : msgkind)      (* a complete (FIN) text frame *)
| FPing | FPong
| FBad                    (* reserved bit set: protocol violation, _abort() *)
| FBig.                   (* announced length > max_message_size: close(1009), _abort() *)

Inductive event :=
| ELocalClose (code : option N) (reason : option (list N))  (* handler.close / conn.close *)
| ERecv (f : frame)       (* the peer puts a frame on the wire *)
| EPeerEof                (* the peer shuts the connection down after what it has sent so far *)
| EPeerReset              (* the connection is reset now (noticed even if nothing is being read) *)
| ETick                   (* virtual time advances to the next armed timer, which fires *)
| EMsgDone                (* the Future of a pending asynchronous on_message resolves *)
| EMsgFail                (* ... or fails with an exception (the coroutine raised after an await) *)
| EOpenDone               (* a coroutine open() that was still pending returns: _receive_frame_loop starts *)
| EWrite                  (* the application calls write_message *)
| EAppPing.               (* the application calls handler.ping() / conn.ping() *)

(* frames we put on the wire *)
Inductive sframe := SClose (code : option N) (reason : list N) | SData | SPing | SPong.

(* what is observed, in order *)
Inductive item :=
| ISent (f : sframe)
| IHandled (f : frame)                       (* _handle_message entered (not yet client_terminated) *)
| IOnMessage
| IOnClose (code : option N) (reason : option (list N))   (* on_close() / on_message_callback(None) *)
| IWriteOk | IWriteErr                       (* write_message returned / raised WebSocketClosedError *)
| IPingOk | IPingErr                         (* ping() returned / raised WebSocketClosedError *)
| ICloseErr                                  (* close() raised (struct.error / ValueError): unencodable arguments *)
| ILogExc.

Inductive lstate := LOpening (* coroutine open() pending, loop not started *) | LRead | LBlocked | LDone.
Inductive ltag := TOpening | TRead | TBlocked | TEnded.
Inductive pstate := PNone | PFirst | PPong | PNext.
Inductive qitem := QFrame (f : frame) | QEof.

Record cfg := mkcfg {
  c_role : role;
  c_ping : option (N * option N);   (* interval, timeout; seconds *)
  c_aopen : bool                    (* server: open() is a coroutine that stays pending until EOpenDone *)
}.

Definition ping_interval (c : cfg) : N :=
  match c_ping c with Some (i, _) => i | None => 0 end.
(* WebSocketProtocol13.ping_timeout *)
Definition ping_timeout (c : cfg) : N :=
  match c_ping c with
  | Some (i, Some t) => if negb (i =? 0) && (i <? t) then i else t
  | Some (i, None) => i
  | None => 0
  end.

Record state := mkstate {
  s_ct : bool;                 (* protocol.client_terminated *)
  s_st : bool;                 (* protocol.server_terminated *)
  s_sc : bool;                 (* stream.closed() *)
  s_wait : bool;               (* protocol._waiting is not None *)
  s_pcode : option N;          (* protocol.close_code *)
  s_preason : option (list N); (* protocol.close_reason *)
  s_ping : pstate;             (* where periodic_ping is suspended *)
  s_pong : bool;               (* protocol._received_pong *)
  s_loop : lstate;             (* _receive_frame_loop *)
  s_hconn : bool;              (* handler.ws_connection / conn.protocol is not None *)
  s_called : bool;             (* handler._on_close_called *)
  s_hcode : option N;          (* handler.close_code *)
  s_hreason : option (list N)  (* handler.close_reason *)
}.

Definition set_ct b s := mkstate b (s_st s) (s_sc s) (s_wait s) (s_pcode s) (s_preason s) (s_ping s) (s_pong s) (s_loop s) (s_hconn s) (s_called s) (s_hcode s) (s_hreason s).
Definition set_st b s := mkstate (s_ct s) b (s_sc s) (s_wait s) (s_pcode s) (s_preason s) (s_ping s) (s_pong s) (s_loop s) (s_hconn s) (s_called s) (s_hcode s) (s_hreason s).
Definition set_sc b s := mkstate (s_ct s) (s_st s) b (s_wait s) (s_pcode s) (s_preason s) (s_ping s) (s_pong s) (s_loop s) (s_hconn s) (s_called s) (s_hcode s) (s_hreason s).
Definition set_wait b s := mkstate (s_ct s) (s_st s) (s_sc s) b (s_pcode s) (s_preason s) (s_ping s) (s_pong s) (s_loop s) (s_hconn s) (s_called s) (s_hcode s) (s_hreason s).
Definition set_pcode x s := mkstate (s_ct s) (s_st s) (s_sc s) (s_wait s) x (s_preason s) (s_ping s) (s_pong s) (s_loop s) (s_hconn s) (s_called s) (s_hcode s) (s_hreason s).
Definition set_preason x s := mkstate (s_ct s) (s_st s) (s_sc s) (s_wait s) (s_pcode s) x (s_ping s) (s_pong s) (s_loop s) (s_hconn s) (s_called s) (s_hcode s) (s_hreason s).
Definition set_ping x s := mkstate (s_ct s) (s_st s) (s_sc s) (s_wait s) (s_pcode s) (s_preason s) x (s_pong s) (s_loop s) (s_hconn s) (s_called s) (s_hcode s) (s_hreason s).
Definition set_pong b s := mkstate (s_ct s) (s_st s) (s_sc s) (s_wait s) (s_pcode s) (s_preason s) (s_ping s) b (s_loop s) (s_hconn s) (s_called s) (s_hcode s) (s_hreason s).
Definition set_loop x s := mkstate (s_ct s) (s_st s) (s_sc s) (s_wait s) (s_pcode s) (s_preason s) (s_ping s) (s_pong s) x (s_hconn s) (s_called s) (s_hcode s) (s_hreason s).
Definition set_hconn b s := mkstate (s_ct s) (s_st s) (s_sc s) (s_wait s) (s_pcode s) (s_preason s) (s_ping s) (s_pong s) (s_loop s) b (s_called s) (s_hcode s) (s_hreason s).
Definition set_called b s := mkstate (s_ct s) (s_st s) (s_sc s) (s_wait s) (s_pcode s) (s_preason s) (s_ping s) (s_pong s) (s_loop s) (s_hconn s) b (s_hcode s) (s_hreason s).
Definition set_hclose c r s := mkstate (s_ct s) (s_st s) (s_sc s) (s_wait s) (s_pcode s) (s_preason s) (s_ping s) (s_pong s) (s_loop s) (s_hconn s) (s_called s) c r.

Definition init (c : cfg) : state :=
  mkstate false false false false None None
          (if ping_interval c =? 0 then PNone else PFirst)   (* start_pinging *)
          false
          (match c_role c with Server => if c_aopen c then LOpening else LRead | Client => LRead end)
          true false None None.

(* "ping timed out", "message too big" *)
Definition timed_out_reason : list N := [112;105;110;103;32;116;105;109;101;100;32;111;117;116].
Definition too_big_reason : list N := [109;101;115;115;97;103;101;32;116;111;111;32;98;105;103].

(* ---------- close(code, reason): can the Close frame be built? ---------- *)
(* len(utf8(reason)) for a reason given as code points (no surrogates) *)
Definition utf8_len1 (cp : N) : N :=
  if cp <? 128 then 1 else if cp <? 2048 then 2 else if cp <? 65536 then 3 else 4.
Fixpoint utf8_len (l : list N) : N :=
  match l with [] => 0 | cp :: l' => utf8_len1 cp + utf8_len l' end.
(* struct.pack(">H", code) needs code <= 65535; _write_frame refuses control payloads > 125 bytes *)
Definition close_args_ok (code : option N) (reason : option (list N)) : bool :=
  let code' := match code, reason with None, Some _ => Some 1000 | _, _ => code end in
  match code' with
  | None => true                                  (* empty payload *)
  | Some c => (c <? 65536) && (2 + utf8_len (match reason with Some r => r | None => [] end) <=? 125)
  end.

(* ---------- WebSocketProtocol13.close ---------- *)
Definition proto_close (code : option N) (reason : option (list N)) (s : state) : state * list item :=
  let '(s1, o1) :=
    if s_st s then (s, [])
    else
      let s' := set_st true s in
      if s_sc s then (s', [])
      else
        let code' := match code, reason with None, Some _ => Some 1000 | _, _ => code end in
        (s', [ISent (SClose code' (match reason with Some r => r | None => [] end))]) in
  let s2 :=
    if s_ct s1 then set_sc true (set_wait false s1)          (* both sides done: stream.close() *)
    else if s_wait s1 then s1 else set_wait true s1 in       (* arm the 5 s timer once *)
  (set_ping PNone s2, o1).                                   (* cancel periodic_ping *)

(* ---------- WebSocketProtocol._abort ---------- *)
Definition abort (s : state) : state :=
  fst (proto_close None None (set_sc true (set_st true (set_ct true s)))).

(* ---------- handler.on_ws_connection_close (end of _receive_frame_loop) ---------- *)
Definition notify (r : role) (s : state) : state * list item :=
  match r with
  | Server =>
      let s1 := set_hclose (s_pcode s) (s_preason s) s in
      let s2 := if s_hconn s1 then set_hconn false (abort s1) else s1 in
      if s_called s2 then (s2, [])
      else (set_called true s2, [IOnClose (s_hcode s2) (s_hreason s2)])
  | Client =>
      let s1 := set_hclose (s_pcode s) (s_preason s) s in
      (s1, [IOnClose (s_hcode s1) (s_hreason s1)])
  end.

Definition loop_finish (r : role) (s : state) : state * list item :=
  let '(s1, o) := notify r s in (set_loop LDone s1, o).

(* ---------- _receive_frame / _handle_message for one complete frame ---------- *)
Definition handle_frame (r : role) (f : frame) (s : state) : state * list item :=
  match f with
  | FBad => (abort s, [])
  | FBig => let '(s1, o1) := proto_close (Some 1009) (Some too_big_reason) s in (abort s1, o1)
  | FPing => if s_sc s then (abort s, [IHandled f]) else (s, [IHandled f; ISent SPong])
  | FPong => (set_pong true s, [IHandled f])
  | FMsg k =>
      match k with
      | MSync => (s, [IHandled f; IOnMessage])
      | MAsync => (set_loop LBlocked s, [IHandled f; IOnMessage])
      | MRaise                                   (* _run_callback: log_exception, _abort *)
      | MCoRaise => (abort s, [IHandled f; IOnMessage; ILogExc])   (* _receive_frame: the same *)
      end
  | FClose p =>
      let s1 := set_ct true s in
      let s2 := match p with
                | CPCode c [] => set_pcode (Some c) s1
                | CPCode c rs => set_preason (Some rs) (set_pcode (Some c) s1)
                | CPBadUtf8 c => set_preason (Some bad_reason_decoded) (set_pcode (Some c) s1)   (* lenient decoding *)
                | _ => s1
                end in
      let '(s3, o) := proto_close (s_pcode s2) None s2 in      (* echo the received code, if any *)
      (s3, IHandled f :: o)
  end.

Definition consume (r : role) (q : qitem) (s : state) : state * list item :=
  match q with
  | QEof => (set_sc true s, [])          (* read returns 0: the stream closes itself *)
  | QFrame f => handle_frame r f s
  end.

(* ---------- _receive_frame_loop until it has to wait ---------- *)
Fixpoint settle (r : role) (s : state) (q : list qitem) {struct q} : state * list qitem * list item :=
  match s_loop s with
  | LRead =>
      if s_ct s then let '(s1, o) := loop_finish r s in (s1, q, o)        (* while not client_terminated *)
      else if s_sc s then let '(s1, o) := loop_finish r (abort s) in (s1, q, o)   (* StreamClosedError: _abort() *)
      else match q with
           | [] => (s, [], [])
           | it :: q' =>
               let '(s1, o1) := consume r it s in
               let '(s2, q2, o2) := settle r s1 q' in (s2, q2, o1 ++ o2)
           end
  | _ => (s, q, [])
  end.

(* ---------- periodic_ping ---------- *)
Definition send_ping (c : cfg) (s : state) : state * list item :=
  let s1 := set_pong false s in
  if s_sc s1 then (set_ping PNone s1, [])          (* write_ping raises StreamClosedError: the task dies *)
  else (set_ping (if ping_timeout c =? 0 then PNext else PPong) s1, [ISent SPing]).

Definition tick (c : cfg) (s : state) : state * list item :=
  match s_ping s with
  | PFirst | PNext => send_ping c s
  | PPong =>
      if s_pong s then
        if ping_timeout c <? ping_interval c then (set_ping PNext s, []) else send_ping c s
      else proto_close None (Some timed_out_reason) s
  | PNone => if s_wait s then (abort s, []) else (s, [])    (* the 5 s closing timer: _abort *)
  end.

(* ---------- write_message ---------- *)
Definition is_closing (s : state) : bool := s_sc s || s_ct s || s_st s.
Definition write (r : role) (s : state) : state * list item :=
  (* WebSocketHandler.write_message and WebSocketClientConnection.write_message alike *)
  if negb (s_hconn s) || is_closing s then (s, [IWriteErr]) else (s, [ISent SData; IWriteOk]).

Definition local_close (code : option N) (reason : option (list N)) (s : state) : state * list item :=
  if s_hconn s then
    if negb (s_st s) && negb (s_sc s) && negb (close_args_ok code reason)
    then (s, [ICloseErr])         (* the exception leaves close() before anything was changed *)
    else let '(s1, o) := proto_close code reason s in (set_hconn false s1, o)
  else (s, []).

(* ---------- handler.ping() / conn.ping() ---------- *)
Definition app_ping (s : state) : state * list item :=
  if negb (s_hconn s) || is_closing s then (s, [IPingErr]) else (s, [ISent SPing; IPingOk]).

(* ---------- one event ---------- *)
Definition mstate := (state * list qitem)%type.

Definition act (c : cfg) (e : event) (m : mstate) : mstate * list item :=
  let '(s, q) := m in
  match e with
  | ELocalClose code reason => let '(s1, o) := local_close code reason s in ((s1, q), o)
  | ERecv f => ((s, q ++ [QFrame f]), [])
  | EPeerEof => ((s, q ++ [QEof]), [])
  | EPeerReset => ((set_sc true s, q), [])
  | ETick => let '(s1, o) := tick c s in ((s1, q), o)
  | EMsgDone => ((match s_loop s with LBlocked => set_loop LRead s | _ => s end, q), [])
  | EMsgFail => (match s_loop s with
                 | LBlocked => ((set_loop LRead (abort s), q), [ILogExc])   (* log_exception, _abort; the loop goes on *)
                 | _ => ((s, q), [])
                 end)
  | EOpenDone => ((match s_loop s with LOpening => set_loop LRead s | _ => s end, q), [])
  | EWrite => let '(s1, o) := write (c_role c) s in ((s1, q), o)
  | EAppPing => let '(s1, o) := app_ping s in ((s1, q), o)
  end.

Definition step (c : cfg) (e : event) (m : mstate) : mstate * list item :=
  let '((s1, q1), o1) := act c e m in
  let '(s2, q2, o2) := settle (c_role c) s1 q1 in
  ((s2, q2), o1 ++ o2).

Record snap := mksnap { n_sc : bool; n_ct : bool; n_st : bool; n_wait : bool; n_hconn : bool; n_loop : ltag }.
Definition tag_of (l : lstate) : ltag :=
  match l with LOpening => TOpening | LRead => TRead | LBlocked => TBlocked | LDone => TEnded end.
Definition snap_of (s : state) : snap :=
  mksnap (s_sc s) (s_ct s) (s_st s) (s_wait s) (s_hconn s) (tag_of (s_loop s)).

Definition trace := list (list item * snap).

Fixpoint run_from (c : cfg) (m : mstate) (evs : list event) : trace :=
  match evs with
  | [] => []
  | e :: evs' => let '(m', o) := step c e m in (o, snap_of (fst m')) :: run_from c m' evs'
  end.
Definition run (c : cfg) (evs : list event) : trace := run_from c (init c, []) evs.

Fixpoint final_from (c : cfg) (m : mstate) (evs : list event) : mstate :=
  match evs with [] => m | e :: evs' => final_from c (fst (step c e m)) evs' end.
Definition final (c : cfg) (evs : list event) : mstate := final_from c (init c, []) evs.
