(* C16 -- WebSocket close handshake is orderly and reported exactly once.
   Property theorems only; proofs are in Inv*.v, Sound.v, Codec.v, Proofs.v.
   [run c evs] is the trace of the model (Model.v) for configuration c (role, ping settings)
   and an ARBITRARY list of events: local close, peer frames (Close with / without code and
   reason, messages handled synchronously / asynchronously / raising, ping, pong, protocol
   violations), peer EOF, connection reset, timer expiry, completion of an asynchronous
   on_message, completion of a coroutine open() (server, c_aopen), write_message. *)
From Coq Require Import List NArith ZArith Bool.
Import ListNotations.
From TV Require Import Lib.Obs C16.Model C16.Spec C16.Run C16.Inv3 C16.Sound C16.Proofs C16.ProofsP4 Gen.C16_src Gen.C16_equiv.

(* The whole property as the online monitor of Spec.v: for every role, ping configuration and
   event list the model's trace is accepted (at most one Close frame, no data frame after it,
   the echo carries the peer's code, TCP torn down once both closed or on the closing timeout,
   close notification at most once, with the peer's code/reason, and delivered once the
   connection is down, write_message fails exactly when closing). *)
Theorem C16_all_interleavings_meet_the_close_handshake_monitor :
  forall c evs, check_trace evs (run c evs) = true.
Proof. exact model_satisfies_monitor. Qed.
Print Assumptions C16_all_interleavings_meet_the_close_handshake_monitor.

(* the checker applied to observables (used on the implementation) accepts the model's own output *)
Theorem C16_checker_accepts_model : forall i, check_case i (run_case i) = true.
Proof. exact checker_accepts_model. Qed.
Print Assumptions C16_checker_accepts_model.

(* What acceptance means, for ANY trace (in the check: the implementation's). *)
Theorem C16_accepted_trace_close_once_then_no_data : forall evs t l1 c r l2,
  check_trace evs t = true ->
  items_of t = l1 ++ ISent (SClose c r) :: l2 ->
  existsb is_sclose l1 = false /\ existsb is_sclose l2 = false /\ existsb is_data l2 = false
  /\ existsb is_sping l2 = false.
Proof. exact accepted_close_once_then_silent. Qed.
Print Assumptions C16_accepted_trace_close_once_then_no_data.

Theorem C16_accepted_trace_echoes_peer_code : forall evs t l1 p l2,
  check_trace evs t = true ->
  items_of t = l1 ++ IHandled (FClose p) :: l2 ->
  first_hc l1 = None -> existsb is_sclose l1 = false ->
  exists l3 l4, l2 = l3 ++ ISent (SClose (code_of p) []) :: l4 /\ existsb is_sclose l3 = false.
Proof. exact accepted_echo. Qed.
Print Assumptions C16_accepted_trace_echoes_peer_code.

Theorem C16_accepted_trace_on_close_once_with_peer_code : forall evs t l1 c r l2,
  check_trace evs t = true ->
  items_of t = l1 ++ IOnClose c r :: l2 ->
  existsb is_onclose l1 = false /\ existsb is_onclose l2 = false
  /\ match first_hc l1 with
     | Some p => c = code_of p /\ r = reason_of p
     | None => c = None /\ r = None
     end.
Proof. exact accepted_on_close_once_with_peer_code. Qed.
Print Assumptions C16_accepted_trace_on_close_once_with_peer_code.

(* The same, and the remaining clauses, directly about the model, for all event lists. *)

(* each side sends at most one Close frame and no data frame (and no ping) after it *)
Theorem C16_at_most_one_close_frame_and_no_data_after : forall c evs l1 cc r l2,
  items_of (run c evs) = l1 ++ ISent (SClose cc r) :: l2 ->
  existsb is_sclose l1 = false /\ existsb is_sclose l2 = false /\ existsb is_data l2 = false
  /\ existsb is_sping l2 = false.
Proof. exact model_close_once_then_silent. Qed.
Print Assumptions C16_at_most_one_close_frame_and_no_data_after.

(* the peer's close code is echoed unless our own Close frame was already sent *)
Theorem C16_echoes_peer_close_code : forall c evs l1 p l2,
  items_of (run c evs) = l1 ++ IHandled (FClose p) :: l2 ->
  first_hc l1 = None -> existsb is_sclose l1 = false ->
  exists l3 l4, l2 = l3 ++ ISent (SClose (code_of p) []) :: l4 /\ existsb is_sclose l3 = false.
Proof. exact model_echo. Qed.
Print Assumptions C16_echoes_peer_close_code.

(* TCP is torn down once the peer's Close has been received (ours is echoed at once) ... *)
Theorem C16_tcp_closed_once_both_sides_closed : forall c evs,
  existsb is_hclose (items_of (run c evs)) = true -> s_sc (fst (final c evs)) = true.
Proof. exact model_both_closed_tcp_down. Qed.
Print Assumptions C16_tcp_closed_once_both_sides_closed.

(* ... or when the closing timeout elapses after our Close frame went out (the only armed timer) *)
Theorem C16_tcp_closed_when_closing_timeout_elapses : forall c evs,
  existsb is_sclose (items_of (run c evs)) = true ->
  s_sc (fst (final c (evs ++ [ETick]))) = true.
Proof. exact model_closing_timeout. Qed.
Print Assumptions C16_tcp_closed_when_closing_timeout_elapses.

Theorem C16_tcp_stays_closed : forall c evs e,
  s_sc (fst (final c evs)) = true -> s_sc (fst (final c (evs ++ [e]))) = true.
Proof. exact model_tcp_stays_down. Qed.
Print Assumptions C16_tcp_stays_closed.

(* the close notification: never twice, with the peer's code and reason when received ... *)
Theorem C16_close_notification_at_most_once_with_peer_code : forall c evs l1 cc r l2,
  items_of (run c evs) = l1 ++ IOnClose cc r :: l2 ->
  existsb is_onclose l1 = false /\ existsb is_onclose l2 = false
  /\ match first_hc l1 with
     | Some p => cc = code_of p /\ r = reason_of p
     | None => cc = None /\ r = None
     end.
Proof. exact model_on_close_once. Qed.
Print Assumptions C16_close_notification_at_most_once_with_peer_code.

(* ... and it HAS fired once the connection is down, unless a coroutine of the application
   (open(), or an asynchronous on_message) is still pending, which keeps the receive loop from running ... *)
Theorem C16_close_notification_fired_once_connection_down : forall c evs,
  s_sc (fst (final c evs)) = true ->
  s_loop (fst (final c evs)) <> LBlocked -> s_loop (fst (final c evs)) <> LOpening ->
  existsb is_onclose (items_of (run c evs)) = true.
Proof. exact model_reported_once_down. Qed.
Print Assumptions C16_close_notification_fired_once_connection_down.

(* ... in which case it fires as soon as that coroutine completes: connections torn down during
   open() (local close + closing timeout, ping timeout, reset) or during on_message are reported too *)
Theorem C16_close_notification_fires_when_pending_open_or_on_message_completes : forall c evs e,
  s_sc (fst (final c evs)) = true ->
  (s_loop (fst (final c evs)) = LOpening /\ e = EOpenDone)
  \/ (s_loop (fst (final c evs)) = LBlocked /\ e = EMsgDone) ->
  existsb is_onclose (items_of (run c (evs ++ [e]))) = true.
Proof. exact model_reported_when_pending_callback_completes. Qed.
Print Assumptions C16_close_notification_fires_when_pending_open_or_on_message_completes.

(* an asynchronous on_message whose Future fails (the coroutine raised after an await) is treated
   like a synchronous on_message that raises: abort, and the close notification is delivered *)
Theorem C16_failed_async_on_message_aborts_and_notifies : forall c evs,
  s_loop (fst (final c evs)) = LBlocked ->
  s_sc (fst (final c (evs ++ [EMsgFail]))) = true
  /\ existsb is_onclose (items_of (run c (evs ++ [EMsgFail]))) = true.
Proof. exact model_failed_async_on_message_aborts_and_notifies. Qed.
Print Assumptions C16_failed_async_on_message_aborts_and_notifies.

(* writes after closing fail with WebSocketClosedError and put nothing on the wire *)
Theorem C16_write_after_closing_raises : forall c evs,
  closing_obs evs (run c evs) = true ->
  let its := snd (step c EWrite (final c evs)) in
  cnt is_wok its = 0%nat /\ cnt is_werr its = 1%nat /\ cnt is_data its = 0%nat.
Proof. exact model_write_after_closing_fails. Qed.
Print Assumptions C16_write_after_closing_raises.

(* and only then *)
Theorem C16_write_before_closing_succeeds : forall c evs,
  closing_obs evs (run c evs) = false ->
  let its := snd (step c EWrite (final c evs)) in
  cnt is_wok its = 1%nat /\ cnt is_werr its = 0%nat /\ cnt is_data its = 1%nat.
Proof. exact model_write_before_closing_succeeds. Qed.
Print Assumptions C16_write_before_closing_succeeds.

(* every call of the application, in every reachable state: how many times write_message returned /
   raised, data frames written, ping() returned / raised, close() raised -- as a function of the event
   and of whether the endpoint was closing (as the application can observe it) before the call.  In
   particular ping() raises WebSocketClosedError exactly when closing, close() raises exactly when
   it is not closing and its arguments cannot be encoded, and no other event writes a data frame. *)
Theorem C16_application_calls_behave_as_specified : forall c evs e,
  counts (snd (step c e (final c evs))) = expected_b e (closing_obs evs (run c evs)).
Proof. exact model_api_calls. Qed.
Print Assumptions C16_application_calls_behave_as_specified.

Theorem C16_ping_raises_exactly_when_closing : forall c evs,
  let its := snd (step c EAppPing (final c evs)) in
  if closing_obs evs (run c evs)
  then cnt is_pok its = 0%nat /\ cnt is_perr its = 1%nat
  else cnt is_pok its = 1%nat /\ cnt is_perr its = 0%nat.
Proof. exact model_ping_raises_iff_closing. Qed.
Print Assumptions C16_ping_raises_exactly_when_closing.

(* close(code, reason) with code > 65535 or a reason longer than 123 UTF-8 bytes *)
Theorem C16_close_raises_exactly_when_frame_unencodable : forall c evs code reason,
  cnt is_cerr (snd (step c (ELocalClose code reason) (final c evs)))
  = if negb (closing_obs evs (run c evs)) && negb (close_args_ok code reason) then 1%nat else 0%nat.
Proof. exact model_close_raises_iff_unencodable. Qed.
Print Assumptions C16_close_raises_exactly_when_frame_unencodable.

Theorem C16_close_that_raises_changes_nothing : forall c code reason m,
  In ICloseErr (snd (act c (ELocalClose code reason) m)) -> fst (act c (ELocalClose code reason) m) = m.
Proof. exact model_close_that_raises_changes_nothing. Qed.
Print Assumptions C16_close_that_raises_changes_nothing.

(* ping timeout and closing timeout never race: one timer at a time *)
Theorem C16_closing_timer_only_after_ping_cancelled : forall c evs,
  s_wait (fst (final c evs)) = true -> s_ping (fst (final c evs)) = PNone.
Proof. exact model_one_timer. Qed.
Print Assumptions C16_closing_timer_only_after_ping_cancelled.

(* Phase 4 -- "tears down the TCP connection once both sides have closed or the closing timeout
   elapses", for BOTH roles (c arbitrary) and BOTH initiators, every history and every event:
   if the step of an event takes a Close frame of the peer off the wire then, at the end of that very
   step, the TCP stream is closed, no closing timeout is armed (the echoing side never arms one, the
   initiator's is disarmed on receipt of the echo), and our own Close frame is on the wire -- echoed in
   this step if it had not been sent before. *)
Theorem C16_close_received_tears_tcp_down_in_the_same_step : forall c evs e,
  let st := step c e (final c evs) in
  existsb is_hclose (snd st) = true ->
  s_sc (fst (fst st)) = true
  /\ s_wait (fst (fst st)) = false
  /\ (existsb is_sclose (items_of (run c evs)) = false -> existsb is_sclose (snd st) = true).
Proof. exact teardown_on_receipt. Qed.
Print Assumptions C16_close_received_tears_tcp_down_in_the_same_step.

(* the initiating side, any role: while its Close frame is out and the stream is still open, the 5 s
   closing timeout is armed, it is the only timer, and its expiry closes the stream *)
Theorem C16_initiator_closes_on_echo_or_closing_timeout : forall c evs,
  existsb is_sclose (items_of (run c evs)) = true ->
  s_sc (fst (final c evs)) = false ->
  s_wait (fst (final c evs)) = true /\ s_ping (fst (final c evs)) = PNone
  /\ s_sc (fst (final c (evs ++ [ETick]))) = true.
Proof. exact initiator_waits_with_timer. Qed.
Print Assumptions C16_initiator_closes_on_echo_or_closing_timeout.

(* once the peer's Close frame has been received ours is on the wire as well *)
Theorem C16_received_close_implies_own_close_sent : forall c evs,
  existsb is_hclose (items_of (run c evs)) = true -> existsb is_sclose (items_of (run c evs)) = true.
Proof. exact received_close_implies_sent. Qed.
Print Assumptions C16_received_close_implies_own_close_sent.

(* The model's decisions are the ones read from tornado/websocket.py on this run by
   translators/c16_src.py (Gen/C16_src.v): is_closing, the WebSocketClosedError guards of
   write_message / ping() on handler and client, ping_interval / ping_timeout (with clamping),
   the ping-timeout test and sleep time of periodic_ping, and close()'s default code. *)
Theorem C16_model_decisions_are_the_source_decisions :
  (forall s, is_closing s = src_is_closing (s_sc s) (s_ct s) (s_st s))
  /\ (forall r s, write r s = if guard_write_of r (negb (s_hconn s)) (src_is_closing (s_sc s) (s_ct s) (s_st s))
                              then (s, [IWriteErr]) else (s, [ISent SData; IWriteOk]))
  /\ (forall r s, app_ping s = if guard_ping_of r (negb (s_hconn s)) (src_is_closing (s_sc s) (s_ct s) (s_st s))
                               then (s, [IPingErr]) else (s, [ISent SPing; IPingOk]))
  /\ (forall c, ping_interval c = src_ping_interval (p_interval_of c))
  /\ (forall c, ping_timeout c = src_ping_timeout (ping_interval c) (p_timeout_of c))
  /\ (forall t pong, (t =? 0)%N = false -> src_ping_timed_out t pong = negb pong)
  /\ (forall l i t : N,
        (0 <? src_ping_sleep_time (Z.of_N l) (Z.of_N i) (Z.of_N l + Z.of_N t))%Z = (t <? i)%N)
  /\ (forall code (reason : option (list N)),
        match code, reason with None, Some _ => Some 1000%N | _, _ => code end
        = if src_close_default_code code (option_map (fun _ => 0%N) reason) then Some 1000%N else code).
Proof.
  repeat split.
  - exact src_write_guard_eq.
  - exact src_ping_guard_eq.
  - exact src_ping_interval_eq.
  - exact src_ping_timeout_eq.
  - exact src_ping_timed_out_eq.
  - exact src_ping_sleep_time_eq.
  - exact src_close_default_code_eq.
Qed.
Print Assumptions C16_model_decisions_are_the_source_decisions.
