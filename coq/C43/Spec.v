(* C43 — specification side. Definitions only:
   * the RFC 9112 start-line grammar as inductive relations,
   * an independent executable formulation (exhaustive search over all cuts at a space)
     used by check_case,
   * the scope / expected value of the header-parameter round trip,
   * the url_concat and is_valid_ip checkers. *)
From Coq Require Import List NArith ZArith Bool Arith.
From TV Require Import Lib.Obs C43.Model C43.Model2.
Import ListNotations.
Local Open Scope N_scope.

(* ------------------------------------------------------------------ *)
(* RFC 5234 / 9110 / 9112 grammar                                     *)
(* ------------------------------------------------------------------ *)
Definition Digit (c : N) : Prop := 48 <= c <= 57.                       (* DIGIT *)
Definition Alpha (c : N) : Prop := 65 <= c <= 90 \/ 97 <= c <= 122.     (* ALPHA *)
(* tchar = "!" / "#" / "$" / "%" / "&" / "'" / "*" / "+" / "-" / "." / "^" / "_" / "`" / "|" / "~" / DIGIT / ALPHA *)
Definition Tchar (c : N) : Prop := Digit c \/ Alpha c \/ In c tchar_punct.
Definition Vchar (c : N) : Prop := 33 <= c <= 126.                      (* VCHAR *)
Definition ObsText (c : N) : Prop := 128 <= c <= 255.                   (* obs-text *)
(* request-target is deliberately widened by Tornado to 1*( VCHAR / obs-text ) *)
Definition TargetChar (c : N) : Prop := Vchar c \/ ObsText c.
(* reason-phrase = 1*( HTAB / SP / VCHAR / obs-text ) *)
Definition ReasonChar (c : N) : Prop := c = 9 \/ c = 32 \/ Vchar c \/ ObsText c.

Inductive plus (P : N -> Prop) : str -> Prop :=          (* 1*P *)
| plus_one c : P c -> plus P [c]
| plus_cons c s : P c -> plus P s -> plus P (c :: s).
Inductive star (P : N -> Prop) : str -> Prop :=          (* *P *)
| star_nil : star P []
| star_cons c s : P c -> star P s -> star P (c :: s).

(* HTTP-version = HTTP-name "/" DIGIT "." DIGIT *)
Inductive g_http_version : str -> Prop :=
| g_ver a b : Digit a -> Digit b -> g_http_version (http_slash ++ [a; 46; b]).
(* request-line = method SP request-target SP HTTP-version *)
Inductive g_request_line : str -> str -> str -> str -> Prop :=
| g_rl m t v : plus Tchar m -> plus TargetChar t -> g_http_version v ->
               g_request_line (m ++ SP :: t ++ SP :: v) m t v.
(* status-code = 3DIGIT *)
Inductive g_status_code : str -> Prop :=
| g_sc a b c : Digit a -> Digit b -> Digit c -> g_status_code [a; b; c].
(* status-line = HTTP-version SP status-code SP [ reason-phrase ] *)
Inductive g_status_line : str -> str -> str -> str -> Prop :=
| g_sl v c r : g_http_version v -> g_status_code c -> star ReasonChar r ->
               g_status_line (v ++ SP :: c ++ SP :: r) v c r.
(* the major version digit of an HTTP-version *)
Definition major_is_1 (v : str) : Prop := nth_error v 5 = Some 49.

(* ------------------------------------------------------------------ *)
(* executable search formulation                                      *)
(* ------------------------------------------------------------------ *)
(* every way of cutting s at one of its spaces *)
Fixpoint cuts (s : str) : list (str * str) :=
  match s with
  | [] => []
  | c :: r => (if c =? SP then [([], r)] else []) ++ map (fun ab => (c :: fst ab, snd ab)) (cuts r)
  end.
Definition cuts2 (s : str) : list (str * str * str) :=
  flat_map (fun ab => map (fun cd => (fst ab, fst cd, snd cd)) (cuts (snd ab))) (cuts s).

Definition req_ok (x : str * str * str) : bool :=
  let '(m, t, v) := x in all_ne is_tchar m && all_ne is_field_vchar t && is_http_version v.
Definition spec_request (s : str) : sl_result (str * str * str) :=
  match find req_ok (cuts2 s) with
  | Some (m, t, v) => if version_major_is_1 v then SlOk (m, t, v) else SlErr BadVersion
  | None => SlErr Malformed
  end.

Definition resp_ok (x : str * str * str) : bool :=
  let '(v, c, r) := x in
  is_http_version v && (length c =? 3)%nat && forallb is_digit c && forallb is_reason_char r.
Definition spec_response (s : str) : sl_result (str * N * option str) :=
  match find resp_ok (cuts2 s) with
  | Some (v, c, r) =>
      if version_major_is_1 v then SlOk (v, dec_value c, if is_nil r then None else Some r)
      else SlErr BadVersion
  | None => SlErr Malformed
  end.

(* ------------------------------------------------------------------ *)
(* header parameter round trip                                        *)
(* ------------------------------------------------------------------ *)
Definition is_token (s : str) : bool := all_ne is_tchar s.
(* lower-case token without '*' (so not an RFC 2231 continuation/extended name) *)
Definition is_rt_name (s : str) : bool :=
  all_ne (fun c => is_tchar c && negb (is_upper c) && negb (c =? 42)) s.
(* a value that _encode_header can emit unquoted and _parse_header gives back verbatim:
   visible ASCII without DQUOTE, ';' and BACKSLASH, and not of the form <...> (which
   email.utils.unquote strips); every token is such a value; may be empty *)
Definition is_rt_value (v : str) : bool :=
  forallb (fun c => in_range 33 126 c && negb (memN c [34; 59; 92])) v
  && negb (first_is 60 v && last_is 62 v).
Fixpoint distinct (l : list str) : bool :=
  match l with
  | [] => true
  | x :: r => negb (existsb (str_eqb x) r) && distinct r
  end.
Definition roundtrip_scope (k : str) (ps : list (str * option str)) : bool :=
  is_token k && distinct (map fst ps)
  && forallb (fun kv : str * option str =>
                is_rt_name (fst kv) && match snd kv with Some v => is_rt_value v | None => true end) ps.
(* the dict _parse_header must give back: the valued items, in sorted key order *)
Definition expected_params (ps : list (str * option str)) : list (str * str) :=
  flat_map (fun kv : str * option str =>
              match snd kv with Some v => [(fst kv, v)] | None => [] end) (sort_by item_leb ps).

(* ------------------------------------------------------------------ *)
(* url_concat: the result keeps head and fragment, and its query decodes to
   (old pairs ++ args)                                                *)
(* ------------------------------------------------------------------ *)
Definition pair_eqb (a b : str * str) : bool := str_eqb (fst a) (fst b) && str_eqb (snd a) (snd b).
Definition url_in_scope (u : str) : bool :=
  let '(head, query, frag) := url_parts u in simple_head head.
(* every code point of the old pairs and of the arguments can be UTF-8 encoded *)
Definition url_encodable (u : str) (args : list (str * str)) : bool :=
  let '(head, query, frag) := url_parts u in
  match urlencode (parse_qsl query ++ args) with Some _ => true | None => false end.
Definition url_result_ok (u : str) (args : list (str * str)) (r : str) : bool :=
  let '(head, query, frag) := url_parts u in
  let '(h2, q2, f2) := url_parts r in
  str_eqb h2 head && str_eqb f2 frag && list_eqb pair_eqb (parse_qsl q2) (parse_qsl query ++ args).
(* [err] is the observable of UnicodeEncodeError *)
Definition check_url_concat (err : obs) (u : str) (args : list (str * str)) (o : obs) : bool :=
  if url_in_scope u
  then match o with
       | OBytes r => url_result_ok u args r
       | OTag _ => obs_eqb o err && negb (url_encodable u args)
       | _ => false
       end
  else true.

(* ------------------------------------------------------------------ *)
(* is_valid_ip: what the property demands on the decisive classes     *)
(* ------------------------------------------------------------------ *)
(* letters, digits, '-' and '.' with at least one letter that is neither a hex digit nor x *)
Definition host_name_shape (s : str) : bool :=
  forallb (fun c => is_alnum c || memN c [45; 46]) s
  && existsb (fun c => is_alpha c && negb (is_hex c) && negb (memN c [120; 88])) s.
Definition spec_ip (s : str) : option bool :=
  (* empty, NUL-containing and non-ASCII text (IDNA would normalise it) must be rejected *)
  if is_nil s || memN 0 s || negb (is_ascii_str s) then Some false
  else if plain_ipv4 s || plain_ipv6 s then Some true
  else if host_name_shape s then Some false
  else None.

(* ------------------------------------------------------------------ *)
(* HTTP dates: the round trip is demanded from 0100-01-01T00:00:00Z on (the standard
   library reader reinterprets years below 100)                       *)
(* ------------------------------------------------------------------ *)
Definition date_rt_min : Z := (-59011459200)%Z.
