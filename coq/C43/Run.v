(* C43 — executable entry points used by the correspondence check:
   [run_case] (model observable) and [check_case] (the property on observables). *)
From Coq Require Import List NArith ZArith String Bool.
Import ListNotations.
From TV Require Import Lib.Obs C43.Model C43.Model2 C43.Spec.
Local Open Scope N_scope.

(* one correspondence case = one call of one of the utilities *)
Inductive input :=
| InReq (s : str)                                   (* parse_request_start_line(s) *)
| InResp (s : str)                                  (* parse_response_start_line(s) *)
| InHostPort (s : str)                              (* split_host_and_port(s) *)
| InCookie (s : str)                                (* parse_cookie(s), items in dict order *)
| InParseHeader (s : str)                           (* _parse_header(s) *)
| InEncodeHeader (k : str) (ps : list (str * option str))
                                                    (* e = _encode_header(k, dict(ps)); _parse_header(e) *)
| InReUnescape (s : str)                            (* re_unescape(s) *)
| InReEscape (s : str)                              (* e = re.escape(s); re_unescape(e) *)
| InUrlConcat (u : str) (args : list (str * str))   (* url_concat(u, args) *)
| InDate (t : Z)                                    (* f = format_timestamp(t); timegm(parsedate(f)) *)
| InValidIp (s : str).                              (* is_valid_ip(s) *)

Definition ob (s : str) : obs := OBytes s.
Definition opairs (l : list (str * str)) : obs :=
  OList (map (fun kv => OList [ob (fst kv); ob (snd kv)]) l).

Definition sl_err_obs (e : sl_error) : obs :=
  match e with Malformed => OTag "Malformed" | BadVersion => OTag "BadVersion" end.
Definition req_obs (r : sl_result (str * str * str)) : obs :=
  match r with
  | SlOk (m, t, v) => OList [ob m; ob t; ob v]
  | SlErr e => sl_err_obs e
  end.
Definition resp_obs (r : sl_result (str * N * option str)) : obs :=
  match r with
  | SlOk (v, c, reason) =>
      OList [ob v; OInt (Z.of_N c); match reason with Some x => ob x | None => ONone end]
  | SlErr e => sl_err_obs e
  end.
Definition hp_obs (r : str * option N) : obs :=
  OList [ob (fst r); match snd r with Some n => OInt (Z.of_N n) | None => ONone end].
Definition ph_obs (r : ph_result) : obs :=
  match r with
  | PhOk k ps => OList [ob k; opairs ps]
  | PhExt k => OList [OTag "Ext2231"; ob k]
  end.
Definition unesc_obs (r : option str) : obs :=
  match r with Some s => ob s | None => OTag "ValueError" end.
Definition uc_obs (r : uc_result) : obs :=
  match r with
  | UcOk s => ob s
  | UcEncodeError => OTag "UnicodeEncodeError"
  | UcOutOfModel => OTag "OutOfModel"
  end.
Definition date_obs (t : Z) : obs :=
  match format_timestamp t with
  | Some f => OList [ob f; match parse_http_date f with Some t' => OInt t' | None => ONone end]
  | None => OTag "OutOfRange"
  end.
Definition ip_obs (r : option bool) : obs :=
  match r with Some b => OBool b | None => OTag "OutOfModel" end.

Definition run_case (i : input) : obs :=
  match i with
  | InReq s => req_obs (parse_request s)
  | InResp s => resp_obs (parse_response s)
  | InHostPort s => hp_obs (split_host_and_port s)
  | InCookie s => opairs (parse_cookie s)
  | InParseHeader s => ph_obs (parse_header s)
  | InEncodeHeader k ps => let e := encode_header k ps in OList [ob e; ph_obs (parse_header e)]
  | InReUnescape s => unesc_obs (re_unescape s)
  | InReEscape s => let e := re_escape s in OList [ob e; unesc_obs (re_unescape e)]
  | InUrlConcat u args => uc_obs (url_concat u args)
  | InDate t => date_obs t
  | InValidIp s => ip_obs (is_valid_ip s)
  end.

(* ---- the property, on the IMPLEMENTATION's observable ---- *)
Definition is_tag (o : obs) : bool := match o with OTag _ => true | _ => false end.

Definition check_case (i : input) (o : obs) : bool :=
  match i with
  | InReq s =>
      (* accepts exactly the grammar: compare with an exhaustive search over all ways of
         cutting s at two spaces (Spec.v), not with the first-space recogniser *)
      obs_eqb o (req_obs (spec_request s))
  | InResp s => obs_eqb o (resp_obs (spec_response s))
  | InHostPort _ | InCookie _ | InParseHeader _ => negb (is_tag o)          (* never raise *)
  | InEncodeHeader k ps =>
      (* token-valued parameters round-trip *)
      if roundtrip_scope k ps
      then match o with
           | OList [_; p] => obs_eqb p (OList [ob k; opairs (expected_params ps)])
           | _ => false
           end
      else match o with OList [_; p] => negb (is_tag p) | _ => false end
  | InReUnescape s => if memN 92 s then true else obs_eqb o (ob s)
  | InReEscape s =>
      match o with OList [_; r] => obs_eqb r (ob s) | _ => false end        (* re_unescape inverts re.escape *)
  | InUrlConcat u args => check_url_concat (OTag "UnicodeEncodeError") u args o
  | InDate t =>
      match o with
      | OList [_; r] => negb (date_rt_min <=? t)%Z || obs_eqb r (OInt t)
      | OTag _ => negb (date_in_range t)
      | _ => false
      end
  | InValidIp s =>
      match spec_ip s with
      | Some b => obs_eqb o (OBool b)
      | None => true
      end
  end.
