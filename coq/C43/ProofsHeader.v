(* C43 — proofs, part 3: header parameters whose values need no quoting (tokens in
   particular) round-trip through
   _encode_header / _parse_header. *)
From Coq Require Import List NArith Bool Arith Lia Permutation.
From TV Require Import Lib.Obs C43.Model C43.Spec C43.ProofsStart.
Import ListNotations.
Local Open Scope N_scope.

(* ---------- character facts ---------- *)
Definition vis (c : N) : Prop := 33 <= c <= 126.

Lemma tchar_vis c : is_tchar c = true -> vis c.
Proof.
  intros H. apply is_tchar_iff in H. unfold Tchar, Digit, Alpha, tchar_punct, vis in *.
  destruct H as [H|[H|H]]; [lia|lia|].
  cbn in H. repeat (destruct H as [<-|H]; [lia|]). destruct H.
Qed.

Lemma tchar_not c : is_tchar c = true -> c <> 34 /\ c <> 59 /\ c <> 92 /\ c <> 61 /\ c <> 60.
Proof.
  intros H. apply is_tchar_iff in H. unfold Tchar, Digit, Alpha, tchar_punct in *.
  destruct H as [H|[H|H]]; [lia|lia|].
  cbn in H. repeat (destruct H as [<-|H]; [repeat split; discriminate|]). destruct H.
Qed.

Lemma in_range_false lo hi c : c < lo \/ hi < c -> in_range lo hi c = false.
Proof.
  intros H. unfold in_range. apply andb_false_iff. destruct H as [H|H]; [left|right]; apply N.leb_gt; exact H.
Qed.

Lemma vis_not_space c : vis c -> is_space c = false.
Proof.
  unfold vis, is_space. intros H.
  rewrite !in_range_false by lia. cbn [orb].
  unfold memN. cbn [existsb]. rewrite !orb_false_iff. repeat split; apply N.eqb_neq; lia.
Qed.

(* ---------- strip / lower on visible text ---------- *)
Lemma lstrip_vis x : Forall vis x -> lstrip x = x.
Proof. intros H. destruct H as [|c x Hc Hx]; [reflexivity|]. cbn [lstrip]. rewrite (vis_not_space c Hc). reflexivity. Qed.

Lemma strip_vis x : Forall vis x -> strip x = x.
Proof.
  intros H. unfold strip, rstrip. rewrite (lstrip_vis x H).
  rewrite lstrip_vis by (apply Forall_rev; exact H). apply rev_involutive.
Qed.

Lemma strip_sp_vis x : Forall vis x -> strip (32 :: x) = x.
Proof.
  intros H. unfold strip. change (lstrip (32 :: x)) with (lstrip x). rewrite (lstrip_vis x H).
  unfold rstrip. rewrite lstrip_vis by (apply Forall_rev; exact H). apply rev_involutive.
Qed.

Definition rt_char (c : N) : bool := is_tchar c && negb (is_upper c) && negb (c =? 42).

Lemma rt_char_facts c : rt_char c = true -> is_tchar c = true /\ lower_c c = c /\ c <> 42.
Proof.
  unfold rt_char. intros H. rewrite !andb_true_iff, !negb_true_iff in H. destruct H as [[Ht Hu] Hs].
  split; [exact Ht|]. split; [|apply N.eqb_neq; exact Hs].
  unfold lower_c. rewrite Hu. pose proof (tchar_vis c Ht) as Hv. unfold vis in Hv.
  rewrite in_range_false by lia. reflexivity.
Qed.

Lemma lower_id s : Forall (fun c => lower_c c = c) s -> lower s = s.
Proof. unfold lower. induction 1 as [|c s Hc Hs IH]; [reflexivity|]. cbn [map]. rewrite Hc, IH. reflexivity. Qed.

Lemma forallb_Forall {A} (p : A -> bool) l : forallb p l = true <-> Forall (fun x => p x = true) l.
Proof.
  rewrite forallb_forall, Forall_forall. tauto.
Qed.

Lemma all_ne_Forall p s : all_ne p s = true -> s <> [] /\ Forall (fun c => p c = true) s.
Proof.
  unfold all_ne, nonempty. intros H. apply andb_true_iff in H as [Hn Hf]. split.
  - intros ->. discriminate.
  - apply forallb_Forall. exact Hf.
Qed.

(* ---------- _parseparam on text without double quotes ---------- *)
Definition nq (c : N) : Prop := c <> 34 /\ c <> 59.

Lemma split_params_last x : Forall nq x -> forall pb cur,
  split_params x false pb cur = (rev cur ++ x, []).
Proof.
  induction 1 as [|c x [Hq Hs] Hx IH]; intros pb cur.
  - cbn. rewrite app_nil_r. reflexivity.
  - cbn [split_params]. apply N.eqb_neq in Hq, Hs. rewrite Hq, Hs. cbn [andb negb].
    rewrite IH. cbn [rev]. rewrite <- app_assoc. reflexivity.
Qed.

Lemma split_params_semi x : Forall nq x -> forall pb cur rest f fs,
  split_params rest false false [] = (f, fs) ->
  split_params (x ++ 59 :: rest) false pb cur = (rev cur ++ x, f :: fs).
Proof.
  induction 1 as [|c x [Hq Hs] Hx IH]; intros pb cur rest f fs Hrest.
  - cbn [app split_params]. rewrite N.eqb_refl. cbn [andb negb]. rewrite Hrest, app_nil_r. reflexivity.
  - cbn [app split_params]. apply N.eqb_neq in Hq, Hs. rewrite Hq, Hs. cbn [andb negb].
    rewrite (IH _ _ _ _ _ Hrest). cbn [rev]. rewrite <- app_assoc. reflexivity.
Qed.

Definition ptail (items : list str) : str := flat_map (fun q => 59 :: 32 :: q) items.

Lemma split_params_items items : Forall (Forall nq) items -> forall x pb cur, Forall nq x ->
  split_params (x ++ ptail items) false pb cur = (rev cur ++ x, map (cons 32) items).
Proof.
  induction 1 as [|q items Hq Hitems IH]; intros x pb cur Hx.
  - cbn [ptail flat_map]. rewrite app_nil_r. apply split_params_last. exact Hx.
  - cbn [ptail flat_map map]. fold (ptail items).
    apply split_params_semi; [exact Hx|].
    apply (IH (32 :: q) false []). constructor; [split; discriminate|exact Hq].
Qed.

(* ---------- the encoder ---------- *)
Definition item (kv : str * option str) : str :=
  match snd kv with None => fst kv | Some v => fst kv ++ 61 :: v end.

Lemma encode_header_eq k ps : encode_header k ps = k ++ ptail (map item (sort_by item_leb ps)).
Proof.
  unfold encode_header. destruct ps as [|p ps]; [cbn; rewrite app_nil_r; reflexivity|].
  reflexivity.
Qed.

(* ---------- sorting is a permutation ---------- *)
Lemma insert_sorted_perm {A} (leb : A -> A -> bool) x l : Permutation (insert_sorted leb x l) (x :: l).
Proof.
  induction l as [|y l IH]; [reflexivity|]. cbn. destruct (leb x y); [reflexivity|].
  rewrite IH. apply perm_swap.
Qed.
Lemma sort_by_perm {A} (leb : A -> A -> bool) l : Permutation (sort_by leb l) l.
Proof.
  induction l as [|x l IH]; [reflexivity|]. cbn. rewrite insert_sorted_perm. constructor. exact IH.
Qed.

(* ---------- per-item conditions ---------- *)
Definition good_item (kv : str * option str) : Prop :=
  is_rt_name (fst kv) = true /\ match snd kv with Some v => is_rt_value v = true | None => True end.

Lemma rt_name_facts n : is_rt_name n = true ->
  n <> [] /\ Forall vis n /\ Forall nq n /\ ~ In 61 n /\ ~ In 42 n /\ lower n = n.
Proof.
  intros H. apply all_ne_Forall in H as [Hne Hf]. split; [exact Hne|].
  assert (Hall : forall c, In c n -> is_tchar c = true /\ lower_c c = c /\ c <> 42).
  { intros c Hin. rewrite Forall_forall in Hf. apply rt_char_facts. apply Hf. exact Hin. }
  repeat split.
  - apply Forall_forall. intros c Hin. apply tchar_vis. apply Hall. exact Hin.
  - apply Forall_forall. intros c Hin. destruct (tchar_not c (proj1 (Hall c Hin))) as (?&?&?&?&?). split; assumption.
  - intros Hin. destruct (tchar_not 61 (proj1 (Hall 61 Hin))) as (?&?&?&?&?). congruence.
  - intros Hin. destruct (Hall 42 Hin) as (_&_&?). congruence.
  - apply lower_id. apply Forall_forall. intros c Hin. apply Hall. exact Hin.
Qed.

Lemma token_facts v : is_token v = true ->
  v <> [] /\ Forall vis v /\ Forall nq v /\ ~ In 92 v /\ ~ In 34 v /\ first_is 34 v = false /\ first_is 60 v = false.
Proof.
  intros H. apply all_ne_Forall in H as [Hne Hf]. split; [exact Hne|].
  assert (Hall : forall c, In c v -> is_tchar c = true) by (rewrite Forall_forall in Hf; exact Hf).
  repeat split.
  - apply Forall_forall. intros c Hin. apply tchar_vis. auto.
  - apply Forall_forall. intros c Hin. destruct (tchar_not c (Hall c Hin)) as (?&?&?&?&?). split; assumption.
  - intros Hin. destruct (tchar_not 92 (Hall 92 Hin)) as (?&?&?&?&?). congruence.
  - intros Hin. destruct (tchar_not 34 (Hall 34 Hin)) as (?&?&?&?&?). congruence.
  - destruct v as [|c v]; [reflexivity|]. cbn. apply N.eqb_neq.
    destruct (tchar_not c (Hall c (or_introl eq_refl))) as (?&?&?&?&?). assumption.
  - destruct v as [|c v]; [reflexivity|]. cbn. apply N.eqb_neq.
    destruct (tchar_not c (Hall c (or_introl eq_refl))) as (?&?&?&?&?). assumption.
Qed.

Lemma rt_value_facts v : is_rt_value v = true ->
  Forall vis v /\ Forall nq v /\ ~ In 92 v /\ ~ In 34 v /\ email_unquote v = v.
Proof.
  unfold is_rt_value. intros H. apply andb_true_iff in H as [Hf Hangle]. apply negb_true_iff in Hangle.
  assert (Hall : forall c, In c v -> vis c /\ c <> 34 /\ c <> 59 /\ c <> 92).
  { intros c Hin. rewrite forallb_forall in Hf. specialize (Hf c Hin).
    apply andb_true_iff in Hf as [Hr Hm]. apply in_range_iff in Hr. apply negb_true_iff in Hm.
    unfold memN in Hm. cbn [existsb] in Hm. rewrite !orb_false_iff, !N.eqb_neq in Hm. unfold vis. tauto. }
  repeat split.
  - apply Forall_forall. intros c Hin. apply Hall. exact Hin.
  - apply Forall_forall. intros c Hin. destruct (Hall c Hin) as (_&?&?&_). split; assumption.
  - intros Hin. destruct (Hall 92 Hin) as (_&_&_&?). congruence.
  - intros Hin. destruct (Hall 34 Hin) as (_&?&_). congruence.
  - unfold email_unquote.
    assert (H34 : first_is 34 v = false).
    { destruct v as [|c v]; [reflexivity|]. cbn. apply N.eqb_neq. destruct (Hall c (or_introl eq_refl)) as (_&?&_). assumption. }
    rewrite H34, Hangle. cbn [andb]. destruct (1 <? length v)%nat; reflexivity.
Qed.

Lemma token_is_rt_value v : is_token v = true -> is_rt_value v = true.
Proof.
  intros H. destruct (token_facts v H) as (_&Hvis&Hnq&H92&H34&_&H60).
  unfold is_rt_value. rewrite H60. cbn [andb negb]. rewrite andb_true_r.
  apply forallb_forall. intros c Hin. rewrite Forall_forall in Hvis, Hnq.
  pose proof (Hvis c Hin) as Hv. destruct (Hnq c Hin) as [Hq Hs].
  apply andb_true_iff. split; [apply in_range_iff; exact Hv|].
  apply negb_true_iff. unfold memN. cbn [existsb]. rewrite !orb_false_iff, !N.eqb_neq.
  repeat split; try assumption. intros ->. apply H92. exact Hin.
Qed.

Lemma good_item_nq kv : good_item kv -> Forall nq (item kv).
Proof.
  intros [Hn Hv]. destruct kv as [n [v|]]; cbn in *.
  - destruct (rt_name_facts n Hn) as (_&_&Hnq&_). destruct (rt_value_facts v Hv) as (_&Hvq&_).
    apply Forall_app. split; [exact Hnq|]. constructor; [split; discriminate|exact Hvq].
  - destruct (rt_name_facts n Hn) as (_&_&Hnq&_). exact Hnq.
Qed.

Lemma split_first_none d s : ~ In d s -> split_first d s = None.
Proof.
  induction s as [|c s IH]; intros H; [reflexivity|]. cbn.
  destruct (c =? d) eqn:E.
  - apply N.eqb_eq in E. subst. exfalso. apply H. left. reflexivity.
  - rewrite IH; [reflexivity|]. intros Hin. apply H. right. exact Hin.
Qed.

Definition valued (l : list (str * option str)) : list (str * str) :=
  flat_map (fun kv : str * option str => match snd kv with Some v => [(fst kv, v)] | None => [] end) l.

Lemma raw_params_items l : Forall good_item l ->
  raw_params (map (cons 32) (map item l)) = valued l.
Proof.
  induction 1 as [|kv l [Hn Hv] Hl IH]; [reflexivity|].
  cbn [map raw_params valued flat_map]. fold (valued l).
  destruct (rt_name_facts _ Hn) as (_ & Hnvis & _ & Hn61 & _ & Hlow).
  destruct kv as [n [v|]]; cbn [fst snd item] in *.
  - destruct (rt_value_facts v Hv) as (Hvvis & _).
    rewrite strip_sp_vis by (apply Forall_app; split; [exact Hnvis|constructor; [unfold vis; lia|exact Hvvis]]).
    assert (Hs : split_first 61 (n ++ 61 :: v) = Some (n, v)) by (apply split_first_some; auto).
    rewrite Hs, (strip_vis n Hnvis), (strip_vis v Hvvis), Hlow, IH. reflexivity.
  - rewrite strip_sp_vis by exact Hnvis. rewrite (split_first_none 61 n Hn61). exact IH.
Qed.

(* ---------- decode_params on plain names ---------- *)
Lemma classify_plain n : ~ In 42 n -> classify_name n = NPlain.
Proof. intros H. unfold classify_name. rewrite (split_first_none 42 n H). reflexivity. Qed.

Lemma decode_loop_plain ps : Forall (fun nv : str * str => ~ In 42 (fst nv)) ps -> forall plain groups,
  decode_loop ps plain groups
  = Some (plain ++ map (fun nv => (fst nv, email_unquote (snd nv))) ps, groups).
Proof.
  induction 1 as [|[n v] ps Hn Hps IH]; intros plain groups.
  - cbn. rewrite app_nil_r. reflexivity.
  - cbn [decode_loop]. cbn [fst] in Hn. rewrite (classify_plain n Hn), IH.
    cbn [map fst snd]. rewrite <- app_assoc. reflexivity.
Qed.

Lemma email_unquote_rt v : is_rt_value v = true -> email_unquote v = v.
Proof. intros H. apply (rt_value_facts v H). Qed.

Lemma email_quote_id v : ~ In 92 v -> ~ In 34 v -> email_quote v = v.
Proof.
  unfold email_quote. induction v as [|c v IH]; intros H92 H34; [reflexivity|].
  cbn [flat_map].
  assert (c <> 92) by (intros ->; apply H92; left; reflexivity).
  assert (c <> 34) by (intros ->; apply H34; left; reflexivity).
  rewrite (proj2 (N.eqb_neq c 92)), (proj2 (N.eqb_neq c 34)) by assumption. cbn [orb app].
  rewrite IH; [reflexivity| |]; intros Hin; [apply H92|apply H34]; right; exact Hin.
Qed.

Lemma replace2_id a b c s : ~ In a s -> replace2 a b c s = s.
Proof.
  induction s as [|x s IH]; intros H; [reflexivity|].
  cbn [replace2]. destruct s as [|y t]; [reflexivity|].
  assert (Hx : (x =? a) = false) by (apply N.eqb_neq; intros ->; apply H; left; reflexivity).
  rewrite Hx. cbn [andb]. rewrite IH; [reflexivity|]. intros Hin. apply H. right. exact Hin.
Qed.

Lemma collapse_plain_rt v : is_rt_value v = true -> collapse_plain v = v.
Proof.
  intros H. destruct (rt_value_facts v H) as (_&_&H92&H34&_).
  unfold collapse_plain. rewrite (email_quote_id v H92 H34).
  assert (Hu : email_unquote (34 :: v ++ [34]) = v).
  { unfold email_unquote.
    assert (Hlen : Nat.ltb 1 (length (34 :: v ++ [34])) = true).
    { apply Nat.ltb_lt. cbn [length]. rewrite app_length. cbn. lia. }
    rewrite Hlen.
    assert (Hlast : last_is 34 (34 :: v ++ [34]) = true).
    { unfold last_is. cbn [rev]. rewrite rev_app_distr. reflexivity. }
    rewrite Hlast. cbn [first_is]. rewrite N.eqb_refl. cbn [andb].
    unfold middle. cbn [tl]. rewrite removelast_last.
    rewrite (replace2_id 92 92 92 v H92). apply replace2_id. exact H92. }
  exact Hu.
Qed.

(* ---------- dict construction on distinct keys ---------- *)
Lemma dict_set_fresh {V} k (v : V) d : ~ In k (map fst d) -> dict_set k v d = d ++ [(k, v)].
Proof.
  induction d as [|[k' v'] d IH]; intros H; [reflexivity|].
  cbn [dict_set]. destruct (str_eqb k k') eqn:E.
  - apply str_eqb_iff in E. subst. exfalso. apply H. left. reflexivity.
  - rewrite IH; [reflexivity|]. intros Hin. apply H. right. exact Hin.
Qed.

Lemma to_dict_acc (l : list (str * str)) : forall acc, NoDup (map fst acc ++ map fst l) ->
  fold_left (fun d nv => dict_set (fst nv) (snd nv) d) l acc = acc ++ l.
Proof.
  induction l as [|[k v] l IH]; intros acc H.
  - cbn. rewrite app_nil_r. reflexivity.
  - cbn [fold_left fst snd]. rewrite dict_set_fresh.
    + rewrite IH.
      * rewrite <- app_assoc. reflexivity.
      * rewrite map_app. cbn [map fst]. rewrite <- app_assoc. exact H.
    + cbn [map fst] in H. apply NoDup_remove_2 in H. intros Hin. apply H. apply in_or_app. left. exact Hin.
Qed.

Lemma to_dict_nodup l : NoDup (map fst l) -> to_dict l = l.
Proof. intros H. unfold to_dict. rewrite to_dict_acc; [reflexivity|exact H]. Qed.

Lemma distinct_NoDup l : distinct l = true -> NoDup l.
Proof.
  induction l as [|x l IH]; intros H; [constructor|].
  cbn in H. apply andb_true_iff in H as [Hx Hl]. constructor; [|auto].
  intros Hin. apply negb_true_iff in Hx.
  assert (existsb (str_eqb x) l = true).
  { apply existsb_exists. exists x. split; [exact Hin|apply str_eqb_iff; reflexivity]. }
  congruence.
Qed.

Lemma valued_keys_nodup l : NoDup (map fst l) -> NoDup (map fst (valued l)).
Proof.
  induction l as [|[n [v|]] l IH]; intros H; cbn in *.
  - constructor.
  - inversion H as [|? ? Hn Hl]; subst. constructor; [|auto].
    intros Hin. apply Hn. clear -Hin. induction l as [|[n' [v'|]] l IH]; cbn in *; [exact Hin| |].
    + destruct Hin as [->|Hin]; [left; reflexivity|right; auto].
    + right; auto.
  - inversion H; subst. auto.
Qed.

(* ---------- the round trip ---------- *)
Theorem parse_encode_roundtrip k ps :
  roundtrip_scope k ps = true ->
  parse_header (encode_header k ps) = PhOk k (expected_params ps).
Proof.
  unfold roundtrip_scope. intros H. rewrite !andb_true_iff in H. destruct H as [[Hk Hd] Hps].
  set (l := sort_by item_leb ps).
  assert (Hperm : Permutation l ps) by apply sort_by_perm.
  assert (Hgood : Forall good_item l).
  { apply forallb_Forall in Hps. apply (Permutation_Forall (Permutation_sym Hperm)).
    eapply Forall_impl; [|exact Hps]. intros [n v] Hx. cbn in Hx. apply andb_true_iff in Hx as [Hn Hv].
    split; [exact Hn|]. cbn. destruct v; [exact Hv|exact I]. }
  assert (Hnodup : NoDup (map fst l)).
  { apply (Permutation_NoDup (l := map fst ps)); [apply Permutation_map, Permutation_sym, Hperm|].
    apply distinct_NoDup. exact Hd. }
  destruct (token_facts k Hk) as (_ & Hkvis & Hknq & _).
  rewrite encode_header_eq. fold l. unfold parse_header.
  rewrite (split_params_items (map item l)); [| |exact Hknq].
  2:{ apply Forall_map. eapply Forall_impl; [|exact Hgood]. apply good_item_nq. }
  cbn [rev app]. rewrite (strip_vis k Hkvis), (raw_params_items l Hgood).
  assert (Hstar : Forall (fun nv : str * str => ~ In 42 (fst nv)) (valued l)).
  { clear -Hgood. induction Hgood as [|[n [v|]] l [Hn Hv] Hl IH]; cbn; [constructor| |exact IH].
    constructor; [|exact IH]. cbn. destruct (rt_name_facts n Hn) as (_&_&_&_&H42&_). exact H42. }
  rewrite (decode_loop_plain _ Hstar). cbn [existsb app map].
  assert (Hvals : Forall (fun nv : str * str => is_rt_value (snd nv) = true) (valued l)).
  { clear -Hgood. induction Hgood as [|[n [v|]] l [Hn Hv] Hl IH]; cbn; [constructor| |exact IH].
    constructor; [exact Hv|exact IH]. }
  rewrite app_nil_r, map_map.
  assert (Hmap : map (fun x : str * str => (fst x, collapse_plain (email_unquote (snd x)))) (valued l) = valued l).
  { clear -Hvals. induction Hvals as [|[n v] r Hv Hr IH]; [reflexivity|]. cbn [map fst snd] in *.
    rewrite (email_unquote_rt v Hv), (collapse_plain_rt v Hv), IH. reflexivity. }
  cbn [fst snd]. rewrite Hmap. rewrite to_dict_nodup by (apply valued_keys_nodup; exact Hnodup).
  reflexivity.
Qed.

(* a concrete instance of the hypothesis: the websocket extension header of the doctest *)
Example roundtrip_scope_example :
  roundtrip_scope [112;109;100]                        (* "pmd" *)
    [([119;98], Some [49;53]); ([110;99], None); ([97], Some [120])] = true.
Proof. reflexivity. Qed.
