(* C43 — HTTP utility parsers and formatters (tornado/httputil.py, tornado/util.py,
   tornado/netutil.py).  Definitions only: total, computable Gallina models of
     parse_request_start_line / parse_response_start_line   (with the _ABNF regexes)
     split_host_and_port, parse_cookie / _unquote_cookie
     _parseparam / _parse_header / _encode_header (email.utils quote/unquote/decode_params)
     re.escape / util.re_unescape
     url_concat (urllib query split / join, percent and UTF-8 coding)
     format_timestamp (email.utils.formatdate) and the IMF-fixdate reader
     is_valid_ip (plain textual IPv4 / IPv6 forms)
   Text is a list of code points (N). *)
From Coq Require Import List NArith ZArith Bool Arith.
From TV Require Import Lib.Obs.
Import ListNotations.
Local Open Scope N_scope.

Definition str := list N.

(* ------------------------------------------------------------------ *)
(* character classes                                                  *)
(* ------------------------------------------------------------------ *)
Definition in_range (lo hi c : N) : bool := (lo <=? c) && (c <=? hi).
Definition memN (c : N) (l : list N) : bool := existsb (N.eqb c) l.
Definition is_digit c := in_range 48 57 c.
Definition is_upper c := in_range 65 90 c.
Definition is_lower c := in_range 97 122 c.
Definition is_alpha c := is_upper c || is_lower c.
Definition is_alnum c := is_alpha c || is_digit c.
(* RFC 9110 tchar: "!#$%&'*+-.^_`|~" DIGIT ALPHA  (httputil._ABNF.tchar) *)
Definition tchar_punct : list N := [33;35;36;37;38;39;42;43;45;46;94;95;96;124;126].
Definition is_tchar c := is_alnum c || memN c tchar_punct.
Definition is_vchar c := in_range 33 126 c.             (* _ABNF.VCHAR  [\x21-\x7E] *)
Definition is_obs_text c := in_range 128 255 c.         (* _ABNF.obs_text [\x80-\xFF] *)
Definition is_field_vchar c := is_vchar c || is_obs_text c.
Definition is_reason_char c := (c =? 9) || (c =? 32) || is_field_vchar c.

Definition is_nil {A} (l : list A) : bool := match l with [] => true | _ => false end.
Definition nonempty {A} (l : list A) : bool := negb (is_nil l).
Definition str_eqb (a b : str) : bool := list_eqb N.eqb a b.

(* value of a string of ASCII decimal digits *)
Definition dec_value (ds : str) : N := fold_left (fun acc d => 10 * acc + (d - 48)) ds 0.

(* s.split(d, 1) when d occurs: (before, after) the first d *)
Fixpoint split_first (d : N) (s : str) : option (str * str) :=
  match s with
  | [] => None
  | c :: r =>
      if c =? d then Some ([], r)
      else match split_first d r with
           | None => None
           | Some (a, b) => Some (c :: a, b)
           end
  end.

(* ------------------------------------------------------------------ *)
(* start lines                                                        *)
(* ------------------------------------------------------------------ *)
Inductive sl_error := Malformed | BadVersion.
Inductive sl_result (A : Type) := SlOk (a : A) | SlErr (e : sl_error).
Arguments SlOk {A} a.
Arguments SlErr {A} e.

Definition SP : N := 32.
Definition http_slash : str := [72;84;84;80;47].     (* "HTTP/" *)

(* _ABNF.HTTP_version  HTTP/[0-9]\.[0-9] *)
Definition is_http_version (v : str) : bool :=
  match v with
  | [h; t; t'; p; sl; a; dot; b] =>
      str_eqb [h; t; t'; p; sl] http_slash && is_digit a && (dot =? 46) && is_digit b
  | _ => false
  end.
(* r.version.startswith("HTTP/1") for a string that already matched HTTP_version *)
Definition version_major_is_1 (v : str) : bool :=
  match v with
  | _ :: _ :: _ :: _ :: _ :: a :: _ => a =? 49
  | _ => false
  end.

Definition all_ne (p : N -> bool) (s : str) : bool := nonempty s && forallb p s.

(* _ABNF.request_line.fullmatch: (token) SP (field_vchar+) SP (HTTP_version) *)
Definition parse_request (s : str) : sl_result (str * str * str) :=
  match split_first SP s with
  | None => SlErr Malformed
  | Some (m, r) =>
      match split_first SP r with
      | None => SlErr Malformed
      | Some (t, v) =>
          if all_ne is_tchar m && all_ne is_field_vchar t && is_http_version v
          then if version_major_is_1 v then SlOk (m, t, v) else SlErr BadVersion
          else SlErr Malformed
      end
  end.

(* _ABNF.status_line.fullmatch: (HTTP_version) SP ([0-9]{3}) SP (reason_phrase)? *)
Definition parse_response (s : str) : sl_result (str * N * option str) :=
  let v := firstn 8 s in
  match skipn 8 s with
  | [] => SlErr Malformed
  | sp1 :: r =>
      let code := firstn 3 r in
      match skipn 3 r with
      | [] => SlErr Malformed
      | sp2 :: reason =>
          if is_http_version v && (sp1 =? SP) && forallb is_digit code && (sp2 =? SP)
             && forallb is_reason_char reason
          then if version_major_is_1 v
               then SlOk (v, dec_value code, if is_nil reason then None else Some reason)
               else SlErr BadVersion
          else SlErr Malformed
      end
  end.

(* ------------------------------------------------------------------ *)
(* str.strip / str.lower                                              *)
(* ------------------------------------------------------------------ *)
(* Py_UNICODE_ISSPACE: exactly the code points removed by str.strip() *)
Definition is_space (c : N) : bool :=
  in_range 9 13 c || in_range 28 32 c || in_range 8192 8202 c
  || memN c [133; 160; 5760; 8232; 8233; 8239; 8287; 12288].
Fixpoint lstrip (s : str) : str :=
  match s with
  | [] => []
  | c :: r => if is_space c then lstrip r else s
  end.
Definition rstrip (s : str) : str := rev (lstrip (rev s)).
Definition strip (s : str) : str := rstrip (lstrip s).
(* str.lower on U+0000..U+00FF (exact there); identity above (see NOTES.md) *)
Definition lower_c (c : N) : N :=
  if is_upper c || (in_range 192 222 c && negb (c =? 215)) then c + 32 else c.
Definition lower (s : str) : str := map lower_c s.

(* ------------------------------------------------------------------ *)
(* split_host_and_port:  _netloc_re = ^(.+):(\d+)$  then int(group 2)   *)
(* ------------------------------------------------------------------ *)
(* code points of the zero of every Unicode (15.0) decimal-digit run: \d and
   int() accept exactly z .. z+9 for each z below, with value c - z *)
Definition nd_zeros : list N :=
  [48; 1632; 1776; 1984; 2406; 2534; 2662; 2790; 2918; 3046; 3174; 3302; 3430; 3558; 3664;
   3792; 3872; 4160; 4240; 6112; 6160; 6470; 6608; 6784; 6800; 6992; 7088; 7232; 7248; 42528;
   43216; 43264; 43472; 43504; 43600; 44016; 65296; 66720; 68912; 69734; 69872; 69942; 70096;
   70384; 70736; 70864; 71248; 71360; 71472; 71904; 72016; 72784; 73040; 73120; 73552; 92768;
   92864; 93008; 120782; 120792; 120802; 120812; 120822; 123200; 123632; 124144; 125264; 130032].
Definition uni_digit_val (c : N) : option N :=
  match find (fun z => in_range z (z + 9) c) nd_zeros with
  | Some z => Some (c - z)
  | None => None
  end.
Definition is_uni_digit (c : N) : bool :=
  match uni_digit_val c with Some _ => true | None => false end.
(* int(ds) for a string of Unicode decimal digits; None when some character is not one *)
Definition uni_dec_value (ds : str) : option N :=
  fold_left (fun acc d => match acc, uni_digit_val d with
                          | Some a, Some v => Some (10 * a + v)
                          | _, _ => None
                          end) ds (Some 0).

(* CPython refuses int(str) beyond sys.int_info.default_max_str_digits (ValueError) *)
Definition int_max_str_digits : nat := 4300.

(* split at the LAST d *)
Definition split_last (d : N) (s : str) : option (str * str) :=
  match split_first d (rev s) with
  | None => None
  | Some (a, b) => Some (rev b, rev a)
  end.

Definition no_newline (s : str) : bool := forallb (fun c => negb (c =? 10)) s.

(* (host, port); the ValueError of int() on an over-long digit string is caught
   and the whole netloc returned with no port *)
Definition split_host_and_port (s : str) : str * option N :=
  (* '$' matches at the end or just before one final newline *)
  let body := match rev s with
              | c :: r => if c =? 10 then rev r else s
              | [] => s
              end in
  match split_last 58 body with
  | None => (s, None)
  | Some (h, p) =>
      if nonempty h && no_newline h && nonempty p && (length p <=? int_max_str_digits)%nat
      then match uni_dec_value p with
           | Some n => (h, Some n)
           | None => (s, None)
           end
      else (s, None)
  end.

(* ------------------------------------------------------------------ *)
(* dict as an association list in insertion order (d[k] = v)          *)
(* ------------------------------------------------------------------ *)
Fixpoint dict_set {V} (k : str) (v : V) (d : list (str * V)) : list (str * V) :=
  match d with
  | [] => [(k, v)]
  | (k', v') :: r => if str_eqb k k' then (k, v) :: r else (k', v') :: dict_set k v r
  end.

(* ------------------------------------------------------------------ *)
(* parse_cookie / _unquote_cookie                                     *)
(* ------------------------------------------------------------------ *)
(* s.split(d): always at least one piece *)
Fixpoint split_all_acc (d : N) (s : str) (cur : str) : list str :=
  match s with
  | [] => [rev cur]
  | c :: r => if c =? d then rev cur :: split_all_acc d r [] else split_all_acc d r (c :: cur)
  end.
Definition split_all (d : N) (s : str) : list str := split_all_acc d s [].

Definition middle (s : str) : str := removelast (tl s).      (* s[1:-1] for len >= 2 *)
Definition first_is (c : N) (s : str) : bool := match s with x :: _ => x =? c | [] => false end.
Definition last_is (c : N) (s : str) : bool := first_is c (rev s).

(* _unquote_sub: backslash followed by ([0-3][0-7][0-7]) or by (.), substituted by _unquote_replace *)
Fixpoint unq_sub (s : str) : str :=
  match s with
  | [] => []
  | c :: r =>
      if c =? 92 then
        match r with
        | [] => [c]
        | a :: r1 =>
            let single := if a =? 10 then c :: unq_sub r else a :: unq_sub r1 in
            match r1 with
            | b :: (d :: r3) =>
                if in_range 48 51 a && in_range 48 55 b && in_range 48 55 d
                then (64 * (a - 48) + 8 * (b - 48) + (d - 48)) :: unq_sub r3
                else single
            | _ => single
            end
        end
      else c :: unq_sub r
  end.

Definition unquote_cookie (s : str) : str :=
  if (length s <? 2)%nat then s
  else if negb (first_is 34 s) || negb (last_is 34 s) then s
  else unq_sub (middle s).

Definition cookie_step (d : list (str * str)) (chunk : str) : list (str * str) :=
  let '(k, v) := match split_first 61 chunk with
                 | Some (k, v) => (k, v)
                 | None => ([], chunk)
                 end in
  let k := strip k in
  let v := strip v in
  if nonempty k || nonempty v then dict_set k (unquote_cookie v) d else d.

Definition parse_cookie (s : str) : list (str * str) :=
  fold_left cookie_step (split_all 59 s) [].

(* ------------------------------------------------------------------ *)
(* _parseparam / _parse_header / _encode_header                       *)
(* ------------------------------------------------------------------ *)
(* _parseparam(';' + line) with
     _PARAM_RE = (?:[^;DQ]+|DQ(?:[^DQ BS]+|BS.|BS$)*(?:DQ|$))*      (DOTALL; DQ = double quote, BS = backslash)
   one field = everything up to the next ';' that is not inside a quoted string.  A double
   quote opens a quoted string anywhere; inside it a backslash escapes the next character (a
   lone trailing backslash is consumed too); an unterminated quote runs to the end.  The
   alternatives start with distinct characters and the pattern can always stop, so the regex
   engine never backtracks: a scanner with an in-quote flag [inq] and an escape flag [esc].
   Returns the first field and the others, unstripped. *)
Fixpoint split_params (s : str) (inq esc : bool) (cur : str) : str * list str :=
  match s with
  | [] => (rev cur, [])
  | c :: r =>
      if inq then
        if esc then split_params r true false (c :: cur)
        else if c =? 92 then split_params r true true (c :: cur)
        else if c =? 34 then split_params r false false (c :: cur)
        else split_params r true false (c :: cur)
      else
        if c =? 59 then let '(f, fs) := split_params r false false [] in (rev cur, f :: fs)
        else if c =? 34 then split_params r true false (c :: cur)
        else split_params r false false (c :: cur)
  end.

(* s.replace(chr a + chr b, chr c) *)
Fixpoint replace2 (a b c : N) (s : str) : str :=
  match s with
  | [] => []
  | x :: s' =>
      match s' with
      | y :: t => if (x =? a) && (y =? b) then c :: replace2 a b c t else x :: replace2 a b c s'
      | [] => [x]
      end
  end.

(* email.utils.quote / unquote *)
Definition email_quote (s : str) : str :=
  flat_map (fun c => if (c =? 92) || (c =? 34) then [92; c] else [c]) s.
Definition email_unquote (s : str) : str :=
  if (1 <? length s)%nat then
    if first_is 34 s && last_is 34 s then replace2 92 34 34 (replace2 92 92 92 (middle s))
    else if first_is 60 s && last_is 62 s then middle s
    else s
  else s.
(* what a parameter whose value reaches decode_params as [v] ends up as:
   DQUOTE + quote(v) + DQUOTE, then collapse_rfc2231_value = unquote
   (the former second de-quoting pass of _parse_header was removed by commit 69a3466) *)
Definition collapse_plain (v : str) : str :=
  email_unquote (34 :: email_quote v ++ [34]).

(* email.utils.rfc2231_continuation = ^(?P<name>\w+)\*((?P<num>[0-9]+)\*?)?$  (re.ASCII) *)
Definition is_word c := is_alnum c || (c =? 95).
Fixpoint take_while (p : N -> bool) (s : str) : str :=
  match s with c :: r => if p c then c :: take_while p r else [] | [] => [] end.
Fixpoint drop_while (p : N -> bool) (s : str) : str :=
  match s with c :: r => if p c then drop_while p r else s | [] => [] end.

Inductive name_kind :=
| NPlain
| NCont (base : str) (num : option str) (encoded : bool).

Definition classify_name (name : str) : name_kind :=
  match split_first 42 name with
  | None => NPlain
  | Some (base, rest) =>
      if all_ne is_word base then
        match rest with
        | [] => NCont base None true
        | _ =>
            let ds := take_while is_digit rest in
            if nonempty ds then
              match drop_while is_digit rest with
              | [] => NCont base (Some ds) false
              | [c] => if c =? 42 then NCont base (Some ds) true else NPlain
              | _ => NPlain
              end
            else NPlain
        end
      else NPlain
  end.

(* (name, value) pairs handed to email.utils.decode_params *)
Fixpoint raw_params (fields : list str) : list (str * str) :=
  match fields with
  | [] => []
  | f :: fs =>
      let p := strip f in
      match split_first 61 p with
      | Some (n, v) => (lower (strip n), strip v) :: raw_params fs
      | None => raw_params fs
      end
  end.

Inductive ph_result :=
| PhOk (key : str) (params : list (str * str))
| PhExt (key : str).         (* an RFC 2231 extended (charset'lang'%XX) parameter is present:
                                the value is produced by Python's codec registry; not modelled *)

(* a continuation segment: (number or None, unquoted value, encoded flag) *)
Definition seg := (option N * str * bool)%type.

(* lexicographic order on code points: a <= b *)
Fixpoint str_leb (a b : str) : bool :=
  match a, b with
  | [], _ => true
  | _ :: _, [] => false
  | x :: a', y :: b' => (x <? y) || ((x =? y) && str_leb a' b')
  end.
Definition seg_leb (a b : N * str) : bool :=
  (fst a <? fst b) || ((fst a =? fst b) && str_leb (snd a) (snd b)).
Fixpoint insert_sorted {A} (leb : A -> A -> bool) (x : A) (l : list A) : list A :=
  match l with
  | [] => [x]
  | y :: r => if leb x y then x :: l else y :: insert_sorted leb x r
  end.
Definition sort_by {A} (leb : A -> A -> bool) (l : list A) : list A :=
  fold_right (insert_sorted leb) [] l.

(* the first loop of decode_params: plain parameters in order, continuation
   segments grouped by base name in order of first appearance; int(num) may refuse *)
Fixpoint decode_loop (ps : list (str * str))
         (plain : list (str * str)) (groups : list (str * list seg))
  : option (list (str * str) * list (str * list seg)) :=
  match ps with
  | [] => Some (plain, groups)
  | (name, value) :: r =>
      let v := email_unquote value in
      match classify_name name with
      | NPlain => decode_loop r (plain ++ [(name, v)]) groups
      | NCont base num enc =>
          match num with
          | Some ds =>
              if (int_max_str_digits <? length ds)%nat then None
              else
                let old := match find (fun g => str_eqb (fst g) base) groups with
                           | Some g => snd g | None => [] end in
                decode_loop r plain (dict_set base (old ++ [(Some (dec_value ds), v, enc)]) groups)
          | None =>
              let old := match find (fun g => str_eqb (fst g) base) groups with
                         | Some g => snd g | None => [] end in
              decode_loop r plain (dict_set base (old ++ [(None, v, enc)]) groups)
          end
      end
  end.

Definition seg_num_none (s : seg) : bool := match fst (fst s) with None => true | Some _ => false end.
Definition seg_encoded (s : seg) : bool := snd s.
(* continuations.sort() compares None with int: TypeError *)
Definition group_mixed (g : str * list seg) : bool :=
  existsb seg_num_none (snd g) && existsb (fun s => negb (seg_num_none s)) (snd g).
Definition group_value (g : str * list seg) : str :=
  let keyed := flat_map (fun s : seg => match fst (fst s) with
                                         | Some n => [(n, snd (fst s))]
                                         | None => []
                                         end) (snd g) in
  concat (map snd (sort_by seg_leb keyed)).

Definition to_dict (l : list (str * str)) : list (str * str) :=
  fold_left (fun d nv => dict_set (fst nv) (snd nv) d) l [].

Definition parse_header (line : str) : ph_result :=
  let '(k, fields) := split_params line false false [] in
  let key := strip k in
  let raw := raw_params fields in
  (* decode_params raised (int() refused a section number, or sort() compared None with
     an int): the parameters are used undecoded, collapse_rfc2231_value = unquote *)
  let fallback := PhOk key (to_dict (map (fun nv => (fst nv, email_unquote (snd nv))) raw)) in
  match decode_loop raw [] [] with
  | None => fallback
  | Some (plain, groups) =>
      if existsb group_mixed groups then fallback
      else if existsb (fun g => existsb seg_encoded (snd g)) groups then PhExt key
      else
        PhOk key (to_dict (map (fun nv => (fst nv, collapse_plain (snd nv))) plain
                           ++ map (fun g => (fst g, collapse_plain (group_value g))) groups))
  end.

(* _encode_header(key, dict(ps)) for a dict with distinct keys [ps] *)
Definition join_semi (parts : list str) : str :=
  match parts with
  | [] => []
  | p :: r => p ++ flat_map (fun q => 59 :: 32 :: q) r
  end.
Definition item_leb (a b : str * option str) : bool := str_leb (fst a) (fst b).
Definition encode_header (key : str) (ps : list (str * option str)) : str :=
  match ps with
  | [] => key
  | _ =>
      join_semi (key :: map (fun kv : str * option str =>
                               match snd kv with
                               | None => fst kv
                               | Some v => fst kv ++ 61 :: v
                               end) (sort_by item_leb ps))
  end.

(* ------------------------------------------------------------------ *)
(* re.escape / util.re_unescape                                       *)
(* ------------------------------------------------------------------ *)
(* re._special_chars_map: ()[]{}?*+-|^$\.&~# \t\n\r\v\f *)
Definition re_special : list N :=
  [9;10;11;12;13;32;35;36;38;40;41;42;43;45;46;63;91;92;93;94;123;124;125;126].
Definition re_escape (s : str) : str :=
  flat_map (fun c => if memN c re_special then [92; c] else [c]) s.
(* _re_unescape_pattern = \\(.) with DOTALL; ValueError (None) on an alphanumeric *)
Fixpoint re_unescape (s : str) : option str :=
  match s with
  | [] => Some []
  | c :: r =>
      if c =? 92 then
        match r with
        | [] => Some [c]
        | a :: r1 =>
            if is_alnum a then None
            else match re_unescape r1 with Some t => Some (a :: t) | None => None end
        end
      else match re_unescape r with Some t => Some (c :: t) | None => None end
  end.
