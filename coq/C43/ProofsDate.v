(* C43 — proofs, part 6: HTTP dates round-trip through format_timestamp and the
   fixed-width reader, for every second from 0100-01-01T00:00:00Z to 9999-12-31T23:59:59Z.
   The civil-date arithmetic is verified by a sweep over one 400-year cycle (146097 days),
   lifted to all days by the era decomposition. *)
From Coq Require Import List NArith ZArith Bool Arith Lia.
From TV Require Import Lib.Obs C43.Model C43.Model2 C43.Spec C43.ProofsStart.
Import ListNotations.
Local Open Scope Z_scope.

Definition zr (n : nat) : list Z := map Z.of_nat (seq 0 n).
Lemma zr_in n z : 0 <= z < Z.of_nat n -> In z (zr n).
Proof.
  intros H. unfold zr. apply in_map_iff. exists (Z.to_nat z). split; [lia|]. apply in_seq. lia.
Qed.

(* ---------- the 400-year cycle ---------- *)
(* the day-of-era part of civil_of_days: year-of-era, month, day *)
Definition civil_doe (doe : Z) : Z * Z * Z :=
  let yoe := (doe - doe / 1460 + doe / 36524 - doe / 146096) / 365 in
  let doy := doe - (365 * yoe + yoe / 4 - yoe / 100) in
  let mp := (5 * doy + 2) / 153 in
  let d := doy - (153 * mp + 2) / 5 + 1 in
  let m := if mp <? 10 then mp + 3 else mp - 9 in
  (yoe, m, d).
(* the day-of-era recomputed by days_of_civil *)
Definition doe_back (yoe m d : Z) : Z :=
  yoe * 365 + yoe / 4 - yoe / 100 + ((153 * (if 2 <? m then m - 3 else m + 9) + 2) / 5 + d - 1).

Definition check_doe (doe : Z) : bool :=
  let '(yoe, m, d) := civil_doe doe in
  (0 <=? yoe) && (yoe <=? 399) && (1 <=? m) && (m <=? 12) && (1 <=? d) && (d <=? 31)
  && (doe_back yoe m d =? doe)
  (* a January/February date never belongs to the last year-of-era's successor *)
  && (if m <=? 2 then yoe + 1 <=? 400 else true).

Lemma cycle_sweep :
  forallb (fun q => forallb (fun r => (146097 <=? 383 * q + r) || check_doe (383 * q + r)) (zr 383)) (zr 382) = true.
Proof. vm_compute. reflexivity. Qed.

Lemma check_doe_all doe : 0 <= doe < 146097 -> check_doe doe = true.
Proof.
  intros H. pose proof cycle_sweep as S. rewrite forallb_forall in S.
  assert (Hq : In (doe / 383) (zr 382)) by (apply zr_in; split; [apply Z.div_pos; lia|apply Z.div_lt_upper_bound; lia]).
  specialize (S _ Hq). rewrite forallb_forall in S.
  assert (Hr : In (doe mod 383) (zr 383)) by (apply zr_in; apply Z.mod_pos_bound; lia).
  specialize (S _ Hr). rewrite <- Z.div_mod in S by lia.
  apply orb_true_iff in S as [S|S]; [apply Z.leb_le in S; lia|exact S].
Qed.

(* ---------- civil_of_days / days_of_civil ---------- *)
Lemma civil_of_days_eq z :
  civil_of_days z =
  let era := (z + 719468) / 146097 in
  let '(yoe, m, d) := civil_doe ((z + 719468) mod 146097) in
  (if m <=? 2 then yoe + era * 400 + 1 else yoe + era * 400, m, d).
Proof. reflexivity. Qed.

Lemma civil_roundtrip z y m d :
  civil_of_days z = (y, m, d) ->
  days_of_civil y m d = z /\ 1 <= m <= 12 /\ 1 <= d <= 31.
Proof.
  rewrite civil_of_days_eq. cbv zeta.
  set (era := (z + 719468) / 146097). set (doe := (z + 719468) mod 146097).
  assert (Hdoe : 0 <= doe < 146097) by (apply Z.mod_pos_bound; lia).
  pose proof (check_doe_all doe Hdoe) as C. unfold check_doe in C.
  destruct (civil_doe doe) as [[yoe m'] d'] eqn:E.
  rewrite !andb_true_iff in C. destruct C as [[[[[[[C1 C2] C3] C4] C5] C6] C7] _].
  apply Z.leb_le in C1, C2, C3, C4, C5, C6. apply Z.eqb_eq in C7.
  intros H. injection H as Hy <- <-. split; [|lia].
  unfold days_of_civil.
  assert (Hyy : (if m' <=? 2 then y - 1 else y) = yoe + era * 400) by (destruct (m' <=? 2); lia).
  rewrite Hyy.
  assert (Hera : (yoe + era * 400) / 400 = era) by (rewrite Z.div_add by lia; rewrite Z.div_small by lia; lia).
  rewrite Hera. replace (yoe + era * 400 - era * 400) with yoe by lia.
  unfold doe_back in C7.
  assert (Hz : z + 719468 = 146097 * era + doe) by (unfold era, doe; apply Z.div_mod; lia).
  lia.
Qed.

(* year bounds from the day number *)
Lemma year_lower y m d : 1 <= m <= 12 -> 1 <= d <= 31 -> -683003 <= days_of_civil y m d -> 100 <= y.
Proof.
  intros Hm Hd. unfold days_of_civil.
  set (yy := if m <=? 2 then y - 1 else y).
  set (mm := if 2 <? m then m - 3 else m + 9).
  assert (Hmm : (m <= 2 /\ mm = m + 9) \/ (3 <= m /\ mm = m - 3)) by (unfold mm; destruct (2 <? m) eqn:E; [apply Z.ltb_lt in E|apply Z.ltb_ge in E]; lia).
  assert (Hyy : yy = y - 1 /\ m <= 2 \/ yy = y /\ 3 <= m) by (unfold yy; destruct (m <=? 2) eqn:E; [apply Z.leb_le in E|apply Z.leb_gt in E]; lia).
  clearbody yy mm. intros H.
  pose proof (Z.div_mod yy 400 ltac:(lia)) as E1. pose proof (Z.mod_pos_bound yy 400 ltac:(lia)) as B1.
  set (era := yy / 400) in *. clearbody era.
  set (yoe := yy - era * 400) in *. assert (Hyoe : 0 <= yoe < 400) by (unfold yoe; lia).
  assert (E2 : yy = era * 400 + yoe) by (unfold yoe; lia). clearbody yoe.
  pose proof (Z.div_mod yoe 4 ltac:(lia)) as E3. pose proof (Z.mod_pos_bound yoe 4 ltac:(lia)) as B3.
  pose proof (Z.div_mod yoe 100 ltac:(lia)) as E4. pose proof (Z.mod_pos_bound yoe 100 ltac:(lia)) as B4.
  pose proof (Z.div_mod (153 * mm + 2) 5 ltac:(lia)) as E5. pose proof (Z.mod_pos_bound (153 * mm + 2) 5 ltac:(lia)) as B5.
  lia.
Qed.

Lemma year_upper y m d : 1 <= m <= 12 -> 1 <= d <= 31 -> days_of_civil y m d <= 2932896 -> y <= 9999.
Proof.
  intros Hm Hd. unfold days_of_civil.
  set (yy := if m <=? 2 then y - 1 else y).
  set (mm := if 2 <? m then m - 3 else m + 9).
  assert (Hmm : (m <= 2 /\ mm = m + 9) \/ (3 <= m /\ mm = m - 3)) by (unfold mm; destruct (2 <? m) eqn:E; [apply Z.ltb_lt in E|apply Z.ltb_ge in E]; lia).
  assert (Hyy : yy = y - 1 /\ m <= 2 \/ yy = y /\ 3 <= m) by (unfold yy; destruct (m <=? 2) eqn:E; [apply Z.leb_le in E|apply Z.leb_gt in E]; lia).
  clearbody yy mm. intros H.
  pose proof (Z.div_mod yy 400 ltac:(lia)) as E1. pose proof (Z.mod_pos_bound yy 400 ltac:(lia)) as B1.
  set (era := yy / 400) in *. clearbody era.
  set (yoe := yy - era * 400) in *. assert (Hyoe : 0 <= yoe < 400) by (unfold yoe; lia).
  assert (E2 : yy = era * 400 + yoe) by (unfold yoe; lia). clearbody yoe.
  pose proof (Z.div_mod yoe 4 ltac:(lia)) as E3. pose proof (Z.mod_pos_bound yoe 4 ltac:(lia)) as B3.
  pose proof (Z.div_mod yoe 100 ltac:(lia)) as E4. pose proof (Z.mod_pos_bound yoe 100 ltac:(lia)) as B4.
  pose proof (Z.div_mod (153 * mm + 2) 5 ltac:(lia)) as E5. pose proof (Z.mod_pos_bound (153 * mm + 2) 5 ltac:(lia)) as B5.
  lia.
Qed.

(* ---------- fixed-width numbers and names ---------- *)
Lemma num2_digit2_sweep :
  forallb (fun n => match num2 (zc (48 + n / 10)) (zc (48 + n mod 10)) with Some x => x =? n | None => false end) (zr 100) = true.
Proof. vm_compute. reflexivity. Qed.

Lemma num2_digit2 n : 0 <= n < 100 -> num2 (zc (48 + n / 10)) (zc (48 + n mod 10)) = Some n.
Proof.
  intros H. pose proof num2_digit2_sweep as S. rewrite forallb_forall in S.
  specialize (S n (zr_in 100 n H)).
  destruct (num2 (zc (48 + n / 10)) (zc (48 + n mod 10))) as [x|]; [|discriminate].
  apply Z.eqb_eq in S. subst. reflexivity.
Qed.

Lemma num4_digit4 n : 0 <= n < 10000 ->
  num4 (zc (48 + n / 100 / 10)) (zc (48 + (n / 100) mod 10))
       (zc (48 + n mod 100 / 10)) (zc (48 + (n mod 100) mod 10)) = Some n.
Proof.
  intros H. unfold num4.
  rewrite (num2_digit2 (n / 100)) by (split; [apply Z.div_pos; lia|apply Z.div_lt_upper_bound; lia]).
  rewrite (num2_digit2 (n mod 100)) by (apply Z.mod_pos_bound; lia).
  f_equal. pose proof (Z.div_mod n 100 ltac:(lia)). lia.
Qed.

Lemma month_name_3 m : 1 <= m <= 12 ->
  exists a b c, month_name m = [a; b; c] /\ month_index [a; b; c] = Some m.
Proof.
  intros H.
  assert (C : m = 1 \/ m = 2 \/ m = 3 \/ m = 4 \/ m = 5 \/ m = 6 \/ m = 7 \/ m = 8 \/ m = 9 \/ m = 10 \/ m = 11 \/ m = 12) by lia.
  repeat (destruct C as [->|C]; [do 3 eexists; split; reflexivity|]). subst. do 3 eexists; split; reflexivity.
Qed.

Lemma day_name_3 wd : 0 <= wd < 7 -> exists a b c, day_name wd = [a; b; c].
Proof.
  intros H. assert (C : wd = 0 \/ wd = 1 \/ wd = 2 \/ wd = 3 \/ wd = 4 \/ wd = 5 \/ wd = 6) by lia.
  repeat (destruct C as [->|C]; [do 3 eexists; reflexivity|]). subst. do 3 eexists; reflexivity.
Qed.

Lemma parse_fixdate w1 w2 w3 d1 d2 m1 m2 m3 y1 y2 y3 y4 h1 h2 i1 i2 s1 s2 d m y hh mi ss :
  num2 d1 d2 = Some d -> month_index [m1; m2; m3] = Some m -> num4 y1 y2 y3 y4 = Some y ->
  num2 h1 h2 = Some hh -> num2 i1 i2 = Some mi -> num2 s1 s2 = Some ss -> 100 <= y ->
  parse_http_date ([w1; w2; w3; 44; 32; d1; d2; 32; m1; m2; m3; 32; y1; y2; y3; y4; 32;
                    h1; h2; 58; i1; i2; 58; s1; s2; 32; 71; 77; 84])%N
  = Some (days_of_civil y m d * 86400 + hh * 3600 + mi * 60 + ss).
Proof.
  intros Hd Hm Hy Hh Hi Hs Hy100. unfold parse_http_date.
  change (str_eqb [71; 77; 84]%N [71; 77; 84]%N) with true.
  change ((44 =? 44)%N) with true. change ((32 =? 32)%N) with true. change ((58 =? 58)%N) with true.
  cbn [andb]. rewrite Hd, Hm, Hy, Hh, Hi, Hs.
  assert (E : (y <? 100) = false) by (apply Z.ltb_ge; lia). rewrite E. reflexivity.
Qed.

(* ---------- the round trip ---------- *)
Theorem date_roundtrip t :
  date_rt_min <= t <= date_max ->
  exists f, format_timestamp t = Some f /\ parse_http_date f = Some t.
Proof.
  unfold date_rt_min, date_max. intros Ht. unfold format_timestamp.
  assert (Hr : date_in_range t = true).
  { unfold date_in_range, date_min, date_max. apply andb_true_iff. split; apply Z.leb_le; lia. }
  rewrite Hr.
  set (days := t / 86400). set (sod := t mod 86400).
  assert (Hsod : 0 <= sod < 86400) by (apply Z.mod_pos_bound; lia).
  assert (Ht' : t = 86400 * days + sod) by (apply Z.div_mod; lia).
  assert (Hdays : -683003 <= days <= 2932896) by lia.
  destruct (civil_of_days days) as [[y m] d] eqn:Ec.
  destruct (civil_roundtrip days y m d Ec) as [Hback [Hm Hd]].
  assert (Hy : 100 <= y <= 9999).
  { split; [apply (year_lower y m d Hm Hd)|apply (year_upper y m d Hm Hd)]; lia. }
  eexists. split; [reflexivity|].
  destruct (day_name_3 ((days + 3) mod 7)) as (w1 & w2 & w3 & Hw); [apply Z.mod_pos_bound; lia|].
  destruct (month_name_3 m Hm) as (m1 & m2 & m3 & Hmn & Hmi).
  rewrite Hw, Hmn.
  unfold digit4, digit2. cbn [app].
  rewrite (parse_fixdate w1 w2 w3 _ _ m1 m2 m3 _ _ _ _ _ _ _ _ _ _ d m y (sod / 3600) ((sod / 60) mod 60) (sod mod 60)).
  - f_equal. rewrite Hback.
    pose proof (Z.div_mod sod 3600 ltac:(lia)). pose proof (Z.mod_pos_bound sod 3600 ltac:(lia)).
    pose proof (Z.div_mod sod 60 ltac:(lia)). pose proof (Z.mod_pos_bound sod 60 ltac:(lia)).
    pose proof (Z.div_mod (sod / 60) 60 ltac:(lia)). pose proof (Z.mod_pos_bound (sod / 60) 60 ltac:(lia)).
    pose proof (Z.div_mod (sod / 3600) 1 ltac:(lia)).
    assert (sod / 3600 = (sod / 60) / 60) by (rewrite Z.div_div by lia; reflexivity).
    lia.
  - apply num2_digit2. lia.
  - exact Hmi.
  - apply (num4_digit4 y). lia.
  - apply num2_digit2. split; [apply Z.div_pos; lia|apply Z.div_lt_upper_bound; lia].
  - apply num2_digit2. pose proof (Z.mod_pos_bound (sod / 60) 60 ltac:(lia)). lia.
  - apply num2_digit2. pose proof (Z.mod_pos_bound sod 60 ltac:(lia)). lia.
  - lia.
Qed.

(* out of datetime's range the formatter refuses (ValueError / OverflowError in Python) *)
Lemma format_out_of_range t : date_in_range t = false -> format_timestamp t = None.
Proof. intros H. unfold format_timestamp. rewrite H. reflexivity. Qed.

Example date_example :
  (* format_timestamp(1359312200) = "Sun, 27 Jan 2013 18:43:20 GMT" (the doctest) *)
  format_timestamp 1359312200
  = Some [83;117;110;44;32;50;55;32;74;97;110;32;50;48;49;51;32;49;56;58;52;51;58;50;48;32;71;77;84]%N.
Proof. reflexivity. Qed.
