(* C43 — proofs, part 5b: url_concat keeps the head, the fragment and the existing query
   pairs and appends the arguments (arbitrary Unicode; simple heads). *)
From Coq Require Import List NArith Bool Arith Lia.
From TV Require Import Lib.Obs C43.Model C43.Model2 C43.Spec C43.ProofsStart C43.ProofsHeader C43.ProofsUtf8.
Import ListNotations.
Local Open Scope N_scope.

(* ---------- percent coding of one byte ---------- *)
Definition clean_char (x : N) : Prop := 32 < x /\ x < 128 /\ x <> 9 /\ x <> 10 /\ x <> 13.

(* what the decoder needs from the three shapes produced by quote_plus_c *)
Definition qp_char_ok (c : N) : bool :=
  if always_safe c then negb (c =? 43) && negb (c =? 37) && negb (c =? 38) && negb (c =? 61) && negb (c =? 35) && negb (c =? 63)
  else if c =? 32 then true
  else
    let a := hex_digit (c / 16) in
    let b := hex_digit (c mod 16) in
    is_hex a && is_hex b && (16 * hex_val a + hex_val b =? c)
    && negb (a =? 43) && negb (b =? 43) && negb (memN a [38; 61; 35; 63; 37]) && negb (memN b [38; 61; 35; 63; 37]).

Lemma qp_char_ok_all c : c < 256 -> qp_char_ok c = true.
Proof. apply (sweep qp_char_ok 256). vm_compute. reflexivity. Qed.

Definition sep_free (s : str) : Prop := ~ In 38 s /\ ~ In 61 s /\ ~ In 35 s /\ ~ In 63 s.

Lemma quote_plus_c_spec c : c < 256 ->
  (forall rest, pct_decode (map plus_to_sp (quote_plus_c c) ++ rest) = c :: pct_decode rest)
  /\ sep_free (quote_plus_c c) /\ Forall clean_char (quote_plus_c c).
Proof.
  intros Hc. pose proof (qp_char_ok_all c Hc) as H. unfold qp_char_ok in H. unfold quote_plus_c.
  destruct (always_safe c) eqn:Es.
  - rewrite !andb_true_iff, !negb_true_iff, !N.eqb_neq in H. destruct H as [[[[[H43 H37] H38] H61] H35] H63].
    split; [|split].
    + intros rest. cbn [map app]. unfold plus_to_sp. rewrite (proj2 (N.eqb_neq c 43) H43).
      cbn [pct_decode]. rewrite (proj2 (N.eqb_neq c 37) H37). reflexivity.
    + unfold sep_free. cbn. repeat split; intros [E|[]]; congruence.
    + constructor; [|constructor]. unfold always_safe, is_alnum, is_alpha, is_upper, is_lower, is_digit in Es.
      rewrite !orb_true_iff, !in_range_iff, memN_iff in Es. cbn in Es. unfold clean_char. lia.
  - destruct (c =? 32) eqn:E32.
    + apply N.eqb_eq in E32. subst c. split; [|split].
      * intros rest. reflexivity.
      * unfold sep_free. cbn. repeat split; intros [E|[]]; discriminate.
      * constructor; [unfold clean_char; lia|constructor].
    + set (a := hex_digit (c / 16)) in *. set (b := hex_digit (c mod 16)) in *.
      rewrite !andb_true_iff, !negb_true_iff in H.
      destruct H as [[[[[[Ha Hb] Hv] Ha43] Hb43] Ham] Hbm].
      apply N.eqb_eq in Hv.
      split; [|split].
      * intros rest. cbn [map app]. unfold plus_to_sp. rewrite Ha43, Hb43. cbn [N.eqb Pos.eqb].
        cbn [pct_decode]. rewrite N.eqb_refl, Ha, Hb. cbn [andb]. rewrite Hv. reflexivity.
      * unfold memN in Ham, Hbm. cbn [existsb] in Ham, Hbm. rewrite !orb_false_iff, !N.eqb_neq in Ham, Hbm.
        unfold sep_free. cbn. repeat split; intros [E|[E|[E|[]]]]; try discriminate; intuition congruence.
      * assert (Hhex : forall x, is_hex x = true -> clean_char x).
        { intros x Hx. unfold is_hex, is_digit in Hx. rewrite !orb_true_iff, !in_range_iff in Hx. unfold clean_char. lia. }
        constructor; [unfold clean_char; lia|]. constructor; [apply Hhex; exact Ha|]. constructor; [apply Hhex; exact Hb|constructor].
Qed.

Definition ascii (s : str) : Prop := Forall (fun c => c < 128) s.
Lemma is_ascii_str_iff s : is_ascii_str s = true <-> ascii s.
Proof.
  unfold is_ascii_str, ascii. rewrite forallb_forall, Forall_forall.
  split; intros H x Hx; specialize (H x Hx); [apply N.ltb_lt|apply N.ltb_lt]; exact H.
Qed.

(* bytes -> percent text -> bytes *)
Lemma quote_bytes_spec bs : Forall (fun b => b < 256) bs ->
  (forall rest, pct_decode (map plus_to_sp (flat_map quote_plus_c bs) ++ rest) = bs ++ pct_decode rest)
  /\ sep_free (flat_map quote_plus_c bs) /\ Forall clean_char (flat_map quote_plus_c bs).
Proof.
  induction 1 as [|c s Hc Hs IH].
  - repeat split; try (intros []). constructor.
  - destruct IH as [IH1 [IH2 IH3]].
    destruct (quote_plus_c_spec c Hc) as [H1 [H2 H3]].
    cbn [flat_map]. split; [|split].
    + intros rest. rewrite map_app, <- app_assoc, H1, IH1. reflexivity.
    + unfold sep_free in *. rewrite !in_app_iff. tauto.
    + apply Forall_app. split; assumption.
Qed.

Lemma pct_decode_no_pct x : ~ In 37 x -> pct_decode x = x.
Proof.
  induction x as [|c x IH]; intros H; [reflexivity|]. cbn [pct_decode].
  assert (Hc : (c =? 37) = false) by (apply N.eqb_neq; intros ->; apply H; left; reflexivity).
  rewrite Hc, IH; [reflexivity|]. intros Hin. apply H. right. exact Hin.
Qed.

Lemma unquote_runs_ascii x : ascii x -> forall run,
  unquote_runs x run = utf8_decode (pct_decode (rev run ++ x)).
Proof.
  induction 1 as [|c x Hc Hx IH]; intros run.
  - cbn. rewrite app_nil_r. reflexivity.
  - cbn [unquote_runs]. rewrite (proj2 (N.ltb_lt c 128) Hc), IH. cbn [rev]. rewrite <- app_assoc. reflexivity.
Qed.

(* quote_plus then unquote_plus is the identity on every encodable string *)
Lemma quote_plus_spec s q : quote_plus s = Some q ->
  unquote_plus q = s /\ sep_free q /\ Forall clean_char q.
Proof.
  unfold quote_plus. destruct (utf8_encode s) as [bs|] eqn:E; [|discriminate]. intros H. injection H as <-.
  destruct (utf8_decode_encode s bs E) as [Hdec Hlt]. destruct (quote_bytes_spec bs Hlt) as [H1 [H2 H3]].
  split; [|split; assumption].
  specialize (H1 []). rewrite app_nil_r in H1. cbn [pct_decode] in H1. rewrite app_nil_r in H1.
  set (q' := map plus_to_sp (flat_map quote_plus_c bs)) in *.
  assert (Hascii : ascii q').
  { unfold q', ascii. apply Forall_map. eapply Forall_impl; [|exact H3]. intros c Hc. unfold clean_char in Hc. unfold plus_to_sp.
    destruct (c =? 43); lia. }
  unfold unquote_plus. fold q'. unfold unquote. destruct (memN 37 q') eqn:Ep.
  - rewrite (unquote_runs_ascii q' Hascii []). cbn [rev app]. rewrite H1. exact Hdec.
  - assert (Hn : ~ In 37 q') by (intros Hin; apply memN_iff in Hin; congruence).
    rewrite (pct_decode_no_pct q' Hn) in H1. rewrite <- Hdec, <- H1. symmetry. apply utf8_decode_ascii. exact Hascii.
Qed.

(* ---------- split / join ---------- *)
Lemma split_all_acc_last d x : ~ In d x -> forall cur, split_all_acc d x cur = [rev cur ++ x].
Proof.
  induction x as [|c x IH]; intros H cur.
  - cbn. rewrite app_nil_r. reflexivity.
  - cbn [split_all_acc]. assert (Hc : (c =? d) = false) by (apply N.eqb_neq; intros ->; apply H; left; reflexivity).
    rewrite Hc, IH by (intros Hin; apply H; right; exact Hin). cbn [rev]. rewrite <- app_assoc. reflexivity.
Qed.
Lemma split_all_acc_sep d x : ~ In d x -> forall cur rest,
  split_all_acc d (x ++ d :: rest) cur = (rev cur ++ x) :: split_all_acc d rest [].
Proof.
  induction x as [|c x IH]; intros H cur rest.
  - cbn [app split_all_acc]. rewrite N.eqb_refl, app_nil_r. reflexivity.
  - cbn [app split_all_acc]. assert (Hc : (c =? d) = false) by (apply N.eqb_neq; intros ->; apply H; left; reflexivity).
    rewrite Hc, IH by (intros Hin; apply H; right; exact Hin). cbn [rev]. rewrite <- app_assoc. reflexivity.
Qed.

Lemma split_all_join d fs : Forall (fun f => ~ In d f) fs -> forall f, ~ In d f ->
  split_all d (join_with d (f :: fs)) = f :: fs.
Proof.
  unfold split_all. induction 1 as [|g fs Hg Hfs IH]; intros f Hf.
  - cbn [join_with]. apply (split_all_acc_last d f Hf []).
  - change (join_with d (f :: g :: fs)) with (f ++ d :: join_with d (g :: fs)).
    rewrite (split_all_acc_sep d f Hf [] _). cbn [rev app]. rewrite (IH g Hg). reflexivity.
Qed.

(* ---------- parse_qsl (urlencode l) = l ---------- *)
Lemma enc_pairs_spec l : forall fs, enc_pairs l = Some fs ->
  qsl_fields fs = l /\ Forall (fun f => ~ In 38 f /\ f <> [] /\ ~ In 35 f /\ ~ In 63 f /\ Forall clean_char f) fs.
Proof.
  induction l as [|[k v] l IH]; intros fs H; cbn [enc_pairs] in H.
  - injection H as <-. split; [reflexivity|constructor].
  - destruct (quote_plus k) as [k'|] eqn:Ek; [|discriminate].
    destruct (quote_plus v) as [v'|] eqn:Ev; [|discriminate].
    destruct (enc_pairs l) as [r'|] eqn:Er; [|discriminate]. injection H as <-.
    destruct (quote_plus_spec k k' Ek) as [Uk [[K38 [K61 [K35 K63]]] Kc]].
    destruct (quote_plus_spec v v' Ev) as [Uv [[V38 [V61 [V35 V63]]] Vc]].
    destruct (IH r' eq_refl) as [IH1 IH2]. split.
    + cbn [qsl_fields].
      assert (Hnil : is_nil (k' ++ 61 :: v') = false) by (destruct k'; reflexivity).
      rewrite Hnil.
      assert (Hs : split_first 61 (k' ++ 61 :: v') = Some (k', v')) by (apply split_first_some; auto).
      rewrite Hs, Uk, Uv, IH1. reflexivity.
    + constructor; [|exact IH2]. rewrite !in_app_iff. repeat split.
      * intros [H|[H|H]]; [auto|discriminate|auto].
      * destruct k'; discriminate.
      * intros [H|[H|H]]; [auto|discriminate|auto].
      * intros [H|[H|H]]; [auto|discriminate|auto].
      * apply Forall_app. split; [exact Kc|]. constructor; [unfold clean_char; lia|exact Vc].
Qed.

Lemma join_with_nonnil d (f : str) (fs : list str) : f <> [] -> is_nil (join_with d (f :: fs)) = false.
Proof. intros H. destruct f; [contradiction|]. destruct fs; reflexivity. Qed.

Theorem parse_qsl_urlencode l q : urlencode l = Some q -> parse_qsl q = l.
Proof.
  unfold urlencode. destruct (enc_pairs l) as [fs|] eqn:E; [|discriminate]. intros H. injection H as <-.
  destruct (enc_pairs_spec l fs E) as [Hq Hf]. unfold parse_qsl.
  destruct fs as [|f fs]; [cbn in Hq; subst l; reflexivity|].
  pose proof (Forall_inv Hf) as (H38 & Hne & _). pose proof (Forall_inv_tail Hf) as Hfs.
  rewrite (join_with_nonnil 38 f fs Hne), split_all_join; [exact Hq| |exact H38].
  eapply Forall_impl; [|exact Hfs]. intros g Hg. apply Hg.
Qed.

Lemma urlencode_chars l q : urlencode l = Some q ->
  ~ In 35 q /\ ~ In 63 q /\ Forall clean_char q.
Proof.
  unfold urlencode. destruct (enc_pairs l) as [fs|] eqn:E; [|discriminate]. intros H. injection H as <-.
  destruct (enc_pairs_spec l fs E) as [_ Hf]. clear E.
  induction Hf as [|f fs (_ & _ & H35 & H63 & Hc) Hfs IH]; [repeat split; try (intros []); constructor|].
  destruct IH as [I35 [I63 Ic]].
  destruct fs as [|g fs]; [cbn [join_with]; auto|].
  change (join_with 38 (f :: g :: fs)) with (f ++ 38 :: join_with 38 (g :: fs)).
  rewrite !in_app_iff. repeat split.
  - intros [H|[H|H]]; [auto|discriminate|auto].
  - intros [H|[H|H]]; [auto|discriminate|auto].
  - apply Forall_app. split; [exact Hc|]. constructor; [unfold clean_char; lia|exact Ic].
Qed.

(* ---------- the head ---------- *)
Definition head_char (c : N) : bool := path_char c || host_char c.

Lemma head_char_facts c : head_char c = true -> clean_char c /\ c <> 35 /\ c <> 63.
Proof.
  unfold head_char, path_char, host_char, is_alnum, is_alpha, is_upper, is_lower, is_digit, clean_char.
  rewrite !orb_true_iff, !in_range_iff, !memN_iff. cbn [In]. intros H.
  repeat split; try lia; intros ->; intuition (try lia; try discriminate).
Qed.

Lemma strip_prefix_some p s r : strip_prefix p s = Some r -> s = p ++ r.
Proof.
  revert s. induction p as [|x p IH]; intros s H; cbn in H.
  - injection H as ->. reflexivity.
  - destruct s as [|y s]; [discriminate|]. destruct (x =? y) eqn:E; [|discriminate].
    apply N.eqb_eq in E. subst y. cbn. f_equal. auto.
Qed.

Lemma take_drop_while p s : s = take_while p s ++ drop_while p s.
Proof. induction s as [|c s IH]; [reflexivity|]. cbn. destruct (p c); [cbn; f_equal; exact IH|reflexivity]. Qed.
Lemma take_while_all p s : forallb p (take_while p s) = true.
Proof. induction s as [|c s IH]; [reflexivity|]. cbn. destruct (p c) eqn:E; [cbn; rewrite E; exact IH|reflexivity]. Qed.

Lemma forallb_impl {A} (p q : A -> bool) l : (forall x, p x = true -> q x = true) -> forallb p l = true -> forallb q l = true.
Proof. intros Hpq. rewrite !forallb_forall. auto. Qed.

Lemma simple_abs_rest_chars r : simple_abs_rest r = true -> forallb head_char r = true.
Proof.
  unfold simple_abs_rest. intros H. apply andb_true_iff in H as [_ H].
  rewrite (take_drop_while host_char r), forallb_app. apply andb_true_iff. split.
  - apply (forallb_impl host_char); [|apply take_while_all]. intros x Hx. unfold head_char. rewrite Hx. apply orb_true_r.
  - apply orb_true_iff in H as [H|H].
    + destruct (drop_while host_char r); [reflexivity|discriminate].
    + apply andb_true_iff in H as [_ H]. apply (forallb_impl path_char); [|exact H].
      intros x Hx. unfold head_char. rewrite Hx. reflexivity.
Qed.

Lemma simple_head_chars h : simple_head h = true -> forallb head_char h = true.
Proof.
  unfold simple_head. intros H.
  destruct (strip_prefix [104; 116; 116; 112; 58; 47; 47] h) as [r|] eqn:E1.
  { apply strip_prefix_some in E1. subst h. rewrite forallb_app, (simple_abs_rest_chars r H). reflexivity. }
  destruct (strip_prefix [104; 116; 116; 112; 115; 58; 47; 47] h) as [r|] eqn:E2.
  { apply strip_prefix_some in E2. subst h. rewrite forallb_app, (simple_abs_rest_chars r H). reflexivity. }
  apply orb_true_iff in H as [H|H]; [destruct h; [reflexivity|discriminate]|].
  rewrite !andb_true_iff in H. destruct H as [_ H]. apply (forallb_impl path_char); [|exact H].
  intros x Hx. unfold head_char. rewrite Hx. reflexivity.
Qed.

(* ---------- cleaning and re-splitting the result ---------- *)
Lemma url_clean_id r : Forall (fun c => c <> 9 /\ c <> 10 /\ c <> 13) r ->
  (match r with c :: _ => 32 < c | [] => True end) -> url_clean r = r.
Proof.
  intros Hf Hh. unfold url_clean.
  assert (Hd : drop_while (fun c => c <=? 32) r = r).
  { destruct r as [|c r]; [reflexivity|]. cbn. assert ((c <=? 32) = false) by (apply N.leb_gt; exact Hh).
    rewrite H. reflexivity. }
  rewrite Hd. clear Hd Hh. induction Hf as [|c r (H9 & H10 & H13) Hr IH]; [reflexivity|].
  cbn [filter]. unfold memN at 1. cbn [existsb].
  rewrite (proj2 (N.eqb_neq c 9) H9), (proj2 (N.eqb_neq c 10) H10), (proj2 (N.eqb_neq c 13) H13).
  cbn [orb negb]. rewrite IH. reflexivity.
Qed.

Lemma url_clean_no_ws u : Forall (fun c => c <> 9 /\ c <> 10 /\ c <> 13) (url_clean u).
Proof.
  unfold url_clean. apply Forall_forall. intros c Hc. apply filter_In in Hc as [_ Hc].
  apply negb_true_iff in Hc. unfold memN in Hc. cbn [existsb] in Hc. rewrite !orb_false_iff, !N.eqb_neq in Hc. tauto.
Qed.

Definition split_or (d : N) (s : str) : str * str :=
  match split_first d s with Some (a, b) => (a, b) | None => (s, []) end.

Lemma split_or_app d a b : ~ In d a -> split_or d (a ++ (if is_nil b then [] else d :: b)) = (a, b).
Proof.
  intros H. unfold split_or. destruct b as [|x b]; cbn [is_nil].
  - rewrite app_nil_r, (split_first_none d a H). reflexivity.
  - assert (E : split_first d (a ++ d :: x :: b) = Some (a, x :: b)) by (apply split_first_some; auto).
    rewrite E. reflexivity.
Qed.

Lemma split_or_parts d s a b : split_or d s = (a, b) -> s = a ++ d :: b \/ (s = a /\ b = []).
Proof.
  unfold split_or. destruct (split_first d s) as [[x y]|] eqn:E; intros H; injection H as <- <-.
  - left. apply split_first_some in E. tauto.
  - right. auto.
Qed.

Lemma url_parts_eq u : url_parts u =
  (fst (split_or 63 (fst (split_or 35 (url_clean u)))), snd (split_or 63 (fst (split_or 35 (url_clean u)))),
   snd (split_or 35 (url_clean u))).
Proof.
  unfold url_parts, split_or. destruct (split_first 35 (url_clean u)) as [[a b]|]; cbn [fst snd];
    match goal with |- context [split_first 63 ?x] => destruct (split_first 63 x) as [[c d]|] end; reflexivity.
Qed.

Definition no_ws (s : str) : Prop := Forall (fun c => c <> 9 /\ c <> 10 /\ c <> 13) s.

Lemma clean_no_ws s : Forall clean_char s -> no_ws s.
Proof. apply Forall_impl. unfold clean_char. tauto. Qed.

Lemma url_parts_unparts head q frag :
  forallb head_char head = true -> ~ In 35 q -> ~ In 63 q -> Forall clean_char q -> no_ws frag ->
  url_parts (url_unparts head q frag) = (head, q, frag).
Proof.
  intros Hh Hq35 Hq63 Hqc Hf.
  assert (Hhf : Forall (fun c => clean_char c /\ c <> 35 /\ c <> 63) head).
  { apply Forall_forall. intros c Hc. apply head_char_facts. rewrite forallb_forall in Hh. auto. }
  assert (Hhc : Forall clean_char head).
  { apply Forall_forall. intros c Hc. rewrite Forall_forall in Hhf. apply (Hhf c Hc). }
  assert (Hh35 : ~ In 35 head) by (intros Hin; rewrite Forall_forall in Hhf; destruct (Hhf _ Hin) as (_&?&_); congruence).
  assert (Hh63 : ~ In 63 head) by (intros Hin; rewrite Forall_forall in Hhf; destruct (Hhf _ Hin) as (_&_&?); congruence).
  set (qp := if is_nil q then [] else 63 :: q). set (fp := if is_nil frag then [] else 35 :: frag).
  assert (Hclean : url_clean (url_unparts head q frag) = url_unparts head q frag).
  { apply url_clean_id.
    - unfold url_unparts. fold qp fp. apply Forall_app. split; [apply clean_no_ws; exact Hhc|].
      apply Forall_app. split.
      + unfold qp. destruct q; [constructor|]. constructor; [repeat split; discriminate|apply clean_no_ws; exact Hqc].
      + unfold fp. destruct frag; [constructor|]. constructor; [repeat split; discriminate|exact Hf].
    - unfold url_unparts. destruct head as [|c head].
      + destruct q as [|x q]; cbn; [destruct frag; cbn; [exact I|lia]|lia].
      + cbn. inversion Hhc as [|? ? Hc _]; subst. unfold clean_char in Hc. tauto. }
  rewrite url_parts_eq, Hclean. unfold url_unparts. fold qp fp. rewrite app_assoc.
  assert (H1 : split_or 35 ((head ++ qp) ++ fp) = (head ++ qp, frag)).
  { apply split_or_app. rewrite in_app_iff. intros [H|H]; [auto|]. unfold qp in H. destruct q; [destruct H|].
    destruct H as [H|H]; [discriminate|auto]. }
  rewrite H1. cbn [fst snd].
  assert (H2 : split_or 63 (head ++ qp) = (head, q)) by (apply split_or_app; exact Hh63).
  rewrite H2. reflexivity.
Qed.

Lemma pairs_eqb_refl l : list_eqb pair_eqb l l = true.
Proof.
  induction l as [|[k v] l IH]; [reflexivity|]. cbn. unfold pair_eqb at 1. cbn [fst snd].
  rewrite (proj2 (str_eqb_iff k k) eq_refl), (proj2 (str_eqb_iff v v) eq_refl). exact IH.
Qed.

(* the result splits back into the same head and fragment, and its query decodes to the
   old pairs followed by the arguments *)
Theorem url_concat_ok u args r : url_concat u args = UcOk r -> url_result_ok u args r = true.
Proof.
  unfold url_concat, url_result_ok.
  destruct (url_parts u) as [[head query] frag] eqn:Eu.
  destruct (simple_head head) eqn:Hhead; [|discriminate].
  destruct (urlencode (parse_qsl query ++ args)) as [q|] eqn:Eq; [|discriminate].
  intros H. injection H as <-.
  destruct (urlencode_chars _ _ Eq) as [H35 [H63 Hc]].
  assert (Hfrag : no_ws frag).
  { rewrite url_parts_eq in Eu. injection Eu as _ _ Ef.
    pose proof (url_clean_no_ws u) as Hw.
    destruct (split_or 35 (url_clean u)) as [a b] eqn:Es. cbn [snd] in Ef. subst b.
    apply split_or_parts in Es as [Hs|[_ ->]]; [|constructor].
    rewrite Hs in Hw. apply Forall_app in Hw as [_ Hw]. inversion Hw; assumption. }
  rewrite (url_parts_unparts head _ frag (simple_head_chars _ Hhead) H35 H63 Hc Hfrag).
  rewrite (proj2 (str_eqb_iff head head) eq_refl), (proj2 (str_eqb_iff frag frag) eq_refl).
  rewrite (parse_qsl_urlencode _ _ Eq). cbn [andb]. apply pairs_eqb_refl.
Qed.

(* in scope the model answers: a result, or UnicodeEncodeError exactly when some code point
   of the old pairs or of the arguments cannot be encoded *)
Lemma url_in_scope_cases u args : url_in_scope u = true ->
  (exists r, url_concat u args = UcOk r /\ url_encodable u args = true)
  \/ (url_concat u args = UcEncodeError /\ url_encodable u args = false).
Proof.
  unfold url_in_scope, url_concat, url_encodable. destruct (url_parts u) as [[head query] frag].
  intros H. rewrite H. destruct (urlencode (parse_qsl query ++ args)); [left; eexists; split; reflexivity|right; split; reflexivity].
Qed.

(* urlencode fails exactly when a key or value contains a surrogate (or a value beyond U+10FFFF) *)
Definition encodable_cp (c : N) : Prop := ~ (55296 <= c <= 57343 \/ 1114112 <= c).
Lemma utf8_encode_some_iff s : (exists bs, utf8_encode s = Some bs) <-> Forall encodable_cp s.
Proof.
  induction s as [|c s IH]; cbn [utf8_encode].
  - split; [constructor|eexists; reflexivity].
  - destruct (utf8_encode_cp c) as [a|] eqn:Ec.
    + destruct (utf8_encode s) as [b|] eqn:Es.
      * split; [|eexists; reflexivity]. intros _. constructor.
        -- unfold encodable_cp. rewrite <- utf8_encode_cp_none. congruence.
        -- apply IH. eexists; reflexivity.
      * split; [intros [bs H]; discriminate|]. intros H. inversion H; subst. apply IH in H3 as [bs Hbs]. discriminate.
    + split; [intros [bs H]; discriminate|]. intros H. inversion H as [|? ? Hc _]; subst.
      exfalso. apply Hc. apply utf8_encode_cp_none. exact Ec.
Qed.

Lemma urlencode_some_iff l :
  (exists q, urlencode l = Some q) <-> Forall (fun kv => Forall encodable_cp (fst kv) /\ Forall encodable_cp (snd kv)) l.
Proof.
  unfold urlencode.
  assert (H : (exists fs, enc_pairs l = Some fs) <-> Forall (fun kv => Forall encodable_cp (fst kv) /\ Forall encodable_cp (snd kv)) l).
  { induction l as [|[k v] l IH]; cbn [enc_pairs].
    - split; [constructor|eexists; reflexivity].
    - unfold quote_plus. split.
      + intros [fs Hfs].
        destruct (utf8_encode k) as [bk|] eqn:Ek; [|discriminate].
        destruct (utf8_encode v) as [bv|] eqn:Ev; [|discriminate].
        destruct (enc_pairs l) as [r|] eqn:Er; [|discriminate].
        constructor; [split; apply utf8_encode_some_iff; eexists; eassumption|]. apply IH. eexists; reflexivity.
      + intros Hall. inversion Hall as [|? ? [Hk Hv] Hl]; subst. cbn [fst snd] in *.
        apply utf8_encode_some_iff in Hk as [bk ->]. apply utf8_encode_some_iff in Hv as [bv ->].
        apply IH in Hl as [r ->]. eexists; reflexivity. }
  rewrite <- H. split.
  - intros [q Hq]. destruct (enc_pairs l); [eexists; reflexivity|discriminate].
  - intros [fs ->]. eexists; reflexivity.
Qed.

Example url_concat_example :
  (* url_concat("/p?a=b#f", [("c", "d e")]) = "/p?a=b&c=d+e#f" *)
  url_concat [47;112;63;97;61;98;35;102] [([99], [100;32;101])]
  = UcOk [47;112;63;97;61;98;38;99;61;100;43;101;35;102].
Proof. reflexivity. Qed.

Example url_concat_unicode_example :
  (* url_concat("/p?k=%C3%A9", [("€", "😀")]) = "/p?k=%C3%A9&%E2%82%AC=%F0%9F%98%80" *)
  url_concat [47;112;63;107;61;37;67;51;37;65;57] [([8364], [128512])]
  = UcOk [47;112;63;107;61;37;67;51;37;65;57;38;37;69;50;37;56;50;37;65;67;61;37;70;48;37;57;70;37;57;56;37;56;48].
Proof. reflexivity. Qed.
