(* C43 — proofs, part 5: url_concat keeps the head, the fragment and the existing query
   pairs and appends the arguments (ASCII scope of Model2.v). *)
From Coq Require Import List NArith Bool Arith Lia.
From TV Require Import Lib.Obs C43.Model C43.Model2 C43.Spec C43.ProofsStart C43.ProofsHeader.
Import ListNotations.
Local Open Scope N_scope.

(* ---------- finite sweeps ---------- *)
Definition nrange (n : nat) : list N := map N.of_nat (seq 0 n).
Lemma nrange_in n c : c < N.of_nat n -> In c (nrange n).
Proof.
  intros H. unfold nrange. apply in_map_iff. exists (N.to_nat c). split; [apply N2Nat.id|].
  apply in_seq. lia.
Qed.
Lemma sweep (p : N -> bool) n : forallb p (nrange n) = true -> forall c, c < N.of_nat n -> p c = true.
Proof. intros H c Hc. rewrite forallb_forall in H. apply H. apply nrange_in. exact Hc. Qed.

(* ---------- percent coding of one character ---------- *)
Definition plus_to_sp (c : N) : N := if c =? 43 then 32 else c.

(* what the decoder needs from the three shapes produced by quote_plus_c *)
Definition qp_char_ok (c : N) : bool :=
  if always_safe c then negb (c =? 43) && negb (c =? 37) && negb (c =? 38) && negb (c =? 61) && negb (c =? 35) && negb (c =? 63)
  else if c =? 32 then true
  else
    let a := hex_digit (c / 16) in
    let b := hex_digit (c mod 16) in
    is_hex a && is_hex b && (16 * hex_val a + hex_val b =? c)
    && negb (a =? 43) && negb (b =? 43) && negb (memN a [38; 61; 35; 63; 37]) && negb (memN b [38; 61; 35; 63; 37]).

Lemma qp_char_ok_all c : c < 256 -> qp_char_ok c = true.
Proof. apply (sweep qp_char_ok 256). vm_compute. reflexivity. Qed.

Definition sep_free (s : str) : Prop := ~ In 38 s /\ ~ In 61 s /\ ~ In 35 s /\ ~ In 63 s.

Lemma quote_plus_c_spec c : c < 256 ->
  (forall rest, pct_decode (map plus_to_sp (quote_plus_c c) ++ rest) = c :: pct_decode rest)
  /\ sep_free (quote_plus_c c) /\ Forall (fun x => 32 < x /\ x <> 9 /\ x <> 10 /\ x <> 13) (quote_plus_c c).
Proof.
  intros Hc. pose proof (qp_char_ok_all c Hc) as H. unfold qp_char_ok in H. unfold quote_plus_c.
  destruct (always_safe c) eqn:Es.
  - rewrite !andb_true_iff, !negb_true_iff, !N.eqb_neq in H. destruct H as [[[[[H43 H37] H38] H61] H35] H63].
    split; [|split].
    + intros rest. cbn [map app]. unfold plus_to_sp. rewrite (proj2 (N.eqb_neq c 43) H43).
      cbn [pct_decode]. rewrite (proj2 (N.eqb_neq c 37) H37). reflexivity.
    + unfold sep_free. cbn. repeat split; intros [E|[]]; congruence.
    + constructor; [|constructor]. unfold always_safe, is_alnum, is_alpha, is_upper, is_lower, is_digit in Es.
      rewrite !orb_true_iff, !in_range_iff, memN_iff in Es. cbn in Es. lia.
  - destruct (c =? 32) eqn:E32.
    + apply N.eqb_eq in E32. subst c. split; [|split].
      * intros rest. reflexivity.
      * unfold sep_free. cbn. repeat split; intros [E|[]]; discriminate.
      * constructor; [lia|constructor].
    + set (a := hex_digit (c / 16)) in *. set (b := hex_digit (c mod 16)) in *.
      rewrite !andb_true_iff, !negb_true_iff in H.
      destruct H as [[[[[[Ha Hb] Hv] Ha43] Hb43] Ham] Hbm].
      apply N.eqb_eq in Hv.
      split; [|split].
      * intros rest. cbn [map app]. unfold plus_to_sp. rewrite Ha43, Hb43. cbn [N.eqb Pos.eqb].
        cbn [pct_decode]. rewrite N.eqb_refl, Ha, Hb. cbn [andb]. rewrite Hv. reflexivity.
      * unfold memN in Ham, Hbm. cbn [existsb] in Ham, Hbm. rewrite !orb_false_iff, !N.eqb_neq in Ham, Hbm.
        unfold sep_free. cbn. repeat split; intros [E|[E|[E|[]]]]; try discriminate; intuition congruence.
      * assert (Hhex : forall x, is_hex x = true -> 32 < x /\ x <> 9 /\ x <> 10 /\ x <> 13).
        { intros x Hx. unfold is_hex, is_digit in Hx. rewrite !orb_true_iff, !in_range_iff in Hx. lia. }
        repeat constructor; try lia; try discriminate; apply Hhex; assumption.
Qed.

Definition ascii (s : str) : Prop := Forall (fun c => c < 128) s.
Lemma is_ascii_str_iff s : is_ascii_str s = true <-> ascii s.
Proof.
  unfold is_ascii_str, ascii. rewrite forallb_forall, Forall_forall.
  split; intros H x Hx; specialize (H x Hx); [apply N.ltb_lt|apply N.ltb_lt]; exact H.
Qed.

Definition clean_char (x : N) : Prop := 32 < x /\ x <> 9 /\ x <> 10 /\ x <> 13.

Lemma quote_plus_spec s : ascii s ->
  (forall rest, pct_decode (map plus_to_sp (quote_plus s) ++ rest) = s ++ pct_decode rest)
  /\ sep_free (quote_plus s) /\ Forall clean_char (quote_plus s).
Proof.
  induction 1 as [|c s Hc Hs IH].
  - repeat split; try (intros []). constructor.
  - destruct IH as [IH1 [IH2 IH3]].
    destruct (quote_plus_c_spec c) as [H1 [H2 H3]]; [lia|].
    unfold quote_plus in *. cbn [flat_map]. split; [|split].
    + intros rest. rewrite map_app, <- app_assoc, H1, IH1. reflexivity.
    + unfold sep_free in *. rewrite !in_app_iff. tauto.
    + apply Forall_app. split; assumption.
Qed.

Lemma unquote_plus_quote_plus s : ascii s -> unquote_plus (quote_plus s) = Some s.
Proof.
  intros H. unfold unquote_plus. destruct (quote_plus_spec s H) as [H1 _].
  specialize (H1 []). rewrite app_nil_r in H1. cbn [pct_decode] in H1. rewrite app_nil_r in H1.
  change (fun c : N => if c =? 43 then 32 else c) with plus_to_sp. rewrite H1.
  apply is_ascii_str_iff in H. rewrite H. reflexivity.
Qed.

(* ---------- split / join ---------- *)
Lemma split_all_acc_last d x : ~ In d x -> forall cur, split_all_acc d x cur = [rev cur ++ x].
Proof.
  induction x as [|c x IH]; intros H cur.
  - cbn. rewrite app_nil_r. reflexivity.
  - cbn [split_all_acc]. assert (Hc : (c =? d) = false) by (apply N.eqb_neq; intros ->; apply H; left; reflexivity).
    rewrite Hc, IH by (intros Hin; apply H; right; exact Hin). cbn [rev]. rewrite <- app_assoc. reflexivity.
Qed.
Lemma split_all_acc_sep d x : ~ In d x -> forall cur rest,
  split_all_acc d (x ++ d :: rest) cur = (rev cur ++ x) :: split_all_acc d rest [].
Proof.
  induction x as [|c x IH]; intros H cur rest.
  - cbn [app split_all_acc]. rewrite N.eqb_refl, app_nil_r. reflexivity.
  - cbn [app split_all_acc]. assert (Hc : (c =? d) = false) by (apply N.eqb_neq; intros ->; apply H; left; reflexivity).
    rewrite Hc, IH by (intros Hin; apply H; right; exact Hin). cbn [rev]. rewrite <- app_assoc. reflexivity.
Qed.

Lemma split_all_join d fs : Forall (fun f => ~ In d f) fs -> forall f, ~ In d f ->
  split_all d (join_with d (f :: fs)) = f :: fs.
Proof.
  unfold split_all. induction 1 as [|g fs Hg Hfs IH]; intros f Hf.
  - cbn [join_with]. apply (split_all_acc_last d f Hf []).
  - change (join_with d (f :: g :: fs)) with (f ++ d :: join_with d (g :: fs)).
    rewrite (split_all_acc_sep d f Hf [] _). cbn [rev app]. rewrite (IH g Hg). reflexivity.
Qed.

(* ---------- parse_qsl (urlencode l) = l ---------- *)
Definition ascii_pair (kv : str * str) : Prop := ascii (fst kv) /\ ascii (snd kv).
Definition enc_pair (kv : str * str) : str := quote_plus (fst kv) ++ 61 :: quote_plus (snd kv).

Lemma qsl_fields_enc l : Forall ascii_pair l -> qsl_fields (map enc_pair l) = Some l.
Proof.
  induction 1 as [|[k v] l [Hk Hv] Hl IH]; [reflexivity|].
  cbn [map qsl_fields]. cbn [fst snd] in Hk, Hv. change (enc_pair (k, v)) with (quote_plus k ++ 61 :: quote_plus v).
  destruct (quote_plus_spec k Hk) as [_ [[_ [Hk61 _]] _]].
  assert (Hnil : is_nil (quote_plus k ++ 61 :: quote_plus v) = false) by (destruct (quote_plus k); reflexivity).
  rewrite Hnil.
  assert (Hs : split_first 61 (quote_plus k ++ 61 :: quote_plus v) = Some (quote_plus k, quote_plus v))
    by (apply split_first_some; auto).
  rewrite Hs, (unquote_plus_quote_plus k Hk), (unquote_plus_quote_plus v Hv), IH. reflexivity.
Qed.

Lemma enc_pair_no_amp kv : ascii_pair kv -> ~ In 38 (enc_pair kv).
Proof.
  intros [Hk Hv]. unfold enc_pair. destruct (quote_plus_spec _ Hk) as [_ [[Hk38 _] _]].
  destruct (quote_plus_spec _ Hv) as [_ [[Hv38 _] _]].
  rewrite in_app_iff. intros [H|[H|H]]; [auto|discriminate|auto].
Qed.

Lemma urlencode_eq l : urlencode l = join_with 38 (map enc_pair l).
Proof. reflexivity. Qed.

Lemma join_with_nonnil d f fs : f <> [] -> is_nil (join_with d (f :: fs)) = false.
Proof. intros H. destruct f; [contradiction|]. destruct fs; reflexivity. Qed.

Lemma enc_pair_nonnil kv : enc_pair kv <> [].
Proof. unfold enc_pair. destruct (quote_plus (fst kv)); discriminate. Qed.

Theorem parse_qsl_urlencode l : Forall ascii_pair l -> parse_qsl (urlencode l) = Some l.
Proof.
  intros H. rewrite urlencode_eq. unfold parse_qsl.
  destruct l as [|kv l]; [reflexivity|].
  inversion H as [|? ? Hkv Hl]; subst.
  cbn [map]. rewrite (join_with_nonnil 38 _ _ (enc_pair_nonnil kv)). rewrite split_all_join.
  - exact (qsl_fields_enc (kv :: l) H).
  - apply Forall_map. eapply Forall_impl; [|exact Hl]. apply enc_pair_no_amp.
  - apply enc_pair_no_amp. exact Hkv.
Qed.

Lemma urlencode_chars l : Forall ascii_pair l ->
  ~ In 35 (urlencode l) /\ ~ In 63 (urlencode l) /\ Forall clean_char (urlencode l).
Proof.
  rewrite urlencode_eq.
  assert (Hone : forall kv, ascii_pair kv -> ~ In 35 (enc_pair kv) /\ ~ In 63 (enc_pair kv) /\ Forall clean_char (enc_pair kv)).
  { intros kv [Hk Hv]. unfold enc_pair. destruct (quote_plus_spec _ Hk) as [_ [[_ [_ [Hk35 Hk63]]] Hkc]].
    destruct (quote_plus_spec _ Hv) as [_ [[_ [_ [Hv35 Hv63]]] Hvc]].
    rewrite !in_app_iff. repeat split.
    - intros [H|[H|H]]; [auto|discriminate|auto].
    - intros [H|[H|H]]; [auto|discriminate|auto].
    - apply Forall_app. split; [exact Hkc|]. constructor; [unfold clean_char; lia|exact Hvc]. }
  induction 1 as [|kv l Hkv Hl IH]; [repeat split; try (intros []); constructor|].
  destruct (Hone kv Hkv) as [H35 [H63 Hc]]. destruct IH as [I35 [I63 Ic]].
  destruct l as [|kv2 l]; [cbn [map join_with]; auto|].
  change (join_with 38 (map enc_pair (kv :: kv2 :: l))) with (enc_pair kv ++ 38 :: join_with 38 (map enc_pair (kv2 :: l))).
  rewrite !in_app_iff. repeat split.
  - intros [H|[H|H]]; [auto|discriminate|auto].
  - intros [H|[H|H]]; [auto|discriminate|auto].
  - apply Forall_app. split; [exact Hc|]. constructor; [unfold clean_char; lia|exact Ic].
Qed.

(* ---------- the head ---------- *)
Definition head_char (c : N) : bool := path_char c || host_char c.

Lemma head_char_facts c : head_char c = true -> clean_char c /\ c <> 35 /\ c <> 63.
Proof.
  unfold head_char, path_char, host_char, is_alnum, is_alpha, is_upper, is_lower, is_digit, clean_char.
  rewrite !orb_true_iff, !in_range_iff, !memN_iff. cbn [In]. intros H.
  repeat split; try lia; intros ->; intuition (try lia; try discriminate).
Qed.

Lemma strip_prefix_some p s r : strip_prefix p s = Some r -> s = p ++ r.
Proof.
  revert s. induction p as [|x p IH]; intros s H; cbn in H.
  - injection H as ->. reflexivity.
  - destruct s as [|y s]; [discriminate|]. destruct (x =? y) eqn:E; [|discriminate].
    apply N.eqb_eq in E. subst y. cbn. f_equal. auto.
Qed.

Lemma take_drop_while p s : s = take_while p s ++ drop_while p s.
Proof. induction s as [|c s IH]; [reflexivity|]. cbn. destruct (p c); [cbn; f_equal; exact IH|reflexivity]. Qed.
Lemma take_while_all p s : forallb p (take_while p s) = true.
Proof. induction s as [|c s IH]; [reflexivity|]. cbn. destruct (p c) eqn:E; [cbn; rewrite E; exact IH|reflexivity]. Qed.

Lemma forallb_impl {A} (p q : A -> bool) l : (forall x, p x = true -> q x = true) -> forallb p l = true -> forallb q l = true.
Proof. intros Hpq. rewrite !forallb_forall. auto. Qed.

Lemma simple_abs_rest_chars r : simple_abs_rest r = true -> forallb head_char r = true.
Proof.
  unfold simple_abs_rest. intros H. apply andb_true_iff in H as [_ H].
  rewrite (take_drop_while host_char r), forallb_app. apply andb_true_iff. split.
  - apply (forallb_impl host_char); [|apply take_while_all]. intros x Hx. unfold head_char. rewrite Hx. apply orb_true_r.
  - apply orb_true_iff in H as [H|H].
    + destruct (drop_while host_char r); [reflexivity|discriminate].
    + apply andb_true_iff in H as [_ H]. apply (forallb_impl path_char); [|exact H].
      intros x Hx. unfold head_char. rewrite Hx. reflexivity.
Qed.

Lemma simple_head_chars h : simple_head h = true -> forallb head_char h = true.
Proof.
  unfold simple_head. intros H.
  destruct (strip_prefix [104; 116; 116; 112; 58; 47; 47] h) as [r|] eqn:E1.
  { apply strip_prefix_some in E1. subst h. rewrite forallb_app, (simple_abs_rest_chars r H). reflexivity. }
  destruct (strip_prefix [104; 116; 116; 112; 115; 58; 47; 47] h) as [r|] eqn:E2.
  { apply strip_prefix_some in E2. subst h. rewrite forallb_app, (simple_abs_rest_chars r H). reflexivity. }
  apply orb_true_iff in H as [H|H]; [destruct h; [reflexivity|discriminate]|].
  rewrite !andb_true_iff in H. destruct H as [_ H]. apply (forallb_impl path_char); [|exact H].
  intros x Hx. unfold head_char. rewrite Hx. reflexivity.
Qed.

(* ---------- cleaning and re-splitting the result ---------- *)
Lemma url_clean_id r : Forall (fun c => c <> 9 /\ c <> 10 /\ c <> 13) r ->
  (match r with c :: _ => 32 < c | [] => True end) -> url_clean r = r.
Proof.
  intros Hf Hh. unfold url_clean.
  assert (Hd : drop_while (fun c => c <=? 32) r = r).
  { destruct r as [|c r]; [reflexivity|]. cbn. assert ((c <=? 32) = false) by (apply N.leb_gt; exact Hh).
    rewrite H. reflexivity. }
  rewrite Hd. clear Hd Hh. induction Hf as [|c r (H9 & H10 & H13) Hr IH]; [reflexivity|].
  cbn [filter]. unfold memN at 1. cbn [existsb].
  rewrite (proj2 (N.eqb_neq c 9) H9), (proj2 (N.eqb_neq c 10) H10), (proj2 (N.eqb_neq c 13) H13).
  cbn [orb negb]. rewrite IH. reflexivity.
Qed.

Lemma url_clean_no_ws u : Forall (fun c => c <> 9 /\ c <> 10 /\ c <> 13) (url_clean u).
Proof.
  unfold url_clean. apply Forall_forall. intros c Hc. apply filter_In in Hc as [_ Hc].
  apply negb_true_iff in Hc. unfold memN in Hc. cbn [existsb] in Hc. rewrite !orb_false_iff, !N.eqb_neq in Hc. tauto.
Qed.

Definition split_or (d : N) (s : str) : str * str :=
  match split_first d s with Some (a, b) => (a, b) | None => (s, []) end.

Lemma split_or_app d a b : ~ In d a -> split_or d (a ++ (if is_nil b then [] else d :: b)) = (a, b).
Proof.
  intros H. unfold split_or. destruct b as [|x b]; cbn [is_nil].
  - rewrite app_nil_r, (split_first_none d a H). reflexivity.
  - assert (E : split_first d (a ++ d :: x :: b) = Some (a, x :: b)) by (apply split_first_some; auto).
    rewrite E. reflexivity.
Qed.

Lemma split_or_parts d s a b : split_or d s = (a, b) -> s = a ++ d :: b \/ (s = a /\ b = []).
Proof.
  unfold split_or. destruct (split_first d s) as [[x y]|] eqn:E; intros H; injection H as <- <-.
  - left. apply split_first_some in E. tauto.
  - right. auto.
Qed.

Lemma url_parts_eq u : url_parts u =
  (fst (split_or 63 (fst (split_or 35 (url_clean u)))), snd (split_or 63 (fst (split_or 35 (url_clean u)))),
   snd (split_or 35 (url_clean u))).
Proof.
  unfold url_parts, split_or. destruct (split_first 35 (url_clean u)) as [[a b]|]; cbn [fst snd];
    match goal with |- context [split_first 63 ?x] => destruct (split_first 63 x) as [[c d]|] end; reflexivity.
Qed.

Definition no_ws (s : str) : Prop := Forall (fun c => c <> 9 /\ c <> 10 /\ c <> 13) s.

Lemma clean_no_ws s : Forall clean_char s -> no_ws s.
Proof. apply Forall_impl. unfold clean_char. tauto. Qed.

Lemma url_parts_unparts head q frag :
  forallb head_char head = true -> ~ In 35 q -> ~ In 63 q -> Forall clean_char q -> no_ws frag ->
  url_parts (url_unparts head q frag) = (head, q, frag).
Proof.
  intros Hh Hq35 Hq63 Hqc Hf.
  assert (Hhf : Forall (fun c => clean_char c /\ c <> 35 /\ c <> 63) head).
  { apply Forall_forall. intros c Hc. apply head_char_facts. rewrite forallb_forall in Hh. auto. }
  assert (Hhc : Forall clean_char head).
  { apply Forall_forall. intros c Hc. rewrite Forall_forall in Hhf. apply (Hhf c Hc). }
  assert (Hh35 : ~ In 35 head) by (intros Hin; rewrite Forall_forall in Hhf; destruct (Hhf _ Hin) as (_&?&_); congruence).
  assert (Hh63 : ~ In 63 head) by (intros Hin; rewrite Forall_forall in Hhf; destruct (Hhf _ Hin) as (_&_&?); congruence).
  set (qp := if is_nil q then [] else 63 :: q). set (fp := if is_nil frag then [] else 35 :: frag).
  assert (Hclean : url_clean (url_unparts head q frag) = url_unparts head q frag).
  { apply url_clean_id.
    - unfold url_unparts. fold qp fp. apply Forall_app. split; [apply clean_no_ws; exact Hhc|].
      apply Forall_app. split.
      + unfold qp. destruct q; [constructor|]. constructor; [repeat split; discriminate|apply clean_no_ws; exact Hqc].
      + unfold fp. destruct frag; [constructor|]. constructor; [repeat split; discriminate|exact Hf].
    - unfold url_unparts. destruct head as [|c head].
      + destruct q as [|x q]; cbn; [destruct frag; cbn; [exact I|lia]|lia].
      + cbn. inversion Hhc as [|? ? Hc _]; subst. unfold clean_char in Hc. tauto. }
  rewrite url_parts_eq, Hclean. unfold url_unparts. fold qp fp. rewrite app_assoc.
  assert (H1 : split_or 35 ((head ++ qp) ++ fp) = (head ++ qp, frag)).
  { apply split_or_app. rewrite in_app_iff. intros [H|H]; [auto|]. unfold qp in H. destruct q; [destruct H|].
    destruct H as [H|H]; [discriminate|auto]. }
  rewrite H1. cbn [fst snd].
  assert (H2 : split_or 63 (head ++ qp) = (head, q)) by (apply split_or_app; exact Hh63).
  rewrite H2. reflexivity.
Qed.

Lemma unquote_plus_ascii s r : unquote_plus s = Some r -> ascii r.
Proof.
  unfold unquote_plus. destruct (is_ascii_str _) eqn:E; [|discriminate]. intros H. injection H as <-.
  apply is_ascii_str_iff. exact E.
Qed.

Lemma qsl_fields_ascii fs : forall l, qsl_fields fs = Some l -> Forall ascii_pair l.
Proof.
  induction fs as [|f fs IH]; intros l H; cbn in H.
  - injection H as <-. constructor.
  - destruct (is_nil f); [auto|].
    destruct (match split_first 61 f with Some (n, v) => (n, v) | None => (f, []) end) as [n v].
    destruct (unquote_plus n) as [n'|] eqn:En; [|discriminate].
    destruct (unquote_plus v) as [v'|] eqn:Ev; [|discriminate].
    destruct (qsl_fields fs) as [rest|]; [|discriminate]. injection H as <-.
    constructor; [split; cbn; eapply unquote_plus_ascii; eassumption|auto].
Qed.

Lemma parse_qsl_ascii q l : parse_qsl q = Some l -> Forall ascii_pair l.
Proof.
  unfold parse_qsl. destruct (is_nil q); [intros H; injection H as <-; constructor|apply qsl_fields_ascii].
Qed.

Lemma pairs_eqb_refl l : list_eqb pair_eqb l l = true.
Proof.
  induction l as [|[k v] l IH]; [reflexivity|]. cbn. unfold pair_eqb at 1. cbn [fst snd].
  rewrite (proj2 (str_eqb_iff k k) eq_refl), (proj2 (str_eqb_iff v v) eq_refl). exact IH.
Qed.

(* the result splits back into the same head and fragment, and its query decodes to the
   old pairs followed by the arguments *)
Theorem url_concat_ok u args r : url_concat u args = UcOk r -> url_result_ok u args r = true.
Proof.
  unfold url_concat, url_result_ok.
  destruct (url_parts u) as [[head query] frag] eqn:Eu.
  destruct (is_ascii_str u && args_ascii args && simple_head head) eqn:Ec; [|discriminate].
  destruct (parse_qsl query) as [old|] eqn:Eq; [|discriminate].
  intros H. injection H as <-.
  rewrite !andb_true_iff in Ec. destruct Ec as [[_ Hargs] Hhead].
  assert (Hall : Forall ascii_pair (old ++ args)).
  { apply Forall_app. split; [exact (parse_qsl_ascii _ _ Eq)|].
    unfold args_ascii in Hargs. rewrite forallb_forall in Hargs. apply Forall_forall. intros kv Hin.
    specialize (Hargs kv Hin). apply andb_true_iff in Hargs as [H1 H2]. split; apply is_ascii_str_iff; assumption. }
  destruct (urlencode_chars _ Hall) as [H35 [H63 Hc]].
  assert (Hfrag : no_ws frag).
  { rewrite url_parts_eq in Eu. injection Eu as _ _ Ef.
    pose proof (url_clean_no_ws u) as Hw.
    destruct (split_or 35 (url_clean u)) as [a b] eqn:Es. cbn [snd] in Ef. subst b.
    apply split_or_parts in Es as [Hs|[_ ->]]; [|constructor].
    rewrite Hs in Hw. apply Forall_app in Hw as [_ Hw]. inversion Hw; assumption. }
  rewrite (url_parts_unparts head _ frag (simple_head_chars _ Hhead) H35 H63 Hc Hfrag).
  rewrite (proj2 (str_eqb_iff head head) eq_refl), (proj2 (str_eqb_iff frag frag) eq_refl).
  rewrite (parse_qsl_urlencode _ Hall). cbn [andb]. apply pairs_eqb_refl.
Qed.

(* in scope the model always answers *)
Lemma url_in_scope_ok u args : url_in_scope u args = true -> exists r, url_concat u args = UcOk r.
Proof.
  unfold url_in_scope, url_concat. destruct (url_parts u) as [[head query] frag].
  intros H. apply andb_true_iff in H as [H1 H2]. rewrite H1.
  destruct (parse_qsl query); [eexists; reflexivity|discriminate].
Qed.

Example url_concat_example :
  (* url_concat("/p?a=b#f", [("c", "d e")]) = "/p?a=b&c=d+e#f" *)
  url_concat [47;112;63;97;61;98;35;102] [([99], [100;32;101])]
  = UcOk [47;112;63;97;61;98;38;99;61;100;43;101;35;102].
Proof. reflexivity. Qed.
