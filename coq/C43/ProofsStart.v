(* C43 — proofs, part 1: the start-line recognisers accept exactly the RFC 9112 grammar
   relations of Spec.v, decompositions are unique, and the exhaustive-search formulation
   used by check_case coincides with the recognisers. *)
From Coq Require Import List NArith ZArith Bool Arith Lia.
From TV Require Import Lib.Obs C43.Model C43.Model2 C43.Spec.
Import ListNotations.
Local Open Scope N_scope.

(* ---------- reflection of the character classes ---------- *)
Lemma in_range_iff lo hi c : in_range lo hi c = true <-> lo <= c <= hi.
Proof. unfold in_range. rewrite andb_true_iff, !N.leb_le. tauto. Qed.

Lemma memN_iff c l : memN c l = true <-> In c l.
Proof.
  unfold memN. rewrite existsb_exists. split.
  - intros [x [Hin Heq]]. apply N.eqb_eq in Heq. subst. exact Hin.
  - intros Hin. exists c. split; [exact Hin|apply N.eqb_refl].
Qed.

Lemma is_digit_iff c : is_digit c = true <-> Digit c.
Proof. apply in_range_iff. Qed.

Lemma is_alpha_iff c : is_alpha c = true <-> Alpha c.
Proof.
  unfold is_alpha, is_upper, is_lower, Alpha. rewrite orb_true_iff, !in_range_iff. tauto.
Qed.

Lemma is_tchar_iff c : is_tchar c = true <-> Tchar c.
Proof.
  unfold is_tchar, is_alnum, Tchar.
  rewrite !orb_true_iff, is_alpha_iff, is_digit_iff, memN_iff. tauto.
Qed.

Lemma is_field_vchar_iff c : is_field_vchar c = true <-> TargetChar c.
Proof.
  unfold is_field_vchar, is_vchar, is_obs_text, TargetChar, Vchar, ObsText.
  rewrite orb_true_iff, !in_range_iff. tauto.
Qed.

Lemma is_reason_char_iff c : is_reason_char c = true <-> ReasonChar c.
Proof.
  unfold is_reason_char, ReasonChar. rewrite !orb_true_iff, !N.eqb_eq, is_field_vchar_iff.
  unfold TargetChar. tauto.
Qed.

Lemma all_ne_plus (p : N -> bool) (P : N -> Prop) :
  (forall c, p c = true <-> P c) -> forall s, all_ne p s = true <-> plus P s.
Proof.
  intros Hp s. unfold all_ne, nonempty. split.
  - induction s as [|c s IH]; intros H; simpl in H; [discriminate|].
    apply andb_true_iff in H as [Hc Hs]. apply Hp in Hc.
    destruct s as [|c' s']; [constructor; exact Hc|].
    apply plus_cons; [exact Hc|]. apply IH. simpl. simpl in Hs. exact Hs.
  - induction 1 as [c Hc|c s Hc Hs IH]; simpl.
    + apply Hp in Hc. rewrite Hc. reflexivity.
    + apply Hp in Hc. rewrite Hc. simpl in IH. destruct s; [inversion Hs|]. simpl in IH. exact IH.
Qed.

Lemma forallb_star (p : N -> bool) (P : N -> Prop) :
  (forall c, p c = true <-> P c) -> forall s, forallb p s = true <-> star P s.
Proof.
  intros Hp s. split.
  - induction s as [|c s IH]; intros H; [constructor|].
    simpl in H. apply andb_true_iff in H as [Hc Hs]. constructor; [apply Hp; exact Hc|auto].
  - induction 1 as [|c s Hc Hs IH]; [reflexivity|]. simpl. apply Hp in Hc. rewrite Hc. exact IH.
Qed.

Lemma plus_forall (P : N -> Prop) s : plus P s -> forall c, In c s -> P c.
Proof.
  induction 1 as [c Hc|c s Hc Hs IH]; intros x Hin.
  - destruct Hin as [<-|[]]. exact Hc.
  - destruct Hin as [<-|Hin]; [exact Hc|auto].
Qed.

Lemma str_eqb_iff a b : str_eqb a b = true <-> a = b.
Proof.
  unfold str_eqb. split.
  - apply list_eqb_sound. intros x y H. apply N.eqb_eq. exact H.
  - intros <-. induction a as [|x a IH]; [reflexivity|]. simpl. rewrite N.eqb_refl. exact IH.
Qed.

(* ---------- HTTP-version ---------- *)
Lemma is_http_version_iff v : is_http_version v = true <-> g_http_version v.
Proof.
  split.
  - intros H. unfold is_http_version in H.
    destruct v as [|h [|t [|t' [|p [|sl [|a [|dot [|b [|x v]]]]]]]]]; try discriminate.
    rewrite !andb_true_iff in H. destruct H as [[[H1 H2] H3] H4].
    apply str_eqb_iff in H1. apply N.eqb_eq in H3. subst dot.
    injection H1 as -> -> -> -> ->.
    apply (g_ver a b); apply is_digit_iff; assumption.
  - intros [a b Ha Hb]. apply is_digit_iff in Ha, Hb.
    cbn [http_slash app is_http_version]. rewrite Ha, Hb.
    replace (str_eqb [72; 84; 84; 80; 47] http_slash) with true by (symmetry; apply str_eqb_iff; reflexivity).
    reflexivity.
Qed.

Lemma g_http_version_length v : g_http_version v -> length v = 8%nat.
Proof. intros [a b _ _]. reflexivity. Qed.

Lemma g_http_version_no_sp v : g_http_version v -> ~ In SP v.
Proof.
  intros [a b Ha Hb] Hin. unfold Digit, SP in *. cbn in Hin.
  repeat (destruct Hin as [Hin|Hin]; [try discriminate; lia|]). exact Hin.
Qed.

Lemma version_major_iff v : version_major_is_1 v = true <-> major_is_1 v.
Proof.
  unfold version_major_is_1, major_is_1.
  destruct v as [|x0 [|x1 [|x2 [|x3 [|x4 [|a v]]]]]]; cbn; try (split; discriminate).
  rewrite N.eqb_eq. split; [intros ->; reflexivity|intros H; injection H as ->; reflexivity].
Qed.

(* ---------- splitting at the first separator ---------- *)
Lemma split_first_some d s a b :
  split_first d s = Some (a, b) <-> s = a ++ d :: b /\ ~ In d a.
Proof.
  revert a b. induction s as [|c s IH]; intros a b; simpl.
  - split; [discriminate|]. intros [H _]. destruct a; discriminate.
  - destruct (c =? d) eqn:E.
    + apply N.eqb_eq in E. subst c. split.
      * intros H. injection H as <- <-. split; [reflexivity|intros []].
      * intros [H Hn]. destruct a as [|x a].
        -- simpl in H. injection H as <-. reflexivity.
        -- simpl in H. injection H as <- _. exfalso. apply Hn. left. reflexivity.
    + apply N.eqb_neq in E. destruct (split_first d s) as [[a' b']|] eqn:Es.
      * split.
        -- intros H. injection H as <- <-. destruct (proj1 (IH a' b') eq_refl) as [-> Hn].
           split; [reflexivity|]. intros [Hc|Hin]; [congruence|auto].
        -- intros [H Hn]. destruct a as [|x a].
           ++ simpl in H. injection H as H _. congruence.
           ++ simpl in H. injection H as <- H.
              assert (Hx : Some (a', b') = Some (a, b)).
              { apply IH. split; [exact H|]. intros Hin. apply Hn. right. exact Hin. }
              injection Hx as -> ->. reflexivity.
      * split; [discriminate|]. intros [H Hn]. destruct a as [|x a].
        -- simpl in H. injection H as H _. congruence.
        -- simpl in H. injection H as <- H.
           assert (Hx : None = Some (a, b)).
           { apply IH. split; [exact H|]. intros Hin. apply Hn. right. exact Hin. }
           discriminate.
Qed.

Lemma Tchar_not_sp c : Tchar c -> c <> SP.
Proof.
  unfold Tchar, Digit, Alpha, SP, tchar_punct. intros [H|[H|H]] ->; [lia|lia|].
  cbn in H. repeat (destruct H as [H|H]; [discriminate|]). exact H.
Qed.
Lemma TargetChar_not_sp c : TargetChar c -> c <> SP.
Proof. unfold TargetChar, Vchar, ObsText, SP. intros H ->. lia. Qed.

Lemma plus_no_sp (P : N -> Prop) s : (forall c, P c -> c <> SP) -> plus P s -> ~ In SP s.
Proof. intros HP Hs Hin. exact (HP SP (plus_forall P s Hs SP Hin) eq_refl). Qed.

(* ---------- request line ---------- *)
Lemma req_ok_iff m t v :
  req_ok (m, t, v) = true <-> plus Tchar m /\ plus TargetChar t /\ g_http_version v.
Proof.
  unfold req_ok. rewrite !andb_true_iff, (all_ne_plus _ _ is_tchar_iff),
    (all_ne_plus _ _ is_field_vchar_iff), is_http_version_iff. tauto.
Qed.

(* the grammar determines the two cut points: they are the first two spaces *)
Lemma g_request_line_splits s m t v :
  g_request_line s m t v ->
  split_first SP s = Some (m, t ++ SP :: v) /\ split_first SP (t ++ SP :: v) = Some (t, v).
Proof.
  intros [m' t' v' Hm Ht Hv]. split; apply split_first_some; (split; [reflexivity|]).
  - exact (plus_no_sp _ _ Tchar_not_sp Hm).
  - exact (plus_no_sp _ _ TargetChar_not_sp Ht).
Qed.

Definition req_step (x : str * str * str) : sl_result (str * str * str) :=
  if version_major_is_1 (snd x) then SlOk x else SlErr BadVersion.

Lemma parse_request_complete s m t v :
  g_request_line s m t v -> parse_request s = req_step (m, t, v).
Proof.
  intros H. destruct (g_request_line_splits _ _ _ _ H) as [H1 H2].
  unfold parse_request. rewrite H1, H2.
  destruct H as [m t v Hm Ht Hv].
  assert (Hok : req_ok (m, t, v) = true) by (apply req_ok_iff; auto).
  unfold req_ok in Hok. rewrite Hok. reflexivity.
Qed.

Lemma parse_request_sound s :
  parse_request s <> SlErr Malformed ->
  exists m t v, g_request_line s m t v /\ parse_request s = req_step (m, t, v).
Proof.
  unfold parse_request. intros H.
  destruct (split_first SP s) as [[m r]|] eqn:E1; [|congruence].
  destruct (split_first SP r) as [[t v]|] eqn:E2; [|congruence].
  destruct (all_ne is_tchar m && all_ne is_field_vchar t && is_http_version v) eqn:Eok; [|congruence].
  apply split_first_some in E1 as [-> _]. apply split_first_some in E2 as [-> _].
  exists m, t, v. split; [|reflexivity].
  apply (proj1 (req_ok_iff m t v)) in Eok as [Hm [Ht Hv]]. constructor; assumption.
Qed.

Lemma g_request_line_unique s m t v m' t' v' :
  g_request_line s m t v -> g_request_line s m' t' v' -> m = m' /\ t = t' /\ v = v'.
Proof.
  intros H H'. apply g_request_line_splits in H as [H1 H2]. apply g_request_line_splits in H' as [H1' H2'].
  rewrite H1 in H1'. injection H1' as <- Hr. rewrite Hr in H2. rewrite H2 in H2'. injection H2' as <- <-. auto.
Qed.

Theorem parse_request_ok_iff s m t v :
  parse_request s = SlOk (m, t, v) <-> g_request_line s m t v /\ major_is_1 v.
Proof.
  split.
  - intros H. destruct (parse_request_sound s) as (m' & t' & v' & Hg & Hp); [congruence|].
    rewrite Hp in H. unfold req_step in H. cbn [snd] in H.
    destruct (version_major_is_1 v') eqn:Ev; [|discriminate]. injection H as <- <- <-.
    split; [exact Hg|apply version_major_iff; exact Ev].
  - intros [Hg Hv]. rewrite (parse_request_complete _ _ _ _ Hg). unfold req_step. cbn [snd].
    apply version_major_iff in Hv. rewrite Hv. reflexivity.
Qed.

Theorem parse_request_badversion_iff s :
  parse_request s = SlErr BadVersion <-> exists m t v, g_request_line s m t v /\ ~ major_is_1 v.
Proof.
  split.
  - intros H. destruct (parse_request_sound s) as (m & t & v & Hg & Hp); [congruence|].
    exists m, t, v. split; [exact Hg|]. rewrite Hp in H. unfold req_step in H. cbn [snd] in H.
    intros Hv. apply version_major_iff in Hv. rewrite Hv in H. discriminate.
  - intros (m & t & v & Hg & Hv). rewrite (parse_request_complete _ _ _ _ Hg). unfold req_step. cbn [snd].
    destruct (version_major_is_1 v) eqn:Ev; [|reflexivity]. apply version_major_iff in Ev. contradiction.
Qed.

Theorem parse_request_malformed_iff s :
  parse_request s = SlErr Malformed <-> ~ exists m t v, g_request_line s m t v.
Proof.
  split.
  - intros H (m & t & v & Hg). rewrite (parse_request_complete _ _ _ _ Hg) in H.
    unfold req_step in H. destruct (version_major_is_1 (snd (m, t, v))); discriminate.
  - intros Hn. destruct (parse_request s) as [x|[|]] eqn:E; [| reflexivity |];
      exfalso; apply Hn; destruct (parse_request_sound s) as (m & t & v & Hg & _); try congruence; eauto.
Qed.

(* ---------- exhaustive search = recogniser (request) ---------- *)
Lemma cuts_iff s a b : In (a, b) (cuts s) <-> s = a ++ SP :: b.
Proof.
  revert a b. induction s as [|c s IH]; intros a b; simpl.
  - split; [intros []|]. intros H. destruct a; discriminate.
  - rewrite in_app_iff, in_map_iff. split.
    + intros [H|[[a' b'] [Heq Hin]]].
      * destruct (c =? SP) eqn:E; [|destruct H]. apply N.eqb_eq in E. subst c.
        destruct H as [H|[]]. injection H as <- <-. reflexivity.
      * simpl in Heq. injection Heq as <- <-. apply IH in Hin. subst s. reflexivity.
    + intros H. destruct a as [|x a].
      * simpl in H. injection H as -> ->. left. rewrite N.eqb_refl. left. reflexivity.
      * simpl in H. injection H as <- ->. right. exists (a, b). split; [reflexivity|]. apply IH. reflexivity.
Qed.

Lemma cuts2_iff s m t v : In (m, t, v) (cuts2 s) <-> s = m ++ SP :: t ++ SP :: v.
Proof.
  unfold cuts2. rewrite in_flat_map. split.
  - intros [[a b] [Hab Hin]]. apply in_map_iff in Hin as [[c d] [Heq Hcd]].
    simpl in Heq. injection Heq as <- <- <-. apply cuts_iff in Hab. apply cuts_iff in Hcd.
    simpl in Hcd. subst b. exact Hab.
  - intros ->. exists (m, t ++ SP :: v). split; [apply cuts_iff; reflexivity|].
    apply in_map_iff. exists (t, v). split; [reflexivity|]. apply cuts_iff. reflexivity.
Qed.

Theorem spec_request_eq s : spec_request s = parse_request s.
Proof.
  unfold spec_request. destruct (find req_ok (cuts2 s)) as [[[m t] v]|] eqn:E.
  - apply find_some in E as [Hin Hok]. apply cuts2_iff in Hin. apply req_ok_iff in Hok as [Hm [Ht Hv]].
    assert (Hg : g_request_line s m t v) by (subst s; constructor; assumption).
    rewrite (parse_request_complete _ _ _ _ Hg). reflexivity.
  - symmetry. apply parse_request_malformed_iff. intros (m & t & v & Hg).
    assert (Hin : In (m, t, v) (cuts2 s)) by (apply cuts2_iff; destruct Hg; reflexivity).
    pose proof (find_none _ _ E _ Hin) as Hno.
    assert (Hok : req_ok (m, t, v) = true) by (destruct Hg; apply req_ok_iff; auto).
    congruence.
Qed.

(* ---------- status line ---------- *)
Lemma is_digit3_iff c : ((length c =? 3)%nat && forallb is_digit c) = true <-> g_status_code c.
Proof.
  split.
  - intros H. apply andb_true_iff in H as [Hl Hd]. apply Nat.eqb_eq in Hl.
    destruct c as [|a [|b [|c3 [|x r]]]]; try discriminate. simpl in Hd.
    rewrite !andb_true_iff in Hd. destruct Hd as (Ha & Hb & Hc & _).
    constructor; apply is_digit_iff; assumption.
  - intros [a b c3 Ha Hb Hc]. apply is_digit_iff in Ha, Hb, Hc. simpl. rewrite Ha, Hb, Hc. reflexivity.
Qed.

Lemma resp_ok_iff v c r :
  resp_ok (v, c, r) = true <-> g_http_version v /\ g_status_code c /\ star ReasonChar r.
Proof.
  unfold resp_ok. rewrite <- is_http_version_iff, <- is_digit3_iff, <- (forallb_star _ _ is_reason_char_iff).
  rewrite !andb_true_iff. tauto.
Qed.

Definition resp_step (x : str * str * str) : sl_result (str * N * option str) :=
  let '(v, c, r) := x in
  if version_major_is_1 v then SlOk (v, dec_value c, if is_nil r then None else Some r)
  else SlErr BadVersion.

Lemma firstn_app_exact {A} (a b : list A) : firstn (length a) (a ++ b) = a.
Proof. induction a; simpl; [destruct b; reflexivity|f_equal; auto]. Qed.
Lemma skipn_app_exact {A} (a b : list A) : skipn (length a) (a ++ b) = b.
Proof. induction a; simpl; auto. Qed.

Lemma parse_response_complete s v c r :
  g_status_line s v c r -> parse_response s = resp_step (v, c, r).
Proof.
  intros [v' c' r' Hv Hc Hr].
  assert (Hok : resp_ok (v', c', r') = true) by (apply resp_ok_iff; auto).
  pose proof (g_http_version_length _ Hv) as Hlen.
  unfold parse_response.
  replace 8%nat with (length v') by exact Hlen.
  rewrite firstn_app_exact, skipn_app_exact.
  destruct Hc as [a b c3 Ha Hb Hc]. cbn [app firstn skipn].
  unfold resp_ok in Hok. rewrite !andb_true_iff in Hok. destruct Hok as [[[H1 _] H3] H4].
  rewrite H1, N.eqb_refl, H3, H4. reflexivity.
Qed.

Lemma parse_response_sound s :
  parse_response s <> SlErr Malformed ->
  exists v c r, g_status_line s v c r /\ parse_response s = resp_step (v, c, r).
Proof.
  unfold parse_response. intros H.
  destruct (skipn 8 s) as [|sp1 r1] eqn:E1; [congruence|].
  destruct (skipn 3 r1) as [|sp2 reason] eqn:E2; [congruence|].
  destruct (is_http_version (firstn 8 s) && (sp1 =? SP) && forallb is_digit (firstn 3 r1) && (sp2 =? SP)
            && forallb is_reason_char reason) eqn:Eok; [|congruence].
  rewrite !andb_true_iff in Eok. destruct Eok as [[[[Hv Hs1] Hc] Hs2] Hr].
  apply N.eqb_eq in Hs1, Hs2. subst sp1 sp2.
  exists (firstn 8 s), (firstn 3 r1), reason.
  assert (Hs : s = firstn 8 s ++ SP :: firstn 3 r1 ++ SP :: reason).
  { rewrite <- E2, firstn_skipn, <- E1, firstn_skipn. reflexivity. }
  assert (Hl3 : length (firstn 3 r1) = 3%nat).
  { apply firstn_length_le. assert (length (skipn 3 r1) = length r1 - 3)%nat by apply skipn_length.
    rewrite E2 in H0. simpl in H0. lia. }
  split.
  - rewrite Hs at 1. constructor.
    + apply is_http_version_iff. exact Hv.
    + apply is_digit3_iff. rewrite Hl3, Hc. reflexivity.
    + apply (forallb_star _ _ is_reason_char_iff). exact Hr.
  - reflexivity.
Qed.

Lemma g_status_line_unique s v c r v' c' r' :
  g_status_line s v c r -> g_status_line s v' c' r' -> v = v' /\ c = c' /\ r = r'.
Proof.
  intros H H'.
  pose proof (parse_response_complete _ _ _ _ H) as E. pose proof (parse_response_complete _ _ _ _ H') as E'.
  destruct H as [v c r Hv Hc Hr]. inversion H' as [v2 c2 r2 Hv' Hc' Hr' Hs Hv2 Hc2 Hr2]. subst v2 c2 r2.
  pose proof (g_http_version_length _ Hv) as L. pose proof (g_http_version_length _ Hv') as L'.
  assert (Hvv : v' = v).
  { apply (f_equal (firstn 8)) in Hs. rewrite <- L' in Hs at 1. rewrite <- L in Hs. rewrite !firstn_app_exact in Hs. exact Hs. }
  subst v'. apply app_inv_head in Hs. injection Hs as Hs.
  destruct Hc as [a1 a2 a3 _ _ _]. destruct Hc' as [b1 b2 b3 _ _ _]. cbn in Hs.
  injection Hs as -> -> -> ->. auto.
Qed.

Theorem parse_response_ok_iff s v n ro :
  parse_response s = SlOk (v, n, ro) <->
  exists c r, g_status_line s v c r /\ major_is_1 v /\ n = dec_value c
              /\ ro = (if is_nil r then None else Some r).
Proof.
  split.
  - intros H. destruct (parse_response_sound s) as (v' & c & r & Hg & Hp); [congruence|].
    rewrite Hp in H. unfold resp_step in H. destruct (version_major_is_1 v') eqn:Ev; [|discriminate].
    injection H as <- <- <-. exists c, r. apply version_major_iff in Ev. auto.
  - intros (c & r & Hg & Hv & -> & ->). rewrite (parse_response_complete _ _ _ _ Hg). unfold resp_step.
    apply version_major_iff in Hv. rewrite Hv. reflexivity.
Qed.

Theorem parse_response_badversion_iff s :
  parse_response s = SlErr BadVersion <-> exists v c r, g_status_line s v c r /\ ~ major_is_1 v.
Proof.
  split.
  - intros H. destruct (parse_response_sound s) as (v & c & r & Hg & Hp); [congruence|].
    exists v, c, r. split; [exact Hg|]. rewrite Hp in H. unfold resp_step in H.
    intros Hv. apply version_major_iff in Hv. rewrite Hv in H. discriminate.
  - intros (v & c & r & Hg & Hv). rewrite (parse_response_complete _ _ _ _ Hg). unfold resp_step.
    destruct (version_major_is_1 v) eqn:Ev; [|reflexivity]. apply version_major_iff in Ev. contradiction.
Qed.

Theorem parse_response_malformed_iff s :
  parse_response s = SlErr Malformed <-> ~ exists v c r, g_status_line s v c r.
Proof.
  split.
  - intros H (v & c & r & Hg). rewrite (parse_response_complete _ _ _ _ Hg) in H.
    unfold resp_step in H. destruct (version_major_is_1 v); discriminate.
  - intros Hn. destruct (parse_response s) as [x|[|]] eqn:E; [| reflexivity |];
      exfalso; apply Hn; destruct (parse_response_sound s) as (v & c & r & Hg & _); try congruence; eauto.
Qed.

Theorem spec_response_eq s : spec_response s = parse_response s.
Proof.
  unfold spec_response. destruct (find resp_ok (cuts2 s)) as [[[v c] r]|] eqn:E.
  - apply find_some in E as [Hin Hok]. apply cuts2_iff in Hin. apply resp_ok_iff in Hok as [Hv [Hc Hr]].
    assert (Hg : g_status_line s v c r) by (subst s; constructor; assumption).
    rewrite (parse_response_complete _ _ _ _ Hg). reflexivity.
  - symmetry. apply parse_response_malformed_iff. intros (v & c & r & Hg).
    assert (Hin : In (v, c, r) (cuts2 s)) by (apply cuts2_iff; destruct Hg; reflexivity).
    pose proof (find_none _ _ E _ Hin) as Hno.
    assert (Hok : resp_ok (v, c, r) = true) by (destruct Hg; apply resp_ok_iff; auto).
    congruence.
Qed.
