(* C43 — HTTP utility parsers and formatters are total and mutually consistent.
   Property theorems only; proofs are in Proofs*.v.  Models: Model.v, Model2.v;
   grammar relations and checkers: Spec.v; correspondence entry points: Run.v. *)
From Coq Require Import List NArith ZArith Bool.
From TV Require Import Lib.Obs C43.Model C43.Model2 C43.Spec C43.Run
  C43.ProofsStart C43.ProofsEscape C43.ProofsHeader C43.ProofsTotal C43.ProofsUtf8 C43.ProofsUrl C43.ProofsDate C43.ProofsCheck.
Import ListNotations.
Local Open Scope N_scope.

(* ---- start lines: the recognisers accept exactly the RFC 9112 grammar ---- *)

(* parse_request_start_line returns (m, t, v) iff the line is  method SP request-target SP
   HTTP-version  with these three parts and the major version is 1 *)
Theorem C43_request_line_accepted_iff_grammar :
  forall s m t v, parse_request s = SlOk (m, t, v) <-> g_request_line s m t v /\ major_is_1 v.
Proof. exact parse_request_ok_iff. Qed.
Print Assumptions C43_request_line_accepted_iff_grammar.

(* ... raises "Malformed HTTP request line" iff the line is not in the grammar at all, and
   "Unexpected HTTP version" iff it is in the grammar with another major version *)
Theorem C43_request_line_rejected_iff_not_grammar :
  forall s, (parse_request s = SlErr Malformed <-> ~ exists m t v, g_request_line s m t v)
         /\ (parse_request s = SlErr BadVersion <-> exists m t v, g_request_line s m t v /\ ~ major_is_1 v).
Proof. intros s. split; [apply parse_request_malformed_iff|apply parse_request_badversion_iff]. Qed.
Print Assumptions C43_request_line_rejected_iff_not_grammar.

(* parse_response_start_line returns (v, code, reason) iff the line is  HTTP-version SP 3DIGIT SP
   [reason-phrase]; code is the value of the digits; an empty reason is None *)
Theorem C43_status_line_accepted_iff_grammar :
  forall s v n ro, parse_response s = SlOk (v, n, ro) <->
    exists c r, g_status_line s v c r /\ major_is_1 v /\ n = dec_value c
                /\ ro = (if is_nil r then None else Some r).
Proof. exact parse_response_ok_iff. Qed.
Print Assumptions C43_status_line_accepted_iff_grammar.

Theorem C43_status_line_rejected_iff_not_grammar :
  forall s, (parse_response s = SlErr Malformed <-> ~ exists v c r, g_status_line s v c r)
         /\ (parse_response s = SlErr BadVersion <-> exists v c r, g_status_line s v c r /\ ~ major_is_1 v).
Proof. intros s. split; [apply parse_response_malformed_iff|apply parse_response_badversion_iff]. Qed.
Print Assumptions C43_status_line_rejected_iff_not_grammar.

(* a line has at most one decomposition *)
Theorem C43_start_line_decomposition_unique :
  (forall s m t v m' t' v', g_request_line s m t v -> g_request_line s m' t' v' -> m = m' /\ t = t' /\ v = v')
  /\ (forall s v c r v' c' r', g_status_line s v c r -> g_status_line s v' c' r' -> v = v' /\ c = c' /\ r = r').
Proof. split; [exact g_request_line_unique|exact g_status_line_unique]. Qed.
Print Assumptions C43_start_line_decomposition_unique.

(* the exhaustive search over all cuts at a space (used by check_case on the implementation's
   output) coincides with the first-space recognisers *)
Theorem C43_search_formulation_equals_recognisers :
  forall s, spec_request s = parse_request s /\ spec_response s = parse_response s.
Proof. intros s. split; [apply spec_request_eq|apply spec_response_eq]. Qed.
Print Assumptions C43_search_formulation_equals_recognisers.

(* ---- re_unescape inverts re.escape (every string of code points) ---- *)
Theorem C43_re_unescape_inverts_re_escape : forall s, re_unescape (re_escape s) = Some s.
Proof. exact re_unescape_escape. Qed.
Print Assumptions C43_re_unescape_inverts_re_escape.

(* ---- header parameters round-trip ---- *)
(* for a token key and a dict with distinct lower-case token names (no '*') whose values are None
   or need no quoting (visible ASCII without DQUOTE ';' BACKSLASH, not <...>; possibly empty),
   _parse_header(_encode_header(k, d)) = (k, the valued items of d in key order) *)
Theorem C43_header_parameters_roundtrip :
  forall k ps, roundtrip_scope k ps = true ->
    parse_header (encode_header k ps) = PhOk k (expected_params ps).
Proof. exact parse_encode_roundtrip. Qed.
Print Assumptions C43_header_parameters_roundtrip.

(* every token is such a value: the property's "token-valued" parameters are covered *)
Theorem C43_token_values_are_in_roundtrip_scope :
  forall v, is_token v = true -> is_rt_value v = true.
Proof. exact token_is_rt_value. Qed.
Print Assumptions C43_token_values_are_in_roundtrip_scope.

(* ---- the never-raising parsers ---- *)
(* _parse_header: on every input the result is a (key, dict with distinct names) or the
   abstracted RFC 2231 extended outcome; parse_cookie: a dict with distinct names *)
Theorem C43_parse_header_and_cookie_total :
  forall s, ((exists k ps, parse_header s = PhOk k ps /\ NoDup (map fst ps)) \/ (exists k, parse_header s = PhExt k))
         /\ NoDup (map fst (parse_cookie s)).
Proof. intros s. split; [apply parse_header_result|apply parse_cookie_keys_distinct]. Qed.
Print Assumptions C43_parse_header_and_cookie_total.

(* _parseparam (the quoted-string scanner of commit 8596f7f) only cuts: for every line and
   every scanner state, re-joining the fields with ';' gives the text back *)
Theorem C43_parseparam_partitions_the_line :
  forall s inq esc cur,
    rev cur ++ s = join_with 59 (fst (split_params s inq esc cur) :: snd (split_params s inq esc cur)).
Proof. exact split_params_join. Qed.
Print Assumptions C43_parseparam_partitions_the_line.

(* split_host_and_port: a port is returned only for host ":" digits [newline] (non-empty
   newline-free host, 1..4300 Unicode decimal digits, their value); otherwise the netloc
   comes back whole; and every host ":" digits netloc is split *)
Theorem C43_split_host_and_port_total_and_exact :
  (forall s h,
     (forall n, split_host_and_port s = (h, Some n) ->
        exists p, (s = h ++ 58 :: p \/ s = h ++ 58 :: p ++ [10])
                  /\ h <> [] /\ ~ In 10 h /\ p <> [] /\ (length p <= 4300)%nat
                  /\ Forall (fun c => is_uni_digit c = true) p /\ uni_dec_value p = Some n)
     /\ (split_host_and_port s = (h, None) -> h = s))
  /\ (forall h p n, h <> [] -> ~ In 10 h -> p <> [] -> (length p <= 4300)%nat -> uni_dec_value p = Some n ->
        split_host_and_port (h ++ 58 :: p) = (h, Some n)).
Proof. split; [exact split_host_and_port_sound|exact split_host_and_port_complete]. Qed.
Print Assumptions C43_split_host_and_port_total_and_exact.

(* ---- UTF-8 and the query codec (all Unicode text) ---- *)
(* bytes.decode('utf-8', 'replace') inverts str.encode('utf-8'): no replacement character *)
Theorem C43_utf8_decode_inverts_encode :
  forall s bs, utf8_encode s = Some bs -> utf8_decode bs = s.
Proof. intros s bs H. apply (utf8_decode_encode s bs H). Qed.
Print Assumptions C43_utf8_decode_inverts_encode.

(* parse_qsl(urlencode(l), keep_blank_values=True) = l for every list of pairs that urlencode
   accepts, and urlencode raises (UnicodeEncodeError) exactly when a key or value contains a
   surrogate (or a value beyond U+10FFFF) *)
Theorem C43_urlencode_parse_qsl_roundtrip :
  (forall l q, urlencode l = Some q -> parse_qsl q = l)
  /\ (forall l, (exists q, urlencode l = Some q)
                <-> Forall (fun kv => Forall encodable_cp (fst kv) /\ Forall encodable_cp (snd kv)) l).
Proof. split; [exact parse_qsl_urlencode|exact urlencode_some_iff]. Qed.
Print Assumptions C43_urlencode_parse_qsl_roundtrip.

(* ---- url_concat (PARTIAL: simple head only; see NOTES.md) ---- *)
(* full statement wanted: for every URL accepted by urlparse and every argument list, the
   result has the same scheme/netloc/path/params and fragment and its query parses to the old
   pairs followed by the arguments.  Proved: exactly that for every URL whose part before
   '?'/'#' is a simple head (reproduced verbatim by urlparse/urlunparse: assumed, tied by the
   correspondence), with arbitrary Unicode query, fragment and arguments; the only other
   outcome is UnicodeEncodeError, exactly when some pair is not encodable. *)
Theorem C43_url_concat_preserves_and_appends_partial :
  forall u args, url_in_scope u = true ->
    (exists r, url_concat u args = UcOk r /\ url_encodable u args = true /\ url_result_ok u args r = true)
    \/ (url_concat u args = UcEncodeError /\ url_encodable u args = false).
Proof.
  intros u args H. destruct (url_in_scope_cases u args H) as [[r [Hr He]]|[Hr He]].
  - left. exists r. repeat split; [exact Hr|exact He|apply url_concat_ok; exact Hr].
  - right. split; assumption.
Qed.
Print Assumptions C43_url_concat_preserves_and_appends_partial.

(* ---- HTTP dates round-trip, every second of the years 0100..9999 ---- *)
Theorem C43_http_date_roundtrip :
  forall t, (date_rt_min <= t <= date_max)%Z ->
    exists f, format_timestamp t = Some f /\ parse_http_date f = Some t.
Proof. exact date_roundtrip. Qed.
Print Assumptions C43_http_date_roundtrip.

(* below year 100 the standard-library reader reinterprets the year (0001 -> 2001) *)
Theorem C43_http_date_roundtrip_below_year_100_refuted :
  exists t f, date_in_range t = true /\ format_timestamp t = Some f /\ parse_http_date f <> Some t.
Proof. exact date_small_year_witness. Qed.
Print Assumptions C43_http_date_roundtrip_below_year_100_refuted.

(* ---- is_valid_ip (PARTIAL: the classes named by the property) ---- *)
(* plain dotted quads / RFC 4291 text forms are accepted; empty strings, strings with NUL
   and host names are rejected *)
Theorem C43_is_valid_ip_on_named_classes_partial :
  forall s b, spec_ip s = Some b -> is_valid_ip s = Some b.
Proof. exact is_valid_ip_meets_spec. Qed.
Print Assumptions C43_is_valid_ip_on_named_classes_partial.

(* ---- the model satisfies the property checker applied to the implementation ---- *)
Theorem C43_model_satisfies_checker : forall i, check_case i (run_case i) = true.
Proof. exact check_case_model. Qed.
Print Assumptions C43_model_satisfies_checker.
