(* C43 — proofs, part 2: util.re_unescape inverts re.escape. *)
From Coq Require Import List NArith Bool Arith Lia.
From TV Require Import Lib.Obs C43.Model C43.Spec C43.ProofsStart.
Import ListNotations.
Local Open Scope N_scope.

Lemma re_special_not_alnum c : memN c re_special = true -> is_alnum c = false.
Proof.
  intros H. apply memN_iff in H. unfold re_special in H.
  repeat (destruct H as [<-|H]; [reflexivity|]). destruct H.
Qed.

Lemma not_special_not_backslash c : memN c re_special = false -> (c =? 92) = false.
Proof.
  intros H. destruct (c =? 92) eqn:E; [|reflexivity]. apply N.eqb_eq in E. subst c. discriminate.
Qed.

Theorem re_unescape_escape s : re_unescape (re_escape s) = Some s.
Proof.
  induction s as [|c s IH]; [reflexivity|].
  unfold re_escape. cbn [flat_map]. fold (re_escape s).
  destruct (memN c re_special) eqn:E.
  - cbn [app re_unescape]. rewrite N.eqb_refl, (re_special_not_alnum c E), IH. reflexivity.
  - cbn [app re_unescape]. rewrite (not_special_not_backslash c E), IH. reflexivity.
Qed.

(* re.escape never produces text that re_unescape rejects, and the escaped text is the
   only thing re_unescape needs: unescaping is also injective on escaped text *)
Corollary re_escape_injective s t : re_escape s = re_escape t -> s = t.
Proof.
  intros H. pose proof (re_unescape_escape s) as Hs. rewrite H, re_unescape_escape in Hs. congruence.
Qed.

(* text without a backslash is returned unchanged *)
Lemma re_unescape_no_backslash s : memN 92 s = false -> re_unescape s = Some s.
Proof.
  induction s as [|c s IH]; intros H; [reflexivity|].
  unfold memN in H. cbn [existsb] in H. apply orb_false_iff in H as [Hc Hs].
  cbn [re_unescape]. rewrite N.eqb_sym, Hc. fold (memN 92 s) in Hs. rewrite (IH Hs). reflexivity.
Qed.

(* the ValueError case: a backslash (at an escape position) followed by an ASCII alphanumeric *)
Lemma re_unescape_rejects p a r :
  is_alnum a = true -> re_unescape (re_escape p ++ 92 :: a :: r) = None.
Proof.
  intros Ha. induction p as [|c p IH].
  - cbn. rewrite Ha. reflexivity.
  - unfold re_escape. cbn [flat_map]. fold (re_escape p).
    destruct (memN c re_special) eqn:E.
    + cbn [app re_unescape]. rewrite N.eqb_refl, (re_special_not_alnum c E), IH. reflexivity.
    + cbn [app re_unescape]. rewrite (not_special_not_backslash c E), IH. reflexivity.
Qed.
