(* C43 — proofs, part 7: the model satisfies the property checker on every input,
   i.e. check_case (the property on observables) accepts run_case's observable. *)
From Coq Require Import List NArith ZArith Bool Arith Lia String.
From TV Require Import Lib.Obs C43.Model C43.Model2 C43.Spec C43.Run
  C43.ProofsStart C43.ProofsEscape C43.ProofsHeader C43.ProofsTotal C43.ProofsUtf8 C43.ProofsUrl C43.ProofsDate.
Import ListNotations.
Local Open Scope N_scope.

Lemma list_eqb_N_refl (l : list N) : list_eqb N.eqb l l = true.
Proof. induction l as [|x l IH]; [reflexivity|]. cbn. rewrite N.eqb_refl. exact IH. Qed.

Fixpoint obs_eqb_refl (o : obs) : obs_eqb o o = true.
Proof.
  destruct o as [|b|z|l|s|l]; cbn [obs_eqb].
  - reflexivity.
  - destruct b; reflexivity.
  - apply Z.eqb_refl.
  - apply list_eqb_N_refl.
  - apply String.eqb_refl.
  - induction l as [|a l IH]; [reflexivity|]. rewrite (obs_eqb_refl a). exact IH.
Qed.

(* ---------- is_valid_ip ---------- *)
Lemma host_name_shape_like s : host_name_shape s = true -> hostname_like s = true.
Proof.
  unfold host_name_shape, hostname_like. intros H. apply andb_true_iff in H as [Hall Hex].
  apply andb_true_iff. split.
  - unfold is_ascii_str. apply (forallb_impl (fun c => is_alnum c || memN c [45; 46])); [|exact Hall].
    intros c Hc. apply N.ltb_lt. unfold is_alnum, is_alpha, is_upper, is_lower, is_digit in Hc.
    rewrite !orb_true_iff, !in_range_iff, memN_iff in Hc. cbn [In] in Hc. lia.
  - apply negb_true_iff. apply existsb_exists in Hex as [c [Hin Hc]].
    destruct (forallb numeric_alphabet s) eqn:E; [|reflexivity].
    rewrite forallb_forall in E. specialize (E c Hin).
    rewrite !andb_true_iff, !negb_true_iff in Hc. destruct Hc as [[Ha Hh] Hx].
    unfold numeric_alphabet in E. rewrite Hh in E. cbn [orb] in E.
    unfold memN in E, Hx. cbn [existsb] in E, Hx. rewrite !orb_false_iff in Hx. destruct Hx as (H120 & H88 & _).
    rewrite H120, H88 in E. cbn [orb] in E.
    unfold is_alpha, is_upper, is_lower in Ha. rewrite orb_true_iff, !in_range_iff in Ha.
    rewrite !orb_true_iff, !N.eqb_eq in E. lia.
Qed.

Theorem is_valid_ip_meets_spec s b : spec_ip s = Some b -> is_valid_ip s = Some b.
Proof.
  unfold spec_ip, is_valid_ip. destruct (is_nil s || memN 0 s || negb (is_ascii_str s)); [auto|].
  destruct (plain_ipv4 s || plain_ipv6 s); [auto|].
  destruct (host_name_shape s) eqn:E; [|discriminate].
  rewrite (host_name_shape_like s E). auto.
Qed.

(* ---------- dates ---------- *)
Lemma format_some_in_range t f : format_timestamp t = Some f -> date_in_range t = true.
Proof. unfold format_timestamp. destruct (date_in_range t); [reflexivity|discriminate]. Qed.

Lemma format_none_out_of_range t : format_timestamp t = None -> date_in_range t = false.
Proof.
  unfold format_timestamp. destruct (date_in_range t); [|reflexivity].
  destruct (civil_of_days (t / 86400)) as [[y m] d]. discriminate.
Qed.

(* ---------- the model satisfies the checker ---------- *)
Theorem check_case_model : forall i, check_case i (run_case i) = true.
Proof.
  intros [s|s|s|s|s|k ps|s|s|u args|t|s]; cbn [check_case run_case].
  - rewrite spec_request_eq. apply obs_eqb_refl.
  - rewrite spec_response_eq. apply obs_eqb_refl.
  - reflexivity.
  - reflexivity.
  - destruct (parse_header s); reflexivity.
  - destruct (roundtrip_scope k ps) eqn:E.
    + rewrite (parse_encode_roundtrip k ps E). apply obs_eqb_refl.
    + destruct (parse_header (encode_header k ps)); reflexivity.
  - destruct (memN 92 s) eqn:E; [reflexivity|]. rewrite (re_unescape_no_backslash s E). apply obs_eqb_refl.
  - rewrite re_unescape_escape. apply obs_eqb_refl.
  - unfold check_url_concat. destruct (url_in_scope u) eqn:E; [|reflexivity].
    destruct (url_in_scope_cases u args E) as [[r [Hr He]]|[Hr He]]; rewrite Hr; cbn [uc_obs ob].
    + apply url_concat_ok. exact Hr.
    + rewrite He. reflexivity.
  - unfold date_obs. destruct (format_timestamp t) as [f|] eqn:Ef.
    + destruct (date_rt_min <=? t)%Z eqn:Et; [|reflexivity]. cbn [negb orb].
      apply Z.leb_le in Et. pose proof (format_some_in_range t f Ef) as Hr.
      unfold date_in_range in Hr. apply andb_true_iff in Hr as [_ Hmax]. apply Z.leb_le in Hmax.
      destruct (date_roundtrip t (conj Et Hmax)) as [f' [Hf' Hp]]. rewrite Ef in Hf'. injection Hf' as <-.
      rewrite Hp. apply obs_eqb_refl.
    + rewrite (format_none_out_of_range t Ef). reflexivity.
  - destruct (spec_ip s) as [b|] eqn:E; [|reflexivity]. rewrite (is_valid_ip_meets_spec s b E). apply obs_eqb_refl.
Qed.

(* ---------- instances showing the hypotheses of the theorems are satisfiable ---------- *)
Example request_line_example :     (* "GET / HTTP/1.1" *)
  g_request_line [71;69;84;32;47;32;72;84;84;80;47;49;46;49] [71;69;84] [47] [72;84;84;80;47;49;46;49]
  /\ major_is_1 [72;84;84;80;47;49;46;49].
Proof. apply parse_request_ok_iff. reflexivity. Qed.

Example status_line_example :      (* "HTTP/1.1 200 OK" *)
  exists c r, g_status_line [72;84;84;80;47;49;46;49;32;50;48;48;32;79;75] [72;84;84;80;47;49;46;49] c r
              /\ major_is_1 [72;84;84;80;47;49;46;49] /\ 200 = dec_value c /\ Some [79;75] = (if is_nil r then None else Some r).
Proof. apply parse_response_ok_iff. reflexivity. Qed.

Example date_range_example : (date_rt_min <= 1359312200 <= date_max)%Z.
Proof. unfold date_rt_min, date_max. lia. Qed.

Example url_scope_example :        (* url_concat("http://example.com/foo?a=b", [("c","d")]) is in scope *)
  url_in_scope [104;116;116;112;58;47;47;101;120;97;109;112;108;101;46;99;111;109;47;102;111;111;63;97;61;98] = true.
Proof. reflexivity. Qed.

Example spec_ip_examples :
  spec_ip [49;46;50;46;51;46;52] = Some true            (* 1.2.3.4 *)
  /\ spec_ip [58;58;49] = Some true                     (* ::1 *)
  /\ spec_ip [108;111;99;97;108;104;111;115;116] = Some false   (* localhost *)
  /\ spec_ip [] = Some false /\ spec_ip [49;0] = Some false.
Proof. repeat split; reflexivity. Qed.

(* the plain IPv6 class spans the text lengths 2..45: "::", the 39-character pure-hex form, and
   the uncompressed IPv4-embedded forms of 40..45 characters (seeded change C43_3) *)
Example spec_ip_ipv6_lengths :
  spec_ip [58;58] = Some true
  (* ffff:ffff:ffff:ffff:ffff:ffff:ffff:ffff (39) *)
  /\ spec_ip [102;102;102;102;58;102;102;102;102;58;102;102;102;102;58;102;102;102;102;58;102;102;102;102;58;102;102;102;102;58;102;102;102;102;58;102;102;102;102] = Some true
  (* 0000:0000:0000:0000:0000:ffff:10.2.3.4 (38), ...:192.168.100.200 (45) *)
  /\ spec_ip [48;48;48;48;58;48;48;48;48;58;48;48;48;48;58;48;48;48;48;58;48;48;48;48;58;102;102;102;102;58;49;48;46;50;46;51;46;52] = Some true
  /\ spec_ip [48;48;48;48;58;48;48;48;48;58;48;48;48;48;58;48;48;48;48;58;48;48;48;48;58;102;102;102;102;58;49;57;50;46;49;54;56;46;49;48;48;46;50;48;48] = Some true
  /\ List.length [48;48;48;48;58;48;48;48;48;58;48;48;48;48;58;48;48;48;48;58;48;48;48;48;58;102;102;102;102;58;49;57;50;46;49;54;56;46;49;48;48;46;50;48;48] = 45%nat
  (* ::ffff:255.255.255.255 *)
  /\ spec_ip [58;58;102;102;102;102;58;50;53;53;46;50;53;53;46;50;53;53;46;50;53;53] = Some true
  (* 46 characters: the 45-character address followed by z is rejected *)
  /\ spec_ip [48;48;48;48;58;48;48;48;48;58;48;48;48;48;58;48;48;48;48;58;48;48;48;48;58;102;102;102;102;58;49;57;50;46;49;54;56;46;49;48;48;46;50;48;48;122] = None
  /\ is_valid_ip [48;48;48;48;58;48;48;48;48;58;48;48;48;48;58;48;48;48;48;58;48;48;48;48;58;102;102;102;102;58;49;57;50;46;49;54;56;46;49;48;48;46;50;48;48;122] = Some false
  (* non-ASCII digits (fullwidth 1.2.3.4) are rejected *)
  /\ spec_ip [65297;46;65298;46;65299;46;65300] = Some false.
Proof. repeat split; reflexivity. Qed.

(* email.utils.parsedate reads the year 0001 as 2001: below year 100 the round trip fails *)
Lemma date_small_year_witness :
  exists t f, date_in_range t = true /\ format_timestamp t = Some f /\ parse_http_date f <> Some t.
Proof.
  exists (-62135596800)%Z. eexists. split; [reflexivity|]. split; [reflexivity|]. vm_compute. discriminate.
Qed.
