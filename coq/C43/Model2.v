(* C43 — models, part 2: url_concat, format_timestamp / HTTP-date reader, is_valid_ip.
   Definitions only. *)
From Coq Require Import List NArith ZArith Bool Arith.
From TV Require Import Lib.Obs C43.Model.
Import ListNotations.
Local Open Scope N_scope.

(* ------------------------------------------------------------------ *)
(* url_concat = urlunparse(urlparse(url) with query := urlencode(parse_qsl(query) + args)) *)
(* ------------------------------------------------------------------ *)
(* Scope of the model (everything else is UcOutOfModel, never produced by the generator):
   a "simple head" (the part before '?' / '#'), for which urlunparse(urlparse(head)) = head
   is ASSUMED (tied by the correspondence only): http(s)://host[:port][/path] or /path or
   empty, without ';'.  Query, fragment and arguments are arbitrary Unicode text: UTF-8
   encoding (strict; lone surrogates raise UnicodeEncodeError) and decoding with
   errors='replace' are modelled. *)
Inductive uc_result := UcOk (s : str) | UcEncodeError | UcOutOfModel.

Definition is_ascii_str (s : str) : bool := forallb (fun c => c <? 128) s.
Definition is_hex c := is_digit c || in_range 65 70 c || in_range 97 102 c.
Definition hex_val c := if is_digit c then c - 48 else if in_range 65 70 c then c - 55 else c - 87.
Definition hex_digit (n : N) : N := if n <? 10 then 48 + n else 55 + n.   (* upper case *)

(* ---- UTF-8 ---- *)
(* str.encode('utf-8') of one code point; None = UnicodeEncodeError (surrogate) *)
Definition utf8_encode_cp (c : N) : option (list N) :=
  if c <? 128 then Some [c]
  else if c <? 2048 then Some [192 + c / 64; 128 + c mod 64]
  else if c <? 65536 then
    if in_range 55296 57343 c then None
    else Some [224 + c / 4096; 128 + (c / 64) mod 64; 128 + c mod 64]
  else if c <? 1114112 then
    Some [240 + c / 262144; 128 + (c / 4096) mod 64; 128 + (c / 64) mod 64; 128 + c mod 64]
  else None.
Fixpoint utf8_encode (s : str) : option (list N) :=
  match s with
  | [] => Some []
  | c :: r => match utf8_encode_cp c, utf8_encode r with
              | Some a, Some b => Some (a ++ b)
              | _, _ => None
              end
  end.

Definition is_cont (b : N) : bool := in_range 128 191 b.
(* second byte of a 3- / 4-byte sequence: continuation, not overlong, not a surrogate / beyond U+10FFFF *)
Definition second_ok3 (b0 b1 : N) : bool :=
  is_cont b1 && (if b0 =? 224 then 160 <=? b1 else true) && (if b0 =? 237 then b1 <? 160 else true).
Definition second_ok4 (b0 b1 : N) : bool :=
  is_cont b1 && (if b0 =? 240 then 144 <=? b1 else true) && (if b0 =? 244 then b1 <? 144 else true).
Definition REPL : N := 65533.

(* bytes.decode('utf-8', 'replace') (CPython: one U+FFFD per maximal invalid prefix; a valid
   but truncated sequence at the end is replaced as a whole) *)
Fixpoint utf8_decode (bs : list N) : str :=
  match bs with
  | [] => []
  | b0 :: r =>
      if b0 <? 128 then b0 :: utf8_decode r
      else if in_range 194 223 b0 then
        match r with
        | [] => [REPL]
        | b1 :: r1 =>
            if is_cont b1 then ((b0 - 192) * 64 + (b1 - 128)) :: utf8_decode r1
            else REPL :: utf8_decode r
        end
      else if in_range 224 239 b0 then
        match r with
        | [] => [REPL]
        | b1 :: r1 =>
            if second_ok3 b0 b1 then
              match r1 with
              | [] => [REPL]
              | b2 :: r2 =>
                  if is_cont b2
                  then ((b0 - 224) * 4096 + (b1 - 128) * 64 + (b2 - 128)) :: utf8_decode r2
                  else REPL :: utf8_decode r1
              end
            else REPL :: utf8_decode r
        end
      else if in_range 240 244 b0 then
        match r with
        | [] => [REPL]
        | b1 :: r1 =>
            if second_ok4 b0 b1 then
              match r1 with
              | [] => [REPL]
              | b2 :: r2 =>
                  if is_cont b2 then
                    match r2 with
                    | [] => [REPL]
                    | b3 :: r3 =>
                        if is_cont b3
                        then ((b0 - 240) * 262144 + (b1 - 128) * 4096 + (b2 - 128) * 64 + (b3 - 128))
                             :: utf8_decode r3
                        else REPL :: utf8_decode r2
                    end
                  else REPL :: utf8_decode r1
              end
            else REPL :: utf8_decode r
        end
      else REPL :: utf8_decode r
  end.

(* urllib.parse._unquote_impl on an ASCII run: text -> bytes *)
Fixpoint pct_decode (s : str) : str :=
  match s with
  | [] => []
  | c :: r =>
      if c =? 37 then
        match r with
        | a :: r1 =>
            match r1 with
            | b :: t => if is_hex a && is_hex b then (16 * hex_val a + hex_val b) :: pct_decode t
                        else c :: pct_decode r
            | [] => c :: pct_decode r
            end
        | [] => [c]
        end
      else c :: pct_decode r
  end.

(* urllib.parse._generate_unquoted_parts: maximal ASCII runs are percent-decoded and then
   UTF-8-decoded (separately); non-ASCII characters are kept.  [run] is the current ASCII
   run, reversed. *)
Definition flush_run (run : str) : str := utf8_decode (pct_decode (rev run)).
Fixpoint unquote_runs (s : str) (run : str) : str :=
  match s with
  | [] => flush_run run
  | c :: r => if c <? 128 then unquote_runs r (c :: run)
              else flush_run run ++ c :: unquote_runs r []
  end.
(* urllib.parse.unquote(s, 'utf-8', 'replace') *)
Definition unquote (s : str) : str := if memN 37 s then unquote_runs s [] else s.
(* x.replace('+', ' ') then unquote(x) *)
Definition plus_to_sp (c : N) : N := if c =? 43 then 32 else c.
Definition unquote_plus (s : str) : str := unquote (map plus_to_sp s).

(* urllib.parse.parse_qsl(q, keep_blank_values=True) *)
Fixpoint qsl_fields (fs : list str) : list (str * str) :=
  match fs with
  | [] => []
  | f :: r =>
      if is_nil f then qsl_fields r
      else
        let '(n, v) := match split_first 61 f with Some (n, v) => (n, v) | None => (f, []) end in
        (unquote_plus n, unquote_plus v) :: qsl_fields r
  end.
Definition parse_qsl (q : str) : list (str * str) :=
  if is_nil q then [] else qsl_fields (split_all 38 q).

(* urllib.parse.quote_plus(s, safe='') : UTF-8 bytes, then per byte *)
Definition always_safe c := is_alnum c || memN c [95; 46; 45; 126].
Definition quote_plus_c (c : N) : str :=
  if always_safe c then [c]
  else if c =? 32 then [43]
  else [37; hex_digit (c / 16); hex_digit (c mod 16)].
Definition quote_plus (s : str) : option str :=
  match utf8_encode s with
  | Some bs => Some (flat_map quote_plus_c bs)
  | None => None
  end.

Fixpoint join_with (d : N) (parts : list str) : str :=
  match parts with
  | [] => []
  | [p] => p
  | p :: r => p ++ d :: join_with d r
  end.
Fixpoint enc_pairs (l : list (str * str)) : option (list str) :=
  match l with
  | [] => Some []
  | (k, v) :: r =>
      match quote_plus k, quote_plus v, enc_pairs r with
      | Some k', Some v', Some r' => Some ((k' ++ 61 :: v') :: r')
      | _, _, _ => None
      end
  end.
(* None = UnicodeEncodeError *)
Definition urlencode (l : list (str * str)) : option str :=
  match enc_pairs l with Some fs => Some (join_with 38 fs) | None => None end.

Fixpoint strip_prefix (p s : str) : option str :=
  match p, s with
  | [], _ => Some s
  | x :: p', y :: s' => if x =? y then strip_prefix p' s' else None
  | _ :: _, [] => None
  end.

Definition path_char c := is_alnum c || memN c [47;46;95;126;45;37;64;43;44;61;38;33;36;39;40;41;42].
Definition host_char c := is_lower c || is_digit c || memN c [46;45;58].
Definition simple_abs_rest (rest : str) : bool :=
  let host := take_while host_char rest in
  let path := drop_while host_char rest in
  nonempty host && (is_nil path || (first_is 47 path && forallb path_char path)).
Definition simple_head (h : str) : bool :=
  match strip_prefix [104;116;116;112;58;47;47] h with                 (* http:// *)
  | Some rest => simple_abs_rest rest
  | None =>
      match strip_prefix [104;116;116;112;115;58;47;47] h with         (* https:// *)
      | Some rest => simple_abs_rest rest
      | None => is_nil h || (first_is 47 h && negb (first_is 47 (tl h)) && forallb path_char h)
      end
  end.

(* urlsplit: lstrip C0 controls and space, delete TAB CR LF, cut the fragment at the first
   '#', then the query at the first '?' *)
Definition url_clean (u : str) : str :=
  filter (fun c => negb (memN c [9; 10; 13])) (drop_while (fun c => c <=? 32) u).
Definition url_parts (u : str) : str * str * str :=      (* head, query, fragment *)
  let u := url_clean u in
  let '(pre, frag) := match split_first 35 u with Some (a, b) => (a, b) | None => (u, []) end in
  let '(head, query) := match split_first 63 pre with Some (a, b) => (a, b) | None => (pre, []) end in
  (head, query, frag).

Definition url_unparts (head query frag : str) : str :=
  head ++ (if is_nil query then [] else 63 :: query) ++ (if is_nil frag then [] else 35 :: frag).

Definition url_concat (u : str) (args : list (str * str)) : uc_result :=
  let '(head, query, frag) := url_parts u in
  if simple_head head then
    match urlencode (parse_qsl query ++ args) with
    | Some q => UcOk (url_unparts head q frag)
    | None => UcEncodeError
    end
  else UcOutOfModel.

(* ------------------------------------------------------------------ *)
(* format_timestamp = email.utils.formatdate(t, usegmt=True); reader = timegm(parsedate(.)) *)
(* ------------------------------------------------------------------ *)
Local Open Scope Z_scope.

(* days since 1970-01-01 <-> proleptic Gregorian (year, month, day); floor division *)
Definition civil_of_days (z0 : Z) : Z * Z * Z :=
  let z := z0 + 719468 in
  let era := z / 146097 in
  let doe := z mod 146097 in
  let yoe := (doe - doe / 1460 + doe / 36524 - doe / 146096) / 365 in
  let doy := doe - (365 * yoe + yoe / 4 - yoe / 100) in
  let mp := (5 * doy + 2) / 153 in
  let d := doy - (153 * mp + 2) / 5 + 1 in
  let m := if mp <? 10 then mp + 3 else mp - 9 in
  let y := yoe + era * 400 in
  (if m <=? 2 then y + 1 else y, m, d).

Definition days_of_civil (y0 m d : Z) : Z :=
  let y := if m <=? 2 then y0 - 1 else y0 in
  let era := y / 400 in
  let yoe := y - era * 400 in
  let doy := (153 * (if 2 <? m then m - 3 else m + 9) + 2) / 5 + d - 1 in
  let doe := yoe * 365 + yoe / 4 - yoe / 100 + doy in
  era * 146097 + doe - 719468.

Definition zc (z : Z) : N := Z.to_N z.
Definition digit2 (n : Z) : str := [zc (48 + n / 10); zc (48 + n mod 10)].
Definition digit4 (n : Z) : str := digit2 (n / 100) ++ digit2 (n mod 100).

Definition day_names : list str :=
  [[77;111;110]; [84;117;101]; [87;101;100]; [84;104;117]; [70;114;105]; [83;97;116]; [83;117;110]]%N.
Definition day_name (wd : Z) : str :=       (* Monday = 0; [] outside 0..6 (unreachable) *)
  match wd with
  | Z0 => [77;111;110]%N
  | Zpos p => match nth_error day_names (Pos.to_nat p) with Some s => s | None => [] end
  | Zneg _ => []
  end.
Definition month_names : list str :=
  [[74;97;110]; [70;101;98]; [77;97;114]; [65;112;114]; [77;97;121]; [74;117;110];
   [74;117;108]; [65;117;103]; [83;101;112]; [79;99;116]; [78;111;118]; [68;101;99]]%N.
Definition month_name (m : Z) : str :=
  match m with
  | Zpos p => match nth_error month_names (Pos.to_nat p - 1) with Some s => s | None => [] end
  | _ => []
  end.
(* 1-based index of a month name *)
Fixpoint month_index_from (i : Z) (names : list str) (s : str) : option Z :=
  match names with
  | [] => None
  | n :: r => if str_eqb n s then Some i else month_index_from (i + 1) r s
  end.
Definition month_index (s : str) : option Z := month_index_from 1 month_names s.

(* datetime range: 0001-01-01T00:00:00 .. 9999-12-31T23:59:59 *)
Definition date_min : Z := -62135596800.
Definition date_max : Z := 253402300799.
Definition date_in_range (t : Z) : bool := (date_min <=? t) && (t <=? date_max).

Definition format_timestamp (t : Z) : option str :=
  if date_in_range t then
    let days := t / 86400 in
    let sod := t mod 86400 in
    let '(y, m, d) := civil_of_days days in
    Some (day_name ((days + 3) mod 7) ++ [44; 32]%N ++ digit2 d ++ [32%N] ++ month_name m ++ [32%N]
          ++ digit4 y ++ [32%N] ++ digit2 (sod / 3600) ++ [58%N] ++ digit2 ((sod / 60) mod 60)
          ++ [58%N] ++ digit2 (sod mod 60) ++ [32; 71; 77; 84]%N)
  else None.

Definition dval (c : N) : option Z := if is_digit c then Some (Z.of_N c - 48) else None.
Definition num2 (a b : N) : option Z :=
  match dval a, dval b with Some x, Some y => Some (10 * x + y) | _, _ => None end.
Definition num4 (a b c d : N) : option Z :=
  match num2 a b, num2 c d with Some x, Some y => Some (100 * x + y) | _, _ => None end.

(* reader of the fixed-width IMF-fixdate "Www, DD Mon YYYY HH:MM:SS GMT" (the day name is
   not interpreted, as in email.utils.parsedate), then calendar.timegm *)
Definition parse_http_date (s : str) : option Z :=
  match s with
  | [_; _; _; comma; sp1; d1; d2; sp2; m1; m2; m3; sp3; y1; y2; y3; y4; sp4;
     h1; h2; c1; i1; i2; c2; s1; s2; sp5; zg; zm; zt] =>
      if (comma =? 44)%N && (sp1 =? 32)%N && (sp2 =? 32)%N && (sp3 =? 32)%N && (sp4 =? 32)%N
         && (c1 =? 58)%N && (c2 =? 58)%N && (sp5 =? 32)%N && str_eqb [zg; zm; zt] [71; 77; 84]%N
      then
        match num2 d1 d2, month_index [m1; m2; m3], num4 y1 y2 y3 y4,
              num2 h1 h2, num2 i1 i2, num2 s1 s2 with
        | Some d, Some m, Some y0, Some hh, Some mi, Some ss =>
            (* email.utils._parsedate_tz: a year below 100 is read as 19yy (yy > 68) or 20yy *)
            let y := if y0 <? 100 then (if 68 <? y0 then y0 + 1900 else y0 + 2000) else y0 in
            Some (days_of_civil y m d * 86400 + hh * 3600 + mi * 60 + ss)
        | _, _, _, _, _, _ => None
        end
      else None
  | _ => None
  end.

(* ------------------------------------------------------------------ *)
(* is_valid_ip: decisive classes only (see NOTES.md); None = not modelled            *)
(* ------------------------------------------------------------------ *)
Local Open Scope N_scope.

(* decimal octet without leading zero: "0" | [1-9][0-9]{0,2} with value <= 255 *)
Definition plain_octet (p : str) : bool :=
  all_ne is_digit p && (length p <=? 3)%nat
  && (negb (first_is 48 p) || (length p =? 1)%nat) && (dec_value p <=? 255).
Definition plain_ipv4 (s : str) : bool :=
  let parts := split_all 46 s in
  (length parts =? 4)%nat && forallb plain_octet parts.

Definition hex_group (p : str) : bool := all_ne is_hex p && (length p <=? 4)%nat.
(* number of 16-bit groups described by a ':'-separated list whose last element may be a
   dotted quad; None if some element is ill-formed *)
Fixpoint groups_count (parts : list str) (allow_v4 : bool) : option nat :=
  match parts with
  | [] => Some 0%nat
  | [p] => if hex_group p then Some 1%nat
           else if allow_v4 && plain_ipv4 p then Some 2%nat else None
  | p :: r => if hex_group p
              then match groups_count r allow_v4 with Some n => Some (S n) | None => None end
              else None
  end.
Definition groups_of (s : str) (allow_v4 : bool) : option nat :=
  if is_nil s then Some 0%nat else groups_count (split_all 58 s) allow_v4.

(* first occurrence of "::" *)
Fixpoint split_dcolon (s : str) : option (str * str) :=
  match s with
  | [] => None
  | c :: r =>
      match r with
      | c2 :: t =>
          if (c =? 58) && (c2 =? 58) then Some ([], t)
          else match split_dcolon r with Some (a, b) => Some (c :: a, b) | None => None end
      | [] => None
      end
  end.

Definition plain_ipv6 (s : str) : bool :=
  match split_dcolon s with
  | Some (l, r) =>
      match groups_of l false, groups_of r true with
      | Some a, Some b => (a + b <=? 7)%nat
      | _, _ => false
      end
  | None =>
      match groups_of s true with
      | Some n => (n =? 8)%nat && nonempty s
      | None => false
      end
  end.

Definition numeric_alphabet c := is_hex c || memN c [120; 88; 46; 58; 37].   (* x X . : % *)
Definition hostname_like (s : str) : bool :=
  is_ascii_str s && negb (forallb numeric_alphabet s).

Definition is_valid_ip (s : str) : option bool :=
  (* `not ip or NUL in ip or not ip.isascii()` *)
  if is_nil s || memN 0 s || negb (is_ascii_str s) then Some false
  else if plain_ipv4 s || plain_ipv6 s then Some true
  else if hostname_like s then Some false
  else None.
