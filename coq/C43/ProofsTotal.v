(* C43 — proofs, part 4: the never-raising parsers.  The models have no error outcome
   (the two stdlib exceptions reachable from _parse_header / split_host_and_port are caught
   by the code and modelled as the fallback paths); beyond totality we prove what the
   results look like: the dicts have distinct keys and split_host_and_port only ever
   cuts the netloc at its last colon. *)
From Coq Require Import List NArith Bool Arith Lia.
From TV Require Import Lib.Obs C43.Model C43.Model2 C43.Spec C43.ProofsStart.
Import ListNotations.
Local Open Scope N_scope.

(* ---------- dict invariant ---------- *)
Lemma dict_set_keys_in {V} k (v : V) d : In k (map fst d) -> map fst (dict_set k v d) = map fst d.
Proof.
  induction d as [|[k' v'] d IH]; intros H; [destruct H|].
  cbn [dict_set]. destruct (str_eqb k k') eqn:E.
  - apply str_eqb_iff in E. subst. reflexivity.
  - cbn [map fst]. rewrite IH; [reflexivity|]. destruct H as [H|H]; [|exact H].
    cbn in H. subst. assert (str_eqb k k = true) by (apply str_eqb_iff; reflexivity). congruence.
Qed.

Lemma dict_set_keys_notin {V} k (v : V) d : ~ In k (map fst d) -> map fst (dict_set k v d) = map fst d ++ [k].
Proof.
  induction d as [|[k' v'] d IH]; intros H; [reflexivity|].
  cbn [dict_set]. destruct (str_eqb k k') eqn:E.
  - apply str_eqb_iff in E. subst. exfalso. apply H. left. reflexivity.
  - cbn [map fst app]. rewrite IH; [reflexivity|]. intros Hin. apply H. right. exact Hin.
Qed.

Lemma str_in_dec (k : str) l : {In k l} + {~ In k l}.
Proof. apply in_dec. apply list_eq_dec. apply N.eq_dec. Qed.

Lemma NoDup_snoc {A} (l : list A) x : NoDup l -> ~ In x l -> NoDup (l ++ [x]).
Proof.
  induction 1 as [|y l Hy Hl IH]; intros Hx; cbn.
  - constructor; [intros []|constructor].
  - constructor.
    + rewrite in_app_iff. intros [H|[H|[]]]; [contradiction|]. subst. apply Hx. left. reflexivity.
    + apply IH. intros H. apply Hx. right. exact H.
Qed.

Lemma dict_set_nodup {V} k (v : V) d : NoDup (map fst d) -> NoDup (map fst (dict_set k v d)).
Proof.
  intros H. destruct (str_in_dec k (map fst d)) as [Hin|Hn].
  - rewrite dict_set_keys_in by exact Hin. exact H.
  - rewrite dict_set_keys_notin by exact Hn. apply NoDup_snoc; assumption.
Qed.

Lemma fold_left_inv {A B} (P : A -> Prop) (f : A -> B -> A) l :
  (forall a x, P a -> P (f a x)) -> forall acc, P acc -> P (fold_left f l acc).
Proof. intros Hf. induction l as [|x l IH]; intros acc H; cbn; auto. Qed.

Lemma to_dict_keys_nodup l : NoDup (map fst (to_dict l)).
Proof.
  unfold to_dict. apply (fold_left_inv (fun d : list (str * str) => NoDup (map fst d))).
  - intros d nv H. apply dict_set_nodup. exact H.
  - constructor.
Qed.

(* ---------- parse_cookie ---------- *)
Theorem parse_cookie_keys_distinct s : NoDup (map fst (parse_cookie s)).
Proof.
  unfold parse_cookie. apply (fold_left_inv (fun d : list (str * str) => NoDup (map fst d))).
  - intros d chunk H. unfold cookie_step.
    destruct (match split_first 61 chunk with Some (k, v) => (k, v) | None => ([], chunk) end) as [k v].
    destruct (nonempty (strip k) || nonempty (strip v)); [apply dict_set_nodup|]; exact H.
  - constructor.
Qed.

(* ---------- _parse_header ---------- *)
Theorem parse_header_result s :
  (exists k ps, parse_header s = PhOk k ps /\ NoDup (map fst ps)) \/ (exists k, parse_header s = PhExt k).
Proof.
  unfold parse_header. destruct (split_params s false false []) as [k fields].
  destruct (decode_loop (raw_params fields) [] []) as [[plain groups]|].
  - destruct (existsb group_mixed groups).
    + left. eexists _, _. split; [reflexivity|apply to_dict_keys_nodup].
    + destruct (existsb (fun g => existsb seg_encoded (snd g)) groups).
      * right. eexists. reflexivity.
      * left. eexists _, _. split; [reflexivity|apply to_dict_keys_nodup].
  - left. eexists _, _. split; [reflexivity|apply to_dict_keys_nodup].
Qed.

(* ---------- _parseparam ---------- *)
(* _parseparam loses nothing: re-joining the fields with ';' gives the line back *)
Lemma split_params_join s : forall inq esc cur,
  rev cur ++ s = join_with 59 (fst (split_params s inq esc cur) :: snd (split_params s inq esc cur)).
Proof.
  induction s as [|c s IH]; intros inq esc cur.
  - cbn. apply app_nil_r.
  - assert (Hstep : forall i e, rev cur ++ c :: s
              = join_with 59 (fst (split_params s i e (c :: cur)) :: snd (split_params s i e (c :: cur)))).
    { intros i e. rewrite <- IH. cbn [rev]. rewrite <- app_assoc. reflexivity. }
    cbn [split_params]. destruct inq.
    + destruct esc; [apply Hstep|]. destruct (c =? 92); [apply Hstep|]. destruct (c =? 34); apply Hstep.
    + destruct (c =? 59) eqn:E.
      * apply N.eqb_eq in E. subst c. specialize (IH false false []). cbn [rev app] in IH.
        destruct (split_params s false false []) as [f fs]. cbn [fst snd] in *.
        change (join_with 59 (rev cur :: f :: fs)) with (rev cur ++ 59 :: join_with 59 (f :: fs)).
        rewrite <- IH. reflexivity.
      * destruct (c =? 34); apply Hstep.
Qed.


(* ---------- split_host_and_port ---------- *)
Lemma uni_dec_none_absorbs ds : fold_left (fun acc d => match acc, uni_digit_val d with
                          | Some a, Some v => Some (10 * a + v)
                          | _, _ => None
                          end) ds None = None.
Proof. induction ds as [|d ds IH]; [reflexivity|]. cbn. exact IH. Qed.

Lemma uni_dec_value_digits ds : forall acc n,
  fold_left (fun acc d => match acc, uni_digit_val d with
                          | Some a, Some v => Some (10 * a + v)
                          | _, _ => None
                          end) ds acc = Some n -> Forall (fun c => is_uni_digit c = true) ds.
Proof.
  induction ds as [|d ds IH]; intros acc n H; [constructor|].
  cbn [fold_left] in H. destruct acc as [a|]; [|rewrite uni_dec_none_absorbs in H; discriminate].
  unfold is_uni_digit. destruct (uni_digit_val d) as [v|] eqn:E.
  - constructor; [rewrite E; reflexivity|]. exact (IH _ _ H).
  - rewrite uni_dec_none_absorbs in H. discriminate.
Qed.

Lemma split_last_some d s h p :
  split_last d s = Some (h, p) -> s = h ++ d :: p /\ ~ In d p.
Proof.
  unfold split_last. destruct (split_first d (rev s)) as [[a b]|] eqn:E; [|discriminate].
  intros H. injection H as <- <-. apply split_first_some in E as [Hs Hn].
  split.
  - rewrite <- (rev_involutive s), Hs, rev_app_distr. cbn [rev]. rewrite <- app_assoc. reflexivity.
  - intros Hin. apply Hn. apply in_rev. exact Hin.
Qed.

(* whenever a port is returned, the netloc is host ":" digits (optionally followed by one
   newline), the host is non-empty and newline-free, the digits are Unicode decimal digits
   within int()'s limit and their value is the port; otherwise the netloc is returned whole *)
Theorem split_host_and_port_sound s h :
  (forall n, split_host_and_port s = (h, Some n) ->
     exists p, (s = h ++ 58 :: p \/ s = h ++ 58 :: p ++ [10])
               /\ h <> [] /\ ~ In 10 h /\ p <> [] /\ (length p <= 4300)%nat
               /\ Forall (fun c => is_uni_digit c = true) p /\ uni_dec_value p = Some n)
  /\ (split_host_and_port s = (h, None) -> h = s).
Proof.
  unfold split_host_and_port.
  set (body := match rev s with c :: r => if c =? 10 then rev r else s | [] => s end).
  assert (Hbody : s = body \/ s = body ++ [10]).
  { unfold body. destruct (rev s) as [|c r] eqn:E; [left; reflexivity|].
    destruct (c =? 10) eqn:Ec; [|left; reflexivity]. apply N.eqb_eq in Ec. subst c.
    right. rewrite <- (rev_involutive s), E. reflexivity. }
  clearbody body.
  destruct (split_last 58 body) as [[h' p]|] eqn:E.
  2:{ split; [intros n H; discriminate|intros H; injection H as <-; reflexivity]. }
  apply split_last_some in E as [Hb Hn58].
  destruct (nonempty h' && no_newline h' && nonempty p && (length p <=? int_max_str_digits)%nat) eqn:Ec.
  2:{ split; [intros n H; discriminate|intros H; injection H as <-; reflexivity]. }
  destruct (uni_dec_value p) as [n'|] eqn:Ev.
  2:{ split; [intros n H; discriminate|intros H; injection H as <-; reflexivity]. }
  split; [|intros H; discriminate].
  intros n H. injection H as <- <-. exists p.
  rewrite !andb_true_iff in Ec. destruct Ec as [[[Hh Hnl] Hp] Hlen].
  split.
  { destruct Hbody as [Hs|Hs]; rewrite Hs; [left; exact Hb|right]. rewrite Hb, <- app_assoc. reflexivity. }
  split; [intros ->; discriminate|]. split.
  { unfold no_newline in Hnl. rewrite forallb_forall in Hnl. intros Hin. specialize (Hnl _ Hin). discriminate. }
  split; [intros ->; discriminate|]. split; [apply Nat.leb_le in Hlen; exact Hlen|].
  split; [|exact Ev]. exact (uni_dec_value_digits p _ _ Ev).
Qed.

(* conversely every host ":" digits netloc is split there *)
Theorem split_host_and_port_complete h p n :
  h <> [] -> ~ In 10 h -> p <> [] -> (length p <= 4300)%nat -> uni_dec_value p = Some n ->
  split_host_and_port (h ++ 58 :: p) = (h, Some n).
Proof.
  intros Hh Hnl Hp Hlen Hv.
  pose proof (uni_dec_value_digits p _ _ Hv) as Hd. rewrite Forall_forall in Hd.
  assert (H58 : ~ In 58 p) by (intros Hin; specialize (Hd _ Hin); discriminate).
  assert (H10 : ~ In 10 p) by (intros Hin; specialize (Hd _ Hin); discriminate).
  unfold split_host_and_port.
  assert (Hrev : rev (h ++ 58 :: p) = rev p ++ 58 :: rev h).
  { rewrite rev_app_distr. cbn [rev]. rewrite <- app_assoc. reflexivity. }
  rewrite Hrev.
  destruct (rev p) as [|c r] eqn:Erp.
  { exfalso. apply Hp. rewrite <- (rev_involutive p), Erp. reflexivity. }
  cbn [app].
  assert (Hc : (c =? 10) = false).
  { apply N.eqb_neq. intros ->. apply H10. apply in_rev. rewrite Erp. left. reflexivity. }
  rewrite Hc. unfold split_last. rewrite Hrev.
  assert (Hs : split_first 58 ((c :: r) ++ 58 :: rev h) = Some (c :: r, rev h)).
  { apply split_first_some. split; [reflexivity|]. rewrite <- Erp. intros Hin. apply H58. apply in_rev. exact Hin. }
  rewrite Hs, rev_involutive, <- Erp, rev_involutive.
  assert (E1 : nonempty h = true) by (destruct h; [contradiction|reflexivity]).
  assert (E2 : no_newline h = true).
  { unfold no_newline. apply forallb_forall. intros x Hin. apply negb_true_iff, N.eqb_neq. intros ->. contradiction. }
  assert (E3 : nonempty p = true) by (destruct p; [contradiction|reflexivity]).
  assert (E4 : (length p <=? int_max_str_digits)%nat = true) by (apply Nat.leb_le; exact Hlen).
  rewrite E1, E2, E3, E4, Hv. reflexivity.
Qed.

Example split_host_and_port_example :
  split_host_and_port [104; 58; 56; 48] = ([104], Some 80)            (* "h:80" *)
  /\ split_host_and_port [104; 58; 1635; 1636] = ([104], Some 34)     (* Arabic-Indic digits *)
  /\ split_host_and_port [104; 58; 56; 48; 10] = ([104], Some 80)     (* '$' before a final newline *)
  /\ split_host_and_port [58; 56; 48] = ([58; 56; 48], None).
Proof. repeat split; reflexivity. Qed.
