(* C43 — proofs, part 5a: the UTF-8 decoder (errors='replace') inverts the strict encoder.
   The per-code-point conditions are checked by a 256 x 256 vm_compute sweep for the one- to
   three-byte code points and by arithmetic on the base-64 digits for the four-byte ones; the decoder equation is then obtained symbolically for
   an arbitrary continuation of the byte string. *)
From Coq Require Import List NArith Bool Arith Lia.
From TV Require Import Lib.Obs C43.Model C43.Model2 C43.ProofsStart C43.ProofsHeader.
Import ListNotations.
Local Open Scope N_scope.

Definition nrange (n : nat) : list N := map N.of_nat (seq 0 n).
Lemma nrange_in n c : c < N.of_nat n -> In c (nrange n).
Proof.
  intros H. unfold nrange. apply in_map_iff. exists (N.to_nat c). split; [apply N2Nat.id|].
  apply in_seq. lia.
Qed.
Lemma sweep (p : N -> bool) n : forallb p (nrange n) = true -> forall c, c < N.of_nat n -> p c = true.
Proof. intros H c Hc. rewrite forallb_forall in H. apply H. apply nrange_in. exact Hc. Qed.

Lemma sweep2 (p : N -> bool) :
  forallb (fun q => forallb (fun r => p (256 * q + r)) (nrange 256)) (nrange 256) = true ->
  forall c, c < 65536 -> p c = true.
Proof.
  intros H c Hc.
  pose proof (N.div_mod c 256 ltac:(lia)) as E2. pose proof (N.mod_lt c 256 ltac:(lia)) as B2.
  set (q := c / 256) in *. set (r := c mod 256) in *.
  assert (Hq : q < 256) by (unfold q; apply N.div_lt_upper_bound; lia).
  pose proof (sweep _ 256 H q Hq) as H2. cbv beta in H2.
  pose proof (sweep _ 256 H2 r B2) as H3. cbv beta in H3.
  replace c with (256 * q + r) by lia. exact H3.
Qed.

Definition lt256 (b : N) : bool := b <? 256.

(* what the decoder tests on the bytes produced by the encoder *)
Definition utf8_ok (c : N) : bool :=
  match utf8_encode_cp c with
  | None => true
  | Some [b0] => (b0 <? 128) && (b0 =? c)
  | Some [b0; b1] =>
      negb (b0 <? 128) && in_range 194 223 b0 && is_cont b1
      && ((b0 - 192) * 64 + (b1 - 128) =? c) && lt256 b0 && lt256 b1
  | Some [b0; b1; b2] =>
      negb (b0 <? 128) && negb (in_range 194 223 b0) && in_range 224 239 b0 && second_ok3 b0 b1 && is_cont b2
      && ((b0 - 224) * 4096 + (b1 - 128) * 64 + (b2 - 128) =? c) && lt256 b0 && lt256 b1 && lt256 b2
  | Some [b0; b1; b2; b3] =>
      negb (b0 <? 128) && negb (in_range 194 223 b0) && negb (in_range 224 239 b0) && in_range 240 244 b0
      && second_ok4 b0 b1 && is_cont b2 && is_cont b3
      && ((b0 - 240) * 262144 + (b1 - 128) * 4096 + (b2 - 128) * 64 + (b3 - 128) =? c)
      && lt256 b0 && lt256 b1 && lt256 b2 && lt256 b3
  | Some _ => false
  end.

(* one-, two- and three-byte code points: swept *)
Lemma utf8_ok_sweep :
  forallb (fun q => forallb (fun r => utf8_ok (256 * q + r)) (nrange 256)) (nrange 256) = true.
Proof. vm_compute. reflexivity. Qed.

(* four-byte code points: by arithmetic on the base-64 digits *)
Lemma utf8_ok_4 c : 65536 <= c < 1114112 -> utf8_ok c = true.
Proof.
  intros H. unfold utf8_ok, utf8_encode_cp.
  rewrite (proj2 (N.ltb_ge c 128)), (proj2 (N.ltb_ge c 2048)), (proj2 (N.ltb_ge c 65536)), (proj2 (N.ltb_lt c 1114112)) by lia.
  pose proof (N.div_mod c 262144 ltac:(lia)) as E0. pose proof (N.mod_lt c 262144 ltac:(lia)) as B0.
  pose proof (N.div_mod c 4096 ltac:(lia)) as E1. pose proof (N.mod_lt c 4096 ltac:(lia)) as B1.
  pose proof (N.div_mod (c / 4096) 64 ltac:(lia)) as E1'. pose proof (N.mod_lt (c / 4096) 64 ltac:(lia)) as B1'.
  pose proof (N.div_mod c 64 ltac:(lia)) as E2. pose proof (N.mod_lt c 64 ltac:(lia)) as B2.
  pose proof (N.div_mod (c / 64) 64 ltac:(lia)) as E2'. pose proof (N.mod_lt (c / 64) 64 ltac:(lia)) as B2'.
  assert (D1 : c / 4096 / 64 = c / 262144) by (rewrite N.div_div by lia; reflexivity).
  assert (D2 : c / 64 / 64 = c / 4096) by (rewrite N.div_div by lia; reflexivity).
  set (d0 := c / 262144) in *. set (q1 := c / 4096) in *. set (d1 := q1 mod 64) in *.
  set (q2 := c / 64) in *. set (d2 := q2 mod 64) in *. set (d3 := c mod 64) in *.
  assert (Hd0 : d0 <= 4) by lia.
  assert (H240 : d0 = 0 -> 16 <= d1) by lia.
  assert (H244 : d0 = 4 -> d1 < 16) by lia.
  assert (Hval : (240 + d0 - 240) * 262144 + (128 + d1 - 128) * 4096 + (128 + d2 - 128) * 64 + (128 + d3 - 128) = c) by lia.
  unfold lt256.
  rewrite (proj2 (N.ltb_ge (240 + d0) 128)) by lia. cbn [negb andb].
  rewrite !in_range_false by lia. cbn [negb andb].
  rewrite (proj2 (in_range_iff 240 244 (240 + d0))) by lia. cbn [andb].
  assert (Hs : second_ok4 (240 + d0) (128 + d1) = true).
  { unfold second_ok4, is_cont. rewrite (proj2 (in_range_iff 128 191 (128 + d1))) by lia. cbn [andb].
    destruct (240 + d0 =? 240) eqn:Ea; [apply N.eqb_eq in Ea; rewrite (proj2 (N.leb_le 144 (128 + d1))) by lia|];
    (destruct (240 + d0 =? 244) eqn:Eb; [apply N.eqb_eq in Eb; rewrite (proj2 (N.ltb_lt (128 + d1) 144)) by lia|]); reflexivity. }
  rewrite Hs. unfold is_cont. rewrite !(proj2 (in_range_iff 128 191 _)) by lia. cbn [andb].
  rewrite Hval, N.eqb_refl. cbn [andb].
  rewrite !(proj2 (N.ltb_lt _ 256)) by lia. reflexivity.
Qed.

Lemma utf8_ok_all c : c < 1114112 -> utf8_ok c = true.
Proof.
  intros H. destruct (N.lt_ge_cases c 65536) as [Hlt|Hge].
  - exact (sweep2 utf8_ok utf8_ok_sweep c Hlt).
  - apply utf8_ok_4. lia.
Qed.

Lemma utf8_encode_cp_range c bs : utf8_encode_cp c = Some bs -> c < 1114112.
Proof.
  unfold utf8_encode_cp. intros H.
  destruct (c <? 128) eqn:E1; [apply N.ltb_lt in E1; lia|].
  destruct (c <? 2048) eqn:E2; [apply N.ltb_lt in E2; lia|].
  destruct (c <? 65536) eqn:E3; [apply N.ltb_lt in E3; lia|].
  destruct (c <? 1114112) eqn:E4; [apply N.ltb_lt in E4; lia|discriminate].
Qed.

Lemma utf8_decode_enc_cp c bs : utf8_encode_cp c = Some bs ->
  (forall rest, utf8_decode (bs ++ rest) = c :: utf8_decode rest) /\ Forall (fun b => b < 256) bs.
Proof.
  intros H. pose proof (utf8_ok_all c (utf8_encode_cp_range c bs H)) as Hok.
  unfold utf8_ok in Hok. rewrite H in Hok. unfold lt256 in Hok.
  destruct bs as [|b0 [|b1 [|b2 [|b3 [|b4 bs]]]]]; try discriminate.
  - apply andb_true_iff in Hok as [H0 Hv]. apply N.eqb_eq in Hv. split.
    + intros rest. cbn [app utf8_decode]. rewrite H0, Hv. reflexivity.
    + apply N.ltb_lt in H0. repeat constructor. lia.
  - rewrite !andb_true_iff, negb_true_iff in Hok. destruct Hok as [[[[[H0 H1] H2] Hv] L0] L1].
    apply N.eqb_eq in Hv. split.
    + intros rest. cbn [app utf8_decode]. rewrite H0, H1, H2, Hv. reflexivity.
    + apply N.ltb_lt in L0, L1. repeat constructor; assumption.
  - rewrite !andb_true_iff, !negb_true_iff in Hok. destruct Hok as [[[[[[[[H0 H1] H2] H3] H4] Hv] L0] L1] L2].
    apply N.eqb_eq in Hv. split.
    + intros rest. cbn [app utf8_decode]. rewrite H0, H1, H2, H3, H4, Hv. reflexivity.
    + apply N.ltb_lt in L0, L1, L2. repeat constructor; assumption.
  - rewrite !andb_true_iff, !negb_true_iff in Hok.
    destruct Hok as [[[[[[[[[[[H0 H1] H2] H3] H4] H5] H6] Hv] L0] L1] L2] L3].
    apply N.eqb_eq in Hv. split.
    + intros rest. cbn [app utf8_decode]. rewrite H0, H1, H2, H3, H4, H5, H6, Hv. reflexivity.
    + apply N.ltb_lt in L0, L1, L2, L3. repeat constructor; assumption.
Qed.

(* decoding (with replacement) inverts strict encoding: no replacement character appears *)
Theorem utf8_decode_encode s bs : utf8_encode s = Some bs ->
  utf8_decode bs = s /\ Forall (fun b => b < 256) bs.
Proof.
  revert bs. induction s as [|c s IH]; intros bs H; cbn [utf8_encode] in H.
  - injection H as <-. split; [reflexivity|constructor].
  - destruct (utf8_encode_cp c) as [a|] eqn:Ec; [|discriminate].
    destruct (utf8_encode s) as [b|] eqn:Es; [|discriminate]. injection H as <-.
    destruct (utf8_decode_enc_cp c a Ec) as [Hd Hl]. destruct (IH b eq_refl) as [IH1 IH2].
    split; [rewrite Hd, IH1; reflexivity|apply Forall_app; split; assumption].
Qed.

Lemma utf8_decode_ascii x : Forall (fun c => c < 128) x -> utf8_decode x = x.
Proof.
  induction 1 as [|c x Hc Hx IH]; [reflexivity|]. cbn [utf8_decode].
  rewrite (proj2 (N.ltb_lt c 128) Hc), IH. reflexivity.
Qed.

(* encoding fails exactly on surrogates and on values beyond U+10FFFF *)
Lemma utf8_encode_cp_none c : utf8_encode_cp c = None <-> (55296 <= c <= 57343 \/ 1114112 <= c).
Proof.
  unfold utf8_encode_cp.
  destruct (c <? 128) eqn:E1; [apply N.ltb_lt in E1; split; [discriminate|lia]|]. apply N.ltb_ge in E1.
  destruct (c <? 2048) eqn:E2; [apply N.ltb_lt in E2; split; [discriminate|lia]|]. apply N.ltb_ge in E2.
  destruct (c <? 65536) eqn:E3.
  - apply N.ltb_lt in E3. destruct (in_range 55296 57343 c) eqn:E.
    + apply in_range_iff in E. split; [intros _; left; exact E|reflexivity].
    + split; [discriminate|]. intros [Hs|Hb]; [|lia]. apply in_range_iff in Hs. congruence.
  - apply N.ltb_ge in E3. destruct (c <? 1114112) eqn:E4.
    + apply N.ltb_lt in E4. split; [discriminate|lia].
    + apply N.ltb_ge in E4. split; [intros _; right; exact E4|reflexivity].
Qed.
