(* C11/C13 — the theorems about whole runs, derived from Inv / LInv. *)
From Coq Require Import List NArith Arith Bool Lia.
Import ListNotations.
From TV Require Import C11.Model C11.Proofs1 C11.Proofs2 C11.Ledger C11.Proofs3 C11.Proofs4 C11.Frame.

Section Runs.
Variables (c m : nat) (mw : option nat) (p : list op).
Hypothesis Hok : run_ok (init c m mw) p.
Let s := run (init c m mw) p.

Lemma run_inv : Inv s. Proof. apply reachable_spec; exact Hok. Qed.
Lemma run_linv : LInv (led_of s). Proof. apply reachable_spec; exact Hok. Qed.

(* conservation: results so far ++ buffered ++ still in the transport = everything that arrived *)
Lemma conservation : consumed (log s) ++ lrb s ++ qdata (inq s) = stream_of p.
Proof.
  pose proof run_inv as I.
  rewrite app_assoc, (i_cons s I), (i_q s I). unfold s. rewrite run_arrived. reflexivity.
Qed.

Lemma consumed_split : forall l1 e l2, consumed (l1 ++ e :: l2) = consumed l1 ++ consumed [e] ++ consumed l2.
Proof. intros. rewrite consumed_app. change (e :: l2) with ([e] ++ l2). rewrite consumed_app. reflexivity. Qed.

(* each result is the next slice of the stream *)
Lemma result_slices : forall l1 f o l2, log s = l1 ++ EvDone f o :: l2 ->
  exists rest, stream_of p = consumed l1 ++ out_data o ++ rest.
Proof.
  intros l1 f o l2 H. pose proof conservation as C. rewrite H, consumed_split in C. cbn in C.
  rewrite app_nil_r in C. eexists. rewrite <- C, <- !app_assoc. reflexivity.
Qed.

Lemma contracts : forall f o r, In (EvDone f o) (log s) -> In (f, r) (reqs s) -> contract r o.
Proof. intros. eapply (i_log s run_inv); eauto. Qed.

Lemma settled_at_most_once : NoDup (done_fids (log s)).
Proof. apply (li_donenodup _ run_linv). Qed.

Lemma no_future_lost : forall f, f < next_fid s ->
  done_in (log s) f = true \/ In f (opt (rd_future s) ++ map snd (w_futs s) ++ opt (conn_future s)).
Proof. intros f H. apply (li_tracked _ run_linv f H). Qed.

Lemma pending_not_settled : forall f,
  In f (opt (rd_future s) ++ map snd (w_futs s) ++ opt (conn_future s)) -> done_in (log s) f = false.
Proof. intros f H. apply (li_pending _ run_linv f H). Qed.

Lemma no_assertion_failure : bad s = false.
Proof. apply (i_bad s run_inv). Qed.
End Runs.

(* ---------- the request of a returned future is the recorded one ---------- *)
Fixpoint rets (s : st) (p : list op) : list ret :=
  match p with [] => [] | o :: p' => snd (step s o) :: rets (fst (step s o)) p' end.

Lemma step_reqs_mono : forall o s x, In x (reqs s) -> In x (reqs (fst (step s o))).
Proof.
  intros o s x H. destruct o; cbn [step].
  - destruct (do_read_reqs r s) as [_ B]. destruct (snd (do_read r s)).
    + destruct B as [B|B]; rewrite B; auto. apply in_or_app; auto.
    + destruct B as [B _]. rewrite B. apply in_or_app; auto.
    + destruct B as [B|B]; rewrite B; auto. apply in_or_app; auto.
  - destruct (same_do_write data s) as [_ B]. rewrite B. exact H.
  - destruct (same_do_connect fail s) as [_ B]. rewrite B. exact H.
  - cbn [fst]. destruct (maybe_ael_eq (w_close_cb true s)) as [y ->]. exact H.
  - cbn [fst]. destruct (same_close (if exc then Some EOSErr else None) s) as [_ B]. rewrite B. exact H.
  - exact H.
  - exact H.
  - destruct (io_state s) as [[lr lw]|]; [|exact H].
    destruct (closed s); [exact H|].
    destruct (r && lr || w && lw || e); [|exact H].
    destruct (same_handle_events (r && lr) (w && lw) e soerr fderr s) as [_ B]. rewrite B. exact H.
  - cbn [fst]. destruct (same_fold_run_cb (cbq s) (w_cbq [] s)) as [_ B]. rewrite B. exact H.
Qed.

Lemma run_reqs_mono : forall p s x, In x (reqs s) -> In x (reqs (run s p)).
Proof. induction p as [|o p IH]; intros s x H; cbn; auto. apply IH, step_reqs_mono, H. Qed.

Lemma request_recorded : forall p s i r f,
  nth_error p i = Some (ORead r) -> nth_error (rets s p) i = Some (RetFut f) ->
  In (f, r) (reqs (run s p)).
Proof.
  induction p as [|o p IH]; intros s i r f Hp Hr; destruct i as [|i]; cbn in *; try discriminate.
  - inversion Hp; subst o. inversion Hr as [Hr']. cbn [step] in *.
    apply run_reqs_mono. destruct (do_read_reqs r s) as [_ B]. rewrite Hr' in B.
    destruct B as [B _]. rewrite B. apply in_or_app. right. left. reflexivity.
  - eapply IH; eauto.
Qed.

(* ---------- max_bytes: when the limit is exceeded the read is unsatisfiable, and that closes ---------- *)
Lemma closed_after_close : forall e s, closed (close e s) = true.
Proof.
  intros e s. unfold close, signal_closed. cbn.
  match goal with |- closed (if close_cb ?x then _ else _) = true =>
    assert (H : closed x = true); [|destruct (close_cb x); cbn; exact H] end.
  match goal with |- closed (fold_left settle_closed ?l ?x) = true =>
    assert (Hx : closed x = true); [|revert Hx; generalize x; generalize l] end.
  - cbn. destruct (closed s) eqn:E.
    + destruct (rd_future s); cbn; [destruct (user s); cbn|]; exact E.
    + cbn. match goal with |- closed (match ?o with Some _ => _ | None => _ end) = true => destruct o end;
        cbn; [match goal with |- context[if ?u then _ else _] => destruct u end|]; reflexivity.
  - intros l. induction l as [|f l IH]; intros x Hx; cbn; auto.
    apply IH. unfold settle_closed. destruct (done_in (log x) f); exact Hx.
Qed.

Lemma unsat_when_over_max : forall s d m,
  rd_bytes s = None -> rd_delim s = Some d -> rd_max s = Some m -> rb s <> [] ->
  find_read_pos s = FUnsat <->
  match find d (rb s) with Some loc => m < loc + length d | None => m < rbs s end.
Proof.
  intros s d m H1 H2 H3 H4. unfold find_read_pos, frp_rest, frp_scan, over_max. rewrite H1, H2, H3.
  destruct (rb s) eqn:E; [congruence|]. rewrite <- E.
  destruct (find d (rb s)) as [loc|]; cbn [option_map].
  - destruct (m <? loc + length d) eqn:El; [apply Nat.ltb_lt in El|apply Nat.ltb_ge in El];
      split; intros; try discriminate; try lia; auto.
  - destruct (m <? rbs s) eqn:El; [apply Nat.ltb_lt in El|apply Nat.ltb_ge in El];
      split; intros; try discriminate; try lia; auto.
Qed.

Lemma unsat_read_closes : forall f s, closed (fst (finish_call true f (s, Some XUnsat))) = true.
Proof. intros. cbn [finish_call fst]. apply closed_after_close. Qed.

(* ---------- statements about the i-th operation of a program ---------- *)
Theorem read_contracts : forall c m mw p i r f o, run_ok (init c m mw) p ->
  nth_error p i = Some (ORead r) -> nth_error (rets (init c m mw) p) i = Some (RetFut f) ->
  In (EvDone f o) (log (run (init c m mw) p)) -> contract r o.
Proof.
  intros c m mw p i r f o Hok Hp Hr Hl.
  eapply contracts; eauto. eapply request_recorded; eauto.
Qed.

Theorem max_bytes_respected : forall c m mw p i f d mx x, run_ok (init c m mw) p ->
  (nth_error p i = Some (ORead (RUntil x (Some mx))) \/ exists q, nth_error p i = Some (ORead (RRegex q (Some mx)))) ->
  nth_error (rets (init c m mw) p) i = Some (RetFut f) ->
  In (EvDone f (OData d)) (log (run (init c m mw) p)) -> length d <= mx.
Proof.
  intros c m mw p i f d mx x Hok [Hp|[q Hp]] Hr Hl;
    pose proof (read_contracts c m mw p i _ f _ Hok Hp Hr Hl) as C; cbn in C.
  - destruct C as (_ & _ & C). apply C. reflexivity.
  - destruct C as (_ & C). apply C. reflexivity.
Qed.

(* a complete fixed-size read returns exactly the next n bytes of the stream, whatever the arrival pattern *)
Theorem fixed_size_result_is_determined : forall c m mw p i n f l1 d l2, run_ok (init c m mw) p ->
  nth_error p i = Some (ORead (RBytes n false)) ->
  nth_error (rets (init c m mw) p) i = Some (RetFut f) ->
  log (run (init c m mw) p) = l1 ++ EvDone f (OData d) :: l2 ->
  d = firstn n (skipn (length (consumed l1)) (stream_of p)).
Proof.
  intros c m mw p i n f l1 d l2 Hok Hp Hr Hl.
  assert (Hin : In (EvDone f (OData d)) (log (run (init c m mw) p)))
    by (rewrite Hl; apply in_or_app; right; left; reflexivity).
  pose proof (read_contracts c m mw p i _ f _ Hok Hp Hr Hin) as C. cbn in C.
  destruct (result_slices c m mw p Hok l1 f (OData d) l2 Hl) as [rest Hs]. cbn in Hs.
  rewrite Hs, skipn_app, skipn_all, Nat.sub_diag. cbn.
  rewrite firstn_app, <- C, firstn_all, Nat.sub_diag. cbn. rewrite app_nil_r. reflexivity.
Qed.

Theorem into_result_is_determined : forall c m mw p i n f l1 k d l2, run_ok (init c m mw) p ->
  nth_error p i = Some (ORead (RInto n false)) ->
  nth_error (rets (init c m mw) p) i = Some (RetFut f) ->
  log (run (init c m mw) p) = l1 ++ EvDone f (OInto k d) :: l2 ->
  k = n /\ d = firstn n (skipn (length (consumed l1)) (stream_of p)).
Proof.
  intros c m mw p i n f l1 k d l2 Hok Hp Hr Hl.
  assert (Hin : In (EvDone f (OInto k d)) (log (run (init c m mw) p)))
    by (rewrite Hl; apply in_or_app; right; left; reflexivity).
  pose proof (read_contracts c m mw p i _ f _ Hok Hp Hr Hin) as C. cbn in C. destruct C as [C1 C2].
  split; auto.
  destruct (result_slices c m mw p Hok l1 f (OInto k d) l2 Hl) as [rest Hs]. cbn in Hs.
  rewrite Hs, skipn_app, skipn_all, Nat.sub_diag. cbn.
  rewrite firstn_app, <- C2, firstn_all, Nat.sub_diag. cbn. rewrite app_nil_r. reflexivity.
Qed.

(* ---------- read_until: the result is determined by the stream alone ---------- *)
Lemma prefixb_app_true : forall d s t, prefixb d s = true -> prefixb d (s ++ t) = true.
Proof.
  induction d as [|a d IH]; intros s t H; cbn in *; auto.
  destruct s as [|b s]; [discriminate|]. cbn. apply andb_true_iff in H as [H1 H2].
  rewrite H1. cbn. apply IH, H2.
Qed.

Lemma prefixb_app_false : forall d s t, prefixb d s = false -> length d <= length s -> prefixb d (s ++ t) = false.
Proof.
  induction d as [|a d IH]; intros s t H Hl; cbn in *; [discriminate|].
  destruct s as [|b s]; [cbn in Hl; lia|]. cbn in *.
  destruct (N.eqb a b); cbn in *; auto. apply IH; [exact H|lia].
Qed.

Lemma find_app_l : forall d s t loc, find d s = Some loc -> find d (s ++ t) = Some loc.
Proof.
  intros d s; induction s as [|b s IH]; intros t loc H.
  - cbn in H. destruct (prefixb d []) eqn:E; [|discriminate]. inversion H; subst.
    destruct d; [|discriminate]. destruct t; reflexivity.
  - cbn [find] in H. destruct (prefixb d (b :: s)) eqn:E.
    + inversion H; subst. cbn [app find]. change (b :: s ++ t) with ((b :: s) ++ t).
      rewrite (prefixb_app_true _ _ t E). reflexivity.
    + destruct (find d s) as [k|] eqn:F; cbn in H; [|discriminate]. inversion H; subst.
      pose proof (find_bound _ _ _ F) as Hb.
      cbn [app find]. change (b :: s ++ t) with ((b :: s) ++ t).
      rewrite (prefixb_app_false _ _ t E) by (cbn; lia).
      rewrite (IH t k eq_refl). reflexivity.
Qed.

Theorem until_result_is_determined : forall c m mw p i dl mx f l1 d l2, run_ok (init c m mw) p ->
  nth_error p i = Some (ORead (RUntil dl mx)) ->
  nth_error (rets (init c m mw) p) i = Some (RetFut f) ->
  log (run (init c m mw) p) = l1 ++ EvDone f (OData d) :: l2 ->
  exists loc, find dl (skipn (length (consumed l1)) (stream_of p)) = Some loc /\
              d = firstn (loc + length dl) (skipn (length (consumed l1)) (stream_of p)).
Proof.
  intros c m mw p i dl mx f l1 d l2 Hok Hp Hr Hl.
  assert (Hin : In (EvDone f (OData d)) (log (run (init c m mw) p)))
    by (rewrite Hl; apply in_or_app; right; left; reflexivity).
  pose proof (read_contracts c m mw p i _ f _ Hok Hp Hr Hin) as C. cbn in C.
  destruct C as (Cf & Cl & _).
  destruct (result_slices c m mw p Hok l1 f (OData d) l2 Hl) as [rest Hs]. cbn in Hs.
  rewrite Hs, skipn_app, skipn_all, Nat.sub_diag. cbn [skipn app].
  exists (length d - length dl). split.
  - apply find_app_l. exact Cf.
  - replace (length d - length dl + length dl) with (length d) by lia.
    rewrite firstn_app, firstn_all, Nat.sub_diag. cbn. rewrite app_nil_r. reflexivity.
Qed.
