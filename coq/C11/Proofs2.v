(* C11 — Inv is preserved by _signal_closed, close, _read_to_buffer, the read loop,
   _handle_read, _try_inline_read and the read_* methods. *)
From Coq Require Import List NArith Arith Bool Lia.
Import ListNotations.
From TV Require Import C11.Model C11.Proofs1.

Ltac irr := intros; match goal with H : Inv _ |- _ => destruct H end; constructor; cbn; auto.

Lemma inv_w_cbq : forall x s, Inv s -> Inv (w_cbq x s). Proof. irr. Qed.
Lemma inv_w_close_cb : forall x s, Inv s -> Inv (w_close_cb x s). Proof. irr. Qed.
Lemma inv_w_wbuf : forall x s, Inv s -> Inv (w_wbuf x s). Proof. irr. Qed.
Lemma inv_w_conn_future : forall x s, Inv s -> Inv (w_conn_future x s). Proof. irr. Qed.
Lemma inv_w_w_futs : forall x s, Inv s -> Inv (w_w_futs x s). Proof. irr. Qed.
Lemma inv_w_error : forall x s, Inv s -> Inv (w_error x s). Proof. irr. Qed.
Lemma inv_w_connecting : forall x s, Inv s -> Inv (w_connecting x s). Proof. irr. Qed.
Lemma inv_w_sscript : forall x s, Inv s -> Inv (w_sscript x s). Proof. irr. Qed.
Lemma inv_w_sent : forall x s, Inv s -> Inv (w_sent x s). Proof. irr. Qed.
Lemma inv_w_w_done : forall x s, Inv s -> Inv (w_w_done x s). Proof. irr. Qed.
Lemma inv_w_w_total : forall x s, Inv s -> Inv (w_w_total x s). Proof. irr. Qed.
Lemma inv_w_rd_max : forall x s, Inv s -> rd_future s = None -> Inv (w_rd_max x s).
Proof. intros x s I Hn. destruct I. constructor; cbn; auto. intros f Hf; congruence. Qed.
Lemma inv_w_next_fid : forall s, Inv s -> Inv (w_next_fid (S (next_fid s)) s).
Proof. intros s I. destruct I. constructor; cbn; auto. intros f r H. apply i_fresh in H. lia. Qed.
Lemma inv_w_closed : forall s, Inv s -> rd_uclose s = false -> Inv (w_closed true s).
Proof. intros s I Hu. destruct I. constructor; cbn; auto. intros; congruence. Qed.

Hint Resolve inv_w_cbq inv_w_close_cb inv_w_wbuf inv_w_conn_future inv_w_w_futs inv_w_error
  inv_w_connecting inv_w_sscript inv_w_sent inv_w_w_done inv_w_w_total inv_io inv_add_io_state
  inv_maybe_ael : inv.

(* ---------- _signal_closed ---------- *)
Lemma inv_settle_closed : forall s f, Inv s -> Inv (settle_closed s f).
Proof.
  intros s f I. unfold settle_closed. destruct (done_in (log s) f); auto.
  apply inv_emit_nodata; auto. intros; exact Logic.I.
Qed.

Lemma inv_fold_settle : forall l s, Inv s -> Inv (fold_left settle_closed l s).
Proof. induction l as [|f l IH]; intros s I; cbn; auto. apply IH, inv_settle_closed, I. Qed.

Lemma settle_closed_uclose : forall s f, rd_uclose (settle_closed s f) = rd_uclose s.
Proof. intros s f. unfold settle_closed. destruct (done_in (log s) f); reflexivity. Qed.

Lemma inv_signal_closed : forall s, Inv s -> rd_uclose s = false -> Inv (signal_closed s).
Proof.
  intros s I Hu. unfold signal_closed.
  set (s0 := match rd_future s with Some _ => _ | None => s end).
  assert (I1 : Inv (w_conn_future None (w_w_futs [] (w_rd_future None s0)))).
  { apply inv_w_conn_future, inv_w_w_futs. subst s0.
    destruct (rd_future s) as [f|] eqn:Ef.
    - cbn. destruct (user s) eqn:Eu.
      + destruct (i_user s I Eu) as (A & B & C & D). pose proof (i_after s I) as Ha.
        rewrite Ha, app_nil_r.
        destruct I. constructor; cbn; intros; try discriminate; try congruence; eauto;
          try (repeat split; auto; fail).
        rewrite <- i_cons. f_equal. unfold lrb; cbn. rewrite Eu, Ha. rewrite !app_nil_r. reflexivity.
      + destruct I. constructor; cbn; intros; try discriminate; try congruence; eauto;
          try (repeat split; auto; fail).
    - destruct I. constructor; cbn; intros; try discriminate; try congruence; eauto. }
  match goal with |- Inv (w_wbuf [] ?x) => apply inv_w_wbuf end.
  match goal with |- Inv (if close_cb ?x then _ else _) => assert (I2 : Inv x) by (apply inv_fold_settle, I1) end.
  match goal with |- Inv (if close_cb ?x then _ else _) => destruct (close_cb x) end; auto.
  apply inv_emit_plain; [intros; discriminate|]. apply inv_w_cbq, inv_w_close_cb. exact I2.
Qed.

(* ---------- close ---------- *)
Lemma inv_uclose_false : forall s, Inv s -> rd_future s = None -> rd_uclose s = false.
Proof. intros s I H. destruct (i_clean s I H) as (_ & _ & _ & _ & _ & ?). assumption. Qed.

Lemma fields_uclose : forall r s, fields_of r s -> rd_uclose s = true -> r = RUntilClose.
Proof.
  intros r s H Hu. destruct r; cbn in H; auto; exfalso;
    repeat match goal with H : _ /\ _ |- _ => destruct H end; congruence.
Qed.

Lemma inv_close_uclose : forall s, Inv s -> rd_uclose s = true ->
  Inv (finish_read (rbs s) (w_rd_uclose false s)).
Proof.
  intros s I Hu.
  destruct (i_uclose s I Hu) as (Hc & A & B & C & D).
  assert (Eus : user s = false).
  { destruct (user s) eqn:E; auto. destruct (i_user s I E) as (X & _). congruence. }
  destruct (rd_future s) as [f|] eqn:Ef.
  2:{ pose proof (inv_uclose_false s I Ef). congruence. }
  destruct (i_req s I f Ef) as (r & Hr & Hfo).
  apply inv_finish_read_gen with (f := f); cbn.
  - intros _. split; [apply (i_nouser s I Eus)|apply (i_after s I)].
  - intros X; congruence.
  - intros _. lia.
  - apply (i_cons s I).
  - apply (i_q s I).
  - repeat split; auto.
  - exact Ef.
  - apply (i_bad s I).
  - apply (i_fresh s I).
  - apply (i_nodup s I).
  - apply (i_log s I).
  - intros r0 H0. assert (r0 = r) by (eapply reqs_unique; [apply (i_nodup s I)|exact H0|exact Hr]).
    subst r0. rewrite (fields_uclose r s Hfo Hu). unfold fr_result. cbn. rewrite Eus. exact Logic.I.
Qed.

Lemma inv_close : forall e s, Inv s -> Inv (close e s).
Proof.
  intros e s I. unfold close.
  apply inv_signal_closed.
  - destruct (closed s) eqn:Ec; [exact I|].
    set (s1 := match e with Some e0 => w_error (Some e0) s | None => s end).
    assert (I1 : Inv s1) by (subst s1; destruct e; auto with inv).
    assert (I2 : Inv (if rd_uclose s1 then finish_read (rbs s1) (w_rd_uclose false s1)
                      else match rd_future s1 with
                           | Some _ => match find_read_pos s1 with FPos p => read_from_buffer p s1 | _ => s1 end
                           | None => s1 end)
                 /\ rd_uclose (if rd_uclose s1 then finish_read (rbs s1) (w_rd_uclose false s1)
                      else match rd_future s1 with
                           | Some _ => match find_read_pos s1 with FPos p => read_from_buffer p s1 | _ => s1 end
                           | None => s1 end) = false).
    { destruct (rd_uclose s1) eqn:Eu.
      - pose proof (inv_close_uclose s1 I1 Eu) as I2. split; auto.
        apply inv_uclose_false; auto. apply finish_read_future.
      - destruct (rd_future s1) as [ff|] eqn:Ef; auto.
        destruct (find_read_pos s1) as [pp| |] eqn:Efp; auto.
        pose proof (inv_read_from_buffer pp s1 I1 Efp) as I2. split; auto.
        apply inv_uclose_false; auto. unfold read_from_buffer. apply finish_read_future. }
    destruct I2 as [I2 U2].
    apply inv_w_closed; [|exact U2].
    apply inv_emit_plain; [intros; discriminate|]. apply inv_io. exact I2.
  - destruct (closed s) eqn:Ec.
    + destruct (rd_uclose s) eqn:Eu; auto. destruct (i_uclose s I Eu) as (X & _). congruence.
    + cbn.
      set (s1 := match e with Some e0 => w_error (Some e0) s | None => s end).
      assert (I1 : Inv s1) by (subst s1; destruct e; auto with inv).
      destruct (rd_uclose s1) eqn:Eu.
      * pose proof (inv_close_uclose s1 I1 Eu) as I2.
        apply inv_uclose_false; auto. apply finish_read_future.
      * destruct (rd_future s1) as [ff|] eqn:Ef; auto.
        destruct (find_read_pos s1) as [pp| |] eqn:Efp; auto.
        pose proof (inv_read_from_buffer pp s1 I1 Efp) as I2.
        apply inv_uclose_false; auto. unfold read_from_buffer. apply finish_read_future.
Qed.

(* ---------- _read_to_buffer ---------- *)
Lemma inv_w_inq_drop : forall t q s, Inv s -> inq s = t :: q -> qdata [t] = [] -> Inv (w_inq q s).
Proof.
  intros t q s I Hq Ht. destruct I. constructor; cbn; auto.
  rewrite <- i_q, Hq. change (t :: q) with ([t] ++ q). rewrite qdata_app, Ht. reflexivity.
Qed.

Lemma inv_take : forall s bs q k X,
  Inv s -> inq s = TData bs :: q ->
  qdata X = skipn k bs ++ qdata q ->
  k <= (if user s then length (rb s) - rbs s else chunk s) ->
  k <= length bs -> 0 < k ->
  Inv (w_received (received s ++ firstn k bs)
        (w_rbs (rbs s + k)
          (w_rb (if user s then firstn (rbs s) (rb s) ++ firstn k bs ++ skipn (rbs s + k) (rb s)
                 else rb s ++ firstn k bs)
            (w_inq X s)))).
Proof.
  intros s bs q k X I Hq Hqd Hcap Hk Hpos.
  assert (Hlen : length (firstn k bs) = k) by (rewrite firstn_length; lia).
  pose proof (i_after s I) as Ha.
  destruct (user s) eqn:Eu.
  - destruct (i_user s I Eu) as (A & B & C & D).
    assert (Hn : length (firstn (rbs s) (rb s) ++ firstn k bs ++ skipn (rbs s + k) (rb s)) = length (rb s)).
    { rewrite !app_length, firstn_length, skipn_length, Hlen. lia. }
    constructor; cbn; try (destruct I; eauto; fail).
    + rewrite Eu. discriminate.
    + intros _. rewrite Hn. repeat split; auto. lia.
    + rewrite <- (i_cons s I), <- app_assoc. f_equal. unfold lrb. cbn. rewrite Eu, Ha, !app_nil_r.
      rewrite firstn_app, firstn_length, Nat.min_l by lia.
      rewrite firstn_firstn, Nat.min_r by lia.
      replace (rbs s + k - rbs s) with k by lia.
      rewrite firstn_app, Hlen, Nat.sub_diag. cbn. rewrite app_nil_r.
      rewrite (firstn_all2 (firstn k bs)) by lia. reflexivity.
    + rewrite <- (i_q s I), Hq, Hqd. cbn. rewrite <- !app_assoc. f_equal.
      rewrite app_assoc, firstn_skipn. reflexivity.
  - pose proof (i_nouser s I Eu) as Hl.
    constructor; cbn; try (destruct I; eauto; fail).
    + intros _. rewrite app_length, Hlen. lia.
    + rewrite Eu. discriminate.
    + rewrite <- (i_cons s I), <- app_assoc. f_equal. unfold lrb. cbn. rewrite Eu, Ha, !app_nil_r. reflexivity.
    + rewrite <- (i_q s I), Hq, Hqd. cbn. rewrite <- !app_assoc. f_equal.
      rewrite app_assoc, firstn_skipn. reflexivity.
Qed.

Lemma inv_read_to_buffer : forall s, Inv s -> Inv (fst (read_to_buffer s)).
Proof.
  intros s I. unfold read_to_buffer, read_from_fd.
  destruct (inq s) as [|[bs| |r] q] eqn:Eq.
  - exact I.
  - set (cap := if user s then length (rb s) - rbs s else chunk s).
    remember (Nat.min cap (length bs)) as k eqn:Ek0.
    assert (Hk1 : k <= cap) by lia.
    assert (Hk2 : k <= length bs) by lia.
    assert (Hlen : length (firstn k bs) = k) by (rewrite firstn_length; lia).
    set (X := if k <? length bs then TData (skipn k bs) :: q else q).
    assert (HX : (if k <? length bs then w_inq (TData (skipn k bs) :: q) s else w_inq q s) = w_inq X s)
      by (subst X; destruct (k <? length bs); reflexivity).
    rewrite HX. clear HX.
    assert (Hqd : qdata X = skipn k bs ++ qdata q).
    { subst X. destruct (k <? length bs) eqn:E; cbn; auto.
      apply Nat.ltb_ge in E. rewrite skipn_all2 by lia. reflexivity. }
    rewrite Hlen. clear Ek0. destruct k as [|k'].
    + cbn [fst]. apply inv_close.
      destruct I. constructor; cbn; auto.
      rewrite <- i_q, Eq, Hqd. cbn. reflexivity.
    + cbn [user rbs rb received w_inq].
      pose proof (inv_take s bs q (S k') X I Eq Hqd Hk1 Hk2 ltac:(lia)) as I2.
      match goal with |- Inv (fst (if ?c then _ else _)) => destruct c end; cbn [fst].
      * apply inv_close. exact I2.
      * exact I2.
  - cbn. apply inv_close. eapply inv_w_inq_drop; eauto.
  - destruct r; cbn; apply inv_close; eapply inv_w_inq_drop; eauto.
Qed.

(* ---------- _read_to_buffer_loop ---------- *)
Lemma of_frp_pos : forall f p, of_frp f = LPos p -> f = FPos p.
Proof. intros [n| |] p H; cbn in H; congruence. Qed.

Lemma rloop_spec : forall fuel t nfp s, Inv s ->
  Inv (fst (rloop fuel t nfp s)) /\
  (forall p, snd (rloop fuel t nfp s) = LPos p -> find_read_pos (fst (rloop fuel t nfp s)) = FPos p).
Proof.
  induction fuel as [|fuel IH]; intros t nfp s I; cbn [rloop].
  - destruct (closed s); cbn; split; auto; try discriminate. intros p H. apply of_frp_pos, H.
  - destruct (closed s).
    { cbn; split; auto. intros p H. apply of_frp_pos, H. }
    pose proof (inv_read_to_buffer s I) as I1.
    destruct (read_to_buffer s) as [s1 r]. cbn [fst] in I1.
    assert (Hfin : Inv (fst (s1, of_frp (find_read_pos s1))) /\
                   (forall p, snd (s1, of_frp (find_read_pos s1)) = LPos p ->
                              find_read_pos (fst (s1, of_frp (find_read_pos s1))) = FPos p)).
    { cbn; split; auto. intros p H. apply of_frp_pos, H. }
    assert (Hrest :
      Inv (fst (if match t with Some t0 => t0 <=? rbs s1 | None => false end
               then (s1, of_frp (find_read_pos s1))
               else if nfp <=? rbs s1
                    then match find_read_pos s1 with
                         | FPos p => (s1, LPos p)
                         | FUnsat => (s1, LExn XUnsat)
                         | FNone => rloop fuel t (2 * rbs s1) s1
                         end
                    else rloop fuel t nfp s1)) /\
      (forall p, snd (if match t with Some t0 => t0 <=? rbs s1 | None => false end
               then (s1, of_frp (find_read_pos s1))
               else if nfp <=? rbs s1
                    then match find_read_pos s1 with
                         | FPos p => (s1, LPos p)
                         | FUnsat => (s1, LExn XUnsat)
                         | FNone => rloop fuel t (2 * rbs s1) s1
                         end
                    else rloop fuel t nfp s1) = LPos p ->
        find_read_pos (fst (if match t with Some t0 => t0 <=? rbs s1 | None => false end
               then (s1, of_frp (find_read_pos s1))
               else if nfp <=? rbs s1
                    then match find_read_pos s1 with
                         | FPos p => (s1, LPos p)
                         | FUnsat => (s1, LExn XUnsat)
                         | FNone => rloop fuel t (2 * rbs s1) s1
                         end
                    else rloop fuel t nfp s1)) = FPos p)).
    { destruct (match t with Some t0 => t0 <=? rbs s1 | None => false end); [exact Hfin|].
      destruct (nfp <=? rbs s1); [|apply IH; exact I1].
      destruct (find_read_pos s1) as [p| |] eqn:Ef.
      - cbn; split; auto. intros p0 H; congruence.
      - apply IH; exact I1.
      - cbn; split; auto. discriminate. }
    destruct r as [[|n]| |x]; auto.
    cbn; split; auto. discriminate.
Qed.

Lemma rtbl_spec : forall s, Inv s ->
  Inv (fst (read_to_buffer_loop s)) /\
  (forall p, snd (read_to_buffer_loop s) = LPos p -> find_read_pos (fst (read_to_buffer_loop s)) = FPos p).
Proof. intros s I. unfold read_to_buffer_loop. apply rloop_spec, I. Qed.

(* ---------- _handle_read / _try_inline_read ---------- *)
Lemma inv_handle_read : forall s, Inv s -> Inv (fst (handle_read s)).
Proof.
  intros s I. unfold handle_read.
  destruct (rtbl_spec s I) as [I1 Hp].
  destruct (read_to_buffer_loop s) as [s1 r]. cbn [fst snd] in *.
  destruct r as [p| |x]; cbn [fst]; auto.
  - apply inv_read_from_buffer; auto.
  - destruct x; cbn [fst]; auto; apply inv_close; auto.
Qed.

Lemma inv_try_inline_read : forall s, Inv s -> Inv (fst (try_inline_read s)).
Proof.
  intros s I. unfold try_inline_read.
  destruct (find_read_pos s) as [p| |] eqn:Ef; cbn [fst]; auto.
  - apply inv_read_from_buffer; auto.
  - destruct (closed s); cbn [fst]; auto.
    destruct (rtbl_spec s I) as [I1 Hp].
    destruct (read_to_buffer_loop s) as [s1 r]. cbn [fst snd] in *.
    destruct r as [p| |x]; cbn [fst]; auto.
    + apply inv_read_from_buffer; auto.
    + destruct (closed s1); auto with inv.
Qed.

(* ---------- the read_* methods ---------- *)
Definition log_fresh (s : st) : Prop := forall f o, In (EvDone f o) (log s) -> f < next_fid s.

Lemma inv_finish_call : forall c f p, Inv (fst p) -> Inv (fst (finish_call c f p)).
Proof.
  intros c f [s [x|]] I; cbn in *; auto.
  destruct x; cbn; auto. destruct c; cbn; auto. apply inv_close; auto.
Qed.

Lemma NoDup_snoc : forall (A : Type) (l : list A) x, NoDup l -> ~ In x l -> NoDup (l ++ [x]).
Proof.
  induction l as [|a l IH]; intros x Hnd Hni; cbn.
  - constructor; [intros []|constructor].
  - inversion Hnd; subst. constructor.
    + intros H. apply in_app_or in H as [H|[H|[]]]; auto. subst. apply Hni. left; reflexivity.
    + apply IH; auto. intros H. apply Hni. right; exact H.
Qed.

(* the state right after _start_read has allocated future f for request r *)
Definition started (r : rreq) (s : st) : st :=
  w_reqs (reqs s ++ [(next_fid s, r)]) (w_rd_future (Some (next_fid s)) (w_next_fid (S (next_fid s)) s)).

Lemma started_base : forall r s (P : st -> st),
  Inv s -> log_fresh s -> rd_future s = None ->
  (* P installs the criteria of r and nothing else relevant *)
  (forall x, log (P x) = log x /\ reqs (P x) = reqs x /\ next_fid (P x) = next_fid x /\
             rd_future (P x) = rd_future x /\ received (P x) = received x /\ inq (P x) = inq x /\
             arrived (P x) = arrived x /\ bad (P x) = bad x /\ after (P x) = after x /\ closed (P x) = closed x) ->
  fields_of r (P (started r s)) ->
  (user (P (started r s)) = false -> rb (P (started r s)) = rb s /\ rbs (P (started r s)) = rbs s) ->
  (user (P (started r s)) = true ->
     rd_bytes (P (started r s)) = Some (length (rb (P (started r s)))) /\
     rd_delim (P (started r s)) = None /\ rd_regex (P (started r s)) = None /\
     rbs (P (started r s)) <= length (rb (P (started r s))) /\
     firstn (rbs (P (started r s))) (rb (P (started r s))) = rb s) ->
  (rd_uclose (P (started r s)) = true ->
     closed s = false /\ rd_bytes (P (started r s)) = None /\ rd_delim (P (started r s)) = None /\
     rd_regex (P (started r s)) = None /\ rd_partial (P (started r s)) = false) ->
  Inv (P (started r s)).
Proof.
  intros r s P I Hlf Hn HP Hfo Hnu Hu Huc.
  destruct (i_clean s I Hn) as (C1 & C2 & C3 & C4 & C5 & C6).
  set (s' := P (started r s)) in *.
  destruct (HP (started r s)) as (El & Er & En & Ef & Erc & Eq & Ea & Eb & Eaf & Ecl).
  fold s' in El, Er, En, Ef, Erc, Eq, Ea, Eb, Eaf, Ecl. cbn in El, Er, En, Ef, Erc, Eq, Ea, Eb, Eaf, Ecl.
  pose proof (i_after s I) as Haf.
  constructor.
  - intros H. destruct (Hnu H) as [-> ->]. apply (i_nouser s I C5).
  - intros H. destruct (Hu H) as (A & B & C & D & _). auto.
  - congruence.
  - rewrite El, Erc, <- (i_cons s I). f_equal. unfold lrb. rewrite Eaf, Haf, C5.
    destruct (user s') eqn:E.
    + destruct (Hu eq_refl) as (_ & _ & _ & _ & ->). reflexivity.
    + destruct (Hnu eq_refl) as [-> _]. reflexivity.
  - rewrite Erc, Eq, Ea. apply (i_q s I).
  - rewrite Ef. discriminate.
  - intros H. rewrite Ecl. apply Huc, H.
  - intros f Hf. rewrite Ef in Hf. inversion Hf; subst f. exists r. split; auto.
    rewrite Er. apply in_or_app. right. left. reflexivity.
  - intros f r0 H. rewrite Er in H. rewrite En. apply in_app_or in H as [H|[H|[]]].
    + apply (i_fresh s I) in H. lia.
    + inversion H; subst. lia.
  - rewrite Er, map_app. cbn. apply NoDup_snoc; [apply (i_nodup s I)|].
    intros H. apply in_map_iff in H as ([g x] & Hg & Hin). cbn in Hg. subst g.
    apply (i_fresh s I) in Hin. lia.
  - intros f o r0 Hl Hr. rewrite El in Hl. rewrite Er in Hr. apply in_app_or in Hr as [Hr|[Hr|[]]].
    + eapply (i_log s I); eauto.
    + inversion Hr; subst. apply Hlf in Hl. lia.
  - rewrite Eb. apply (i_bad s I).
Qed.

Lemma inv_read_simple : forall r s (P : st -> st) c,
  Inv (P (started r s)) ->
  Inv (fst (finish_call c (next_fid s) (try_inline_read (P (started r s))))).
Proof. intros. apply inv_finish_call, inv_try_inline_read. assumption. Qed.

Ltac hp := intros x; cbn; repeat split; reflexivity.

Lemma inv_do_read : forall r s, Inv s -> log_fresh s -> Inv (fst (do_read r s)).
Proof.
  intros r s I Hlf. unfold do_read, start_read.
  destruct (rd_future s) as [f0|] eqn:Hn; [exact I|].
  destruct (i_clean s I Hn) as (C1 & C2 & C3 & C4 & C5 & C6).
  pose proof (i_nouser s I C5) as Hl. pose proof (i_after s I) as Haf.
  change (w_reqs (reqs s ++ [(next_fid s, r)]) (w_rd_future (Some (next_fid s)) (w_next_fid (S (next_fid s)) s)))
    with (started r s).
  destruct r as [n pt|n pt|d mx|q mx|].
  - (* read_bytes *)
    apply (inv_read_simple (RBytes n pt) s (fun x => w_rd_partial pt (w_rd_bytes (Some n) x))).
        apply (started_base (RBytes n pt) s (fun x => w_rd_partial pt (w_rd_bytes (Some n) x))); auto; try hp; cbn; intros; try congruence; repeat split; auto.
  - (* read_into *)
    cbn [rbs started w_reqs w_rd_future w_next_fid rb].
    destruct (n <=? rbs s) eqn:En.
    + apply Nat.leb_le in En. apply inv_finish_call.
      unfold try_inline_read.
      match goal with |- Inv (fst match find_read_pos ?x with _ => _ end) =>
        assert (Hf : find_read_pos x = FPos n) end.
      { unfold find_read_pos. cbn. apply Nat.leb_le in En. rewrite En. cbn. f_equal. apply Nat.leb_le in En. lia. }
      rewrite Hf. cbn [fst]. unfold read_from_buffer.
      assert (Hfl : length (firstn n (rb s)) = n) by (rewrite firstn_length; lia).
      apply inv_finish_read_gen with (f := next_fid s); cbn; try discriminate.
      * intros _. rewrite Hfl. split; [lia|]. split; [discriminate|]. intros _. lia.
      * rewrite <- (i_cons s I). f_equal. unfold lrb. cbn. rewrite C5, Haf, app_nil_r.
        rewrite firstn_all2 by lia. apply firstn_skipn.
      * apply (i_q s I).
      * repeat split; auto.
      * reflexivity.
      * apply (i_bad s I).
      * intros f r H. apply in_app_or in H as [H|[H|[]]].
        -- apply (i_fresh s I) in H. lia.
        -- inversion H; subst. lia.
      * rewrite map_app. cbn. apply NoDup_snoc; [apply (i_nodup s I)|].
        intros H. apply in_map_iff in H as ([g x] & Hg & Hin). cbn in Hg. subst g.
        apply (i_fresh s I) in Hin. lia.
      * intros f o r0 Hlg Hr. apply in_app_or in Hr as [Hr|[Hr|[]]].
        -- eapply (i_log s I); eauto.
        -- inversion Hr; subst. apply Hlf in Hlg. lia.
      * intros r0 Hr. apply in_app_or in Hr as [Hr|[Hr|[]]].
        -- apply (i_fresh s I) in Hr. lia.
        -- inversion Hr; subst. unfold fr_result. cbn. rewrite firstn_length, Hfl. destruct pt; lia.
    + apply Nat.leb_gt in En.
      destruct (rbs s) as [|av] eqn:Eav.
      * apply (inv_read_simple (RInto n pt) s (fun x => w_rd_partial pt (w_rd_bytes (Some n) (w_rbs 0 (w_user true (w_rb (repeat fill_byte n) x)))))).
        apply (started_base (RInto n pt) s (fun x => w_rd_partial pt (w_rd_bytes (Some n) (w_rbs 0 (w_user true (w_rb (repeat fill_byte n) x)))))); auto; try hp; cbn; intros; try congruence; repeat split; auto.
        -- rewrite repeat_length. reflexivity.
        -- lia.
        -- destruct (rb s); [reflexivity|cbn in Hl; lia].
      * apply (inv_read_simple (RInto n pt) s
                (fun x => w_rd_partial pt (w_rd_bytes (Some n) (w_rbs (S av) (w_user true
                   (w_rb (rb s ++ skipn (S av) (repeat fill_byte n)) x)))))).
        apply (started_base (RInto n pt) s
                (fun x => w_rd_partial pt (w_rd_bytes (Some n) (w_rbs (S av) (w_user true
                   (w_rb (rb s ++ skipn (S av) (repeat fill_byte n)) x)))))); auto; try hp; cbn -[skipn firstn]; intros; try congruence; repeat split; auto.
        -- rewrite app_length, skipn_length, repeat_length. f_equal. lia.
        -- rewrite app_length. lia.
        -- rewrite firstn_app, Hl, Nat.sub_diag, firstn_all. cbn. apply app_nil_r.
  - (* read_until *)
    apply (inv_read_simple (RUntil d mx) s (fun x => w_rd_max mx (w_rd_delim (Some d) x))).
        apply (started_base (RUntil d mx) s (fun x => w_rd_max mx (w_rd_delim (Some d) x))); auto; try hp; cbn; intros; try congruence; repeat split; auto.
  - (* read_until_regex *)
    apply (inv_read_simple (RRegex q mx) s (fun x => w_rd_max mx (w_rd_regex (Some q) x))).
        apply (started_base (RRegex q mx) s (fun x => w_rd_max mx (w_rd_regex (Some q) x))); auto; try hp; cbn; intros; try congruence; repeat split; auto.
  - (* read_until_close *)
    cbn [closed started w_reqs w_rd_future w_next_fid rbs].
    destruct (closed s) eqn:Ec.
    + cbn [fst].
      apply inv_finish_read_gen with (f := next_fid s); cbn; try congruence.
      * intros _. split; auto.
      * intros _. lia.
      * apply (i_cons s I).
      * apply (i_q s I).
      * repeat split; auto.
      * apply (i_bad s I).
      * intros f r H. apply in_app_or in H as [H|[H|[]]].
        -- apply (i_fresh s I) in H. lia.
        -- inversion H; subst. lia.
      * rewrite map_app. cbn. apply NoDup_snoc; [apply (i_nodup s I)|].
        intros H. apply in_map_iff in H as ([g x] & Hg & Hin). cbn in Hg. subst g.
        apply (i_fresh s I) in Hin. lia.
      * intros f o r0 Hlg Hr. apply in_app_or in Hr as [Hr|[Hr|[]]].
        -- eapply (i_log s I); eauto.
        -- inversion Hr; subst. apply Hlf in Hlg. lia.
      * intros r0 Hr. apply in_app_or in Hr as [Hr|[Hr|[]]].
        -- apply (i_fresh s I) in Hr. lia.
        -- inversion Hr; subst. unfold fr_result. cbn. rewrite C5. exact Logic.I.
    + apply (inv_read_simple RUntilClose s (fun x => w_rd_uclose true x)).
        apply (started_base RUntilClose s (fun x => w_rd_uclose true x)); auto; try hp; cbn; intros; try congruence; repeat split; auto.
Qed.
