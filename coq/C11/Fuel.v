(* C11 — the read loop's fuel always suffices (OutOfFuel is unreachable); functions that do
   not touch the transport leave [received]/[inq] alone; reads on a closed stream take no new bytes. *)
From Coq Require Import List NArith Arith Bool Lia.
Import ListNotations.
From TV Require Import C11.Model C11.Proofs1.

Definition keep (s s' : st) : Prop := received s' = received s /\ inq s' = inq s.
Lemma keep_refl : forall s, keep s s. Proof. split; reflexivity. Qed.
Lemma keep_trans : forall a b c, keep a b -> keep b c -> keep a c.
Proof. intros a b c [A B] [C D]. split; congruence. Qed.

Lemma keep_add_io_state : forall r w s, keep s (add_io_state r w s).
Proof. intros. destruct (add_io_state_eq r w s) as [x ->]. split; reflexivity. Qed.
Lemma keep_maybe_ael : forall s, keep s (maybe_add_error_listener s).
Proof. intros. destruct (maybe_ael_eq s) as [x ->]. split; reflexivity. Qed.

Lemma keep_finish_read : forall n s, keep s (finish_read n s).
Proof.
  intros n s. unfold finish_read.
  destruct (user s); [|destruct n; [|destruct (S n <=? rbs s)]]; cbn;
    (eapply keep_trans; [|apply keep_maybe_ael]); destruct (rd_future s); split; reflexivity.
Qed.

Lemma keep_read_from_buffer : forall p s, keep s (read_from_buffer p s).
Proof. intros. unfold read_from_buffer. eapply keep_trans; [|apply keep_finish_read]. split; reflexivity. Qed.

Lemma keep_fold_settle : forall l s, keep s (fold_left settle_closed l s).
Proof.
  induction l as [|f l IH]; intros s; cbn; [apply keep_refl|].
  eapply keep_trans; [|apply IH]. unfold settle_closed. destruct (done_in (log s) f); split; reflexivity.
Qed.

Lemma keep_signal_closed : forall s, keep s (signal_closed s).
Proof.
  intros s. unfold signal_closed.
  set (s0 := match rd_future s with Some _ => _ | None => s end).
  assert (H0 : keep s s0).
  { subst s0. destruct (rd_future s); [|apply keep_refl]. cbn. destruct (user s); split; reflexivity. }
  match goal with |- keep s (w_wbuf [] (if close_cb ?x then _ else _)) =>
    assert (H1 : keep s x) end.
  { eapply keep_trans; [|apply keep_fold_settle]. eapply keep_trans; [exact H0|]. split; reflexivity. }
  match goal with |- keep s (w_wbuf [] (if close_cb ?x then _ else _)) => destruct (close_cb x) end;
    (eapply keep_trans; [exact H1|]); split; reflexivity.
Qed.

Lemma keep_close : forall e s, keep s (close e s).
Proof.
  intros e s. unfold close. eapply keep_trans; [|apply keep_signal_closed].
  destruct (closed s); [apply keep_refl|].
  set (s1 := match e with Some e0 => w_error (Some e0) s | None => s end).
  assert (H1 : keep s s1) by (subst s1; destruct e; split; reflexivity).
  match goal with |- keep s (w_closed true (emit EvCloseFd (w_io_state None ?x))) => assert (H2 : keep s x) end.
  { eapply keep_trans; [exact H1|]. destruct (rd_uclose s1).
    - eapply keep_trans; [|apply keep_finish_read]. split; reflexivity.
    - destruct (rd_future s1); [|apply keep_refl].
      destruct (find_read_pos s1); try apply keep_refl. apply keep_read_from_buffer. }
  eapply keep_trans; [exact H2|]. split; reflexivity.
Qed.

(* ---------- each productive _read_to_buffer call shrinks the transport queue ---------- *)
Lemma rtb_measure : forall s,
  match snd (read_to_buffer s) with
  | RtbN (S _) | RtbNone => qmeasure (inq (fst (read_to_buffer s))) < qmeasure (inq s)
  | _ => True
  end.
Proof.
  intros s. unfold read_to_buffer, read_from_fd.
  destruct (inq s) as [|[bs| |r] q] eqn:Eq; cbn [fst snd]; auto.
  - match goal with |- context[length (firstn ?k bs)] => remember k as k0 eqn:Ek end.
    assert (Hk : k0 <= length bs) by (subst k0; lia).
    assert (Hl : length (firstn k0 bs) = k0) by (rewrite firstn_length; lia).
    assert (Hm : 0 < k0 -> qmeasure (if k0 <? length bs then TData (skipn k0 bs) :: q else q) < qmeasure (TData bs :: q)).
    { intros Hp. destruct (k0 <? length bs) eqn:E; cbn [qmeasure]; [rewrite skipn_length|]; lia. }
    assert (Hinq : forall x, inq (if k0 <? length bs then w_inq (TData (skipn k0 bs) :: q) x else w_inq q x)
                   = (if k0 <? length bs then TData (skipn k0 bs) :: q else q))
      by (intros; destruct (k0 <? length bs); reflexivity).
    rewrite Hl. clear Ek. destruct k0 as [|k']; cbn [fst snd]; auto.
    specialize (Hm ltac:(lia)).
    match goal with |- match snd (if ?c then _ else _) with _ => _ end => destruct c end; cbn [fst snd]; auto.
    cbn [inq w_received w_rbs w_rb]. rewrite Hinq. exact Hm.
  - cbn. auto.
  - destruct r; cbn [fst snd]; auto.
    destruct (keep_close (Some EReset) (w_inq q s)) as [_ B]. rewrite B. cbn. lia.
Qed.

Lemma rloop_fuel : forall fuel t nfp s, qmeasure (inq s) < fuel -> snd (rloop fuel t nfp s) <> LExn XFuel.
Proof.
  induction fuel as [|fuel IH]; intros t nfp s Hm; [lia|].
  cbn [rloop]. destruct (closed s).
  { cbn. destruct (find_read_pos s); cbn; discriminate. }
  pose proof (rtb_measure s) as M.
  destruct (read_to_buffer s) as [s1 r] eqn:Ertb. cbn [fst snd] in M.
  assert (Hfin : snd (s1, of_frp (find_read_pos s1)) <> LExn XFuel)
    by (cbn; destruct (find_read_pos s1); cbn; discriminate).
  assert (Hrest : (match r with RtbN (S _) | RtbNone => True | _ => False end) ->
      snd (if match t with Some t0 => t0 <=? rbs s1 | None => false end
               then (s1, of_frp (find_read_pos s1))
               else if nfp <=? rbs s1
                    then match find_read_pos s1 with
                         | FPos p => (s1, LPos p)
                         | FUnsat => (s1, LExn XUnsat)
                         | FNone => rloop fuel t (2 * rbs s1) s1
                         end
                    else rloop fuel t nfp s1) <> LExn XFuel).
  { intros Hr. assert (Hlt : qmeasure (inq s1) < fuel) by (destruct r as [[|n]| |x]; try contradiction; lia).
    destruct (match t with Some t0 => t0 <=? rbs s1 | None => false end); [exact Hfin|].
    destruct (nfp <=? rbs s1); [|apply IH; exact Hlt].
    destruct (find_read_pos s1); cbn; try discriminate. apply IH; exact Hlt. }
  destruct r as [[|n]| |x]; auto.
  cbn. intros H. inversion H; subst x. clear - Ertb.
  unfold read_to_buffer, read_from_fd in Ertb.
  destruct (inq s) as [|[bs| |r] q]; cbn in Ertb; try discriminate.
  - match type of Ertb with context[length (firstn ?k bs)] => destruct (length (firstn k bs)) end;
      [discriminate|].
    match type of Ertb with (if ?c then _ else _) = _ => destruct c end; discriminate.
  - destruct r; discriminate.
Qed.

Lemma rtbl_fuel : forall s, snd (read_to_buffer_loop s) <> LExn XFuel.
Proof. intros s. unfold read_to_buffer_loop. apply rloop_fuel. lia. Qed.

Lemma handle_read_fuel : forall s, snd (handle_read s) <> Some XFuel.
Proof.
  intros s. unfold handle_read. pose proof (rtbl_fuel s) as H.
  destruct (read_to_buffer_loop s) as [s1 r]. cbn [snd] in H.
  destruct r as [p| |x]; cbn [snd]; try discriminate. destruct x; cbn [snd]; try discriminate. congruence.
Qed.

Lemma try_inline_read_fuel : forall s, snd (try_inline_read s) <> Some XFuel.
Proof.
  intros s. unfold try_inline_read.
  destruct (find_read_pos s); cbn [snd]; try discriminate.
  destruct (closed s); cbn [snd]; try discriminate.
  pose proof (rtbl_fuel s) as H. destruct (read_to_buffer_loop s) as [s1 r]. cbn [snd] in H.
  destruct r as [p| |x]; cbn [snd]; try discriminate. congruence.
Qed.

Lemma finish_call_fuel : forall c f p, snd p <> Some XFuel -> snd (finish_call c f p) <> RetRaise XFuel.
Proof.
  intros c f [s [x|]] H; cbn in *; try discriminate.
  destruct x; cbn; try discriminate; try congruence. destruct c; cbn; discriminate.
Qed.

Theorem do_read_never_out_of_fuel : forall r s, snd (do_read r s) <> RetRaise XFuel.
Proof.
  intros r s. unfold do_read, start_read.
  destruct (rd_future s); [cbn; destruct (closed s); discriminate|].
  destruct r; try (apply finish_call_fuel, try_inline_read_fuel).
  match goal with |- context[if closed ?x then _ else _] => destruct (closed x) end;
    [cbn; discriminate|apply finish_call_fuel, try_inline_read_fuel].
Qed.

Theorem handle_events_never_out_of_fuel : forall r w e so fd s,
  snd (handle_events r w e so fd s) <> RetRaise XFuel.
Proof.
  intros r w e so fd s. unfold handle_events.
  destruct (closed s); [cbn; discriminate|].
  match goal with |- context[closed ?x] => destruct (closed x) end; [cbn; discriminate|].
  match goal with |- context[if r then handle_read ?x else _] =>
    pose proof (handle_read_fuel x) as H; destruct r; [destruct (handle_read x) as [s2 y]|] end;
    cbn [snd] in *.
  - destruct y as [y|].
    + destruct y; cbn; try discriminate. congruence.
    + destruct (closed s2); [cbn; discriminate|].
      match goal with |- context[closed ?x] => destruct (closed x) end; [cbn; discriminate|].
      destruct e; [cbn; discriminate|].
      match goal with |- context[io_state ?x] => destruct (io_state x) as [[? ?]|] end; cbn; discriminate.
  - match goal with |- context[closed ?x] => destruct (closed x) end; [cbn; discriminate|].
    match goal with |- context[closed ?x] => destruct (closed x) end; [cbn; discriminate|].
    destruct e; [cbn; discriminate|].
    match goal with |- context[io_state ?x] => destruct (io_state x) as [[? ?]|] end; cbn; discriminate.
Qed.

Theorem step_never_out_of_fuel : forall o s, snd (step s o) <> RetRaise XFuel.
Proof.
  intros o s. destruct o; cbn [step]; try (cbn; discriminate).
  - apply do_read_never_out_of_fuel.
  - unfold do_write. destruct (closed s); [cbn; discriminate|].
    match goal with |- context[if ?c then (s, RetRaise XWBufFull) else _] => destruct c end; [cbn; discriminate|].
    match goal with |- context[if connecting ?x then _ else _] => destruct (connecting x) end; cbn; discriminate.
  - unfold do_connect. destruct (closed s); [cbn; discriminate|]. destruct fail; cbn; discriminate.
  - destruct (io_state s) as [[lr lw]|]; [|cbn; discriminate].
    destruct (closed s); [cbn; discriminate|].
    destruct (r && lr || w && lw || e); [|cbn; discriminate].
    apply handle_events_never_out_of_fuel.
Qed.

(* ---------- reads on a closed stream take nothing from the transport ---------- *)
Theorem read_after_close_no_new_bytes : forall r s, closed s = true ->
  received (fst (do_read r s)) = received s /\ inq (fst (do_read r s)) = inq s.
Proof.
  intros r s Hc. unfold do_read, start_read.
  destruct (rd_future s); [cbn; split; reflexivity|].
  set (s0 := w_reqs _ _).
  assert (Hti : forall x, closed x = true -> keep x (fst (try_inline_read x))).
  { intros x Hx. unfold try_inline_read. destruct (find_read_pos x); cbn [fst]; try apply keep_refl.
    - apply keep_read_from_buffer.
    - rewrite Hx. apply keep_refl. }
  assert (Hfc : forall c f x, closed x = true -> keep s x -> keep s (fst (finish_call c f (try_inline_read x)))).
  { intros c f x Hx Hk. pose proof (Hti x Hx) as K.
    destruct (try_inline_read x) as [s1 [y|]]; cbn [fst] in *.
    - destruct y; cbn [finish_call fst]; try exact (keep_trans _ _ _ Hk K).
      destruct c; cbn [fst]; [|exact (keep_trans _ _ _ Hk K)].
      eapply keep_trans; [exact (keep_trans _ _ _ Hk K)|apply keep_close].
    - cbn [finish_call fst]. exact (keep_trans _ _ _ Hk K). }
  destruct r as [n pt|n pt|d mx|q mx|].
  - apply Hfc; [exact Hc|split; reflexivity].
  - apply Hfc; [|split].
    + destruct (n <=? rbs s0); [exact Hc|]. destruct (rbs s0); exact Hc.
    + destruct (n <=? rbs s0); [reflexivity|]. destruct (rbs s0); reflexivity.
    + destruct (n <=? rbs s0); [reflexivity|]. destruct (rbs s0); reflexivity.
  - apply Hfc; [exact Hc|split; reflexivity].
  - apply Hfc; [exact Hc|split; reflexivity].
  - change (closed s0) with (closed s). rewrite Hc. cbn [fst].
    eapply keep_trans; [|apply keep_finish_read]. split; reflexivity.
Qed.
