(* C11/C13 — every model function changes the futures ledger only by ledger moves. *)
From Coq Require Import List NArith Arith Bool Lia.
Import ListNotations.
From TV Require Import C11.Model C11.Proofs1 C11.Ledger.

Notation mv s s' := (moves (led_of s) (led_of s')).

Lemma mv_refl : forall s, mv s s. Proof. intros; constructor. Qed.
Lemma mv_trans : forall a b c, mv a b -> mv b c -> mv a c.
Proof. intros a b c. apply moves_trans. Qed.

Lemma mv_eq : forall s s', led_of s = led_of s' -> mv s s'.
Proof. intros s s' H. rewrite H. constructor. Qed.

Lemma mv_io : forall x s, mv s (w_io_state x s). Proof. intros; apply mv_eq; reflexivity. Qed.
Lemma mv_add_io_state : forall r w s, mv s (add_io_state r w s).
Proof. intros r w s. destruct (add_io_state_eq r w s) as [x ->]. apply mv_io. Qed.
Lemma mv_maybe_ael : forall s, mv s (maybe_add_error_listener s).
Proof. intros s. destruct (maybe_ael_eq s) as [x ->]. apply mv_io. Qed.

Lemma mv_emit_plain : forall e s, (forall f o, e <> EvDone f o) -> mv s (emit e s).
Proof. intros e s H. apply moves_one. apply (M_plain (led_of s) e H). Qed.

(* ---------- finish_read ---------- *)
Lemma mv_finish_read : forall size s, mv s (finish_read size s).
Proof.
  intros size s. unfold finish_read.
  destruct (user s); [|destruct size; [|destruct (S size <=? rbs s)]]; cbn;
    (eapply mv_trans; [|apply mv_maybe_ael]);
    (destruct (rd_future s) as [f|] eqn:Ef; [|apply mv_eq; unfold led_of; cbn; rewrite ?Ef; reflexivity]).
  all: apply moves_one.
  all: match goal with |- move _ (led_of (emit (EvDone _ ?o) _)) =>
         pose proof (M_rd_done (led_of s) f o Ef) as M; exact M end.
Qed.

Lemma mv_read_from_buffer : forall p s, mv s (read_from_buffer p s).
Proof.
  intros p s. unfold read_from_buffer.
  eapply mv_trans; [|apply mv_finish_read]. apply mv_eq. reflexivity.
Qed.

(* ---------- _signal_closed / close ---------- *)
Lemma settle_closed_led : forall s f,
  led_of (settle_closed s f) =
  mkled (rd_future s) (map snd (w_futs s)) (conn_future s) (next_fid s)
        (settle_l (error s) (log s) f) (map fst (reqs s))
  /\ error (settle_closed s f) = error s.
Proof.
  intros s f. unfold settle_closed, settle_l. destruct (done_in (log s) f); split; reflexivity.
Qed.

Lemma fold_settle_led : forall fs s,
  led_of (fold_left settle_closed fs s) =
  mkled (rd_future s) (map snd (w_futs s)) (conn_future s) (next_fid s)
        (fold_left (settle_l (error s)) fs (log s)) (map fst (reqs s))
  /\ error (fold_left settle_closed fs s) = error s.
Proof.
  induction fs as [|f fs IH]; intros s; cbn; [split; reflexivity|].
  destruct (IH (settle_closed s f)) as [H1 H2]. destruct (settle_closed_led s f) as [H3 H4].
  rewrite H1, H2. split; auto.
  unfold led_of in H3. inversion H3 as [[A B C D E F]]. rewrite H4, A, B, C, D, E, F. reflexivity.
Qed.

Lemma mv_signal_closed : forall s, mv s (signal_closed s).
Proof.
  intros s. unfold signal_closed.
  set (s0 := match rd_future s with Some _ => _ | None => s end).
  assert (E0 : led_of s0 = led_of s /\ error s0 = error s).
  { subst s0. destruct (rd_future s); [|split; reflexivity]. cbn. destruct (user s); split; reflexivity. }
  destruct E0 as [E0 Eerr].
  set (futs := opt (rd_future s) ++ map snd (w_futs s) ++ opt (conn_future s)).
  change (match rd_future s with Some f => [f] | None => [] end) with (opt (rd_future s)).
  change (match conn_future s with Some f => [f] | None => [] end) with (opt (conn_future s)).
  fold futs.
  set (s1 := w_conn_future None (w_w_futs [] (w_rd_future None s0))).
  destruct (fold_settle_led futs s1) as [H1 H2].
  set (s2 := fold_left settle_closed futs s1) in *.
  assert (M2 : mv s s2).
  { apply moves_one. rewrite H1. subst s1. cbn.
    pose proof (M_settle (led_of s) (error s)) as M. unfold lheld in M. cbn in M. fold futs in M.
    unfold led_of in E0. inversion E0 as [[A B C D E F]]. rewrite Eerr, D, E, F. exact M. }
  eapply mv_trans; [exact M2|].
  destruct (close_cb s2).
  - apply mv_trans with (b := emit (EvCallback CbUserClose) (w_cbq (cbq s2 ++ [CbUserClose]) (w_close_cb false s2))).
    + apply mv_trans with (b := w_cbq (cbq s2 ++ [CbUserClose]) (w_close_cb false s2)).
      * apply mv_eq; reflexivity.
      * apply mv_emit_plain; intros; discriminate.
    + apply mv_eq; reflexivity.
  - apply mv_eq; reflexivity.
Qed.

Lemma mv_close : forall e s, mv s (close e s).
Proof.
  intros e s. unfold close. eapply mv_trans; [|apply mv_signal_closed].
  destruct (closed s); [apply mv_refl|].
  set (s1 := match e with Some e0 => w_error (Some e0) s | None => s end).
  assert (M1 : mv s s1) by (subst s1; destruct e; apply mv_eq; reflexivity).
  eapply mv_trans; [exact M1|].
  eapply mv_trans; [|apply mv_eq; reflexivity].
  eapply mv_trans; [|apply mv_emit_plain; intros; discriminate].
  eapply mv_trans; [|apply mv_io].
  destruct (rd_uclose s1).
  - eapply mv_trans; [|apply mv_finish_read]. apply mv_eq; reflexivity.
  - destruct (rd_future s1); [|apply mv_refl].
    destruct (find_read_pos s1); try apply mv_refl. apply mv_read_from_buffer.
Qed.

(* ---------- read path ---------- *)
Lemma mv_read_to_buffer : forall s, mv s (fst (read_to_buffer s)).
Proof.
  intros s. unfold read_to_buffer, read_from_fd.
  destruct (inq s) as [|[bs| |r] q]; cbn [fst].
  - apply mv_refl.
  - match goal with |- context[length (firstn ?k bs)] => generalize k end. intros k.
    destruct (length (firstn k bs)).
    + cbn [fst]. eapply mv_trans; [|apply mv_close].
      destruct (k <? length bs); apply mv_eq; reflexivity.
    + match goal with |- mv _ (fst (if ?c then _ else _)) => destruct c end; cbn [fst].
      * eapply mv_trans; [|apply mv_close]. destruct (k <? length bs); apply mv_eq; reflexivity.
      * destruct (k <? length bs); apply mv_eq; reflexivity.
  - cbn. eapply mv_trans; [|apply mv_close]. apply mv_eq; reflexivity.
  - destruct r; cbn; (eapply mv_trans; [|apply mv_close]); apply mv_eq; reflexivity.
Qed.

Lemma mv_rloop : forall fuel t nfp s, mv s (fst (rloop fuel t nfp s)).
Proof.
  induction fuel as [|fuel IH]; intros t nfp s; cbn [rloop].
  - destruct (closed s); apply mv_refl.
  - destruct (closed s); [apply mv_refl|].
    pose proof (mv_read_to_buffer s) as M1.
    destruct (read_to_buffer s) as [s1 r]. cbn [fst] in M1.
    assert (Hrest : mv s (fst (if match t with Some t0 => t0 <=? rbs s1 | None => false end
               then (s1, of_frp (find_read_pos s1))
               else if nfp <=? rbs s1
                    then match find_read_pos s1 with
                         | FPos p => (s1, LPos p)
                         | FUnsat => (s1, LExn XUnsat)
                         | FNone => rloop fuel t (2 * rbs s1) s1
                         end
                    else rloop fuel t nfp s1))).
    { destruct (match t with Some t0 => t0 <=? rbs s1 | None => false end); [exact M1|].
      destruct (nfp <=? rbs s1); [|eapply mv_trans; [exact M1|apply IH]].
      destruct (find_read_pos s1); try exact M1. eapply mv_trans; [exact M1|apply IH]. }
    destruct r as [[|n]| |x]; auto.
Qed.

Lemma mv_rtbl : forall s, mv s (fst (read_to_buffer_loop s)).
Proof. intros. apply mv_rloop. Qed.

Lemma mv_handle_read : forall s, mv s (fst (handle_read s)).
Proof.
  intros s. unfold handle_read. pose proof (mv_rtbl s) as M.
  destruct (read_to_buffer_loop s) as [s1 r]. cbn [fst] in M.
  destruct r as [p| |x]; cbn [fst]; auto.
  - eapply mv_trans; [exact M|apply mv_read_from_buffer].
  - destruct x; cbn [fst]; auto; (eapply mv_trans; [exact M|apply mv_close]).
Qed.

Lemma mv_try_inline_read : forall s, mv s (fst (try_inline_read s)).
Proof.
  intros s. unfold try_inline_read.
  destruct (find_read_pos s); cbn [fst]; try apply mv_refl; try apply mv_read_from_buffer.
  destruct (closed s); cbn [fst]; [apply mv_refl|].
  pose proof (mv_rtbl s) as M.
  destruct (read_to_buffer_loop s) as [s1 r]. cbn [fst] in M.
  destruct r as [p| |x]; cbn [fst]; auto.
  - eapply mv_trans; [exact M|apply mv_read_from_buffer].
  - destruct (closed s1); auto. eapply mv_trans; [exact M|apply mv_add_io_state].
Qed.

Lemma mv_finish_call : forall c f s p, mv s (fst p) -> mv s (fst (finish_call c f p)).
Proof.
  intros c f s [s1 [x|]] M; cbn in *; auto.
  destruct x; cbn; auto. destruct c; cbn; auto. eapply mv_trans; [exact M|apply mv_close].
Qed.

Lemma mv_do_read : forall r s, mv s (fst (do_read r s)).
Proof.
  intros r s. unfold do_read, start_read.
  destruct (rd_future s) as [f0|] eqn:Hn; [apply mv_refl|].
  set (s0 := w_reqs (reqs s ++ [(next_fid s, r)]) (w_rd_future (Some (next_fid s)) (w_next_fid (S (next_fid s)) s))).
  assert (M0 : mv s s0).
  { apply moves_one. pose proof (M_alloc_rd (led_of s) Hn) as M. cbn in M.
    unfold led_of at 2. subst s0. cbn. rewrite map_app. exact M. }
  destruct r as [n pt|n pt|d mx|q mx|].
  - apply mv_finish_call. eapply mv_trans; [|apply mv_try_inline_read].
    eapply mv_trans; [exact M0|apply mv_eq; reflexivity].
  - apply mv_finish_call. eapply mv_trans; [|apply mv_try_inline_read].
    eapply mv_trans; [exact M0|]. apply mv_eq.
    destruct (n <=? rbs s0); [reflexivity|]. destruct (rbs s0); reflexivity.
  - apply mv_finish_call. eapply mv_trans; [|apply mv_try_inline_read].
    eapply mv_trans; [exact M0|apply mv_eq; reflexivity].
  - apply mv_finish_call. eapply mv_trans; [|apply mv_try_inline_read].
    eapply mv_trans; [exact M0|apply mv_eq; reflexivity].
  - destruct (closed s0); cbn [fst].
    + eapply mv_trans; [exact M0|apply mv_finish_read].
    + apply mv_finish_call. eapply mv_trans; [|apply mv_try_inline_read].
      eapply mv_trans; [exact M0|apply mv_eq; reflexivity].
Qed.
