(* C11 — IOStream reads return exactly the incoming bytes, in order, per request.
   Property theorems only; proofs are in Proofs1-5.v, Ledger.v, Frame.v, Fuel.v, Check.v.
   All statements quantify over every configuration (read_chunk_size c, max_buffer_size m,
   max_write_buffer_size mw) and every operation sequence p of the model's [op] type (read
   calls of all five kinds, arrivals in any segmentation, readiness events, EOF/reset/errors,
   local closes, writes, callbacks, in any interleaving).  [run_ok] only asks that connect()
   is not called while a connect future is already pending. *)
From Coq Require Import List NArith Arith.
Import ListNotations.
From TV Require Import Lib.Obs C11.Model C11.Trace C11.Run C11.Proofs1 C11.Proofs4 C11.Frame C11.Proofs5
  C11.Fuel C11.Check.

(* Conservation: at every point of every run, (bytes handed out by completed reads, in
   completion order) ++ (bytes buffered in the stream) ++ (bytes still in the transport)
   is exactly the byte stream delivered so far: nothing lost, duplicated or reordered. *)
Theorem C11_conservation : forall c m mw p, run_ok (init c m mw) p ->
  let s := run (init c m mw) p in
  consumed (log s) ++ lrb s ++ qdata (inq s) = stream_of p.
Proof. exact conservation. Qed.
Print Assumptions C11_conservation.

(* Each read result is the slice of the stream that immediately follows all earlier results. *)
Theorem C11_each_result_is_the_next_slice : forall c m mw p, run_ok (init c m mw) p ->
  forall l1 f o l2, log (run (init c m mw) p) = l1 ++ EvDone f o :: l2 ->
  exists rest, stream_of p = consumed l1 ++ out_data o ++ rest.
Proof. exact result_slices. Qed.
Print Assumptions C11_each_result_is_the_next_slice.

(* Per-request contract (see [contract] in Proofs1.v): read_bytes n -> exactly n bytes (1..n if
   partial); read_into -> the count and the caller buffer prefix; read_until -> ends with the first
   occurrence of the delimiter and is <= max_bytes; read_until_regex -> cut at the end of the leftmost
   match in the buffered data and <= max_bytes; the only other outcome of a read future is
   StreamClosedError. *)
Theorem C11_every_read_meets_its_contract : forall c m mw p i r f o, run_ok (init c m mw) p ->
  nth_error p i = Some (ORead r) -> nth_error (rets (init c m mw) p) i = Some (RetFut f) ->
  In (EvDone f o) (log (run (init c m mw) p)) -> contract r o.
Proof. exact read_contracts. Qed.
Print Assumptions C11_every_read_meets_its_contract.

Theorem C11_max_bytes_never_exceeded : forall c m mw p i f d mx x, run_ok (init c m mw) p ->
  (nth_error p i = Some (ORead (RUntil x (Some mx))) \/ exists q, nth_error p i = Some (ORead (RRegex q (Some mx)))) ->
  nth_error (rets (init c m mw) p) i = Some (RetFut f) ->
  In (EvDone f (OData d)) (log (run (init c m mw) p)) -> length d <= mx.
Proof. exact max_bytes_respected. Qed.
Print Assumptions C11_max_bytes_never_exceeded.

(* A delimiter read is reported unsatisfiable exactly when the delimiter ends beyond max_bytes or
   more than max_bytes are buffered without it; an unsatisfiable read closes the stream. *)
Theorem C11_unsatisfiable_iff_over_max : forall s d m,
  rd_bytes s = None -> rd_delim s = Some d -> rd_max s = Some m -> rb s <> [] ->
  find_read_pos s = FUnsat <->
  match find d (rb s) with Some loc => m < loc + length d | None => m < rbs s end.
Proof. exact unsat_when_over_max. Qed.
Print Assumptions C11_unsatisfiable_iff_over_max.

Theorem C11_unsatisfiable_read_closes : forall f s, closed (fst (finish_call true f (s, Some XUnsat))) = true.
Proof. exact unsat_read_closes. Qed.
Print Assumptions C11_unsatisfiable_read_closes.

(* Complete fixed-size reads do not depend on the arrival pattern: the result is the next n bytes. *)
Theorem C11_read_bytes_is_arrival_independent : forall c m mw p i n f l1 d l2, run_ok (init c m mw) p ->
  nth_error p i = Some (ORead (RBytes n false)) ->
  nth_error (rets (init c m mw) p) i = Some (RetFut f) ->
  log (run (init c m mw) p) = l1 ++ EvDone f (OData d) :: l2 ->
  d = firstn n (skipn (length (consumed l1)) (stream_of p)).
Proof. exact fixed_size_result_is_determined. Qed.
Print Assumptions C11_read_bytes_is_arrival_independent.

Theorem C11_read_into_is_arrival_independent : forall c m mw p i n f l1 k d l2, run_ok (init c m mw) p ->
  nth_error p i = Some (ORead (RInto n false)) ->
  nth_error (rets (init c m mw) p) i = Some (RetFut f) ->
  log (run (init c m mw) p) = l1 ++ EvDone f (OInto k d) :: l2 ->
  k = n /\ d = firstn n (skipn (length (consumed l1)) (stream_of p)).
Proof. exact into_result_is_determined. Qed.
Print Assumptions C11_read_into_is_arrival_independent.

Theorem C11_read_until_is_arrival_independent : forall c m mw p i dl mx f l1 d l2, run_ok (init c m mw) p ->
  nth_error p i = Some (ORead (RUntil dl mx)) ->
  nth_error (rets (init c m mw) p) i = Some (RetFut f) ->
  log (run (init c m mw) p) = l1 ++ EvDone f (OData d) :: l2 ->
  exists loc, find dl (skipn (length (consumed l1)) (stream_of p)) = Some loc /\
              d = firstn (loc + length dl) (skipn (length (consumed l1)) (stream_of p)).
Proof. exact until_result_is_determined. Qed.
Print Assumptions C11_read_until_is_arrival_independent.

(* The model's explicit failure paths are dead: no internal assertion (_consume's
   `assert loc <= self._read_buffer_size`, the write loop bound) fails, and the read loop's fuel
   always suffices. *)
Theorem C11_no_assertion_failure : forall c m mw p, run_ok (init c m mw) p ->
  bad (run (init c m mw) p) = false.
Proof. exact no_assertion_failure. Qed.
Print Assumptions C11_no_assertion_failure.

Theorem C11_never_out_of_fuel : forall o s, snd (step s o) <> RetRaise XFuel.
Proof. exact step_never_out_of_fuel. Qed.
Print Assumptions C11_never_out_of_fuel.

(* The boolean checker applied to the implementation's observables holds of the model. *)
Theorem C11_model_passes_check : forall c m mw p, run_ok (init c m mw) p ->
  check_case (c, m, mw, p) (run_case (c, m, mw, p)) = true.
Proof. exact C11.Check.model_passes_check. Qed.
Print Assumptions C11_model_passes_check.

(* the premise is satisfiable by non-trivial programs *)
Example C11_run_ok_example :
  run_ok (init 2 4096 None)
    [OArrive (TData [97;13;10;98]%N); ORead (RUntil [13;10]%N (Some 8)); OConnect false;
     OEvent true true false false false; ORead (RInto 3 false); OArrive TEof; OEvent true false false false false].
Proof. vm_compute. repeat split. Qed.
