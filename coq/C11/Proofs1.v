(* C11 — basic lemmas, the structural invariant Inv1 (buffer shape, cleanliness,
   conservation) and its preservation by the primitive functions. *)
From Coq Require Import List NArith Arith Bool Lia.
Import ListNotations.
From TV Require Import C11.Model.

(* ---------- search bounds ---------- *)
Lemma prefixb_length : forall d s, prefixb d s = true -> length d <= length s.
Proof.
  induction d as [|a d IH]; intros [|b s] H; simpl in *; try lia; try discriminate.
  apply andb_true_iff in H as [_ H]. apply IH in H. lia.
Qed.

Lemma find_bound : forall d s loc, find d s = Some loc -> loc + length d <= length s.
Proof.
  intros d s; induction s as [|b s IH]; intros loc H; simpl in H.
  - destruct (prefixb d []) eqn:E; [|discriminate]. inversion H; subst.
    apply prefixb_length in E. simpl in *. lia.
  - destruct (prefixb d (b :: s)) eqn:E.
    + inversion H; subst. apply prefixb_length in E. simpl in *. lia.
    + destruct (find d s) as [k|] eqn:F; simpl in H; [|discriminate].
      inversion H; subst. specialize (IH k eq_refl). simpl. lia.
Qed.

Lemma match_here_bound : forall p s k, match_here p s = Some k -> k <= length s.
Proof.
  induction p as [|a p IH]; intros s k H; simpl in H.
  - inversion H. lia.
  - destruct s as [|b s'].
    + destruct (a_opt a); [|discriminate]. apply IH in H. exact H.
    + destruct (amatch a b) eqn:Em.
      * destruct (match_here p s') as [j|] eqn:Ej; simpl in H.
        -- inversion H; subst. apply IH in Ej. simpl. lia.
        -- destruct (a_opt a); [|discriminate]. apply IH in H. exact H.
      * destruct (a_opt a); [|discriminate]. apply IH in H. exact H.
Qed.

Lemma search_bound : forall p s e, search p s = Some e -> e <= length s.
Proof.
  intros p s; induction s as [|b s IH]; intros e H; simpl in H.
  - destruct (match_here p []) eqn:E; [|discriminate]. inversion H; subst.
    apply match_here_bound in E. exact E.
  - destruct (match_here p (b :: s)) eqn:E.
    + inversion H; subst. apply match_here_bound in E. exact E.
    + destruct (search p s) as [k|] eqn:F; simpl in H; [|discriminate].
      inversion H; subst. specialize (IH k eq_refl). simpl. lia.
Qed.

(* ---------- consumed bytes recorded in the log ---------- *)
Definition out_data (o : outcome) : list N :=
  match o with OData b => b | OInto _ b => b | _ => [] end.

Fixpoint consumed (l : list event) : list N :=
  match l with
  | [] => []
  | EvDone _ o :: l' => out_data o ++ consumed l'
  | _ :: l' => consumed l'
  end.

Lemma consumed_app : forall a b, consumed (a ++ b) = consumed a ++ consumed b.
Proof.
  induction a as [|e a IH]; intros b; simpl; auto.
  destruct e; auto. rewrite IH, app_assoc. reflexivity.
Qed.

(* logical unconsumed bytes *)
Definition lrb (s : st) : list N :=
  (if user s then firstn (rbs s) (rb s) else rb s)
  ++ match after s with Some a => a | None => [] end.

Fixpoint qdata (q : list tok) : list N :=
  match q with
  | [] => []
  | TData bs :: q' => bs ++ qdata q'
  | _ :: q' => qdata q'
  end.

Lemma qdata_app : forall a b, qdata (a ++ b) = qdata a ++ qdata b.
Proof.
  induction a as [|t a IH]; intros b; simpl; auto.
  destruct t; auto. rewrite IH, app_assoc. reflexivity.
Qed.

(* ---------- the contract of each read request ---------- *)
Definition max_ok (mx : option nat) (n : nat) : Prop := forall m, mx = Some m -> n <= m.

Definition contract (r : rreq) (o : outcome) : Prop :=
  match o with
  | OClosed _ => True
  | ODone => False
  | OData d =>
      match r with
      | RBytes n false => length d = n
      | RBytes n true => length d <= n /\ (0 < n -> 0 < length d)
      | RUntil dl mx => find dl d = Some (length d - length dl) /\ length dl <= length d /\ max_ok mx (length d)
      | RRegex p mx => (exists rest, search p (d ++ rest) = Some (length d)) /\ max_ok mx (length d)
      | RUntilClose => True
      | RInto _ _ => False
      end
  | OInto k d =>
      match r with
      | RInto n false => k = n /\ length d = n
      | RInto n true => length d = k /\ k <= n /\ (0 < n -> 0 < k)
      | _ => False
      end
  end.

(* the installed read criteria are those of request r *)
Definition fields_of (r : rreq) (s : st) : Prop :=
  match r with
  | RBytes n p => rd_bytes s = Some n /\ rd_partial s = p /\ rd_delim s = None /\ rd_regex s = None
                  /\ user s = false /\ rd_uclose s = false
  | RInto n p => rd_bytes s = Some n /\ rd_partial s = p /\ user s = true /\ rd_uclose s = false
  | RUntil d mx => rd_bytes s = None /\ rd_delim s = Some d /\ rd_max s = mx /\ user s = false /\ rd_uclose s = false
  | RRegex p mx => rd_bytes s = None /\ rd_delim s = None /\ rd_regex s = Some p /\ rd_max s = mx
                   /\ user s = false /\ rd_uclose s = false
  | RUntilClose => rd_uclose s = true
  end.

Record Inv (s : st) : Prop := {
  i_nouser : user s = false -> rbs s = length (rb s);
  i_user : user s = true ->
           rd_bytes s = Some (length (rb s)) /\ rd_delim s = None /\ rd_regex s = None
           /\ rbs s <= length (rb s);
  i_after : after s = None;
  i_cons : consumed (log s) ++ lrb s = received s;
  i_q : received s ++ qdata (inq s) = arrived s;
  i_clean : rd_future s = None ->
            rd_bytes s = None /\ rd_delim s = None /\ rd_regex s = None
            /\ rd_partial s = false /\ user s = false /\ rd_uclose s = false;
  i_uclose : rd_uclose s = true ->
             closed s = false /\ rd_bytes s = None /\ rd_delim s = None /\ rd_regex s = None
             /\ rd_partial s = false;
  i_req : forall f, rd_future s = Some f -> exists r, In (f, r) (reqs s) /\ fields_of r s;
  i_fresh : forall f r, In (f, r) (reqs s) -> f < next_fid s;
  i_nodup : NoDup (map fst (reqs s));
  i_log : forall f o r, In (EvDone f o) (log s) -> In (f, r) (reqs s) -> contract r o;
  i_bad : bad s = false
}.

Lemma inv_init : forall c m mw, Inv (init c m mw).
Proof.
  intros; constructor; unfold lrb; cbn; intros; try discriminate; try contradiction;
    repeat split; auto. constructor.
Qed.

Ltac log_case :=
  match goal with
  | H : In _ (_ ++ [_]) |- _ => apply in_app_or in H as [H|[H|[]]]; [eauto | inversion H; subst; auto]
  end.
Ltac inv_tac := constructor; cbn; intros; try discriminate; try congruence; eauto.

(* ---------- io_state-only functions ---------- *)
Lemma add_io_state_eq : forall r w s, exists x, add_io_state r w s = w_io_state x s.
Proof.
  intros r w s. unfold add_io_state. destruct (closed s).
  - exists (io_state s). destruct s; reflexivity.
  - destruct (io_state s) as [[r0 w0]|]; eexists; reflexivity.
Qed.

Lemma maybe_ael_eq : forall s, exists x, maybe_add_error_listener s = w_io_state x s.
Proof.
  intros s. unfold maybe_add_error_listener.
  assert (Hid : exists x, s = w_io_state x s) by (exists (io_state s); destruct s; reflexivity).
  destruct (io_state s) as [[[|] [|]]|]; auto;
    destruct (negb (closed s) && (rbs s =? 0) && close_cb s); auto; apply add_io_state_eq.
Qed.

Lemma inv_io : forall x s, Inv s -> Inv (w_io_state x s).
Proof. intros x s []. constructor; cbn; auto. Qed.

Lemma inv_add_io_state : forall r w s, Inv s -> Inv (add_io_state r w s).
Proof. intros r w s H. destruct (add_io_state_eq r w s) as [x ->]. apply inv_io, H. Qed.

Lemma inv_maybe_ael : forall s, Inv s -> Inv (maybe_add_error_listener s).
Proof. intros s H. destruct (maybe_ael_eq s) as [x ->]. apply inv_io, H. Qed.

(* an event without data and without a settlement *)
Lemma inv_emit_plain : forall e s, (forall f o, e <> EvDone f o) -> Inv s -> Inv (emit e s).
Proof.
  intros e s He []. constructor; cbn; auto.
  - rewrite consumed_app. destruct e; cbn; try rewrite app_nil_r; auto. exfalso; eapply He; reflexivity.
  - intros f o r Hin. apply in_app_or in Hin as [Hin|[Hin|[]]]; eauto. exfalso; eapply He; eauto.
Qed.

(* a settlement with StreamClosedError / of a non-read future *)
Lemma inv_emit_nodata : forall f o s,
  out_data o = [] -> (forall r, In (f, r) (reqs s) -> contract r o) -> Inv s -> Inv (emit (EvDone f o) s).
Proof.
  intros f o s Hd Hc []. constructor; cbn; auto.
  - rewrite consumed_app. cbn. rewrite Hd, app_nil_r. auto.
  - intros f' o' r Hin Hr. apply in_app_or in Hin as [Hin|[Hin|[]]]; eauto.
    inversion Hin; subst. auto.
Qed.

(* ---------- find_read_pos ---------- *)
Lemma frp_scan_bound : forall s hit p,
  (forall e, hit = Some e -> e <= length (rb s)) ->
  frp_scan s hit = FPos p -> p <= length (rb s).
Proof.
  intros s hit p Hb H. unfold frp_scan in H. destruct (rb s) eqn:Er; [discriminate|].
  destruct hit as [e|].
  - destruct (over_max s e); [discriminate|]. inversion H; subst. apply Hb. reflexivity.
  - destruct (over_max s (rbs s)); discriminate.
Qed.

Lemma frp_rest_bound : forall s p, frp_rest s = FPos p -> p <= length (rb s).
Proof.
  intros s p H. unfold frp_rest in H.
  destruct (rd_delim s) as [d|].
  - eapply frp_scan_bound; [|exact H]. intros e He.
    destruct (find d (rb s)) as [loc|] eqn:F; simpl in He; [|discriminate].
    inversion He; subst. apply find_bound. exact F.
  - destruct (rd_regex s) as [q|]; [|discriminate].
    eapply frp_scan_bound; [|exact H]. intros e He. apply search_bound in He. exact He.
Qed.

Lemma frp_rest_clean : forall s, rd_delim s = None -> rd_regex s = None -> frp_rest s = FNone.
Proof. intros s H1 H2. unfold frp_rest. rewrite H1, H2. reflexivity. Qed.

Lemma find_read_pos_ok : forall s p, Inv s -> find_read_pos s = FPos p ->
  rd_future s <> None /\
  (user s = false -> p <= rbs s) /\
  (user s = true -> p = Nat.min (length (rb s)) (rbs s)).
Proof.
  intros s p I H. split.
  - intros Hn. destruct (i_clean s I Hn) as (A & B & C & _).
    unfold find_read_pos in H. rewrite A in H. rewrite frp_rest_clean in H by assumption. discriminate.
  - unfold find_read_pos in H. split.
    + intros Hu. rewrite (i_nouser s I Hu).
      destruct (rd_bytes s) as [n|].
      * destruct ((n <=? rbs s) || (rd_partial s && (0 <? rbs s))).
        -- inversion H; subst. rewrite <- (i_nouser s I Hu). lia.
        -- apply frp_rest_bound. exact H.
      * apply frp_rest_bound. exact H.
    + intros Hu. destruct (i_user s I Hu) as (A & B & C & D). rewrite A in H.
      destruct ((length (rb s) <=? rbs s) || (rd_partial s && (0 <? rbs s))).
      * inversion H; reflexivity.
      * rewrite frp_rest_clean in H by assumption. discriminate.
Qed.

Lemma find_read_pos_uclose : forall s, Inv s -> rd_uclose s = true -> find_read_pos s = FNone.
Proof.
  intros s I H. destruct (i_uclose s I H) as (_ & A & B & C & _).
  unfold find_read_pos. rewrite A. apply frp_rest_clean; assumption.
Qed.

(* ---------- finish_read ---------- *)
Definition crit_clear (s : st) : Prop :=
  rd_bytes s = None /\ rd_delim s = None /\ rd_regex s = None /\ rd_partial s = false /\ rd_uclose s = false.

Definition fr_result (size : nat) (s : st) : outcome :=
  if user s then OInto size (firstn size (rb s)) else OData (firstn size (rb s)).

Lemma maybe_ael_future : forall s, rd_future (maybe_add_error_listener s) = rd_future s.
Proof. intros s. destruct (maybe_ael_eq s) as [x ->]. reflexivity. Qed.

Lemma finish_read_future : forall size s, rd_future (finish_read size s) = None.
Proof.
  intros size s. unfold finish_read.
  destruct (user s); [|destruct size; [|destruct (S size <=? rbs s)]];
    rewrite maybe_ael_future; cbn; destruct (rd_future s) eqn:E; cbn; auto.
Qed.

Lemma inv_finish_read_gen : forall size s f,
  (* weaker than Inv: the caller has already cleared the criteria *)
  (user s = false -> rbs s = length (rb s) /\ after s = None) ->
  (user s = true -> size = Nat.min (length (rb s)) (rbs s) /\
                    (after s = None -> rbs s <= length (rb s)) /\
                    (after s <> None -> length (rb s) <= rbs s)) ->
  (user s = false -> size <= rbs s) ->
  consumed (log s) ++ lrb s = received s ->
  received s ++ qdata (inq s) = arrived s ->
  crit_clear s -> rd_future s = Some f -> bad s = false ->
  (forall f r, In (f, r) (reqs s) -> f < next_fid s) ->
  NoDup (map fst (reqs s)) ->
  (forall f o r, In (EvDone f o) (log s) -> In (f, r) (reqs s) -> contract r o) ->
  (forall r, In (f, r) (reqs s) -> contract r (fr_result size s)) ->
  Inv (finish_read size s).
Proof.
  intros size s f Hn Hu Hsz Hc Hq (C1 & C2 & C3 & C4 & C5) Ef Hb Hfr Hnd Hlog Hres.
  unfold fr_result in Hres. unfold finish_read.
  destruct (user s) eqn:Eu.
  - destruct (Hu eq_refl) as (Hs & Ha1 & Ha2). clear Hn Hsz.
    set (nrb := match after s with Some (x :: t) => x :: t | _ => [] end).
    assert (Hd : firstn size (rb s) ++ nrb = lrb s).
    { unfold lrb, nrb. rewrite Eu. destruct (after s) as [[|x t]|] eqn:Ea.
      - assert (length (rb s) <= rbs s) by (apply Ha2; discriminate).
        rewrite Hs, Nat.min_l by lia. rewrite !firstn_all2 by lia. reflexivity.
      - assert (length (rb s) <= rbs s) by (apply Ha2; discriminate).
        rewrite Hs, Nat.min_l by lia. rewrite !firstn_all2 by lia. reflexivity.
      - specialize (Ha1 eq_refl). rewrite Hs, Nat.min_r by lia. reflexivity. }
    cbn. rewrite Ef. apply inv_maybe_ael.
    inv_tac.
    + rewrite consumed_app. cbn. rewrite app_nil_r, <- Hc, <- Hd, <- app_assoc. f_equal. f_equal.
      unfold lrb; cbn. apply app_nil_r.
    + repeat split; auto.
    + log_case.
  - destruct (Hn eq_refl) as (Hl & Ha). specialize (Hsz eq_refl). clear Hu.
    destruct size as [|size'].
    + cbn. rewrite Ef. apply inv_maybe_ael.
      inv_tac.
      * rewrite consumed_app. cbn. rewrite app_nil_r, <- Hc. reflexivity.
      * repeat split; auto.
      * log_case.
    + assert (Hle : (S size' <=? rbs s) = true) by (apply Nat.leb_le; exact Hsz).
      rewrite Hle. remember (S size') as n eqn:En. cbn. rewrite Ef. apply inv_maybe_ael.
      inv_tac.
      * rewrite skipn_length. lia.
      * rewrite consumed_app. cbn [consumed out_data]. rewrite app_nil_r, <- Hc, <- app_assoc. f_equal.
        unfold lrb; cbn. rewrite Eu, Ha, !app_nil_r.
        apply (firstn_skipn n (rb s)).
      * repeat split; auto.
      * log_case.
Qed.

(* ---------- the result cut at a delimiter / regex match ---------- *)
Lemma prefixb_firstn : forall d s n, prefixb d s = true -> length d <= n -> prefixb d (firstn n s) = true.
Proof.
  induction d as [|a d IH]; intros s n H Hn; simpl in *; auto.
  destruct s as [|b s]; [discriminate|]. destruct n as [|n]; [lia|]. simpl.
  apply andb_true_iff in H as [H1 H2]. rewrite H1. simpl. apply IH; [exact H2|lia].
Qed.

Lemma prefixb_of_firstn : forall d s n, prefixb d (firstn n s) = true -> prefixb d s = true.
Proof.
  induction d as [|a d IH]; intros s n H; simpl in *; auto.
  destruct s as [|b s]; destruct n as [|n]; simpl in H; try discriminate.
  apply andb_true_iff in H as [H1 H2]. rewrite H1. simpl. eapply IH; exact H2.
Qed.

Lemma find_firstn : forall d s loc, find d s = Some loc -> find d (firstn (loc + length d) s) = Some loc.
Proof.
  intros d s; induction s as [|b s IH]; intros loc H.
  - simpl in H. destruct (prefixb d []) eqn:E; [|discriminate]. inversion H; subst.
    destruct d; [reflexivity|discriminate].
  - simpl in H. destruct (prefixb d (b :: s)) eqn:E.
    + inversion H; subst. simpl (0 + _).
      assert (E2 : prefixb d (firstn (length d) (b :: s)) = true) by (apply prefixb_firstn; auto).
      destruct (firstn (length d) (b :: s)) eqn:Ef; simpl; rewrite E2; reflexivity.
    + destruct (find d s) as [k|] eqn:F; simpl in H; [|discriminate]. inversion H; subst.
      change (firstn (S k + length d) (b :: s)) with (b :: firstn (k + length d) s).
      simpl. destruct (prefixb d (b :: firstn (k + length d) s)) eqn:E2.
      * change (b :: firstn (k + length d) s) with (firstn (S (k + length d)) (b :: s)) in E2.
        apply prefixb_of_firstn in E2. congruence.
      * rewrite (IH k eq_refl). reflexivity.
Qed.

Lemma contract_of_frp : forall s r p,
  Inv s -> fields_of r s -> find_read_pos s = FPos p -> contract r (fr_result p s).
Proof.
  intros s r p I Hf H. unfold fr_result. unfold find_read_pos in H.
  destruct r as [n pt|n pt|d mx|q mx|]; cbn in Hf.
  - destruct Hf as (A & B & C & D & E & F). rewrite E. rewrite A in H.
    pose proof (i_nouser s I E) as Hl.
    destruct ((n <=? rbs s) || (rd_partial s && (0 <? rbs s))) eqn:Ec.
    + inversion H; subst p. cbn. rewrite firstn_length, <- Hl.
      apply orb_true_iff in Ec as [Ec|Ec].
      * apply Nat.leb_le in Ec. destruct pt; lia.
      * apply andb_true_iff in Ec as [E1 E2]. apply Nat.ltb_lt in E2. rewrite B in E1. destruct pt; [lia|discriminate].
    + rewrite frp_rest_clean in H by assumption. discriminate.
  - destruct Hf as (A & B & E & F). rewrite E.
    destruct (i_user s I E) as (A' & C & D & Hle). rewrite A in A'. inversion A'; subst n. rewrite A in H.
    destruct ((length (rb s) <=? rbs s) || (rd_partial s && (0 <? rbs s))) eqn:Ec.
    + inversion H; subst p. cbn. rewrite firstn_length.
      apply orb_true_iff in Ec as [Ec|Ec].
      * apply Nat.leb_le in Ec. destruct pt; lia.
      * apply andb_true_iff in Ec as [E1 E2]. apply Nat.ltb_lt in E2. rewrite B in E1. destruct pt; [lia|discriminate].
    + rewrite frp_rest_clean in H by assumption. discriminate.
  - destruct Hf as (A & B & C & E & F). rewrite E. rewrite A in H.
    unfold frp_rest in H. rewrite B in H. unfold frp_scan in H.
    destruct (rb s) eqn:Er; [discriminate|]. rewrite <- Er in *.
    destruct (find d (rb s)) as [loc|] eqn:Fd; cbn in H.
    + unfold over_max in H. rewrite C in H.
      pose proof (find_bound _ _ _ Fd) as Hb.
      assert (Hp : p = loc + length d /\ max_ok mx p).
      { destruct mx as [m|].
        - destruct (m <? loc + length d) eqn:Em; [discriminate|]. inversion H; subst. split; auto.
          intros m' Hm; inversion Hm; subst. apply Nat.ltb_ge in Em. exact Em.
        - inversion H; subst. split; auto. intros m' Hm; discriminate. }
      destruct Hp as [-> Hm]. cbn. rewrite firstn_length, Nat.min_l by lia.
      split; [|split; [lia|exact Hm]].
      replace (loc + length d - length d) with loc by lia. apply find_firstn. exact Fd.
    + destruct (over_max s (rbs s)); discriminate.
  - destruct Hf as (A & B & C & D & E & F). rewrite E. rewrite A in H.
    unfold frp_rest in H. rewrite B, C in H. unfold frp_scan in H.
    destruct (rb s) eqn:Er; [discriminate|]. rewrite <- Er in *.
    destruct (search q (rb s)) as [e|] eqn:Fd.
    + unfold over_max in H. rewrite D in H.
      pose proof (search_bound _ _ _ Fd) as Hb.
      assert (Hp : p = e /\ max_ok mx p).
      { destruct mx as [m|].
        - destruct (m <? e) eqn:Em; [discriminate|]. inversion H; subst. split; auto.
          intros m' Hm; inversion Hm; subst. apply Nat.ltb_ge in Em. exact Em.
        - inversion H; subst. split; auto. intros m' Hm; discriminate. }
      destruct Hp as [-> Hm]. cbn. rewrite firstn_length, Nat.min_l by lia.
      split; [|exact Hm]. exists (skipn e (rb s)). rewrite firstn_skipn. exact Fd.
    + destruct (over_max s (rbs s)); discriminate.
  - assert (H0 : find_read_pos s = FNone) by (apply find_read_pos_uclose; assumption).
    unfold find_read_pos in H0. congruence.
Qed.

Lemma reqs_unique : forall (l : list (nat * rreq)) f r r',
  NoDup (map fst l) -> In (f, r) l -> In (f, r') l -> r = r'.
Proof.
  induction l as [|[g x] l IH]; intros f r r' Hnd H1 H2; [contradiction|].
  cbn in Hnd. inversion Hnd as [|? ? Hni Hnd']; subst.
  destruct H1 as [H1|H1]; destruct H2 as [H2|H2].
  - congruence.
  - inversion H1; subst. exfalso. apply Hni. change f with (fst (f, r')). apply in_map. exact H2.
  - inversion H2; subst. exfalso. apply Hni. change f with (fst (f, r)). apply in_map. exact H1.
  - eapply IH; eauto.
Qed.

(* ---------- _read_from_buffer ---------- *)
Lemma inv_read_from_buffer : forall p s,
  Inv s -> find_read_pos s = FPos p -> Inv (read_from_buffer p s).
Proof.
  intros p s I H.
  destruct (find_read_pos_ok s p I H) as (Hf & Hn & Hu).
  destruct (rd_future s) as [f|] eqn:Ef; [|congruence].
  assert (Huc : rd_uclose s = false).
  { destruct (rd_uclose s) eqn:E; auto. rewrite find_read_pos_uclose in H by assumption. discriminate. }
  unfold read_from_buffer.
  destruct (i_req s I f Ef) as (r & Hr & Hfo).
  apply inv_finish_read_gen with (f := f); cbn.
  - intros Hus. split; [apply (i_nouser s I)|apply (i_after s I)]; assumption.
  - intros Hus. split; [auto|]. split; intros Ha.
    + destruct (i_user s I) as (_ & _ & _ & ?); auto.
    + exfalso. apply Ha. apply (i_after s I).
  - exact Hn.
  - apply (i_cons s I).
  - apply (i_q s I).
  - repeat split; auto.
  - exact Ef.
  - apply (i_bad s I).
  - apply (i_fresh s I).
  - apply (i_nodup s I).
  - apply (i_log s I).
  - intros r0 H0. assert (r0 = r) by (eapply reqs_unique; [apply (i_nodup s I)|exact H0|exact Hr]).
    subst r0. exact (contract_of_frp s r p I Hfo H).
Qed.
