(* C11/C13 — write side, connect, events, callbacks: Inv and ledger moves; the step theorem. *)
From Coq Require Import List NArith Arith Bool Lia.
Import ListNotations.
From TV Require Import C11.Model C11.Proofs1 C11.Proofs2 C11.Ledger C11.Proofs3.

(* ---------- _handle_write ---------- *)
Lemma write_to_fd_spec : forall d s,
  exists sc sn, snd (write_to_fd d s) = w_sent sn (w_sscript sc s) /\
  (forall n, fst (write_to_fd d s) = WN n -> n <= length d).
Proof.
  intros d s. unfold write_to_fd.
  destruct (sscript s) as [|[k| |x] r] eqn:E; cbn.
  - exists (sscript s), (sent s ++ d). split; [destruct s; reflexivity|].
    intros n H; inversion H; lia.
  - eexists _, _. split; [reflexivity|]. intros n H; inversion H; lia.
  - exists r, (sent s). split; [destruct s; reflexivity|]. discriminate.
  - exists r, (sent s). split; [destruct s; reflexivity|]. discriminate.
Qed.

Lemma wloop_spec : forall fuel s, Inv s -> length (wbuf s) < fuel ->
  Inv (fst (wloop fuel s)) /\ mv s (fst (wloop fuel s)).
Proof.
  induction fuel as [|fuel IH]; intros s I Hl; [lia|].
  cbn [wloop]. destruct (wbuf s) as [|b w] eqn:Ew; [cbn; split; [auto|apply mv_refl]|].
  rewrite <- Ew in *.
  destruct (write_to_fd_spec (wbuf s) s) as (sc & sn & Hs & Hn).
  destruct (write_to_fd (wbuf s) s) as [r s1]. cbn [fst snd] in *. subst s1.
  assert (I1 : Inv (w_sent sn (w_sscript sc s))) by auto with inv.
  assert (M1 : mv s (w_sent sn (w_sscript sc s))) by (apply mv_eq; reflexivity).
  destruct r as [[|n]| |x]; cbn [fst]; auto.
  - assert (Hle : S n <= length (wbuf s)) by (apply Hn; reflexivity).
    destruct (IH (w_w_done (w_done (w_sent sn (w_sscript sc s)) + S n)
                   (w_wbuf (skipn (S n) (wbuf (w_sent sn (w_sscript sc s)))) (w_sent sn (w_sscript sc s)))))
      as [I2 M2].
    + auto with inv.
    + cbn [wbuf w_w_done w_wbuf w_sent w_sscript]. rewrite skipn_length. lia.
    + split; [exact I2|]. eapply mv_trans; [|exact M2]. apply mv_eq; reflexivity.
  - split; [apply inv_close; auto|]. eapply mv_trans; [exact M1|apply mv_close].
Qed.

Definition wnot (l : list (nat * nat)) (s : st) : Prop :=
  forall idx f, In (idx, f) l -> forall r, ~ In (f, r) (reqs s).

Lemma resolve_writes_spec : forall l s, Inv s -> wnot l s ->
  Inv (resolve_writes l s) /\
  moves (mkled (rd_future s) (map snd l) (conn_future s) (next_fid s) (log s) (map fst (reqs s)))
        (led_of (resolve_writes l s)).
Proof.
  induction l as [|[idx f] l IH]; intros s I Hw; cbn [resolve_writes].
  - split; [auto with inv|]. apply ms_refl.
  - destruct (w_done s <? idx).
    + split; [auto with inv|]. apply ms_refl.
    + destruct (IH (emit (EvDone f ODone) s)) as [I2 M2].
      * apply inv_emit_nodata; auto. intros r Hr. exfalso. eapply Hw; [left; reflexivity|exact Hr].
      * intros i g Hin r. cbn. eapply Hw. right; exact Hin.
      * split; [exact I2|]. eapply ms_step; [|exact M2].
        pose proof (M_wr_done (mkled (rd_future s) (map snd ((idx, f) :: l)) (conn_future s) (next_fid s) (log s)
                                 (map fst (reqs s))) f (map snd l) ODone eq_refl) as M.
        exact M.
Qed.

Lemma wnot_of_linv : forall s, LInv (led_of s) -> wnot (w_futs s) s.
Proof.
  intros s L idx f Hin r Hr.
  apply (li_wnotreq _ L f).
  - cbn. apply in_or_app. left. change f with (snd (idx, f)). apply in_map. exact Hin.
  - cbn. change f with (fst (f, r)). apply in_map. exact Hr.
Qed.

Lemma handle_write_spec : forall s, Inv s -> LInv (led_of s) ->
  Inv (handle_write s) /\ mv s (handle_write s).
Proof.
  intros s I L. unfold handle_write.
  destruct (wloop_spec (S (length (wbuf s))) s I ltac:(lia)) as [I1 M1].
  destruct (wloop (S (length (wbuf s))) s) as [s1 early]. cbn [fst] in *.
  destruct early; [split; auto|].
  pose proof (linv_moves _ _ M1 L) as L1.
  destruct (resolve_writes_spec (w_futs s1) s1 I1 (wnot_of_linv s1 L1)) as [I2 M2].
  split; auto. eapply mv_trans; [exact M1|exact M2].
Qed.

(* ---------- write ---------- *)
Lemma do_write_spec : forall d s, Inv s -> LInv (led_of s) ->
  Inv (fst (do_write d s)) /\ mv s (fst (do_write d s)).
Proof.
  intros d s I L. unfold do_write.
  destruct (closed s); [cbn; split; [auto|apply mv_refl]|].
  match goal with |- context[if ?c then (s, RetRaise XWBufFull) else _] => destruct c end;
    [cbn; split; [auto|apply mv_refl]|].
  set (s1 := w_w_total (w_total s + length d) (w_wbuf (wbuf s ++ d) s)).
  set (s2 := w_w_futs (w_futs s1 ++ [(w_total s1, next_fid s1)]) (w_next_fid (S (next_fid s1)) s1)).
  assert (I2 : Inv s2).
  { subst s2. apply inv_w_w_futs. apply (inv_w_next_fid s1). subst s1. auto with inv. }
  assert (M2 : mv s s2).
  { apply moves_one. pose proof (M_alloc_wr (led_of s)) as M. cbn in M.
    unfold led_of at 2. subst s2 s1. cbn. rewrite map_app. exact M. }
  pose proof (linv_moves _ _ M2 L) as L2.
  destruct (connecting s2); [cbn; split; auto|].
  destruct (handle_write_spec s2 I2 L2) as [I3 M3].
  cbn [fst]. split.
  - apply inv_maybe_ael. destruct (wbuf (handle_write s2)); auto with inv.
  - eapply mv_trans; [exact M2|]. eapply mv_trans; [exact M3|].
    eapply mv_trans; [|apply mv_maybe_ael].
    destruct (wbuf (handle_write s2)); [apply mv_refl|apply mv_add_io_state].
Qed.

(* ---------- connect ---------- *)
Lemma do_connect_spec : forall fl s, Inv s -> conn_future s = None ->
  Inv (fst (do_connect fl s)) /\ mv s (fst (do_connect fl s)).
Proof.
  intros fl s I Hc. unfold do_connect.
  set (s1 := w_conn_future (Some (next_fid s)) (w_connecting true (w_next_fid (S (next_fid s)) s))).
  assert (I1 : Inv s1).
  { subst s1. apply inv_w_conn_future, inv_w_connecting, inv_w_next_fid, I. }
  assert (M1 : mv s s1).
  { apply moves_one. pose proof (M_alloc_cn (led_of s) Hc) as M. exact M. }
  destruct (closed s); [cbn; split; auto|].
  destruct fl; cbn [fst].
  - split; [apply inv_close; auto|]. eapply mv_trans; [exact M1|apply mv_close].
  - split; [auto with inv|]. eapply mv_trans; [exact M1|apply mv_add_io_state].
Qed.

Lemma handle_connect_spec : forall so s, Inv s -> LInv (led_of s) ->
  Inv (handle_connect so s) /\ mv s (handle_connect so s).
Proof.
  intros so s I L. unfold handle_connect. destruct so.
  - split; [apply inv_close; auto with inv|].
    eapply mv_trans; [|apply mv_close]. apply mv_eq; reflexivity.
  - destruct (conn_future s) as [f|] eqn:Ec.
    + split.
      * apply inv_w_connecting. apply inv_emit_nodata; auto with inv.
        intros r Hr. exfalso. apply (li_wnotreq _ L f).
        -- cbn. rewrite Ec. apply in_or_app. right. left. reflexivity.
        -- cbn. change f with (fst (f, r)). apply in_map. exact Hr.
      * eapply mv_trans; [|apply mv_eq; reflexivity].
        apply moves_one. pose proof (M_cn_done (led_of s) f ODone Ec) as M. exact M.
    + split; [auto with inv|apply mv_eq; reflexivity].
Qed.

(* ---------- _handle_events ---------- *)
Lemma handle_events_spec : forall r w e so fd s, Inv s -> LInv (led_of s) ->
  Inv (fst (handle_events r w e so fd s)) /\ mv s (fst (handle_events r w e so fd s)).
Proof.
  intros r w e so fd s I L. unfold handle_events.
  destruct (closed s); [cbn; split; [auto|apply mv_refl]|].
  assert (H1 : Inv (if connecting s then handle_connect so s else s) /\
               mv s (if connecting s then handle_connect so s else s)).
  { destruct (connecting s); [apply handle_connect_spec; auto|split; [auto|apply mv_refl]]. }
  destruct H1 as [I1 M1]. set (s1 := if connecting s then handle_connect so s else s) in *.
  destruct (closed s1); [cbn; split; auto|].
  assert (H2 : Inv (fst (if r then handle_read s1 else (s1, None))) /\
               mv s (fst (if r then handle_read s1 else (s1, None)))).
  { destruct r; cbn [fst]; [|split; auto].
    split; [apply inv_handle_read; auto|eapply mv_trans; [exact M1|apply mv_handle_read]]. }
  destruct (if r then handle_read s1 else (s1, None)) as [s2 x]. cbn [fst] in H2. destruct H2 as [I2 M2].
  destruct x as [x|].
  - destruct x; cbn [fst]; (split; [apply inv_close; auto|eapply mv_trans; [exact M2|apply mv_close]]).
  - destruct (closed s2); [cbn; split; auto|].
    pose proof (linv_moves _ _ M2 L) as L2.
    assert (H3 : Inv (if w then handle_write s2 else s2) /\ mv s (if w then handle_write s2 else s2)).
    { destruct w; [|split; auto]. destruct (handle_write_spec s2 I2 L2) as [I3 M3].
      split; auto. eapply mv_trans; [exact M2|exact M3]. }
    destruct H3 as [I3 M3]. set (s3 := if w then handle_write s2 else s2) in *.
    destruct (closed s3); [cbn; split; auto|].
    destruct e; cbn [fst].
    + split.
      * apply inv_emit_plain; [intros; discriminate|]. auto with inv.
      * eapply mv_trans; [exact M3|]. eapply mv_trans; [|apply mv_emit_plain; intros; discriminate].
        apply mv_eq; reflexivity.
    + destruct (io_state s3) as [[r0 w0]|] eqn:Eio; cbn [fst].
      * match goal with |- context[if ?c then s3 else _] => destruct c end.
        -- split; auto.
        -- split; [auto with inv|]. eapply mv_trans; [exact M3|apply mv_io].
      * split; [apply inv_close; auto|]. eapply mv_trans; [exact M3|apply mv_close].
Qed.

(* ---------- IOLoop callbacks ---------- *)
Lemma run_cb_spec : forall c s, Inv s -> Inv (run_cb s c) /\ mv s (run_cb s c).
Proof.
  intros c s I. destruct c; cbn.
  - split; [apply inv_emit_plain; auto; intros; discriminate|apply mv_emit_plain; intros; discriminate].
  - split.
    + apply inv_close. apply inv_emit_plain; auto; intros; discriminate.
    + apply mv_trans with (b := emit (EvRan CbDeferredClose) s); [apply mv_emit_plain; intros; discriminate|apply mv_close].
Qed.

Lemma fold_run_cb_spec : forall q s, Inv s -> Inv (fold_left run_cb q s) /\ mv s (fold_left run_cb q s).
Proof.
  induction q as [|c q IH]; intros s I; cbn; [split; [auto|apply mv_refl]|].
  destruct (run_cb_spec c s I) as [I1 M1]. destruct (IH _ I1) as [I2 M2].
  split; auto. eapply mv_trans; eauto.
Qed.

(* ---------- one step ---------- *)
Definition op_ok (s : st) (o : op) : Prop :=
  match o with OConnect _ => conn_future s = None | _ => True end.

Lemma log_fresh_of_linv : forall s, LInv (led_of s) -> log_fresh s.
Proof. intros s L f o H. apply (li_logfresh _ L f o H). Qed.

Theorem step_spec : forall o s, Inv s -> LInv (led_of s) -> op_ok s o ->
  Inv (fst (step s o)) /\ mv s (fst (step s o)).
Proof.
  intros o s I L Hok. destruct o; cbn [step].
  - split; [apply inv_do_read; auto; apply log_fresh_of_linv; auto|apply mv_do_read].
  - apply do_write_spec; auto.
  - apply do_connect_spec; auto.
  - cbn [fst]. split; [auto with inv|]. eapply mv_trans; [|apply mv_maybe_ael]. apply mv_eq; reflexivity.
  - cbn [fst]. split; [apply inv_close; auto|apply mv_close].
  - cbn [fst]. split; [|apply mv_eq; reflexivity].
    destruct I. constructor; cbn; auto.
    rewrite qdata_app, app_assoc, i_q. f_equal. destruct t; cbn; auto using app_nil_r.
  - cbn [fst]. split; [auto with inv|apply mv_eq; reflexivity].
  - destruct (io_state s) as [[lr lw]|]; [|cbn; split; [auto|apply mv_refl]].
    destruct (closed s); [cbn; split; [auto|apply mv_refl]|].
    destruct (r && lr || w && lw || e); [|cbn; split; [auto|apply mv_refl]].
    apply handle_events_spec; auto.
  - cbn [fst]. destruct (fold_run_cb_spec (cbq s) (w_cbq [] s) ltac:(auto with inv)) as [I1 M1].
    split; [exact I1|exact M1].
Qed.

(* ---------- all operation sequences ---------- *)
Fixpoint run_ok (s : st) (p : list op) : Prop :=
  match p with
  | [] => True
  | o :: p' => op_ok s o /\ run_ok (fst (step s o)) p'
  end.

Theorem run_spec : forall p s, Inv s -> LInv (led_of s) -> run_ok s p ->
  Inv (run s p) /\ LInv (led_of (run s p)) /\ mv s (run s p).
Proof.
  induction p as [|o p IH]; intros s I L Hok; cbn [run].
  - split; [exact I|split; [exact L|apply mv_refl]].
  - destruct Hok as [Ho Hok]. destruct (step_spec o s I L Ho) as [I1 M1].
    pose proof (linv_moves _ _ M1 L) as L1.
    destruct (IH _ I1 L1 Hok) as (I2 & L2 & M2).
    split; [exact I2|split; [exact L2|eapply mv_trans; eauto]].
Qed.

Theorem reachable_spec : forall c m mw p, run_ok (init c m mw) p ->
  Inv (run (init c m mw) p) /\ LInv (led_of (run (init c m mw) p)).
Proof.
  intros c m mw p H. destruct (run_spec p (init c m mw) (inv_init c m mw) (linv_init c m mw) H) as (A & B & _).
  split; auto.
Qed.
