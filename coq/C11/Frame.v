(* C11 — frame facts: only OArrive changes [arrived]; only _start_read extends [reqs]. *)
From Coq Require Import List NArith Arith Bool Lia.
Import ListNotations.
From TV Require Import C11.Model C11.Proofs1.

Definition same (s s' : st) : Prop := arrived s' = arrived s /\ reqs s' = reqs s.

Lemma same_refl : forall s, same s s. Proof. split; reflexivity. Qed.
Lemma same_trans : forall a b c, same a b -> same b c -> same a c.
Proof. intros a b c [A B] [C D]. split; congruence. Qed.

Ltac sm := repeat first
  [ apply same_refl
  | match goal with |- same _ (match ?x with _ => _ end) => destruct x end
  | match goal with |- same _ (if ?x then _ else _) => destruct x end
  | match goal with |- same _ (fst (match ?x with _ => _ end)) => destruct x; cbn [fst] end
  | match goal with |- same _ (fst (if ?x then _ else _)) => destruct x; cbn [fst] end
  | (split; reflexivity) ].

Lemma same_add_io_state : forall r w s, same s (add_io_state r w s).
Proof. intros. destruct (add_io_state_eq r w s) as [x ->]. split; reflexivity. Qed.
Lemma same_maybe_ael : forall s, same s (maybe_add_error_listener s).
Proof. intros. destruct (maybe_ael_eq s) as [x ->]. split; reflexivity. Qed.

Lemma same_finish_read : forall n s, same s (finish_read n s).
Proof.
  intros n s. unfold finish_read.
  destruct (user s); [|destruct n; [|destruct (S n <=? rbs s)]]; cbn;
    (eapply same_trans; [|apply same_maybe_ael]); destruct (rd_future s); split; reflexivity.
Qed.

Lemma same_read_from_buffer : forall p s, same s (read_from_buffer p s).
Proof. intros. unfold read_from_buffer. eapply same_trans; [|apply same_finish_read]. split; reflexivity. Qed.

Lemma same_settle : forall s f, same s (settle_closed s f).
Proof. intros. unfold settle_closed. destruct (done_in (log s) f); split; reflexivity. Qed.

Lemma same_fold_settle : forall l s, same s (fold_left settle_closed l s).
Proof.
  induction l as [|f l IH]; intros s; cbn; [apply same_refl|].
  eapply same_trans; [apply same_settle|apply IH].
Qed.

Lemma same_signal_closed : forall s, same s (signal_closed s).
Proof.
  intros s. unfold signal_closed.
  set (s0 := match rd_future s with Some _ => _ | None => s end).
  assert (H0 : same s s0).
  { subst s0. destruct (rd_future s); [|apply same_refl]. cbn. destruct (user s); split; reflexivity. }
  match goal with |- same s (w_wbuf [] (if close_cb ?x then _ else _)) =>
    assert (H1 : same s x) end.
  { eapply same_trans; [|apply same_fold_settle]. eapply same_trans; [exact H0|]. split; reflexivity. }
  match goal with |- same s (w_wbuf [] (if close_cb ?x then _ else _)) => destruct (close_cb x) end;
    (eapply same_trans; [exact H1|]); split; reflexivity.
Qed.

Lemma same_close : forall e s, same s (close e s).
Proof.
  intros e s. unfold close. eapply same_trans; [|apply same_signal_closed].
  destruct (closed s); [apply same_refl|].
  set (s1 := match e with Some e0 => w_error (Some e0) s | None => s end).
  assert (H1 : same s s1) by (subst s1; destruct e; split; reflexivity).
  match goal with |- same s (w_closed true (emit EvCloseFd (w_io_state None ?x))) => assert (H2 : same s x) end.
  { eapply same_trans; [exact H1|]. destruct (rd_uclose s1).
    - eapply same_trans; [|apply same_finish_read]. split; reflexivity.
    - destruct (rd_future s1); [|apply same_refl].
      destruct (find_read_pos s1); try apply same_refl. apply same_read_from_buffer. }
  eapply same_trans; [exact H2|]. split; reflexivity.
Qed.

Lemma same_read_to_buffer : forall s, same s (fst (read_to_buffer s)).
Proof.
  intros s. unfold read_to_buffer, read_from_fd.
  destruct (inq s) as [|[bs| |r] q]; cbn [fst].
  - apply same_refl.
  - match goal with |- context[length (firstn ?k bs)] => generalize k end. intros k.
    destruct (length (firstn k bs)).
    + cbn [fst]. eapply same_trans; [|apply same_close]. destruct (k <? length bs); split; reflexivity.
    + match goal with |- same _ (fst (if ?c then _ else _)) => destruct c end; cbn [fst].
      * eapply same_trans; [|apply same_close]. destruct (k <? length bs); split; reflexivity.
      * destruct (k <? length bs); split; reflexivity.
  - cbn. eapply same_trans; [|apply same_close]. split; reflexivity.
  - destruct r; cbn; (eapply same_trans; [|apply same_close]); split; reflexivity.
Qed.

Lemma same_rloop : forall fuel t nfp s, same s (fst (rloop fuel t nfp s)).
Proof.
  induction fuel as [|fuel IH]; intros t nfp s; cbn [rloop].
  - destruct (closed s); apply same_refl.
  - destruct (closed s); [apply same_refl|].
    pose proof (same_read_to_buffer s) as M1.
    destruct (read_to_buffer s) as [s1 r]. cbn [fst] in M1.
    assert (Hrest : same s (fst (if match t with Some t0 => t0 <=? rbs s1 | None => false end
               then (s1, of_frp (find_read_pos s1))
               else if nfp <=? rbs s1
                    then match find_read_pos s1 with
                         | FPos p => (s1, LPos p)
                         | FUnsat => (s1, LExn XUnsat)
                         | FNone => rloop fuel t (2 * rbs s1) s1
                         end
                    else rloop fuel t nfp s1))).
    { destruct (match t with Some t0 => t0 <=? rbs s1 | None => false end); [exact M1|].
      destruct (nfp <=? rbs s1); [|eapply same_trans; [exact M1|apply IH]].
      destruct (find_read_pos s1); try exact M1. eapply same_trans; [exact M1|apply IH]. }
    destruct r as [[|n]| |x]; auto.
Qed.

Lemma same_handle_read : forall s, same s (fst (handle_read s)).
Proof.
  intros s. unfold handle_read, read_to_buffer_loop.
  pose proof (same_rloop (S (qmeasure (inq s))) (loop_target s) 0 s) as M.
  destruct (rloop (S (qmeasure (inq s))) (loop_target s) 0 s) as [s1 r]. cbn [fst] in M.
  destruct r as [p| |x]; cbn [fst]; auto.
  - eapply same_trans; [exact M|apply same_read_from_buffer].
  - destruct x; cbn [fst]; auto; (eapply same_trans; [exact M|apply same_close]).
Qed.

Lemma same_try_inline_read : forall s, same s (fst (try_inline_read s)).
Proof.
  intros s. unfold try_inline_read, read_to_buffer_loop.
  destruct (find_read_pos s); cbn [fst]; try apply same_refl; try apply same_read_from_buffer.
  destruct (closed s); cbn [fst]; [apply same_refl|].
  pose proof (same_rloop (S (qmeasure (inq s))) (loop_target s) 0 s) as M.
  destruct (rloop (S (qmeasure (inq s))) (loop_target s) 0 s) as [s1 r]. cbn [fst] in M.
  destruct r as [p| |x]; cbn [fst]; auto.
  - eapply same_trans; [exact M|apply same_read_from_buffer].
  - destruct (closed s1); auto. eapply same_trans; [exact M|apply same_add_io_state].
Qed.

Lemma same_finish_call : forall c f s p, same s (fst p) -> same s (fst (finish_call c f p)).
Proof.
  intros c f s [s1 [x|]] M; cbn in *; auto.
  destruct x; cbn; auto. destruct c; cbn; auto. eapply same_trans; [exact M|apply same_close].
Qed.

(* do_read: [arrived] unchanged; [reqs] gains exactly the request of the returned future *)
Lemma do_read_reqs : forall r s,
  arrived (fst (do_read r s)) = arrived s /\
  match snd (do_read r s) with
  | RetFut f => reqs (fst (do_read r s)) = reqs s ++ [(f, r)] /\ f = next_fid s
  | _ => reqs (fst (do_read r s)) = reqs s \/ reqs (fst (do_read r s)) = reqs s ++ [(next_fid s, r)]
  end.
Proof.
  intros r s. unfold do_read, start_read.
  destruct (rd_future s) as [f0|] eqn:Hn; [cbn; auto|].
  set (s0 := w_reqs (reqs s ++ [(next_fid s, r)]) (w_rd_future (Some (next_fid s)) (w_next_fid (S (next_fid s)) s))).
  assert (Hfc : forall c p, same s0 (fst p) ->
            arrived (fst (finish_call c (next_fid s) p)) = arrived s /\
            match snd (finish_call c (next_fid s) p) with
            | RetFut f => reqs (fst (finish_call c (next_fid s) p)) = reqs s ++ [(f, r)] /\ f = next_fid s
            | _ => reqs (fst (finish_call c (next_fid s) p)) = reqs s \/
                   reqs (fst (finish_call c (next_fid s) p)) = reqs s ++ [(next_fid s, r)]
            end).
  { assert (A0 : arrived s0 = arrived s) by reflexivity.
    assert (B0 : reqs s0 = reqs s ++ [(next_fid s, r)]) by reflexivity.
    intros c [s1 [x|]] [A B]; cbn [fst snd finish_call] in *.
    - destruct x; cbn [fst snd]; try (split; [congruence|right; congruence]).
      destruct c; cbn [fst snd].
      + destruct (same_close (Some EUnsat) s1) as [C D]. split; [congruence|]. split; [congruence|reflexivity].
      + split; [congruence|right; congruence].
    - split; [congruence|]. split; [congruence|reflexivity]. }
  destruct r as [n pt|n pt|d mx|q mx|].
  - apply Hfc. eapply same_trans; [|apply same_try_inline_read]. split; reflexivity.
  - apply Hfc. eapply same_trans; [|apply same_try_inline_read].
    destruct (n <=? rbs s0); [split; reflexivity|]. destruct (rbs s0); split; reflexivity.
  - apply Hfc. eapply same_trans; [|apply same_try_inline_read]. split; reflexivity.
  - apply Hfc. eapply same_trans; [|apply same_try_inline_read]. split; reflexivity.
  - destruct (closed s0); cbn [fst snd].
    + destruct (same_finish_read (rbs s0) s0) as [A B]. split; [rewrite A; reflexivity|].
      split; [rewrite B; reflexivity|reflexivity].
    + apply Hfc. eapply same_trans; [|apply same_try_inline_read]. split; reflexivity.
Qed.

(* write side *)
Lemma same_wloop : forall fuel s, same s (fst (wloop fuel s)).
Proof.
  induction fuel as [|fuel IH]; intros s; cbn [wloop].
  - destruct (wbuf s); cbn; split; reflexivity.
  - destruct (wbuf s) as [|b w] eqn:Ew; [apply same_refl|]. rewrite <- Ew.
    unfold write_to_fd. destruct (sscript s) as [|[k| |x] r]; cbn [fst].
    + destruct (length (wbuf s)); cbn [fst]; [split; reflexivity|].
      eapply same_trans; [|apply IH]. split; reflexivity.
    + destruct (Nat.min k (length (wbuf s))); cbn [fst]; [split; reflexivity|].
      eapply same_trans; [|apply IH]. split; reflexivity.
    + split; reflexivity.
    + eapply same_trans; [|apply same_close]. split; reflexivity.
Qed.

Lemma same_resolve_writes : forall l s, same s (resolve_writes l s).
Proof.
  induction l as [|[i f] l IH]; intros s; cbn [resolve_writes]; [split; reflexivity|].
  destruct (w_done s <? i); [split; reflexivity|]. eapply same_trans; [|apply IH]. split; reflexivity.
Qed.

Lemma same_handle_write : forall s, same s (handle_write s).
Proof.
  intros s. unfold handle_write. pose proof (same_wloop (S (length (wbuf s))) s) as M.
  destruct (wloop (S (length (wbuf s))) s) as [s1 e]. cbn [fst] in M.
  destruct e; auto. eapply same_trans; [exact M|apply same_resolve_writes].
Qed.

Lemma same_do_write : forall d s, same s (fst (do_write d s)).
Proof.
  intros d s. unfold do_write. destruct (closed s); [apply same_refl|].
  match goal with |- context[if ?c then (s, RetRaise XWBufFull) else _] => destruct c end; [apply same_refl|].
  match goal with |- same s (fst (if connecting ?x then _ else _)) => destruct (connecting x) end; cbn [fst].
  - split; reflexivity.
  - eapply same_trans; [|apply same_maybe_ael].
    match goal with |- same s (match wbuf (handle_write ?x) with _ => _ end) =>
      assert (H : same s (handle_write x)) by (eapply same_trans; [|apply same_handle_write]; split; reflexivity);
      destruct (wbuf (handle_write x)) end; auto.
    eapply same_trans; [exact H|apply same_add_io_state].
Qed.

Lemma same_do_connect : forall f s, same s (fst (do_connect f s)).
Proof.
  intros f s. unfold do_connect. destruct (closed s); [split; reflexivity|].
  destruct f; cbn [fst].
  - eapply same_trans; [|apply same_close]. split; reflexivity.
  - eapply same_trans; [|apply same_add_io_state]. split; reflexivity.
Qed.

Lemma same_handle_connect : forall so s, same s (handle_connect so s).
Proof.
  intros so s. unfold handle_connect. destruct so.
  - eapply same_trans; [|apply same_close]. split; reflexivity.
  - destruct (conn_future s); split; reflexivity.
Qed.

Lemma same_handle_events : forall r w e so fd s, same s (fst (handle_events r w e so fd s)).
Proof.
  intros r w e so fd s. unfold handle_events.
  destruct (closed s); [apply same_refl|].
  assert (M1 : same s (if connecting s then handle_connect so s else s))
    by (destruct (connecting s); [apply same_handle_connect|apply same_refl]).
  set (s1 := if connecting s then handle_connect so s else s) in *.
  destruct (closed s1); [exact M1|].
  assert (M2 : same s (fst (if r then handle_read s1 else (s1, None)))).
  { destruct r; cbn [fst]; auto. eapply same_trans; [exact M1|apply same_handle_read]. }
  destruct (if r then handle_read s1 else (s1, None)) as [s2 x]. cbn [fst] in M2.
  destruct x as [x|].
  - destruct x; cbn [fst]; (eapply same_trans; [exact M2|apply same_close]).
  - destruct (closed s2); [exact M2|].
    assert (M3 : same s (if w then handle_write s2 else s2)).
    { destruct w; auto. eapply same_trans; [exact M2|apply same_handle_write]. }
    set (s3 := if w then handle_write s2 else s2) in *.
    destruct (closed s3); [exact M3|].
    destruct e; cbn [fst].
    + eapply same_trans; [exact M3|]. split; reflexivity.
    + destruct (io_state s3) as [[r0 w0]|]; cbn [fst].
      * match goal with |- context[if ?c then s3 else _] => destruct c end; auto;
          try (eapply same_trans; [exact M3|]; split; reflexivity).
      * eapply same_trans; [exact M3|apply same_close].
Qed.

Lemma same_fold_run_cb : forall q s, same s (fold_left run_cb q s).
Proof.
  induction q as [|c q IH]; intros s; cbn; [apply same_refl|].
  eapply same_trans; [|apply IH]. destruct c; cbn.
  - split; reflexivity.
  - eapply same_trans; [|apply same_close]. split; reflexivity.
Qed.

Definition arrive_data (o : op) : list N :=
  match o with OArrive (TData bs) => bs | _ => [] end.

Fixpoint stream_of (p : list op) : list N :=
  match p with [] => [] | o :: p' => arrive_data o ++ stream_of p' end.

Lemma step_arrived : forall o s, arrived (fst (step s o)) = arrived s ++ arrive_data o.
Proof.
  intros o s. destruct o; cbn [step arrive_data]; rewrite ?app_nil_r.
  - apply do_read_reqs.
  - apply same_do_write.
  - apply same_do_connect.
  - cbn. destruct (maybe_ael_eq (w_close_cb true s)) as [x ->]. reflexivity.
  - cbn. apply same_close.
  - cbn. destruct t; rewrite ?app_nil_r; reflexivity.
  - reflexivity.
  - destruct (io_state s) as [[lr lw]|]; [|reflexivity].
    destruct (closed s); [reflexivity|].
    destruct (r && lr || w && lw || e); [|reflexivity]. apply same_handle_events.
  - cbn. destruct (same_fold_run_cb (cbq s) (w_cbq [] s)) as [A _]. exact A.
Qed.

Lemma run_arrived : forall p s, arrived (run s p) = arrived s ++ stream_of p.
Proof.
  induction p as [|o p IH]; intros s; cbn; [rewrite app_nil_r; reflexivity|].
  rewrite IH, step_arrived, app_assoc. reflexivity.
Qed.
