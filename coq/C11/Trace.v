(* Rendering of model runs as observables (shared by C11.Run and C13.Run). Definitions only. *)
From Coq Require Import List NArith ZArith Arith Bool String.
Import ListNotations.
From TV Require Import Lib.Obs C11.Model.
Local Open Scope string_scope.

Definition o_err (e : option errk) : obs :=
  match e with
  | None => ONone
  | Some EReset => OTag "EReset" | Some EOSErr => OTag "EOSErr" | Some EUnsat => OTag "EUnsat"
  | Some EFd => OTag "EFd" | Some EConn => OTag "EConn" | Some EBufFull => OTag "EBufFull" | Some EAssert => OTag "EAssert"
  end.

Definition o_outcome (o : outcome) : obs :=
  match o with
  | OData bs => OBytes bs
  | OInto n bs => OList [OTag "int"; OInt (Z.of_nat n); OBytes bs]
  | ODone => OTag "ok"
  | OClosed e => OList [OTag "closed"; o_err e]
  end.

Definition o_cb (c : cb) : obs :=
  match c with CbUserClose => OTag "user_close_cb" | CbDeferredClose => OTag "deferred_close" end.

Definition o_event (e : event) : obs :=
  match e with
  | EvDone f o => OList [OTag "done"; OInt (Z.of_nat f); o_outcome o]
  | EvCallback c => OList [OTag "add_callback"; o_cb c]
  | EvRan c => OList [OTag "ran"; o_cb c]
  | EvCloseFd => OTag "close_fd"
  end.

Definition o_exn (x : exn) : obs :=
  match x with
  | XUnsat => OTag "UnsatisfiableReadError"
  | XClosed e => OList [OTag "StreamClosedError"; o_err e]
  | XOSErr => OTag "OSError"
  | XBufFull => OTag "StreamBufferFullError"
  | XWBufFull => OTag "StreamBufferFullError"
  | XAlreadyReading => OTag "AssertionError"
  | XAttr => OTag "AttributeError"
  | XFuel => OTag "OutOfFuel"
  end.

Definition o_ret (r : ret) : obs :=
  match r with
  | RetNone => ONone
  | RetFut f => OInt (Z.of_nat f)
  | RetRaise x => OList [OTag "raise"; o_exn x]
  end.

Definition state_code (s : st) : Z :=
  match io_state s with
  | None => (-1)%Z
  | Some (r, w) => ((if r then 1 else 0) + (if w then 2 else 0))%Z
  end.

Definition o_status (s : st) : obs :=
  OList [OBool (closed s); OInt (state_code s); OInt (Z.of_nat (rbs s))].

(* one record per program step: [return value; events of this step; status] *)
Fixpoint trace (s : st) (p : list op) : list obs :=
  match p with
  | [] => [OList [OBytes (sent s); o_err (error s); OBool (bad s)]]
  | o :: p' =>
      let '(s', r) := step s o in
      OList [o_ret r; OList (map o_event (skipn (List.length (log s)) (log s'))); o_status s']
      :: trace s' p'
  end.

Definition input := (nat * nat * option nat * list op)%type.

Definition run_trace (i : input) : obs :=
  let '(c, m, mw, p) := i in OList (trace (init c m mw) p).
