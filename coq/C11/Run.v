(* C11 — executable entry points used by the correspondence check. *)
From Coq Require Import List NArith ZArith Arith Bool String.
Import ListNotations.
From TV Require Import Lib.Obs C11.Model C11.Trace.
Local Open Scope string_scope.

Definition run_case (i : input) : obs := run_trace i.

(* ----- the property on observables: the data of all read results, in settlement order,
   is a prefix of everything the transport delivered (nothing lost, duplicated, reordered) ----- *)
Definition ev_data (e : obs) : list N :=
  match e with
  | OList [OTag t; OInt _; OBytes d] => if String.eqb t "done" then d else []
  | OList [OTag t; OInt _; OList [OTag u; OInt _; OBytes d]] =>
      if String.eqb t "done" && String.eqb u "int" then d else []
  | _ => []
  end.

Definition rec_events (r : obs) : list obs :=
  match r with OList [_; OList evs; _] => evs | _ => [] end.

Definition trace_events (o : obs) : list obs :=
  match o with OList recs => flat_map rec_events recs | _ => [] end.

Definition arrive_bytes (o : op) : list N := match o with OArrive (TData bs) => bs | _ => [] end.

Definition check_case (i : input) (o : obs) : bool :=
  let '(_, _, _, p) := i in
  prefixb (flat_map ev_data (trace_events o)) (flat_map arrive_bytes p).
