(* C11/C13 — executable model of tornado.iostream.BaseIOStream (reads, writes,
   connect, close) over a scripted transport.  Definitions only.
   Each function transcribes the Python function of the same name in
   /repo/tornado/iostream.py; see NOTES.md for the line-by-line map. *)
From Coq Require Import List NArith Arith Bool.
Import ListNotations.

(* ---------- byte-string search: bytearray.find ---------- *)
Fixpoint prefixb (p s : list N) : bool :=
  match p, s with
  | [], _ => true
  | a :: p', b :: s' => N.eqb a b && prefixb p' s'
  | _ :: _, [] => false
  end.

Fixpoint find (d s : list N) : option nat :=
  if prefixb d s then Some 0
  else match s with [] => None | _ :: s' => option_map S (find d s') end.

(* ---------- regex subset: a sequence of one-byte atoms, each optionally `?`
   (greedy).  [search] is m.end() of re.search (leftmost start, then the
   backtracking priority of greedy `?`). ---------- *)
Record atom := mkatom { a_opt : bool; a_neg : bool; a_set : list N }.
Definition pat := list atom.
Definition amatch (a : atom) (b : N) : bool := xorb (a_neg a) (existsb (N.eqb b) (a_set a)).

Fixpoint match_here (p : pat) (s : list N) : option nat :=
  match p with
  | [] => Some 0
  | a :: p' =>
      let take := match s with
                  | b :: s' => if amatch a b then option_map S (match_here p' s') else None
                  | [] => None
                  end in
      match take with
      | Some k => Some k
      | None => if a_opt a then match_here p' s else None
      end
  end.

Fixpoint search (p : pat) (s : list N) : option nat :=
  match match_here p s with
  | Some k => Some k
  | None => match s with [] => None | _ :: s' => option_map S (search p s') end
  end.

(* ---------- vocabulary ---------- *)
Inductive errk := EReset | EOSErr | EUnsat | EFd | EConn | EBufFull | EAssert.
Inductive tok := TData (bs : list N) | TEof | TErr (reset : bool).
Inductive sstep := SAccept (k : nat) | SBlock | SErr (reset : bool).
Inductive outcome :=
| OData (bs : list N)               (* future result: bytes *)
| OInto (n : nat) (bs : list N)     (* future result: int n; bs = caller buffer[:n] *)
| ODone                             (* write: None / connect: the stream *)
| OClosed (e : option errk).        (* StreamClosedError(real_error = e) *)
Inductive cb := CbUserClose | CbDeferredClose.
Inductive event :=
| EvDone (f : nat) (o : outcome)    (* future f settled *)
| EvCallback (c : cb)               (* io_loop.add_callback(c) *)
| EvRan (c : cb)                    (* the loop ran callback c *)
| EvCloseFd.

Inductive rreq :=
| RBytes (n : nat) (partial : bool)
| RInto (n : nat) (partial : bool)
| RUntil (d : list N) (mx : option nat)
| RRegex (p : pat) (mx : option nat)
| RUntilClose.

Inductive exn :=
| XUnsat | XClosed (e : option errk) | XOSErr | XBufFull | XWBufFull
| XAlreadyReading | XAttr | XFuel.

Inductive op :=
| ORead (r : rreq)
| OWrite (data : list N)
| OConnect (fail : bool)
| OSetCloseCb
| OClose (exc : bool)
| OArrive (t : tok)
| OSendScript (x : sstep)
| OEvent (r w e soerr fderr : bool)
| ORunCallbacks.

Inductive ret := RetNone | RetFut (f : nat) | RetRaise (x : exn).

Definition fill_byte : N := 46%N.

Record st := mkst {
  chunk : nat;
  maxbuf : nat;
  maxwbuf : option nat;
  rb : list N;
  rbs : nat;
  user : bool;
  after : option (list N);
  rd_bytes : option nat;
  rd_partial : bool;
  rd_delim : option (list N);
  rd_regex : option pat;
  rd_max : option nat;
  rd_uclose : bool;
  rd_future : option nat;
  wbuf : list N;
  w_total : nat;
  w_done : nat;
  w_futs : list (nat * nat);
  conn_future : option nat;
  connecting : bool;
  close_cb : bool;
  io_state : option (bool * bool);
  closed : bool;
  error : option errk;
  inq : list tok;
  sscript : list sstep;
  sent : list N;
  cbq : list cb;
  next_fid : nat;
  log : list event;
  reqs : list (nat * rreq);
  received : list N;
  arrived : list N;
  bad : bool
}.

Definition w_chunk (v : nat) (s : st) : st :=
  mkst v (maxbuf s) (maxwbuf s) (rb s) (rbs s) (user s) (after s) (rd_bytes s) (rd_partial s) (rd_delim s) (rd_regex s) (rd_max s) (rd_uclose s) (rd_future s) (wbuf s) (w_total s) (w_done s) (w_futs s) (conn_future s) (connecting s) (close_cb s) (io_state s) (closed s) (error s) (inq s) (sscript s) (sent s) (cbq s) (next_fid s) (log s) (reqs s) (received s) (arrived s) (bad s).

Definition w_maxbuf (v : nat) (s : st) : st :=
  mkst (chunk s) v (maxwbuf s) (rb s) (rbs s) (user s) (after s) (rd_bytes s) (rd_partial s) (rd_delim s) (rd_regex s) (rd_max s) (rd_uclose s) (rd_future s) (wbuf s) (w_total s) (w_done s) (w_futs s) (conn_future s) (connecting s) (close_cb s) (io_state s) (closed s) (error s) (inq s) (sscript s) (sent s) (cbq s) (next_fid s) (log s) (reqs s) (received s) (arrived s) (bad s).

Definition w_maxwbuf (v : option nat) (s : st) : st :=
  mkst (chunk s) (maxbuf s) v (rb s) (rbs s) (user s) (after s) (rd_bytes s) (rd_partial s) (rd_delim s) (rd_regex s) (rd_max s) (rd_uclose s) (rd_future s) (wbuf s) (w_total s) (w_done s) (w_futs s) (conn_future s) (connecting s) (close_cb s) (io_state s) (closed s) (error s) (inq s) (sscript s) (sent s) (cbq s) (next_fid s) (log s) (reqs s) (received s) (arrived s) (bad s).

Definition w_rb (v : list N) (s : st) : st :=
  mkst (chunk s) (maxbuf s) (maxwbuf s) v (rbs s) (user s) (after s) (rd_bytes s) (rd_partial s) (rd_delim s) (rd_regex s) (rd_max s) (rd_uclose s) (rd_future s) (wbuf s) (w_total s) (w_done s) (w_futs s) (conn_future s) (connecting s) (close_cb s) (io_state s) (closed s) (error s) (inq s) (sscript s) (sent s) (cbq s) (next_fid s) (log s) (reqs s) (received s) (arrived s) (bad s).

Definition w_rbs (v : nat) (s : st) : st :=
  mkst (chunk s) (maxbuf s) (maxwbuf s) (rb s) v (user s) (after s) (rd_bytes s) (rd_partial s) (rd_delim s) (rd_regex s) (rd_max s) (rd_uclose s) (rd_future s) (wbuf s) (w_total s) (w_done s) (w_futs s) (conn_future s) (connecting s) (close_cb s) (io_state s) (closed s) (error s) (inq s) (sscript s) (sent s) (cbq s) (next_fid s) (log s) (reqs s) (received s) (arrived s) (bad s).

Definition w_user (v : bool) (s : st) : st :=
  mkst (chunk s) (maxbuf s) (maxwbuf s) (rb s) (rbs s) v (after s) (rd_bytes s) (rd_partial s) (rd_delim s) (rd_regex s) (rd_max s) (rd_uclose s) (rd_future s) (wbuf s) (w_total s) (w_done s) (w_futs s) (conn_future s) (connecting s) (close_cb s) (io_state s) (closed s) (error s) (inq s) (sscript s) (sent s) (cbq s) (next_fid s) (log s) (reqs s) (received s) (arrived s) (bad s).

Definition w_after (v : option (list N)) (s : st) : st :=
  mkst (chunk s) (maxbuf s) (maxwbuf s) (rb s) (rbs s) (user s) v (rd_bytes s) (rd_partial s) (rd_delim s) (rd_regex s) (rd_max s) (rd_uclose s) (rd_future s) (wbuf s) (w_total s) (w_done s) (w_futs s) (conn_future s) (connecting s) (close_cb s) (io_state s) (closed s) (error s) (inq s) (sscript s) (sent s) (cbq s) (next_fid s) (log s) (reqs s) (received s) (arrived s) (bad s).

Definition w_rd_bytes (v : option nat) (s : st) : st :=
  mkst (chunk s) (maxbuf s) (maxwbuf s) (rb s) (rbs s) (user s) (after s) v (rd_partial s) (rd_delim s) (rd_regex s) (rd_max s) (rd_uclose s) (rd_future s) (wbuf s) (w_total s) (w_done s) (w_futs s) (conn_future s) (connecting s) (close_cb s) (io_state s) (closed s) (error s) (inq s) (sscript s) (sent s) (cbq s) (next_fid s) (log s) (reqs s) (received s) (arrived s) (bad s).

Definition w_rd_partial (v : bool) (s : st) : st :=
  mkst (chunk s) (maxbuf s) (maxwbuf s) (rb s) (rbs s) (user s) (after s) (rd_bytes s) v (rd_delim s) (rd_regex s) (rd_max s) (rd_uclose s) (rd_future s) (wbuf s) (w_total s) (w_done s) (w_futs s) (conn_future s) (connecting s) (close_cb s) (io_state s) (closed s) (error s) (inq s) (sscript s) (sent s) (cbq s) (next_fid s) (log s) (reqs s) (received s) (arrived s) (bad s).

Definition w_rd_delim (v : option (list N)) (s : st) : st :=
  mkst (chunk s) (maxbuf s) (maxwbuf s) (rb s) (rbs s) (user s) (after s) (rd_bytes s) (rd_partial s) v (rd_regex s) (rd_max s) (rd_uclose s) (rd_future s) (wbuf s) (w_total s) (w_done s) (w_futs s) (conn_future s) (connecting s) (close_cb s) (io_state s) (closed s) (error s) (inq s) (sscript s) (sent s) (cbq s) (next_fid s) (log s) (reqs s) (received s) (arrived s) (bad s).

Definition w_rd_regex (v : option pat) (s : st) : st :=
  mkst (chunk s) (maxbuf s) (maxwbuf s) (rb s) (rbs s) (user s) (after s) (rd_bytes s) (rd_partial s) (rd_delim s) v (rd_max s) (rd_uclose s) (rd_future s) (wbuf s) (w_total s) (w_done s) (w_futs s) (conn_future s) (connecting s) (close_cb s) (io_state s) (closed s) (error s) (inq s) (sscript s) (sent s) (cbq s) (next_fid s) (log s) (reqs s) (received s) (arrived s) (bad s).

Definition w_rd_max (v : option nat) (s : st) : st :=
  mkst (chunk s) (maxbuf s) (maxwbuf s) (rb s) (rbs s) (user s) (after s) (rd_bytes s) (rd_partial s) (rd_delim s) (rd_regex s) v (rd_uclose s) (rd_future s) (wbuf s) (w_total s) (w_done s) (w_futs s) (conn_future s) (connecting s) (close_cb s) (io_state s) (closed s) (error s) (inq s) (sscript s) (sent s) (cbq s) (next_fid s) (log s) (reqs s) (received s) (arrived s) (bad s).

Definition w_rd_uclose (v : bool) (s : st) : st :=
  mkst (chunk s) (maxbuf s) (maxwbuf s) (rb s) (rbs s) (user s) (after s) (rd_bytes s) (rd_partial s) (rd_delim s) (rd_regex s) (rd_max s) v (rd_future s) (wbuf s) (w_total s) (w_done s) (w_futs s) (conn_future s) (connecting s) (close_cb s) (io_state s) (closed s) (error s) (inq s) (sscript s) (sent s) (cbq s) (next_fid s) (log s) (reqs s) (received s) (arrived s) (bad s).

Definition w_rd_future (v : option nat) (s : st) : st :=
  mkst (chunk s) (maxbuf s) (maxwbuf s) (rb s) (rbs s) (user s) (after s) (rd_bytes s) (rd_partial s) (rd_delim s) (rd_regex s) (rd_max s) (rd_uclose s) v (wbuf s) (w_total s) (w_done s) (w_futs s) (conn_future s) (connecting s) (close_cb s) (io_state s) (closed s) (error s) (inq s) (sscript s) (sent s) (cbq s) (next_fid s) (log s) (reqs s) (received s) (arrived s) (bad s).

Definition w_wbuf (v : list N) (s : st) : st :=
  mkst (chunk s) (maxbuf s) (maxwbuf s) (rb s) (rbs s) (user s) (after s) (rd_bytes s) (rd_partial s) (rd_delim s) (rd_regex s) (rd_max s) (rd_uclose s) (rd_future s) v (w_total s) (w_done s) (w_futs s) (conn_future s) (connecting s) (close_cb s) (io_state s) (closed s) (error s) (inq s) (sscript s) (sent s) (cbq s) (next_fid s) (log s) (reqs s) (received s) (arrived s) (bad s).

Definition w_w_total (v : nat) (s : st) : st :=
  mkst (chunk s) (maxbuf s) (maxwbuf s) (rb s) (rbs s) (user s) (after s) (rd_bytes s) (rd_partial s) (rd_delim s) (rd_regex s) (rd_max s) (rd_uclose s) (rd_future s) (wbuf s) v (w_done s) (w_futs s) (conn_future s) (connecting s) (close_cb s) (io_state s) (closed s) (error s) (inq s) (sscript s) (sent s) (cbq s) (next_fid s) (log s) (reqs s) (received s) (arrived s) (bad s).

Definition w_w_done (v : nat) (s : st) : st :=
  mkst (chunk s) (maxbuf s) (maxwbuf s) (rb s) (rbs s) (user s) (after s) (rd_bytes s) (rd_partial s) (rd_delim s) (rd_regex s) (rd_max s) (rd_uclose s) (rd_future s) (wbuf s) (w_total s) v (w_futs s) (conn_future s) (connecting s) (close_cb s) (io_state s) (closed s) (error s) (inq s) (sscript s) (sent s) (cbq s) (next_fid s) (log s) (reqs s) (received s) (arrived s) (bad s).

Definition w_w_futs (v : list (nat * nat)) (s : st) : st :=
  mkst (chunk s) (maxbuf s) (maxwbuf s) (rb s) (rbs s) (user s) (after s) (rd_bytes s) (rd_partial s) (rd_delim s) (rd_regex s) (rd_max s) (rd_uclose s) (rd_future s) (wbuf s) (w_total s) (w_done s) v (conn_future s) (connecting s) (close_cb s) (io_state s) (closed s) (error s) (inq s) (sscript s) (sent s) (cbq s) (next_fid s) (log s) (reqs s) (received s) (arrived s) (bad s).

Definition w_conn_future (v : option nat) (s : st) : st :=
  mkst (chunk s) (maxbuf s) (maxwbuf s) (rb s) (rbs s) (user s) (after s) (rd_bytes s) (rd_partial s) (rd_delim s) (rd_regex s) (rd_max s) (rd_uclose s) (rd_future s) (wbuf s) (w_total s) (w_done s) (w_futs s) v (connecting s) (close_cb s) (io_state s) (closed s) (error s) (inq s) (sscript s) (sent s) (cbq s) (next_fid s) (log s) (reqs s) (received s) (arrived s) (bad s).

Definition w_connecting (v : bool) (s : st) : st :=
  mkst (chunk s) (maxbuf s) (maxwbuf s) (rb s) (rbs s) (user s) (after s) (rd_bytes s) (rd_partial s) (rd_delim s) (rd_regex s) (rd_max s) (rd_uclose s) (rd_future s) (wbuf s) (w_total s) (w_done s) (w_futs s) (conn_future s) v (close_cb s) (io_state s) (closed s) (error s) (inq s) (sscript s) (sent s) (cbq s) (next_fid s) (log s) (reqs s) (received s) (arrived s) (bad s).

Definition w_close_cb (v : bool) (s : st) : st :=
  mkst (chunk s) (maxbuf s) (maxwbuf s) (rb s) (rbs s) (user s) (after s) (rd_bytes s) (rd_partial s) (rd_delim s) (rd_regex s) (rd_max s) (rd_uclose s) (rd_future s) (wbuf s) (w_total s) (w_done s) (w_futs s) (conn_future s) (connecting s) v (io_state s) (closed s) (error s) (inq s) (sscript s) (sent s) (cbq s) (next_fid s) (log s) (reqs s) (received s) (arrived s) (bad s).

Definition w_io_state (v : option (bool * bool)) (s : st) : st :=
  mkst (chunk s) (maxbuf s) (maxwbuf s) (rb s) (rbs s) (user s) (after s) (rd_bytes s) (rd_partial s) (rd_delim s) (rd_regex s) (rd_max s) (rd_uclose s) (rd_future s) (wbuf s) (w_total s) (w_done s) (w_futs s) (conn_future s) (connecting s) (close_cb s) v (closed s) (error s) (inq s) (sscript s) (sent s) (cbq s) (next_fid s) (log s) (reqs s) (received s) (arrived s) (bad s).

Definition w_closed (v : bool) (s : st) : st :=
  mkst (chunk s) (maxbuf s) (maxwbuf s) (rb s) (rbs s) (user s) (after s) (rd_bytes s) (rd_partial s) (rd_delim s) (rd_regex s) (rd_max s) (rd_uclose s) (rd_future s) (wbuf s) (w_total s) (w_done s) (w_futs s) (conn_future s) (connecting s) (close_cb s) (io_state s) v (error s) (inq s) (sscript s) (sent s) (cbq s) (next_fid s) (log s) (reqs s) (received s) (arrived s) (bad s).

Definition w_error (v : option errk) (s : st) : st :=
  mkst (chunk s) (maxbuf s) (maxwbuf s) (rb s) (rbs s) (user s) (after s) (rd_bytes s) (rd_partial s) (rd_delim s) (rd_regex s) (rd_max s) (rd_uclose s) (rd_future s) (wbuf s) (w_total s) (w_done s) (w_futs s) (conn_future s) (connecting s) (close_cb s) (io_state s) (closed s) v (inq s) (sscript s) (sent s) (cbq s) (next_fid s) (log s) (reqs s) (received s) (arrived s) (bad s).

Definition w_inq (v : list tok) (s : st) : st :=
  mkst (chunk s) (maxbuf s) (maxwbuf s) (rb s) (rbs s) (user s) (after s) (rd_bytes s) (rd_partial s) (rd_delim s) (rd_regex s) (rd_max s) (rd_uclose s) (rd_future s) (wbuf s) (w_total s) (w_done s) (w_futs s) (conn_future s) (connecting s) (close_cb s) (io_state s) (closed s) (error s) v (sscript s) (sent s) (cbq s) (next_fid s) (log s) (reqs s) (received s) (arrived s) (bad s).

Definition w_sscript (v : list sstep) (s : st) : st :=
  mkst (chunk s) (maxbuf s) (maxwbuf s) (rb s) (rbs s) (user s) (after s) (rd_bytes s) (rd_partial s) (rd_delim s) (rd_regex s) (rd_max s) (rd_uclose s) (rd_future s) (wbuf s) (w_total s) (w_done s) (w_futs s) (conn_future s) (connecting s) (close_cb s) (io_state s) (closed s) (error s) (inq s) v (sent s) (cbq s) (next_fid s) (log s) (reqs s) (received s) (arrived s) (bad s).

Definition w_sent (v : list N) (s : st) : st :=
  mkst (chunk s) (maxbuf s) (maxwbuf s) (rb s) (rbs s) (user s) (after s) (rd_bytes s) (rd_partial s) (rd_delim s) (rd_regex s) (rd_max s) (rd_uclose s) (rd_future s) (wbuf s) (w_total s) (w_done s) (w_futs s) (conn_future s) (connecting s) (close_cb s) (io_state s) (closed s) (error s) (inq s) (sscript s) v (cbq s) (next_fid s) (log s) (reqs s) (received s) (arrived s) (bad s).

Definition w_cbq (v : list cb) (s : st) : st :=
  mkst (chunk s) (maxbuf s) (maxwbuf s) (rb s) (rbs s) (user s) (after s) (rd_bytes s) (rd_partial s) (rd_delim s) (rd_regex s) (rd_max s) (rd_uclose s) (rd_future s) (wbuf s) (w_total s) (w_done s) (w_futs s) (conn_future s) (connecting s) (close_cb s) (io_state s) (closed s) (error s) (inq s) (sscript s) (sent s) v (next_fid s) (log s) (reqs s) (received s) (arrived s) (bad s).

Definition w_next_fid (v : nat) (s : st) : st :=
  mkst (chunk s) (maxbuf s) (maxwbuf s) (rb s) (rbs s) (user s) (after s) (rd_bytes s) (rd_partial s) (rd_delim s) (rd_regex s) (rd_max s) (rd_uclose s) (rd_future s) (wbuf s) (w_total s) (w_done s) (w_futs s) (conn_future s) (connecting s) (close_cb s) (io_state s) (closed s) (error s) (inq s) (sscript s) (sent s) (cbq s) v (log s) (reqs s) (received s) (arrived s) (bad s).

Definition w_log (v : list event) (s : st) : st :=
  mkst (chunk s) (maxbuf s) (maxwbuf s) (rb s) (rbs s) (user s) (after s) (rd_bytes s) (rd_partial s) (rd_delim s) (rd_regex s) (rd_max s) (rd_uclose s) (rd_future s) (wbuf s) (w_total s) (w_done s) (w_futs s) (conn_future s) (connecting s) (close_cb s) (io_state s) (closed s) (error s) (inq s) (sscript s) (sent s) (cbq s) (next_fid s) v (reqs s) (received s) (arrived s) (bad s).

Definition w_reqs (v : list (nat * rreq)) (s : st) : st :=
  mkst (chunk s) (maxbuf s) (maxwbuf s) (rb s) (rbs s) (user s) (after s) (rd_bytes s) (rd_partial s) (rd_delim s) (rd_regex s) (rd_max s) (rd_uclose s) (rd_future s) (wbuf s) (w_total s) (w_done s) (w_futs s) (conn_future s) (connecting s) (close_cb s) (io_state s) (closed s) (error s) (inq s) (sscript s) (sent s) (cbq s) (next_fid s) (log s) v (received s) (arrived s) (bad s).

Definition w_received (v : list N) (s : st) : st :=
  mkst (chunk s) (maxbuf s) (maxwbuf s) (rb s) (rbs s) (user s) (after s) (rd_bytes s) (rd_partial s) (rd_delim s) (rd_regex s) (rd_max s) (rd_uclose s) (rd_future s) (wbuf s) (w_total s) (w_done s) (w_futs s) (conn_future s) (connecting s) (close_cb s) (io_state s) (closed s) (error s) (inq s) (sscript s) (sent s) (cbq s) (next_fid s) (log s) (reqs s) v (arrived s) (bad s).

Definition w_arrived (v : list N) (s : st) : st :=
  mkst (chunk s) (maxbuf s) (maxwbuf s) (rb s) (rbs s) (user s) (after s) (rd_bytes s) (rd_partial s) (rd_delim s) (rd_regex s) (rd_max s) (rd_uclose s) (rd_future s) (wbuf s) (w_total s) (w_done s) (w_futs s) (conn_future s) (connecting s) (close_cb s) (io_state s) (closed s) (error s) (inq s) (sscript s) (sent s) (cbq s) (next_fid s) (log s) (reqs s) (received s) v (bad s).

Definition w_bad (v : bool) (s : st) : st :=
  mkst (chunk s) (maxbuf s) (maxwbuf s) (rb s) (rbs s) (user s) (after s) (rd_bytes s) (rd_partial s) (rd_delim s) (rd_regex s) (rd_max s) (rd_uclose s) (rd_future s) (wbuf s) (w_total s) (w_done s) (w_futs s) (conn_future s) (connecting s) (close_cb s) (io_state s) (closed s) (error s) (inq s) (sscript s) (sent s) (cbq s) (next_fid s) (log s) (reqs s) (received s) (arrived s) v.


Definition init (chunk0 maxbuf0 : nat) (maxw : option nat) : st :=
  mkst chunk0 maxbuf0 maxw [] 0 false None None false None None None false None
       [] 0 0 [] None false false None false None [] [] [] [] 0 [] [] [] [] false.

Definition emit (e : event) (s : st) : st := w_log (log s ++ [e]) s.

Fixpoint done_in (l : list event) (f : nat) : bool :=
  match l with
  | [] => false
  | EvDone g _ :: l' => (g =? f) || done_in l' f
  | _ :: l' => done_in l' f
  end.

(* ---------- _add_io_state / _maybe_add_error_listener ---------- *)
Definition add_io_state (r w : bool) (s : st) : st :=
  if closed s then s
  else match io_state s with
       | None => w_io_state (Some (r, w)) s
       | Some (r0, w0) => w_io_state (Some (r0 || r, w0 || w)) s
       end.

Definition maybe_add_error_listener (s : st) : st :=
  match io_state s with
  | None | Some (false, false) =>
      if negb (closed s) && (rbs s =? 0) && close_cb s then add_io_state true false s else s
  | _ => s
  end.

(* ---------- _check_max_bytes / _find_read_pos ---------- *)
Inductive frp := FPos (n : nat) | FNone | FUnsat.

Definition over_max (s : st) (size : nat) : bool :=
  match rd_max s with Some m => m <? size | None => false end.

Definition frp_scan (s : st) (hit : option nat) : frp :=
  match rb s with
  | [] => FNone
  | _ :: _ =>
      match hit with
      | Some e => if over_max s e then FUnsat else FPos e
      | None => if over_max s (rbs s) then FUnsat else FNone
      end
  end.

Definition frp_rest (s : st) : frp :=
  match rd_delim s with
  | Some d => frp_scan s (option_map (fun loc => loc + length d) (find d (rb s)))
  | None =>
      match rd_regex s with
      | Some p => frp_scan s (search p (rb s))
      | None => FNone
      end
  end.

Definition find_read_pos (s : st) : frp :=
  match rd_bytes s with
  | Some n =>
      if (n <=? rbs s) || (rd_partial s && (0 <? rbs s)) then FPos (Nat.min n (rbs s))
      else frp_rest s
  | None => frp_rest s
  end.

(* ---------- _consume / _finish_read / _read_from_buffer ---------- *)
Definition finish_read (size : nat) (s : st) : st :=
  let '(res, s1) :=
    if user s then
      let nrb := match after s with Some (x :: t) => x :: t | _ => [] end in
      (OInto size (firstn size (rb s)),
       w_user false (w_rbs (length nrb) (w_after None (w_rb nrb s))))
    else
      match size with
      | 0 => (OData [], s)
      | _ => (OData (firstn size (rb s)),
              w_rb (skipn size (rb s)) (w_rbs (rbs s - size)
                (if size <=? rbs s then s else w_bad true s)))
      end in
  let s2 := match rd_future s1 with
            | Some f => emit (EvDone f res) (w_rd_future None s1)
            | None => s1
            end in
  maybe_add_error_listener s2.

Definition read_from_buffer (pos : nat) (s : st) : st :=
  finish_read pos (w_rd_partial false (w_rd_regex None (w_rd_delim None (w_rd_bytes None s)))).

(* ---------- _signal_closed / close ---------- *)
Definition settle_closed (s : st) (f : nat) : st :=
  if done_in (log s) f then s else emit (EvDone f (OClosed (error s))) s.

Definition signal_closed (s : st) : st :=
  let futs := (match rd_future s with Some f => [f] | None => [] end)
              ++ map snd (w_futs s)
              ++ (match conn_future s with Some f => [f] | None => [] end) in
  let s0 := match rd_future s with
            | Some _ =>
                (* the pending read is about to fail: forget its criteria, undo read_into's swap *)
                let sc := w_rd_partial false (w_rd_regex None (w_rd_delim None (w_rd_bytes None s))) in
                if user sc then
                  let nrb := firstn (rbs sc) (rb sc) ++ match after sc with Some a => a | None => [] end in
                  w_rbs (length nrb) (w_user false (w_after None (w_rb nrb sc)))
                else sc
            | None => s
            end in
  let s1 := w_conn_future None (w_w_futs [] (w_rd_future None s0)) in
  let s2 := fold_left settle_closed futs s1 in
  let s3 := if close_cb s2
            then emit (EvCallback CbUserClose) (w_cbq (cbq s2 ++ [CbUserClose]) (w_close_cb false s2))
            else s2 in
  w_wbuf [] s3.

Definition close (exc : option errk) (s : st) : st :=
  let s' :=
    if closed s then s
    else
      let s1 := match exc with Some e => w_error (Some e) s | None => s end in
      let s2 :=
        if rd_uclose s1 then finish_read (rbs s1) (w_rd_uclose false s1)
        else match rd_future s1 with
             | Some _ => match find_read_pos s1 with FPos p => read_from_buffer p s1 | _ => s1 end
             | None => s1
             end in
      let s3 := w_io_state None s2 in
      w_closed true (emit EvCloseFd s3) in
  signal_closed s'.

(* ---------- transport: read_from_fd (FakeIOStream) ---------- *)
Inductive fdres := FdNone | FdErr (reset : bool) | FdData (bs : list N).

Definition read_from_fd (cap : nat) (s : st) : fdres * st :=
  match inq s with
  | [] => (FdNone, s)
  | TEof :: q => (FdData [], w_inq q s)
  | TErr r :: q => (FdErr r, w_inq q s)
  | TData bs :: q =>
      let k := Nat.min cap (length bs) in
      (FdData (firstn k bs),
       if k <? length bs then w_inq (TData (skipn k bs) :: q) s else w_inq q s)
  end.

(* ---------- _read_to_buffer ---------- *)
Inductive rtb := RtbN (n : nat) | RtbNone | RtbExn (x : exn).

Definition read_to_buffer (s : st) : st * rtb :=
  let cap := if user s then length (rb s) - rbs s else chunk s in
  let '(r, s1) := read_from_fd cap s in
  match r with
  | FdErr true => (close (Some EReset) s1, RtbNone)
  | FdErr false => (close (Some EOSErr) s1, RtbExn XOSErr)
  | FdNone => (s1, RtbN 0)
  | FdData bs =>
      match length bs with
      | 0 => (close None s1, RtbN 0)
      | k =>
          let nrb := if user s1
                     then firstn (rbs s1) (rb s1) ++ bs ++ skipn (rbs s1 + k) (rb s1)
                     else rb s1 ++ bs in
          let s2 := w_received (received s1 ++ bs) (w_rbs (rbs s1 + k) (w_rb nrb s1)) in
          if maxbuf s2 <? rbs s2 then (close None s2, RtbExn XBufFull) else (s2, RtbN k)
      end
  end.

(* ---------- _read_to_buffer_loop ---------- *)
Inductive lres := LPos (n : nat) | LNone | LExn (x : exn).
Definition of_frp (f : frp) : lres :=
  match f with FPos n => LPos n | FNone => LNone | FUnsat => LExn XUnsat end.

Definition loop_target (s : st) : option nat :=
  match rd_bytes s with
  | Some n => Some n
  | None => match rd_max s with
            | Some m => Some m
            | None => match rd_future s with Some _ => None | None => Some 0 end
            end
  end.

Fixpoint rloop (fuel : nat) (target : option nat) (nfp : nat) (s : st) : st * lres :=
  if closed s then (s, of_frp (find_read_pos s))
  else match fuel with
       | 0 => (s, LExn XFuel)
       | S fuel' =>
           let '(s1, r) := read_to_buffer s in
           match r with
           | RtbExn x => (s1, LExn x)
           | RtbN 0 => (s1, of_frp (find_read_pos s1))
           | _ =>
               if match target with Some t => t <=? rbs s1 | None => false end
               then (s1, of_frp (find_read_pos s1))
               else if nfp <=? rbs s1
                    then match find_read_pos s1 with
                         | FPos p => (s1, LPos p)
                         | FUnsat => (s1, LExn XUnsat)
                         | FNone => rloop fuel' target (2 * rbs s1) s1
                         end
                    else rloop fuel' target nfp s1
           end
       end.

Fixpoint qmeasure (q : list tok) : nat :=
  match q with
  | [] => 0
  | TData bs :: q' => S (length bs) + qmeasure q'
  | _ :: q' => 1 + qmeasure q'
  end.

Definition read_to_buffer_loop (s : st) : st * lres :=
  rloop (S (qmeasure (inq s))) (loop_target s) 0 s.

(* ---------- _handle_read / _try_inline_read ---------- *)
Definition errk_of (x : exn) : option errk :=
  match x with
  | XUnsat => Some EUnsat | XOSErr => Some EOSErr | XBufFull => Some EBufFull
  | _ => None
  end.

(* result: None = returned normally, Some x = raised x *)
Definition handle_read (s : st) : st * option exn :=
  let '(s1, r) := read_to_buffer_loop s in
  match r with
  | LPos p => (read_from_buffer p s1, None)
  | LNone => (s1, None)
  | LExn XUnsat => (s1, Some XUnsat)
  | LExn XFuel => (s1, Some XFuel)
  | LExn x => (close (errk_of x) s1, None)
  end.

Definition try_inline_read (s : st) : st * option exn :=
  match find_read_pos s with
  | FUnsat => (s, Some XUnsat)
  | FPos p => (read_from_buffer p s, None)
  | FNone =>
      if closed s then (s, Some (XClosed (error s)))
      else
        let '(s1, r) := read_to_buffer_loop s in
        match r with
        | LPos p => (read_from_buffer p s1, None)
        | LNone => (if closed s1 then s1 else add_io_state true false s1, None)
        | LExn x => (s1, Some x)
        end
  end.

(* ---------- _start_read and the read_* methods ---------- *)
Definition start_read (r : rreq) (s : st) : st * ret :=
  match rd_future s with
  | Some _ => (s, RetRaise (if closed s then XClosed (error s) else XAlreadyReading))
  | None =>
      let f := next_fid s in
      (w_reqs (reqs s ++ [(f, r)]) (w_rd_future (Some f) (w_next_fid (S f) s)), RetFut f)
  end.

Definition finish_call (catch_unsat : bool) (f : nat) (p : st * option exn) : st * ret :=
  match p with
  | (s, None) => (s, RetFut f)
  | (s, Some XUnsat) => if catch_unsat then (close (Some EUnsat) s, RetFut f) else (s, RetRaise XUnsat)
  | (s, Some x) => (s, RetRaise x)
  end.

Definition do_read (r : rreq) (s : st) : st * ret :=
  match start_read r s with
  | (s0, RetFut f) =>
      match r with
      | RUntil d mx => finish_call true f (try_inline_read (w_rd_max mx (w_rd_delim (Some d) s0)))
      | RRegex p mx => finish_call true f (try_inline_read (w_rd_max mx (w_rd_regex (Some p) s0)))
      | RBytes n partial =>
          finish_call false f (try_inline_read (w_rd_partial partial (w_rd_bytes (Some n) s0)))
      | RInto n partial =>
          let avail := rbs s0 in
          let buf := repeat fill_byte n in
          let s1 :=
            if n <=? avail then w_after (Some (skipn n (rb s0))) (w_rb (firstn n (rb s0)) s0)
            else match avail with
                 | 0 => w_rb buf s0
                 | _ => w_rb (rb s0 ++ skipn avail buf) s0
                 end in
          let s2 := w_rd_partial partial (w_rd_bytes (Some n) (w_rbs avail (w_user true s1))) in
          finish_call false f (try_inline_read s2)
      | RUntilClose =>
          if closed s0 then (finish_read (rbs s0) s0, RetFut f)
          else finish_call false f (try_inline_read (w_rd_uclose true s0))
      end
  | other => other
  end.

(* ---------- write side (flat write buffer; see NOTES.md) ---------- *)
Inductive wres := WN (n : nat) | WBlock | WErr (reset : bool).

Definition write_to_fd (data : list N) (s : st) : wres * st :=
  match sscript s with
  | [] => (WN (length data), w_sent (sent s ++ data) s)
  | SBlock :: r => (WBlock, w_sscript r s)
  | SErr x :: r => (WErr x, w_sscript r s)
  | SAccept k :: r =>
      let k' := Nat.min k (length data) in
      (WN k', w_sent (sent s ++ firstn k' data) (w_sscript r s))
  end.

(* returns (state, true if the OSError path returned early) *)
Fixpoint wloop (fuel : nat) (s : st) : st * bool :=
  match wbuf s with
  | [] => (s, false)
  | _ :: _ =>
      match fuel with
      | 0 => (w_bad true s, false)
      | S fuel' =>
          let '(r, s1) := write_to_fd (wbuf s) s in
          match r with
          | WBlock => (s1, false)
          | WErr x => (close (Some (if x then EReset else EOSErr)) s1, true)
          | WN 0 => (s1, false)
          | WN n => wloop fuel' (w_w_done (w_done s1 + n) (w_wbuf (skipn n (wbuf s1)) s1))
          end
      end
  end.

Fixpoint resolve_writes (l : list (nat * nat)) (s : st) : st :=
  match l with
  | [] => w_w_futs [] s
  | (idx, f) :: l' =>
      if w_done s <? idx then w_w_futs l s
      else resolve_writes l' (emit (EvDone f ODone) s)
  end.

Definition handle_write (s : st) : st :=
  let '(s1, early) := wloop (S (length (wbuf s))) s in
  if early then s1 else resolve_writes (w_futs s1) s1.

Definition do_write (data : list N) (s : st) : st * ret :=
  if closed s then (s, RetRaise (XClosed (error s)))
  else
    let full := match data, maxwbuf s with
                | _ :: _, Some m => m <? length (wbuf s) + length data
                | _, _ => false
                end in
    if full then (s, RetRaise XWBufFull)
    else
      let s1 := w_w_total (w_total s + length data) (w_wbuf (wbuf s ++ data) s) in
      let f := next_fid s1 in
      let s2 := w_w_futs (w_futs s1 ++ [(w_total s1, f)]) (w_next_fid (S f) s1) in
      if connecting s2 then (s2, RetFut f)
      else
        let s3 := handle_write s2 in
        let s4 := match wbuf s3 with [] => s3 | _ :: _ => add_io_state false true s3 end in
        (maybe_add_error_listener s4, RetFut f).

(* ---------- IOStream.connect / _handle_connect (driven through a fake socket) ---------- *)
Definition do_connect (fail : bool) (s : st) : st * ret :=
  let f := next_fid s in
  let s1 := w_conn_future (Some f) (w_connecting true (w_next_fid (S f) s)) in
  if closed s then (s1, RetRaise XAttr)          (* self.socket is None after close_fd *)
  else if fail then (close (Some EConn) s1, RetFut f)
  else (add_io_state false true s1, RetFut f).

Definition handle_connect (soerr : bool) (s : st) : st :=
  if soerr then close None (w_error (Some EConn) s)
  else
    let s1 := match conn_future s with
              | Some f => emit (EvDone f ODone) (w_conn_future None s)
              | None => s
              end in
    w_connecting false s1.

(* ---------- _handle_events ---------- *)
Definition handle_events (r w e soerr fderr : bool) (s : st) : st * ret :=
  if closed s then (s, RetNone)
  else
    let s1 := if connecting s then handle_connect soerr s else s in
    if closed s1 then (s1, RetNone)
    else
      let '(s2, x) := if r then handle_read s1 else (s1, None) in
      match x with
      | Some XUnsat => (close (Some EUnsat) s2, RetNone)
      | Some x' => (close (errk_of x') s2, RetRaise x')
      | None =>
          if closed s2 then (s2, RetNone)
          else
            let s3 := if w then handle_write s2 else s2 in
            if closed s3 then (s3, RetNone)
            else if e then
              (emit (EvCallback CbDeferredClose)
                 (w_cbq (cbq s3 ++ [CbDeferredClose]) (w_error (if fderr then Some EFd else None) s3)),
               RetNone)
            else
              let rd := match rd_future s3 with Some _ => true | None => false end in
              let wr := match wbuf s3 with [] => false | _ => true end in
              let rd' := if negb rd && negb wr && (rbs s3 =? 0) then true else rd in
              match io_state s3 with
              | Some (r0, w0) => (if Bool.eqb r0 rd' && Bool.eqb w0 wr then s3
                                  else w_io_state (Some (rd', wr)) s3, RetNone)
              | None =>
                  (* `assert self._state is not None` -> except Exception: close(exc_info=e); raise *)
                  (close (Some EAssert) s3, RetRaise XAlreadyReading)
              end
      end.

(* ---------- the IOLoop running its pending callbacks ---------- *)
Definition run_cb (s : st) (c : cb) : st :=
  match c with
  | CbUserClose => emit (EvRan CbUserClose) s
  | CbDeferredClose => close None (emit (EvRan CbDeferredClose) s)
  end.

(* ---------- one program step ---------- *)
Definition step (s : st) (o : op) : st * ret :=
  match o with
  | ORead r => do_read r s
  | OWrite d => do_write d s
  | OConnect fail => do_connect fail s
  | OSetCloseCb => (maybe_add_error_listener (w_close_cb true s), RetNone)
  | OClose exc => (close (if exc then Some EOSErr else None) s, RetNone)
  | OArrive t =>
      (w_arrived (arrived s ++ match t with TData bs => bs | _ => [] end) (w_inq (inq s ++ [t]) s), RetNone)
  | OSendScript x => (w_sscript (sscript s ++ [x]) s, RetNone)
  | OEvent r w e soerr fderr =>
      match io_state s with
      | None => (s, RetNone)
      | Some (lr, lw) =>
          if closed s then (s, RetNone)
          else
            let r' := r && lr in
            let w' := w && lw in
            if r' || w' || e then handle_events r' w' e soerr fderr s else (s, RetNone)
      end
  | ORunCallbacks =>
      let q := cbq s in
      (fold_left run_cb q (w_cbq [] s), RetNone)
  end.

Fixpoint run (s : st) (p : list op) : st :=
  match p with
  | [] => s
  | o :: p' => run (fst (step s o)) p'
  end.
