(* C11/C13 — the futures ledger: which futures exist, which are pending and
   where, which have been settled.  Every model function changes the ledger
   only by a sequence of the [move]s below, and every move preserves LInv
   (each future is settled at most once; every created future is either
   settled or still tracked by the stream). *)
From Coq Require Import List NArith Arith Bool Lia.
Import ListNotations.
From TV Require Import C11.Model.

Record led := mkled {
  l_rd : option nat; l_wf : list nat; l_cn : option nat;
  l_n : nat; l_log : list event; l_rq : list nat }.

Definition opt (o : option nat) : list nat := match o with Some f => [f] | None => [] end.
Definition lheld (t : led) : list nat := opt (l_rd t) ++ l_wf t ++ opt (l_cn t).

Definition led_of (s : st) : led :=
  mkled (rd_future s) (map snd (w_futs s)) (conn_future s) (next_fid s) (log s) (map fst (reqs s)).

Definition settle_l (e : option errk) (l : list event) (f : nat) : list event :=
  if done_in l f then l else l ++ [EvDone f (OClosed e)].

Fixpoint done_fids (l : list event) : list nat :=
  match l with
  | [] => []
  | EvDone f _ :: l' => f :: done_fids l'
  | _ :: l' => done_fids l'
  end.

Inductive move : led -> led -> Prop :=
| M_plain : forall t e, (forall f o, e <> EvDone f o) ->
    move t (mkled (l_rd t) (l_wf t) (l_cn t) (l_n t) (l_log t ++ [e]) (l_rq t))
| M_rd_done : forall t f o, l_rd t = Some f ->
    move t (mkled None (l_wf t) (l_cn t) (l_n t) (l_log t ++ [EvDone f o]) (l_rq t))
| M_wr_done : forall t f w o, l_wf t = f :: w ->
    move t (mkled (l_rd t) w (l_cn t) (l_n t) (l_log t ++ [EvDone f o]) (l_rq t))
| M_cn_done : forall t f o, l_cn t = Some f ->
    move t (mkled (l_rd t) (l_wf t) None (l_n t) (l_log t ++ [EvDone f o]) (l_rq t))
| M_settle : forall t e,
    move t (mkled None [] None (l_n t) (fold_left (settle_l e) (lheld t) (l_log t)) (l_rq t))
| M_alloc_rd : forall t, l_rd t = None ->
    move t (mkled (Some (l_n t)) (l_wf t) (l_cn t) (S (l_n t)) (l_log t) (l_rq t ++ [l_n t]))
| M_alloc_wr : forall t,
    move t (mkled (l_rd t) (l_wf t ++ [l_n t]) (l_cn t) (S (l_n t)) (l_log t) (l_rq t))
| M_alloc_cn : forall t, l_cn t = None ->
    move t (mkled (l_rd t) (l_wf t) (Some (l_n t)) (S (l_n t)) (l_log t) (l_rq t)).

Inductive moves : led -> led -> Prop :=
| ms_refl : forall t, moves t t
| ms_step : forall a b c, move a b -> moves b c -> moves a c.

Lemma moves_trans : forall a b c, moves a b -> moves b c -> moves a c.
Proof. intros a b c H; induction H; intros; auto. econstructor; eauto. Qed.

Lemma moves_one : forall a b, move a b -> moves a b.
Proof. intros. econstructor; eauto. constructor. Qed.

Record LInv (t : led) : Prop := {
  li_fresh : forall f, In f (lheld t) -> f < l_n t;
  li_logfresh : forall f o, In (EvDone f o) (l_log t) -> f < l_n t;
  li_rqfresh : forall f, In f (l_rq t) -> f < l_n t;
  li_nodup : NoDup (lheld t);
  li_pending : forall f, In f (lheld t) -> done_in (l_log t) f = false;
  li_donenodup : NoDup (done_fids (l_log t));
  li_tracked : forall f, f < l_n t -> done_in (l_log t) f = true \/ In f (lheld t);
  li_wnotreq : forall f, In f (l_wf t ++ opt (l_cn t)) -> ~ In f (l_rq t)
}.

(* ---------- log lemmas ---------- *)
Lemma done_in_app : forall a b f, done_in (a ++ b) f = done_in a f || done_in b f.
Proof.
  induction a as [|e a IH]; intros b f; cbn; auto.
  destruct e; auto. rewrite IH. apply orb_assoc.
Qed.

Lemma done_fids_app : forall a b, done_fids (a ++ b) = done_fids a ++ done_fids b.
Proof. induction a as [|e a IH]; intros b; cbn; auto. destruct e; cbn; auto. f_equal; auto. Qed.

Lemma done_in_iff : forall l f, done_in l f = true <-> In f (done_fids l).
Proof.
  induction l as [|e l IH]; intros f; cbn.
  - split; [discriminate|tauto].
  - destruct e; cbn; auto. rewrite orb_true_iff, Nat.eqb_eq, IH. tauto.
Qed.

Lemma in_done : forall l f o, In (EvDone f o) l -> done_in l f = true.
Proof.
  induction l as [|e l IH]; intros f o H; cbn in *; [tauto|].
  destruct H as [->|H]; [rewrite Nat.eqb_refl; reflexivity|].
  destruct e; eauto. rewrite (IH _ _ H). apply orb_true_r.
Qed.

Lemma done_in_single : forall f g o, done_in [EvDone f o] g = (f =? g).
Proof. intros; cbn. apply orb_false_r. Qed.

Lemma NoDup_snoc : forall (A : Type) (l : list A) x, NoDup l -> ~ In x l -> NoDup (l ++ [x]).
Proof.
  induction l as [|a l IH]; intros x Hnd Hni; cbn.
  - constructor; [intros []|constructor].
  - inversion Hnd; subst. constructor.
    + intros H. apply in_app_or in H as [H|[H|[]]]; auto. subst. apply Hni. left; reflexivity.
    + apply IH; auto. intros H. apply Hni. right; exact H.
Qed.

Lemma NoDup_remove_mid : forall (A : Type) (l1 l2 : list A) x,
  NoDup (l1 ++ x :: l2) -> NoDup (l1 ++ l2) /\ ~ In x (l1 ++ l2).
Proof. intros. apply NoDup_remove. assumption. Qed.

(* settling one tracked future *)
Lemma settle_one : forall l1 l2 f n lg o,
  (forall g, In g (l1 ++ f :: l2) -> g < n) ->
  NoDup (l1 ++ f :: l2) ->
  (forall g, In g (l1 ++ f :: l2) -> done_in lg g = false) ->
  NoDup (done_fids lg) ->
  (forall g, g < n -> done_in lg g = true \/ In g (l1 ++ f :: l2)) ->
  (forall g, In g (l1 ++ l2) -> g < n) /\
  NoDup (l1 ++ l2) /\
  (forall g, In g (l1 ++ l2) -> done_in (lg ++ [EvDone f o]) g = false) /\
  NoDup (done_fids (lg ++ [EvDone f o])) /\
  (forall g, g < n -> done_in (lg ++ [EvDone f o]) g = true \/ In g (l1 ++ l2)) /\
  f < n.
Proof.
  intros l1 l2 f n lg o Hf Hnd Hp Hdn Ht.
  destruct (NoDup_remove_mid _ l1 l2 f Hnd) as [Hnd' Hni].
  assert (Hsub : forall g, In g (l1 ++ l2) -> In g (l1 ++ f :: l2)).
  { intros g H. apply in_app_or in H as [H|H]; apply in_or_app; [left|right; right]; auto. }
  assert (Hfin : In f (l1 ++ f :: l2)) by (apply in_or_app; right; left; reflexivity).
  repeat split; auto.
  - intros g H. rewrite done_in_app, done_in_single, (Hp g (Hsub g H)). cbn.
    apply Nat.eqb_neq. intros ->. auto.
  - rewrite done_fids_app. cbn. apply NoDup_snoc; auto.
    intros H. apply done_in_iff in H. rewrite (Hp f Hfin) in H. discriminate.
  - intros g Hg. rewrite done_in_app, done_in_single.
    destruct (Nat.eq_dec f g) as [->|Hne].
    + left. rewrite Nat.eqb_refl. apply orb_true_r.
    + destruct (Ht g Hg) as [H|H]; [left; rewrite H; reflexivity|].
      right. apply in_app_or in H as [H|[H|H]]; try congruence; apply in_or_app; auto.
Qed.

(* ---------- settle_l folds ---------- *)
Lemma settle_l_mono : forall e l f g, done_in l g = true -> done_in (settle_l e l f) g = true.
Proof.
  intros e l f g H. unfold settle_l. destruct (done_in l f); auto.
  rewrite done_in_app, H. reflexivity.
Qed.

Lemma fold_settle_mono : forall e fs l g, done_in l g = true -> done_in (fold_left (settle_l e) fs l) g = true.
Proof. induction fs as [|f fs IH]; intros l g H; cbn; auto. apply IH, settle_l_mono, H. Qed.

Lemma fold_settle_done : forall e fs l g, In g fs -> done_in (fold_left (settle_l e) fs l) g = true.
Proof.
  induction fs as [|f fs IH]; intros l g H; cbn; [destruct H|].
  destruct H as [->|H]; [|apply IH, H].
  apply fold_settle_mono. unfold settle_l. destruct (done_in l g) eqn:E; auto.
  rewrite done_in_app, done_in_single, Nat.eqb_refl. apply orb_true_r.
Qed.

Lemma fold_settle_nodup : forall e fs l, NoDup (done_fids l) -> NoDup (done_fids (fold_left (settle_l e) fs l)).
Proof.
  induction fs as [|f fs IH]; intros l H; cbn; auto. apply IH.
  unfold settle_l. destruct (done_in l f) eqn:E; auto.
  rewrite done_fids_app. cbn. apply NoDup_snoc; auto.
  intros Hin. apply done_in_iff in Hin. congruence.
Qed.

Lemma fold_settle_in : forall e fs l f o,
  In (EvDone f o) (fold_left (settle_l e) fs l) -> In (EvDone f o) l \/ In f fs.
Proof.
  induction fs as [|g fs IH]; intros l f o H; cbn in *; auto.
  apply IH in H as [H|H]; auto.
  unfold settle_l in H. destruct (done_in l g); auto.
  apply in_app_or in H as [H|[H|[]]]; auto. inversion H; subst. auto.
Qed.

Lemma fresh_not_done : forall l n, (forall f o, In (EvDone f o) l -> f < n) -> done_in l n = false.
Proof.
  intros l n H. destruct (done_in l n) eqn:E; auto. exfalso.
  assert (exists o, In (EvDone n o) l) as [o Ho].
  { clear H. induction l as [|e l IH]; [discriminate|].
    destruct e; cbn in E; try (destruct (IH E) as [o Ho]; exists o; right; exact Ho).
    apply orb_true_iff in E as [E|E].
    - apply Nat.eqb_eq in E. subst. eexists; left; reflexivity.
    - destruct (IH E) as [o' Ho]; exists o'; right; exact Ho. }
  apply H in Ho. lia.
Qed.

Lemma NoDup_insert : forall (A : Type) (l1 l2 : list A) x,
  NoDup (l1 ++ l2) -> ~ In x (l1 ++ l2) -> NoDup (l1 ++ x :: l2).
Proof. intros A l1 l2 x H1 H2. apply (NoDup_Add (Add_app x l1 l2)). split; assumption. Qed.

(* ---------- every move preserves LInv ---------- *)
Lemma linv_move : forall a b, move a b -> LInv a -> LInv b.
Proof.
  intros a b M I. destruct I as [Hf Hlf Hrq Hnd Hp Hdn Ht Hw]. destruct M; unfold lheld in *; cbn in *.
  - (* plain event *)
    constructor; unfold lheld; cbn; auto.
    + intros f o Hin. apply in_app_or in Hin as [Hin|[Hin|[]]]; eauto. exfalso; eapply H; eauto.
    + intros f Hin. rewrite done_in_app, (Hp f Hin). destruct e; cbn; auto. exfalso; eapply H; eauto.
    + rewrite done_fids_app. destruct e; cbn; try rewrite app_nil_r; auto. exfalso; eapply H; eauto.
    + intros f Hlt. destruct (Ht f Hlt) as [X|X]; auto. left. rewrite done_in_app, X. reflexivity.
  - (* read future settled *)
    rewrite H in *. cbn in *.
    destruct (settle_one [] (l_wf t ++ opt (l_cn t)) f (l_n t) (l_log t) o) as (A & B & C & D & E & F); auto.
    constructor; unfold lheld; cbn; auto.
    intros g o' Hin. apply in_app_or in Hin as [Hin|[Hin|[]]]; eauto. inversion Hin; subst; auto.
  - (* write future settled *)
    rewrite H in *. cbn in *.
    destruct (settle_one (opt (l_rd t)) (w ++ opt (l_cn t)) f (l_n t) (l_log t) o) as (A & B & C & D & E & F); auto.
    constructor; unfold lheld; cbn; auto.
    + intros g o' Hin. apply in_app_or in Hin as [Hin|[Hin|[]]]; eauto. inversion Hin; subst; auto.
  - (* connect future settled *)
    rewrite H in *. cbn in *.
    assert (Heq : opt (l_rd t) ++ l_wf t ++ [f] = (opt (l_rd t) ++ l_wf t) ++ [f])
      by (rewrite <- app_assoc; reflexivity).
    rewrite Heq in *.
    destruct (settle_one (opt (l_rd t) ++ l_wf t) [] f (l_n t) (l_log t) o) as (A & B & C & D & E & F); auto.
    rewrite !app_nil_r in *.
    constructor; unfold lheld; cbn; rewrite ?app_nil_r; auto.
    + intros g o' Hin. apply in_app_or in Hin as [Hin|[Hin|[]]]; eauto. inversion Hin; subst; auto.
    + intros g Hin. apply Hw. apply in_or_app. left. exact Hin.
  - (* _signal_closed *)
    constructor; unfold lheld; cbn; auto.
    + intros f [].
    + intros f o Hin. apply fold_settle_in in Hin as [Hin|Hin]; eauto.
    + constructor.
    + intros f [].
    + apply fold_settle_nodup; auto.
    + intros f Hlt. left. destruct (Ht f Hlt) as [X|X].
      * apply fold_settle_mono; auto.
      * apply fold_settle_done; auto.
  - (* read future created *)
    rewrite H in *. cbn in *.
    constructor; unfold lheld; cbn; auto.
    + intros f [<-|Hin]; [lia|]. apply Hf in Hin. lia.
    + intros f o Hin. apply Hlf in Hin. lia.
    + intros f Hin. apply in_app_or in Hin as [Hin|[<-|[]]]; [apply Hrq in Hin|]; lia.
    + constructor; auto. intros Hin. apply Hf in Hin. lia.
    + intros f [<-|Hin]; auto. apply fresh_not_done; auto.
    + intros f Hlt. destruct (Nat.eq_dec f (l_n t)) as [->|Hne]; [right; left; reflexivity|].
      destruct (Ht f ltac:(lia)) as [X|X]; auto.
    + intros f Hin Hr. apply in_app_or in Hr as [Hr|[<-|[]]].
      * eapply Hw; eauto.
      * assert (In (l_n t) (l_wf t ++ opt (l_cn t))) by exact Hin.
        assert (l_n t < l_n t); [|lia]. apply Hf. exact H0.
  - (* write future created *)
    assert (Hnd2 : ~ In (l_n t) (opt (l_rd t) ++ l_wf t ++ opt (l_cn t))).
    { intros Hin. apply Hf in Hin. lia. }
    assert (Hdn2 : done_in (l_log t) (l_n t) = false) by (apply fresh_not_done; auto).
    assert (Hin_eq : forall f, In f (opt (l_rd t) ++ (l_wf t ++ [l_n t]) ++ opt (l_cn t)) <->
                               l_n t = f \/ In f (opt (l_rd t) ++ l_wf t ++ opt (l_cn t))).
    { intros f. rewrite !in_app_iff. cbn. tauto. }
    constructor; unfold lheld; cbn.
    + intros f Hin. apply Hin_eq in Hin as [<-|Hin]; [lia|]. apply Hf in Hin. lia.
    + intros f o Hin. apply Hlf in Hin. lia.
    + intros f Hin. apply Hrq in Hin. lia.
    + replace (opt (l_rd t) ++ (l_wf t ++ [l_n t]) ++ opt (l_cn t))
        with ((opt (l_rd t) ++ l_wf t) ++ l_n t :: opt (l_cn t))
        by (rewrite <- !app_assoc; reflexivity).
      apply NoDup_insert; rewrite <- app_assoc; auto.
    + intros f Hin. apply Hin_eq in Hin as [<-|Hin]; auto.
    + exact Hdn.
    + intros f Hlt. destruct (Nat.eq_dec f (l_n t)) as [->|Hne].
      * right. apply Hin_eq. left; reflexivity.
      * destruct (Ht f ltac:(lia)) as [X|X]; auto. right. apply Hin_eq. right; exact X.
    + intros f Hin Hr. rewrite <- app_assoc in Hin. apply in_app_or in Hin as [Hin|Hin].
      * eapply Hw; eauto. apply in_or_app; left; exact Hin.
      * cbn in Hin. destruct Hin as [<-|Hin].
        -- apply Hrq in Hr. lia.
        -- eapply Hw; eauto. apply in_or_app; right; exact Hin.
  - (* connect future created *)
    rewrite H in *. cbn in *. rewrite app_nil_r in *.
    assert (Hnd2 : ~ In (l_n t) (opt (l_rd t) ++ l_wf t)).
    { intros Hin. apply Hf in Hin. lia. }
    assert (Hin_eq : forall f, In f (opt (l_rd t) ++ l_wf t ++ [l_n t]) <->
                               l_n t = f \/ In f (opt (l_rd t) ++ l_wf t)).
    { intros f. rewrite !in_app_iff. cbn. tauto. }
    constructor; unfold lheld; cbn.
    + intros f Hin. apply Hin_eq in Hin as [<-|Hin]; [lia|]. apply Hf in Hin. lia.
    + intros f o Hin. apply Hlf in Hin. lia.
    + intros f Hin. apply Hrq in Hin. lia.
    + rewrite app_assoc. apply NoDup_snoc; auto.
    + intros f Hin. apply Hin_eq in Hin as [<-|Hin]; auto. apply fresh_not_done; auto.
    + exact Hdn.
    + intros f Hlt. destruct (Nat.eq_dec f (l_n t)) as [->|Hne].
      * right. apply Hin_eq. left; reflexivity.
      * destruct (Ht f ltac:(lia)) as [X|X]; auto. right. apply Hin_eq. right; exact X.
    + intros f Hin Hr. apply in_app_or in Hin as [Hin|[<-|[]]].
      * eapply Hw; eauto.
      * apply Hrq in Hr. lia.
Qed.

Lemma linv_moves : forall a b, moves a b -> LInv a -> LInv b.
Proof. intros a b M; induction M; intros; auto. eapply IHM, linv_move; eauto. Qed.

(* the log only grows, ids only grow *)
Lemma fold_settle_prefix : forall e fs l, exists x, fold_left (settle_l e) fs l = l ++ x.
Proof.
  induction fs as [|f fs IH]; intros l; cbn; [exists []; rewrite app_nil_r; reflexivity|].
  destruct (IH (settle_l e l f)) as [x Hx]. rewrite Hx. unfold settle_l.
  destruct (done_in l f); [exists x; reflexivity|]. eexists. rewrite <- app_assoc. reflexivity.
Qed.

Lemma move_log_prefix : forall a b, move a b -> exists x, l_log b = l_log a ++ x.
Proof.
  intros a b M. destruct M; cbn; try (eexists; reflexivity); try (exists []; rewrite app_nil_r; reflexivity).
  apply fold_settle_prefix.
Qed.

Lemma moves_log_prefix : forall a b, moves a b -> exists x, l_log b = l_log a ++ x.
Proof.
  intros a b M. induction M; [exists []; rewrite app_nil_r; reflexivity|].
  destruct (move_log_prefix _ _ H) as [x Hx]. destruct IHM as [y Hy].
  exists (x ++ y). rewrite Hy, Hx, app_assoc. reflexivity.
Qed.

Lemma linv_init : forall c m mw, LInv (led_of (init c m mw)).
Proof.
  intros. constructor; unfold lheld; cbn; intros; try contradiction; try lia; try constructor.
Qed.
