(* C11 — the model's own observable passes check_case (for every program). *)
From Coq Require Import List NArith ZArith Arith Bool String Lia.
Import ListNotations.
From TV Require Import Lib.Obs C11.Model C11.Trace C11.Run C11.Proofs1 C11.Proofs2 C11.Ledger C11.Proofs3
  C11.Proofs4 C11.Frame C11.Proofs5.

Lemma ev_data_event : forall e, ev_data (o_event e) = consumed [e].
Proof.
  intros [f o|c|c|]; cbn; try (destruct c; reflexivity); try reflexivity.
  destruct o as [d|n d| |e]; cbn; rewrite ?app_nil_r; try reflexivity.
  destruct e as [[| | | | | |]|]; reflexivity.
Qed.

Lemma flat_ev_data : forall l, flat_map ev_data (map o_event l) = consumed l.
Proof.
  induction l as [|e l IH]; cbn [map flat_map]; [reflexivity|].
  rewrite IH, ev_data_event. change (e :: l) with ([e] ++ l). rewrite consumed_app. reflexivity.
Qed.

(* events rendered for a run = the log entries added by the run *)
Lemma trace_events_run : forall p s, Inv s -> LInv (led_of s) -> run_ok s p ->
  exists x, log (run s p) = log s ++ x /\ flat_map rec_events (trace s p) = map o_event x.
Proof.
  induction p as [|o p IH]; intros s I L Hok; cbn [trace run].
  - exists []. rewrite app_nil_r. split; [reflexivity|]. cbn. destruct (error s) as [[]|]; reflexivity.
  - destruct Hok as [Ho Hok]. destruct (step_spec o s I L Ho) as [I1 M1].
    pose proof (linv_moves _ _ M1 L) as L1.
    destruct (moves_log_prefix _ _ M1) as [x Hx]. cbn in Hx.
    destruct (step s o) as [s1 r] eqn:Es. cbn [fst] in *.
    destruct (IH s1 I1 L1 Hok) as (y & Hy & Hty).
    exists (x ++ y). split; [rewrite Hy, Hx, app_assoc; reflexivity|].
    cbn [flat_map rec_events]. rewrite Hty, Hx, map_app. f_equal.
    rewrite skipn_app, skipn_all, Nat.sub_diag. reflexivity.
Qed.

Lemma prefixb_app : forall a b, prefixb a (a ++ b) = true.
Proof. induction a as [|x a IH]; intros b; cbn; auto. rewrite N.eqb_refl. apply IH. Qed.

Lemma stream_of_flat : forall p, stream_of p = flat_map arrive_bytes p.
Proof. induction p as [|o p IH]; cbn; [reflexivity|]. rewrite IH. reflexivity. Qed.

Theorem model_passes_check : forall c m mw p, run_ok (init c m mw) p ->
  check_case (c, m, mw, p) (run_case (c, m, mw, p)) = true.
Proof.
  intros c m mw p Hok. unfold check_case, run_case, run_trace, trace_events.
  destruct (trace_events_run p (init c m mw) (inv_init c m mw) (linv_init c m mw) Hok) as (x & Hx & Ht).
  rewrite Ht, flat_ev_data. cbn in Hx.
  pose proof (conservation c m mw p Hok) as C. rewrite Hx in C.
  rewrite <- stream_of_flat, <- C. apply prefixb_app.
Qed.
