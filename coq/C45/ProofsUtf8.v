(* C45 proofs: a newline in what _safe_unicode returns for bytes can only come from a newline
   byte (UTF-8 decoding never manufactures U+000A from a multi-byte sequence; repr() has none). *)
From Coq Require Import List NArith Arith Bool Lia.
Import ListNotations.
From TV Require Import C14.Utf8 C14.Utf8Proofs C45.Model C45.Proofs.
Local Open Scope N_scope.

Lemma in_rng_spec : forall lo hi b, in_rng lo hi b = true -> lo <= b /\ b <= hi.
Proof. intros lo hi b H. unfold in_rng in H. apply andb_true_iff in H as [H1 H2].
  apply N.leb_le in H1, H2. auto. Qed.

(* one decoding step: either an ASCII byte copied, or a code point >= 128; the rest is a suffix *)
Lemma dec1_spec : forall l c r, dec1 l = Some (c, r) ->
  exists pre, l = pre ++ r /\ pre <> [] /\ (c = NL -> pre = [NL]).
Proof.
  intros [|b0 t0] c r H; [discriminate|]. unfold dec1 in H.
  destruct (b0 <? 128) eqn:E0.
  { injection H as <- <-. exists [b0]. repeat split; [discriminate|]. intros ->. reflexivity. }
  apply N.ltb_ge in E0.
  destruct (in_rng 194 223 b0) eqn:E1.
  { apply in_rng_spec in E1. destruct t0 as [|b1 t1]; [discriminate|].
    destruct (cont b1) eqn:C1; [|discriminate]. apply in_rng_spec in C1.
    injection H as <- <-. exists [b0; b1]. repeat split; [discriminate|]. unfold NL. intro X. exfalso. lia. }
  destruct (in_rng 224 239 b0) eqn:E2.
  { apply in_rng_spec in E2. destruct t0 as [|b1 [|b2 t2]]; try discriminate.
    destruct (_ && _) eqn:C; [|discriminate]. apply andb_true_iff in C as [C1 C2].
    apply in_rng_spec in C2. injection H as <- <-. exists [b0; b1; b2].
    repeat split; [discriminate|]. unfold NL. intro X. exfalso.
    assert (128 <= b2) by lia.
    destruct (N.eq_dec b0 224) as [->|Hne].
    - rewrite N.eqb_refl in C1. apply in_rng_spec in C1. lia.
    - assert (1 <= b0 - 224) by lia. nia. }
  destruct (in_rng 240 244 b0) eqn:E3; [|discriminate].
  apply in_rng_spec in E3. destruct t0 as [|b1 [|b2 [|b3 t3]]]; try discriminate.
  destruct (_ && _ && _) eqn:C; [|discriminate].
  apply andb_true_iff in C as [C C3]. apply andb_true_iff in C as [C1 C2].
  apply in_rng_spec in C2, C3. injection H as <- <-. exists [b0; b1; b2; b3].
  repeat split; [discriminate|]. unfold NL. intro X. exfalso.
  destruct (N.eq_dec b0 240) as [->|Hne].
  - rewrite N.eqb_refl in C1. apply in_rng_spec in C1. lia.
  - assert (1 <= b0 - 240) by lia. nia.
Qed.

Lemma decode_nl_aux : forall n l t,
  (List.length l <= n)%nat -> utf8_decode l = Some t -> has_nl t = true -> has_nl l = true.
Proof.
  induction n as [|n IH]; intros l t Hn Hd Ht.
  - destruct l; [|cbn in Hn; lia]. injection Hd as <-. discriminate Ht.
  - destruct l as [|b0 t0]; [injection Hd as <-; discriminate Ht|].
    rewrite utf8_decode_step in Hd.
    destruct (dec1 (b0 :: t0)) as [[c r]|] eqn:D1; [|discriminate].
    destruct (dec1_spec _ _ _ D1) as (pre & El & Hne & Hnl).
    destruct (utf8_decode r) as [t'|] eqn:Dr; [|discriminate]. cbn [cons_opt] in Hd.
    injection Hd as <-. rewrite El, has_nl_app.
    cbn [has_nl existsb] in Ht. apply orb_true_iff in Ht as [Hc|Hr].
    + apply N.eqb_eq in Hc. rewrite (Hnl Hc). reflexivity.
    + apply orb_true_iff. right. apply (IH r t'); [|exact Dr|exact Hr].
      assert (L : List.length (b0 :: t0) = (List.length pre + List.length r)%nat)
        by (rewrite El, app_length; reflexivity).
      destruct pre; [contradiction|]. cbn [List.length] in *. lia.
Qed.

Theorem safe_unicode_newline_origin : forall b t,
  safe_unicode (PBytes b) = Returned (PStr t) -> has_nl t = true -> has_nl b = true.
Proof.
  intros b t H Ht. rewrite safe_unicode_bytes in H. injection H as <-.
  destruct (utf8_decode b) as [t'|] eqn:D.
  - eapply decode_nl_aux; [apply le_n|exact D|exact Ht].
  - rewrite repr_bytes_no_nl in Ht. discriminate.
Qed.
