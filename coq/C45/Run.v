From Coq Require Import List NArith ZArith String Bool.
Import ListNotations.
From TV Require Import Lib.Obs C45.Model.

(* one correspondence case: a call of LogFormatter.format, or a direct call of _safe_unicode *)
Inductive case_input :=
| CFormat (i : log_input)
| CSafeUnicode (v : pyval).

Definition obs_raised (c : exc_class) : obs := OList [OTag "Raised"; OTag (exc_name c)].
Definition obs_unsupported : obs := OList [OTag "Unsupported"].

(* format: [returned string; record.exc_text afterwards]   or   [Raised; class] *)
Definition run_case (c : case_input) : obs :=
  match c with
  | CFormat i =>
      match format i with
      | Returned (out, et) =>
          OList [OBytes out; match et with Some t => OBytes t | None => ONone end]
      | Raised c _ => obs_raised c
      | Unsupported => obs_unsupported
      end
  | CSafeUnicode v =>
      match safe_unicode v with
      | Returned (PStr t) => OList [OTag "str"; OBytes t]
      | Returned PNone => ONone
      | Returned _ => obs_unsupported
      | Raised c _ => obs_raised c
      | Unsupported => obs_unsupported
      end
  end.

(* ---- the property on the implementation's observable ---- *)

Definition repr_ok (r : repr_res) : bool := match r with ReprOk _ => true | _ => false end.
Definition is_returned {A} (o : outcome A) : bool := match o with Returned _ => true | _ => false end.

(* The records the statement speaks about: everything the formatter is handed is a
   well-behaved oracle except the message —
   * getMessage() returns anything, or raises any subclass of Exception
     (a BaseException such as KeyboardInterrupt must propagate);
   * repr() of the exception and of the record's fields does not itself raise;
   * formatException returns, when it is called;
   * the format string fits the record's fields (every key present, %d only on ints):
     decided on the record with an empty message, the message's text never matters for that
     (Proofs: percent_shape). *)
Definition in_domain (i : log_input) : bool :=
  match in_getmsg i with
  | GMReturn (POther ty) => forallb plain_char ty
  | GMReturn _ => true
  | GMRaise c r => is_subclass c EException && repr_ok r
  end
  && repr_ok (in_dict_repr i)
  && (negb (in_exc_info i && negb (truthy (in_exc_text i))) || is_returned (in_format_exc i))
  && is_returned (percent_format (in_fmt i) (format_env i (VStr []))).

(* format returned a string (did not raise) in which every newline is followed by four
   spaces; a raise is acceptable only for a record outside the domain above.
   _safe_unicode: the same str for a str, a str for bytes in which a newline can only come
   from a newline byte, None for None; only another type may raise. *)
Definition check_case (c : case_input) (o : obs) : bool :=
  match c with
  | CFormat i =>
      match o with
      | OList [OBytes out; _] => nl_indented out
      | _ => negb (in_domain i)
      end
  | CSafeUnicode v =>
      match v, o with
      | PStr t, OList [OTag _; OBytes t'] => text_eqb t t'
      | PBytes b, OList [OTag _; OBytes t'] => negb (has_nl t') || has_nl b
      | PNone, ONone => true
      | POther _, _ => true
      | _, _ => false
      end
  end.
