From Coq Require Import List NArith String Bool.
Import ListNotations.
From TV Require Import Lib.Obs C45.Model.

(* input: (prefix, message, suffix, exc_text) *)
Definition run_case (c : list N * list N * list N * list N) : obs :=
  let '(p, m, s, e) := c in
  OBytes (format {| prefix := p; message := m; suffix := s; exc_text := e |}).

(* the property on the implementation's output: it returned a string (did not
   raise) in which every newline is followed by four spaces *)
Definition check_case (c : list N * list N * list N * list N) (o : obs) : bool :=
  match o with
  | OBytes out => nl_indented out
  | _ => false
  end.
