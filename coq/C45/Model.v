(* C45 — tornado.log.LogFormatter (format, the colour table built by __init__) and
   tornado.log._safe_unicode / tornado.escape.to_unicode.
   Text = list of code points, bytes = list of byte values.  Definitions only.

   What is an ORACLE (input of the model, computed by the stdlib on the very record):
   the outcome of record.getMessage() (returned value or raised exception class + repr(e)),
   repr(record.__dict__), Formatter.formatTime, Formatter.formatException.
   What is MODELLED: everything LogFormatter.format does with them — the try/except Exception
   around getMessage/assert/_safe_unicode, the "Bad message" fallback, the colour lookup,
   `self._fmt % record.__dict__` (a %-interpreter for mapping keys, conversions s and d),
   the exc_info / exc_text branch (with the caching of record.exc_text), rstrip, the per-line
   _safe_unicode, the join and the final replace("\n", "\n    "). *)
From Coq Require Import List NArith ZArith Bool Ascii String.
Import ListNotations.
From TV Require Import C14.Utf8.
Local Open Scope N_scope.

Definition text := list N.
Definition NL : N := 10.
Definition SP : N := 32.

Fixpoint t_of_string (s : string) : text :=
  match s with
  | EmptyString => []
  | String a s' => N_of_ascii a :: t_of_string s'
  end.

Definition text_eqb (a b : text) : bool :=
  (fix go (x y : text) : bool :=
     match x, y with
     | [], [] => true
     | c :: x', d :: y' => (c =? d) && go x' y'
     | _, _ => false
     end) a b.

(* ------------------------------------------------------------------ *)
(* the text pipeline of the last lines of format()                      *)

(* str.isspace() code points (what str.rstrip() with no argument removes) *)
Definition is_space (c : N) : bool :=
  ((9 <=? c) && (c <=? 13)) || ((28 <=? c) && (c <=? 32)) || (c =? 133) || (c =? 160)
  || (c =? 5760) || ((8192 <=? c) && (c <=? 8202)) || (c =? 8232) || (c =? 8233)
  || (c =? 8239) || (c =? 8287) || (c =? 12288).

Fixpoint lstrip (s : text) : text :=
  match s with
  | c :: s' => if is_space c then lstrip s' else s
  | [] => []
  end.
Definition rstrip (s : text) : text := rev (lstrip (rev s)).

(* s.split("\n") *)
Fixpoint split_nl_aux (cur : text) (s : text) : list text :=
  match s with
  | [] => [rev cur]
  | c :: s' => if c =? NL then rev cur :: split_nl_aux [] s' else split_nl_aux (c :: cur) s'
  end.
Definition split_nl (s : text) : list text := split_nl_aux [] s.

(* "\n".join(lines) *)
Fixpoint join_nl (ls : list text) : text :=
  match ls with
  | [] => []
  | [l] => l
  | l :: ls' => l ++ NL :: join_nl ls'
  end.

(* formatted.replace("\n", "\n    ") *)
Fixpoint indent (s : text) : text :=
  match s with
  | [] => []
  | c :: s' => if c =? NL then NL :: SP :: SP :: SP :: SP :: indent s' else c :: indent s'
  end.

(* the property on an output string: every newline is followed by 4 spaces *)
Fixpoint nl_indented (s : text) : bool :=
  match s with
  | [] => true
  | c :: s' =>
      (if c =? NL then
         match s' with
         | a :: b :: c' :: d :: _ => (a =? SP) && (b =? SP) && (c' =? SP) && (d =? SP)
         | _ => false
         end
       else true) && nl_indented s'
  end.

(* removing the four characters that follow every newline *)
Fixpoint unindent (s : text) : text :=
  match s with
  | [] => []
  | c :: s' =>
      if c =? NL then NL :: drop4 s' else c :: unindent s'
  end
with drop4 (s : text) : text :=
  match s with
  | _ :: (_ :: (_ :: (_ :: t) as s3) as s2) as s1 => unindent t
  | _ => []
  end.

Definition has_nl (s : text) : bool := existsb (fun c => c =? NL) s.

(* ------------------------------------------------------------------ *)
(* exception classes and `except` clauses                               *)

Inductive exc_class :=
| EBaseException | EException | ETypeError | EValueError | EUnicodeError
| EUnicodeDecodeError | EUnicodeEncodeError | ELookupError | EKeyError | EIndexError
| EArithmeticError | EOverflowError | EZeroDivisionError | EAssertionError
| EAttributeError | ERuntimeError | ERecursionError | ENotImplementedError
| EOSError | EMemoryError | EStopIteration
| EKeyboardInterrupt | ESystemExit | EGeneratorExit
| EUserException      (* class X(Exception) defined by the application *)
| EUserBase.          (* class X(BaseException) defined by the application *)

Definition exc_id (c : exc_class) : N :=
  match c with
  | EBaseException => 0 | EException => 1 | ETypeError => 2 | EValueError => 3 | EUnicodeError => 4
  | EUnicodeDecodeError => 5 | EUnicodeEncodeError => 6 | ELookupError => 7 | EKeyError => 8
  | EIndexError => 9 | EArithmeticError => 10 | EOverflowError => 11 | EZeroDivisionError => 12
  | EAssertionError => 13 | EAttributeError => 14 | ERuntimeError => 15 | ERecursionError => 16
  | ENotImplementedError => 17 | EOSError => 18 | EMemoryError => 19 | EStopIteration => 20
  | EKeyboardInterrupt => 21 | ESystemExit => 22 | EGeneratorExit => 23
  | EUserException => 24 | EUserBase => 25
  end.
Definition exc_eqb (a b : exc_class) : bool := exc_id a =? exc_id b.

(* the direct base class (CPython's built-in hierarchy) *)
Definition exc_parent (c : exc_class) : option exc_class :=
  match c with
  | EBaseException => None
  | EException | EKeyboardInterrupt | ESystemExit | EGeneratorExit | EUserBase => Some EBaseException
  | ETypeError | EValueError | ELookupError | EArithmeticError | EAssertionError | EAttributeError
  | ERuntimeError | EOSError | EMemoryError | EStopIteration | EUserException => Some EException
  | EUnicodeError => Some EValueError
  | EUnicodeDecodeError | EUnicodeEncodeError => Some EUnicodeError
  | EKeyError | EIndexError => Some ELookupError
  | EOverflowError | EZeroDivisionError => Some EArithmeticError
  | ERecursionError | ENotImplementedError => Some ERuntimeError
  end.

(* issubclass(c, h): walk up the chain; the chain is at most 4 links long
   (Proofs: fuel 6 always reaches BaseException) *)
Fixpoint is_subclass_fuel (n : nat) (c h : exc_class) : bool :=
  exc_eqb c h ||
  match n with
  | O => false
  | S n' => match exc_parent c with Some p => is_subclass_fuel n' p h | None => false end
  end.
Definition is_subclass (c h : exc_class) : bool := is_subclass_fuel 6 c h.

(* `except (h1, h2, ...)` catches an exception of class c *)
Definition except_catches (handlers : list exc_class) (c : exc_class) : bool :=
  existsb (is_subclass c) handlers.

Definition exc_name (c : exc_class) : string :=
  match c with
  | EBaseException => "BaseException" | EException => "Exception" | ETypeError => "TypeError"
  | EValueError => "ValueError" | EUnicodeError => "UnicodeError"
  | EUnicodeDecodeError => "UnicodeDecodeError" | EUnicodeEncodeError => "UnicodeEncodeError"
  | ELookupError => "LookupError" | EKeyError => "KeyError" | EIndexError => "IndexError"
  | EArithmeticError => "ArithmeticError" | EOverflowError => "OverflowError"
  | EZeroDivisionError => "ZeroDivisionError" | EAssertionError => "AssertionError"
  | EAttributeError => "AttributeError" | ERuntimeError => "RuntimeError"
  | ERecursionError => "RecursionError" | ENotImplementedError => "NotImplementedError"
  | EOSError => "OSError" | EMemoryError => "MemoryError" | EStopIteration => "StopIteration"
  | EKeyboardInterrupt => "KeyboardInterrupt" | ESystemExit => "SystemExit"
  | EGeneratorExit => "GeneratorExit" | EUserException => "UserException" | EUserBase => "UserBase"
  end%string.

(* repr(e) of a raised exception, as far as it is known: it is text, or computing it raises
   (an object with a broken __repr__), or it is outside the modelled fragment *)
Inductive repr_res := ReprOk (t : text) | ReprRaises (c : exc_class) | ReprUnsup.

(* outcome of a step: a value, an exception (class + its repr), or "outside the model" —
   [Unsupported] is never equal to an implementation observable, so it fails closed *)
Inductive outcome (A : Type) :=
| Returned (a : A)
| Raised (c : exc_class) (r : repr_res)
| Unsupported.
Arguments Returned {A} a.
Arguments Raised {A} c r.
Arguments Unsupported {A}.

Definition bind {A B} (o : outcome A) (f : A -> outcome B) : outcome B :=
  match o with
  | Returned a => f a
  | Raised c r => Raised c r
  | Unsupported => Unsupported
  end.
Definition omap {A B} (f : A -> B) (o : outcome A) : outcome B := bind o (fun a => Returned (f a)).

(* ------------------------------------------------------------------ *)
(* Python values that can reach _safe_unicode, repr() of them            *)

Inductive pyval :=
| PNone
| PStr (t : text)
| PBytes (b : list N)
| POther (type_repr : text).     (* any other object; repr(type(v)), e.g. <class 'int'> *)

Definition hexd (n : N) : N := if n <? 10 then 48 + n else 87 + n.

(* repr(b) for bytes: quote is " only if b contains ' and no " *)
Definition bytes_quote (b : list N) : N :=
  if existsb (N.eqb 39) b && negb (existsb (N.eqb 34) b) then 34 else 39.
Definition repr_byte (q c : N) : text :=
  if (c =? q) || (c =? 92) then [92; c]
  else if c =? 9 then [92; 116]
  else if c =? 10 then [92; 110]
  else if c =? 13 then [92; 114]
  else if (c <? 32) || (127 <=? c) then [92; 120; hexd (c / 16); hexd (c mod 16)]
  else [c].
Definition repr_bytes (b : list N) : text :=
  let q := bytes_quote b in
  98 :: q :: flat_map (repr_byte q) b ++ [q].

(* repr(s) for str, on the fragment printable-ASCII-without-backslash (else Unsupported) *)
Definition plain_char (c : N) : bool := (32 <=? c) && (c <=? 126) && negb (c =? 92).
Definition repr_str (t : text) : outcome text :=
  if forallb plain_char t then
    let q := bytes_quote t in
    Returned (q :: flat_map (fun c => if c =? q then [92; c] else [c]) t ++ [q])
  else Unsupported.

(* tornado.escape.to_unicode:
     if isinstance(value, (str, type(None))): return value
     if not isinstance(value, bytes): raise TypeError("Expected bytes, unicode, or None; got %r" % type(value))
     return value.decode("utf-8")                                   *)
Definition TO_UNICODE_MSG : text := t_of_string "Expected bytes, unicode, or None; got ".
Definition exc_repr1 (cls : string) (msg : text) : repr_res :=
  match repr_str msg with
  | Returned r => ReprOk (t_of_string cls ++ 40 :: r ++ [41])
  | _ => ReprUnsup
  end.
Definition to_unicode (v : pyval) : outcome pyval :=
  match v with
  | PStr _ | PNone => Returned v
  | POther ty => Raised ETypeError (exc_repr1 "TypeError" (TO_UNICODE_MSG ++ ty))
  | PBytes b =>
      match utf8_decode b with
      | Some t => Returned (PStr t)
      | None => Raised EUnicodeDecodeError ReprUnsup
      end
  end.

Definition py_repr (v : pyval) : outcome text :=
  match v with
  | PBytes b => Returned (repr_bytes b)
  | PStr t => repr_str t
  | PNone => Returned (t_of_string "None")
  | POther _ => Unsupported
  end.

(* tornado.log._safe_unicode:
     try: return _unicode(s)
     except UnicodeDecodeError: return repr(s)                      *)
Definition safe_unicode (v : pyval) : outcome pyval :=
  match to_unicode v with
  | Raised c r =>
      if except_catches [EUnicodeDecodeError] c then omap PStr (py_repr v) else Raised c r
  | o => o
  end.

(* ------------------------------------------------------------------ *)
(* `fmt % mapping` for the fragment  %(key)[-][width][.prec](s|d)  and %% *)

Inductive fval := VStr (t : text) | VInt (z : Z) | VNone.
Definition env := list (text * fval).

Fixpoint lookup (k : text) (e : env) : option fval :=
  match e with
  | [] => None
  | (k', v) :: e' => if text_eqb k k' then Some v else lookup k e'
  end.

Fixpoint uint_text (u : Decimal.uint) : text :=
  match u with
  | Decimal.Nil => []
  | Decimal.D0 u' => 48 :: uint_text u'
  | Decimal.D1 u' => 49 :: uint_text u'
  | Decimal.D2 u' => 50 :: uint_text u'
  | Decimal.D3 u' => 51 :: uint_text u'
  | Decimal.D4 u' => 52 :: uint_text u'
  | Decimal.D5 u' => 53 :: uint_text u'
  | Decimal.D6 u' => 54 :: uint_text u'
  | Decimal.D7 u' => 55 :: uint_text u'
  | Decimal.D8 u' => 56 :: uint_text u'
  | Decimal.D9 u' => 57 :: uint_text u'
  end.
(* str(z) for an int *)
Definition dec_Z (z : Z) : text :=
  match z with
  | Z0 => [48]
  | Zpos p => uint_text (Pos.to_uint p)
  | Zneg p => 45 :: uint_text (Pos.to_uint p)
  end.

Definition str_of_fval (v : fval) : text :=
  match v with
  | VStr t => t
  | VInt z => dec_Z z
  | VNone => t_of_string "None"
  end.

Definition pad (ljust : bool) (width : N) (t : text) : text :=
  let n := N.of_nat (List.length t) in
  if width <=? n then t
  else let fill := repeat SP (N.to_nat (width - n)) in
       if ljust then t ++ fill else fill ++ t.

(* one conversion: conv is the code of 's' (115) or 'd' (100) *)
Definition render (conv : N) (ljust : bool) (width : N) (prec : option N) (v : fval) : outcome text :=
  if conv =? 115 then
    let s := str_of_fval v in
    let s := match prec with Some p => firstn (N.to_nat p) s | None => s end in
    Returned (pad ljust width s)
  else if conv =? 100 then
    match v, prec with
    | VInt z, None => Returned (pad ljust width (dec_Z z))
    | VInt _, Some _ => Unsupported
    | _, _ => Raised ETypeError ReprUnsup      (* %d format: a real number is required *)
    end
  else Unsupported.

Definition is_digit (c : N) : bool := (48 <=? c) && (c <=? 57).

(* parser/interpreter states; the looked-up value is carried from the ')' on, because
   CPython looks the key up (KeyError) before it reads the rest of the specifier *)
Inductive pstate :=
| SLit                                   (* literal text *)
| SPct                                   (* just after '%' *)
| SKey (acc : text)                      (* inside %( ... , reversed *)
| SFlags (v : fval) (ljust : bool)
| SWidth (v : fval) (ljust : bool) (w : N)
| SPrec (v : fval) (ljust : bool) (w : N) (p : N).

Definition conv_step (rest : outcome text) (c : N) (ljust : bool) (w : N) (p : option N) (v : fval)
  : outcome text :=
  bind (render c ljust w p v) (fun t => omap (app t) rest).

Fixpoint interp (e : env) (st : pstate) (s : text) : outcome text :=
  match s with
  | [] =>
      match st with
      | SLit => Returned []
      | _ => Raised EValueError ReprUnsup          (* incomplete format / incomplete format key *)
      end
  | c :: s' =>
      match st with
      | SLit => if c =? 37 then interp e SPct s' else omap (cons c) (interp e SLit s')
      | SPct =>
          if c =? 37 then omap (cons 37) (interp e SLit s')
          else if c =? 40 then interp e (SKey []) s'
          else Unsupported                           (* positional specifier with a mapping *)
      | SKey acc =>
          if c =? 41 then
            match lookup (rev acc) e with
            | Some v => interp e (SFlags v false) s'
            | None => Raised EKeyError ReprUnsup
            end
          else if c =? 40 then Unsupported           (* nested parentheses in a key *)
          else interp e (SKey (c :: acc)) s'
      | SFlags v ljust =>
          if c =? 45 then interp e (SFlags v true) s'
          else if c =? 48 then Unsupported           (* flag 0 *)
          else if is_digit c then interp e (SWidth v ljust (c - 48)) s'
          else if c =? 46 then interp e (SPrec v ljust 0 0) s'
          else if (c =? 35) || (c =? 32) || (c =? 43) || (c =? 42) then Unsupported
          else conv_step (interp e SLit s') c ljust 0 None v
      | SWidth v ljust w =>
          if is_digit c then interp e (SWidth v ljust (w * 10 + (c - 48))) s'
          else if c =? 46 then interp e (SPrec v ljust w 0) s'
          else conv_step (interp e SLit s') c ljust w None v
      | SPrec v ljust w p =>
          if is_digit c then interp e (SPrec v ljust w (p * 10 + (c - 48))) s'
          else if c =? 42 then Unsupported
          else conv_step (interp e SLit s') c ljust w (Some p) v
      end
  end.

Definition percent_format (fmt : text) (e : env) : outcome text := interp e SLit fmt.

(* ------------------------------------------------------------------ *)
(* LogFormatter.__init__: the colour table                               *)

(* color and _stderr_supports_color() false  ->  ColorOff;
   true with curses absent (the colorama branch): "\033[2;3%dm" % code per level, normal "\033[0m".
   (The curses branch takes the strings from terminfo and is not modelled.) *)
Inductive color_cfg := ColorOff | ColorAnsi (colors : list (Z * Z)).

Definition ansi_color (code : Z) : text := [27; 91; 50; 59; 51] ++ dec_Z code ++ [109].
Definition ANSI_NORMAL : text := [27; 91; 48; 109].
Definition DEFAULT_COLORS : list (Z * Z) := [(10, 4); (20, 2); (30, 3); (40, 1); (50, 5)]%Z.

(* dict(colors.items()): a later duplicate key would win; keys from a dict are unique,
   the harness supplies unique keys *)
Fixpoint zlookup (k : Z) (l : list (Z * Z)) : option Z :=
  match l with
  | [] => None
  | (k', v) :: l' => if Z.eqb k k' then Some v else zlookup k l'
  end.

(* (record.color, record.end_color) *)
Definition colors_for (cfg : color_cfg) (levelno : Z) : text * text :=
  match cfg with
  | ColorOff => ([], [])
  | ColorAnsi colors =>
      match zlookup levelno colors with
      | Some code => (ansi_color code, ANSI_NORMAL)
      | None => ([], [])
      end
  end.

(* ------------------------------------------------------------------ *)
(* LogFormatter.format                                                   *)

Inductive gm_result :=
| GMReturn (v : pyval)                          (* record.getMessage() returned v *)
| GMRaise (c : exc_class) (e_repr : repr_res).  (* it raised an exception of class c *)

Record log_input := {
  in_fmt : text;                    (* self._fmt *)
  in_color : color_cfg;             (* what __init__ decided *)
  in_optimized : bool;              (* python -O: the assert statement is compiled away *)
  in_getmsg : gm_result;            (* oracle: record.getMessage() *)
  in_dict_repr : repr_res;          (* oracle: repr(record.__dict__) at the time of the fallback *)
  in_asctime : text;                (* oracle: self.formatTime(record, self.datefmt) *)
  in_levelno : Z;                   (* record.levelno *)
  in_fields : env;                  (* the other str/int entries of record.__dict__ *)
  in_exc_info : bool;               (* truthiness of record.exc_info *)
  in_exc_text : option text;        (* record.exc_text: None or a str *)
  in_format_exc : outcome text      (* oracle: self.formatException(record.exc_info) *)
}.

Definition K_message := t_of_string "message".
Definition K_asctime := t_of_string "asctime".
Definition K_color := t_of_string "color".
Definition K_end_color := t_of_string "end_color".
Definition K_levelno := t_of_string "levelno".
Definition K_exc_text := t_of_string "exc_text".

Definition BAD1 := t_of_string "Bad message (".
Definition BAD2 := t_of_string "): ".

(* the `except` clause of format(): *)
Definition FORMAT_EXCEPT : list exc_class := [EException].

Definition repr_outcome (r : repr_res) : outcome text :=
  match r with
  | ReprOk t => Returned t
  | ReprRaises c => Raised c ReprUnsup
  | ReprUnsup => Unsupported
  end.

(* f"Bad message ({e!r}): {record.__dict__!r}" — e!r is evaluated first *)
Definition bad_message (e_repr dict_repr : repr_res) : outcome text :=
  bind (repr_outcome e_repr) (fun er =>
  bind (repr_outcome dict_repr) (fun dr =>
  Returned (BAD1 ++ er ++ BAD2 ++ dr))).

(* the body of the try: the value assigned to record.message *)
Definition try_body (i : log_input) : outcome pyval :=
  match in_getmsg i with
  | GMRaise c r => Raised c r
  | GMReturn v =>
      let is_str := match v with PStr _ => true | _ => false end in
      if negb (in_optimized i) && negb is_str
      then Raised EAssertionError (ReprOk (t_of_string "AssertionError()"))
      else safe_unicode v
  end.

(* try: ... except Exception as e: record.message = f"Bad message ..." *)
Definition message_of (i : log_input) : outcome fval :=
  match try_body i with
  | Returned (PStr t) => Returned (VStr t)
  | Returned PNone => Returned VNone
  | Returned _ => Unsupported                 (* _safe_unicode returns str or None only (Proofs) *)
  | Raised c r =>
      if except_catches FORMAT_EXCEPT c
      then omap VStr (bad_message r (in_dict_repr i))
      else Raised c r
  | Unsupported => Unsupported
  end.

Definition truthy (t : option text) : bool :=
  match t with Some (_ :: _) => true | _ => false end.

Fixpoint safe_lines (ls : list text) : outcome (list text) :=
  match ls with
  | [] => Returned []
  | l :: ls' =>
      bind (safe_unicode (PStr l)) (fun v =>
        match v with
        | PStr t => omap (cons t) (safe_lines ls')
        | _ => Unsupported
        end)
  end.

(* record.__dict__ as seen by `self._fmt % record.__dict__` *)
Definition format_env (i : log_input) (message : fval) : env :=
  let '(color, end_color) := colors_for (in_color i) (in_levelno i) in
  (K_end_color, VStr end_color) :: (K_color, VStr color) :: (K_asctime, VStr (in_asctime i))
  :: (K_message, message) :: (K_levelno, VInt (in_levelno i)) :: in_fields i.

(* result: the returned string and record.exc_text afterwards *)
Definition format (i : log_input) : outcome (text * option text) :=
  bind (message_of i) (fun message =>
  bind (percent_format (in_fmt i) (format_env i message)) (fun formatted =>
  bind (if in_exc_info i && negb (truthy (in_exc_text i))
        then omap Some (in_format_exc i) else Returned (in_exc_text i)) (fun exc_text =>
  match exc_text with
  | Some (c :: e) =>                                   (* if record.exc_text: *)
      bind (safe_lines (split_nl (c :: e))) (fun ls =>
      Returned (indent (join_nl (rstrip formatted :: ls)), exc_text))
  | _ => Returned (indent formatted, exc_text)
  end))).

Definition DEFAULT_FORMAT : text :=
  t_of_string "%(color)s[%(levelname)1.1s %(asctime)s %(module)s:%(lineno)d]%(end_color)s %(message)s".
