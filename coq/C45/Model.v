(* C45 — tornado.log.LogFormatter.format, from the point where the record's
   message text and exception text are known.  Text = list of code points.
   Definitions only. *)
From Coq Require Import List NArith Bool.
Import ListNotations.
Local Open Scope N_scope.

Definition text := list N.
Definition NL : N := 10.
Definition SP : N := 32.

(* str.isspace() code points (what str.rstrip() with no argument removes) *)
Definition is_space (c : N) : bool :=
  ((9 <=? c) && (c <=? 13)) || ((28 <=? c) && (c <=? 32)) || (c =? 133) || (c =? 160)
  || (c =? 5760) || ((8192 <=? c) && (c <=? 8202)) || (c =? 8232) || (c =? 8233)
  || (c =? 8239) || (c =? 8287) || (c =? 12288).

Fixpoint lstrip (s : text) : text :=
  match s with
  | c :: s' => if is_space c then lstrip s' else s
  | [] => []
  end.
Definition rstrip (s : text) : text := rev (lstrip (rev s)).

(* s.split("\n") *)
Fixpoint split_nl_aux (cur : text) (s : text) : list text :=
  match s with
  | [] => [rev cur]
  | c :: s' => if c =? NL then rev cur :: split_nl_aux [] s' else split_nl_aux (c :: cur) s'
  end.
Definition split_nl (s : text) : list text := split_nl_aux [] s.

(* "\n".join(lines) *)
Fixpoint join_nl (ls : list text) : text :=
  match ls with
  | [] => []
  | [l] => l
  | l :: ls' => l ++ NL :: join_nl ls'
  end.

(* formatted.replace("\n", "\n    ") *)
Fixpoint indent (s : text) : text :=
  match s with
  | [] => []
  | c :: s' => if c =? NL then NL :: SP :: SP :: SP :: SP :: indent s' else c :: indent s'
  end.

(* record as seen by format():
   prefix/suffix : the format string around %(message)s with every other field
                   already interpolated (fmt % record.__dict__ is concatenation);
   message       : record.message after the try/except (the safe text of
                   getMessage(), or the "Bad message (...)" text);
   exc_text      : record.exc_text after the exc_info branch ([] = falsy). *)
Record record := { prefix : text; message : text; suffix : text; exc_text : text }.

Definition formatted0 (r : record) : text := prefix r ++ message r ++ suffix r.

Definition format (r : record) : text :=
  let f0 := formatted0 r in
  let f1 := match exc_text r with
            | [] => f0
            | e => join_nl (rstrip f0 :: split_nl e)
            end in
  indent f1.

(* the property on an output string: every newline is followed by 4 spaces *)
Fixpoint nl_indented (s : text) : bool :=
  match s with
  | [] => true
  | c :: s' =>
      (if c =? NL then
         match s' with
         | a :: b :: c' :: d :: _ => (a =? SP) && (b =? SP) && (c' =? SP) && (d =? SP)
         | _ => false
         end
       else true) && nl_indented s'
  end.

(* removing the four characters that follow every newline *)
Fixpoint unindent (s : text) : text :=
  match s with
  | [] => []
  | c :: s' =>
      if c =? NL then NL :: drop4 s' else c :: unindent s'
  end
with drop4 (s : text) : text :=
  match s with
  | _ :: (_ :: (_ :: (_ :: t) as s3) as s2) as s1 => unindent t
  | _ => []
  end.
