(* C45 proofs, part 2: `fmt % record.__dict__` — whether (and with which exception class) the
   interpolation fails does not depend on the message text; the shape of the default format;
   colour codes. *)
From Coq Require Import List NArith ZArith Bool Lia String.
Import ListNotations.
From TV Require Import C45.Model C45.Proofs.
Local Open Scope N_scope.

(* forget the produced text, keep returned / raised class / unsupported *)
Definition erase {A} (o : outcome A) : outcome unit := omap (fun _ => tt) o.

Lemma erase_omap : forall A B (f : A -> B) (o : outcome A), erase (omap f o) = erase o.
Proof. intros A B f [a|c r|]; reflexivity. Qed.

Lemma erase_bind_omap : forall A B C (o : outcome A) (g : A -> B -> C) (rest : outcome B),
  erase (bind o (fun t => omap (g t) rest)) = bind (erase o) (fun _ => erase rest).
Proof. intros A B C [a|c r|] g rest; cbn [bind erase omap]; [|reflexivity|reflexivity].
  destruct rest; reflexivity. Qed.

(* the only thing about a value that decides success of a conversion *)
Definition vkind (v : fval) : bool := match v with VInt _ => true | _ => false end.

Lemma render_erase : forall conv l w p v v',
  vkind v = vkind v' -> erase (render conv l w p v) = erase (render conv l w p v').
Proof.
  intros conv l w p v v' K. unfold render.
  destruct (conv =? 115); [reflexivity|].
  destruct (conv =? 100); [|reflexivity].
  destruct v, v'; try discriminate K; destruct p; reflexivity.
Qed.

Lemma conv_step_erase : forall r1 r2 c l w p v v',
  vkind v = vkind v' -> erase r1 = erase r2 ->
  erase (conv_step r1 c l w p v) = erase (conv_step r2 c l w p v').
Proof.
  intros r1 r2 c l w p v v' K R. unfold conv_step.
  pose proof (render_erase c l w p v v' K) as RE.
  destruct (render c l w p v) as [a|x rx|], (render c l w p v') as [a'|x' rx'|];
    cbn [erase omap bind] in RE; try discriminate RE; cbn [bind].
  - rewrite !erase_omap. exact R.
  - exact RE.
  - reflexivity.
Qed.

Definition env_sim (e1 e2 : env) : Prop :=
  forall k, option_map vkind (lookup k e1) = option_map vkind (lookup k e2).

Definition st_sim (s1 s2 : pstate) : Prop :=
  match s1, s2 with
  | SLit, SLit | SPct, SPct => True
  | SKey a, SKey b => a = b
  | SFlags v l, SFlags v' l' => vkind v = vkind v' /\ l = l'
  | SWidth v l w, SWidth v' l' w' => vkind v = vkind v' /\ l = l' /\ w = w'
  | SPrec v l w p, SPrec v' l' w' p' => vkind v = vkind v' /\ l = l' /\ w = w' /\ p = p'
  | _, _ => False
  end.

Lemma interp_erase : forall e1 e2, env_sim e1 e2 ->
  forall s st1 st2, st_sim st1 st2 -> erase (interp e1 st1 s) = erase (interp e2 st2 s).
Proof.
  intros e1 e2 He. induction s as [|c s IH]; intros st1 st2 Hs.
  - destruct st1, st2; try contradiction; reflexivity.
  - destruct st1, st2; try contradiction; cbn [st_sim] in Hs; cbn [interp].
    + (* SLit *)
      destruct (c =? 37); [apply IH; exact I|]. rewrite !erase_omap. apply IH; exact I.
    + (* SPct *)
      destruct (c =? 37); [rewrite !erase_omap; apply IH; exact I|].
      destruct (c =? 40); [apply IH; reflexivity|reflexivity].
    + (* SKey *)
      subst acc0. destruct (c =? 41).
      * specialize (He (rev acc)).
        destruct (lookup (rev acc) e1) as [v1|], (lookup (rev acc) e2) as [v2|];
          cbn [option_map] in He; try discriminate He; [|reflexivity].
        apply IH. cbn [st_sim]. split; [congruence|reflexivity].
      * destruct (c =? 40); [reflexivity|]. apply IH. reflexivity.
    + (* SFlags *)
      destruct Hs as [K ->].
      destruct (c =? 45); [apply IH; cbn [st_sim]; auto|].
      destruct (c =? 48); [reflexivity|].
      destruct (is_digit c); [apply IH; cbn [st_sim]; auto|].
      destruct (c =? 46); [apply IH; cbn [st_sim]; auto|].
      destruct ((c =? 35) || (c =? 32) || (c =? 43) || (c =? 42)); [reflexivity|].
      apply conv_step_erase; [exact K|apply IH; exact I].
    + (* SWidth *)
      destruct Hs as (K & -> & ->).
      destruct (is_digit c); [apply IH; cbn [st_sim]; auto|].
      destruct (c =? 46); [apply IH; cbn [st_sim]; auto|].
      apply conv_step_erase; [exact K|apply IH; exact I].
    + (* SPrec *)
      destruct Hs as (K & -> & -> & ->).
      destruct (is_digit c); [apply IH; cbn [st_sim]; auto|].
      destruct (c =? 42); [reflexivity|].
      apply conv_step_erase; [exact K|apply IH; exact I].
Qed.

Lemma erase_returned : forall A (o : outcome A) B (o' : outcome B),
  erase o = erase o' -> (exists a, o = Returned a) -> exists b, o' = Returned b.
Proof. intros A o B o' E [a ->]. destruct o'; try discriminate E. eauto. Qed.

(* the record's dictionary with two different message values that are both not ints *)
Lemma format_env_sim : forall i m m',
  vkind m = false -> vkind m' = false -> env_sim (format_env i m) (format_env i m').
Proof.
  intros i m m' K K' k. unfold format_env.
  destruct (colors_for (in_color i) (in_levelno i)) as [col ec].
  cbn [lookup].
  repeat (match goal with |- context [text_eqb k ?x] => destruct (text_eqb k x) end;
          [cbn [option_map]; congruence|]).
  reflexivity.
Qed.

(* whether the interpolation succeeds (and the class it raises otherwise) is the same for every
   message value format() can produce: a str or None *)
Theorem percent_shape : forall i m m',
  vkind m = false -> vkind m' = false ->
  erase (percent_format (in_fmt i) (format_env i m)) = erase (percent_format (in_fmt i) (format_env i m')).
Proof.
  intros i m m' K K'. unfold percent_format.
  apply interp_erase; [apply format_env_sim; assumption|exact I].
Qed.

(* ---------------- literal text and %% ---------------- *)

(* a format string without '%' is copied *)
Lemma interp_literal : forall e s, existsb (N.eqb 37) s = false -> interp e SLit s = Returned s.
Proof.
  intros e s. induction s as [|c s IH]; intro H; [reflexivity|].
  cbn [existsb] in H. apply orb_false_iff in H as [H1 H2].
  cbn [interp]. rewrite N.eqb_sym, H1, (IH H2). reflexivity.
Qed.

(* ---------------- colour codes ---------------- *)

Lemma uint_text_no_nl : forall u, has_nl (uint_text u) = false.
Proof. induction u; cbn [uint_text has_nl existsb]; try reflexivity; exact IHu. Qed.

Lemma dec_Z_no_nl : forall z, has_nl (dec_Z z) = false.
Proof. destruct z; cbn [dec_Z]; [reflexivity| |]; [|cbn [has_nl existsb]; cbn [N.eqb]]; apply uint_text_no_nl. Qed.

Theorem color_codes_no_nl : forall cfg lv,
  has_nl (fst (colors_for cfg lv)) = false /\ has_nl (snd (colors_for cfg lv)) = false.
Proof.
  intros [|colors] lv; cbn [colors_for]; [split; reflexivity|].
  destruct (zlookup lv colors) as [code|]; cbn [fst snd]; [|split; reflexivity].
  split; [|reflexivity].
  unfold ansi_color. rewrite !has_nl_app, dec_Z_no_nl. reflexivity.
Qed.

(* colour off: both codes empty *)
Lemma color_off : forall lv, colors_for ColorOff lv = ([], []).
Proof. reflexivity. Qed.

(* the default table: exactly the five standard levels are coloured *)
Lemma default_colors_levels : forall lv,
  fst (colors_for (ColorAnsi DEFAULT_COLORS) lv) <> [] <->
  In lv [10; 20; 30; 40; 50]%Z.
Proof.
  intro lv. cbn [colors_for DEFAULT_COLORS zlookup].
  destruct (Z.eqb_spec lv 10); [subst; cbn; split; [auto|discriminate]|].
  destruct (Z.eqb_spec lv 20); [subst; cbn; split; [auto|discriminate]|].
  destruct (Z.eqb_spec lv 30); [subst; cbn; split; [auto 6|discriminate]|].
  destruct (Z.eqb_spec lv 40); [subst; cbn; split; [auto 6|discriminate]|].
  destruct (Z.eqb_spec lv 50); [subst; cbn; split; [auto 8|discriminate]|].
  cbn. split; [contradiction|]. intros [H|[H|[H|[H|[H|[]]]]]]; congruence.
Qed.

(* ---------------- the default format ---------------- *)

Definition K_levelname := t_of_string "levelname".
Definition K_module := t_of_string "module".
Definition K_lineno := t_of_string "lineno".

Lemma pad_zero : forall l t, pad l 0 t = t.
Proof. intros l t. unfold pad. destruct (N.of_nat (List.length t)); reflexivity. Qed.

(* "%(color)s[%(levelname)1.1s %(asctime)s %(module)s:%(lineno)d]%(end_color)s %(message)s":
   the colour code opens the line, the normal code closes the bracketed prefix, and the message
   comes after both — colour wraps only the prefix; the interpolation cannot fail for a record
   that has levelname, module (str) and lineno (int). *)
Theorem default_format_shape : forall i m ln md lno,
  lookup K_levelname (in_fields i) = Some (VStr ln) ->
  lookup K_module (in_fields i) = Some (VStr md) ->
  lookup K_lineno (in_fields i) = Some (VInt lno) ->
  percent_format DEFAULT_FORMAT (format_env i m)
  = Returned (fst (colors_for (in_color i) (in_levelno i)) ++ [91] ++ pad false 1 (firstn 1 ln) ++ [32]
              ++ in_asctime i ++ [32] ++ md ++ [58] ++ dec_Z lno ++ [93]
              ++ snd (colors_for (in_color i) (in_levelno i)) ++ [32] ++ str_of_fval m).
Proof.
  intros i m ln md lno H1 H2 H3.
  unfold percent_format, format_env.
  destruct (colors_for (in_color i) (in_levelno i)) as [col ec]. cbn [fst snd].
  let x := eval vm_compute in DEFAULT_FORMAT in change DEFAULT_FORMAT with x.
  unfold K_levelname in H1; unfold K_module in H2; unfold K_lineno in H3.
  let x := eval vm_compute in (t_of_string "levelname") in change (t_of_string "levelname") with x in H1.
  let x := eval vm_compute in (t_of_string "module") in change (t_of_string "module") with x in H2.
  let x := eval vm_compute in (t_of_string "lineno") in change (t_of_string "lineno") with x in H3.
  cbn -[pad dec_Z firstn str_of_fval].
  rewrite H1. cbn -[pad dec_Z firstn str_of_fval].
  rewrite H2. cbn -[pad dec_Z firstn str_of_fval].
  rewrite H3. cbn -[pad dec_Z firstn str_of_fval].
  rewrite !pad_zero, app_nil_r. reflexivity.
Qed.

(* "%(message)s" alone: the output is the message *)
Lemma message_only_format : forall i m,
  percent_format (t_of_string "%(message)s") (format_env i m) = Returned (str_of_fval m).
Proof.
  intros i m. unfold percent_format, format_env.
  destruct (colors_for (in_color i) (in_levelno i)) as [col ec].
  let x := eval vm_compute in (t_of_string "%(message)s") in change (t_of_string "%(message)s") with x.
  cbn -[pad str_of_fval]. rewrite pad_zero, app_nil_r. reflexivity.
Qed.
