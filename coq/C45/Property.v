(* C45 — Log formatting never fails and cannot forge log entries. *)
From Coq Require Import List NArith.
Import ListNotations.
From TV Require Import Lib.Obs C45.Model C45.Proofs C45.Run.

(* For every record (any prefix/suffix produced by the format string, any message
   text, any exception text) format is a total function whose result has four
   spaces after every newline. *)
Theorem C45_every_newline_is_indented : forall r, nl_indented (format r) = true.
Proof. exact format_newlines_indented. Qed.
Print Assumptions C45_every_newline_is_indented.

(* Positional reading: whatever message content follows a newline in the output
   starts with indentation, so it cannot begin a new "[L date module:line]" entry. *)
Theorem C45_no_forged_entry : forall r pre post,
  format r = pre ++ NL :: post -> exists t, post = SP :: SP :: SP :: SP :: t.
Proof. exact format_no_forged_entry. Qed.
Print Assumptions C45_no_forged_entry.

(* Indentation is the only change made to the text. *)
Theorem C45_content_preserved : forall r, unindent (format r) = unindented r.
Proof. exact format_content_preserved. Qed.
Print Assumptions C45_content_preserved.

(* The model's output always satisfies the checker applied to the implementation. *)
Theorem C45_model_satisfies_checker : forall c, check_case c (run_case c) = true.
Proof. intros [[[p m] s] e]. cbn [run_case check_case]. apply format_newlines_indented. Qed.
Print Assumptions C45_model_satisfies_checker.
