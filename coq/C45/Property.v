(* C45 — Log formatting never fails and cannot forge log entries.
   tornado/log.py LogFormatter.format (+ the colour table of __init__) and _safe_unicode.
   `format i` is the model of one call: Returned (line, record.exc_text afterwards) | Raised class. *)
From Coq Require Import List NArith ZArith Bool String.
Import ListNotations.
From TV Require Import Lib.Obs C14.Utf8 C45.Model C45.PyPrims C45.Proofs C45.ProofsUtf8 C45.ProofsFmt C45.ProofsMain C45.Run
  Gen.C45_src Gen.C45_equiv.
Local Open Scope N_scope.

(* Every newline of every line format() returns is followed by four spaces — whatever the
   format string, message, fallback text, colour codes and exception text were. *)
Theorem C45_every_newline_is_indented : forall i out et,
  format i = Returned (out, et) -> nl_indented out = true.
Proof. exact format_newlines_indented. Qed.
Print Assumptions C45_every_newline_is_indented.

(* Positional reading: whatever follows a newline in the output starts with the indentation,
   so message content cannot begin a new "[L date module:line]" entry. *)
Theorem C45_no_forged_entry : forall i out et pre post,
  format i = Returned (out, et) -> out = pre ++ NL :: post ->
  exists t, post = SP :: SP :: SP :: SP :: t.
Proof. exact format_no_forged_entry. Qed.
Print Assumptions C45_no_forged_entry.

(* Line reading: every line of the output after the first starts with the 4-space indent. *)
Theorem C45_later_lines_start_with_indent : forall i out et,
  format i = Returned (out, et) -> Forall starts_indented (tl (split_nl out)).
Proof. exact format_later_lines_indented. Qed.
Print Assumptions C45_later_lines_start_with_indent.

(* Removing the indentation gives back the content: the interpolated line (rstripped, then the
   exception lines, when there is exception text) — indentation is the only change; and the
   split/join of the exception text loses nothing. *)
Theorem C45_content_preserved : forall i out et,
  format i = Returned (out, et) ->
  exists m formatted,
    message_of i = Returned m /\
    percent_format (in_fmt i) (format_env i m) = Returned formatted /\
    unindent out = unindented formatted et.
Proof. exact format_content_preserved. Qed.
Print Assumptions C45_content_preserved.

Theorem C45_split_join_lossless : forall s, join_nl (split_nl s) = s.
Proof. exact join_split_nl. Qed.
Print Assumptions C45_split_join_lossless.

(* NEVER RAISES.  For every record of the domain (Run.in_domain: getMessage() returns anything or
   raises ANY subclass of Exception; reprs, formatException and the format string are sane)
   format() returns. *)
Theorem C45_format_never_raises : forall i,
  in_domain i = true -> exists out et, format i = Returned (out, et).
Proof. exact format_total. Qed.
Print Assumptions C45_format_never_raises.

(* The fallback: whatever the class c of the exception raised by getMessage() — TypeError,
   ValueError, KeyError, OverflowError, an arbitrary error from an argument's __str__ … — as long
   as it derives from Exception, record.message becomes "Bad message (repr(e)): repr(__dict__)". *)
Theorem C45_any_exception_takes_the_fallback : forall i c er dr,
  in_getmsg i = GMRaise c (ReprOk er) -> is_subclass c EException = true ->
  in_dict_repr i = ReprOk dr ->
  message_of i = Returned (VStr (BAD1 ++ er ++ BAD2 ++ dr)).
Proof. exact message_of_fallback. Qed.
Print Assumptions C45_any_exception_takes_the_fallback.

(* `except Exception` lets exactly five of the modelled classes through (BaseException,
   KeyboardInterrupt, SystemExit, GeneratorExit, a user class derived from BaseException) ... *)
Theorem C45_except_clause_is_wide : forall c,
  except_catches FORMAT_EXCEPT c = negb (existsb (exc_eqb c) not_an_Exception).
Proof. exact except_Exception_spec. Qed.
Print Assumptions C45_except_clause_is_wide.

(* ... and those propagate out of format() unchanged. *)
Theorem C45_base_exceptions_propagate : forall i c r,
  in_getmsg i = GMRaise c r -> is_subclass c EException = false -> format i = Raised c r.
Proof. exact format_propagates_base_exception. Qed.
Print Assumptions C45_base_exceptions_propagate.

(* The assert: a getMessage() that returns a non-str is a "Bad message (AssertionError())" line. *)
Theorem C45_non_str_message_is_bad_message : forall i v dr,
  in_getmsg i = GMReturn v -> (forall t, v <> PStr t) -> in_optimized i = false ->
  in_dict_repr i = ReprOk dr ->
  message_of i = Returned (VStr (BAD1 ++ t_of_string "AssertionError()" ++ BAD2 ++ dr)).
Proof. exact message_of_not_str. Qed.
Print Assumptions C45_non_str_message_is_bad_message.

(* _safe_unicode: total on bytes — the UTF-8 decoding when the bytes are valid, repr() otherwise;
   the repr contains no newline at all; encoded text is decoded back (python -O path of format). *)
Theorem C45_safe_unicode_bytes : forall b,
  safe_unicode (PBytes b)
  = Returned (PStr (match utf8_decode b with Some t => t | None => repr_bytes b end))
  /\ has_nl (repr_bytes b) = false.
Proof. intro b. split; [apply safe_unicode_bytes|apply repr_bytes_no_nl]. Qed.
Print Assumptions C45_safe_unicode_bytes.

(* A newline in the converted text can only come from a newline byte: neither a multi-byte
   sequence nor the repr() fallback manufactures one. *)
Theorem C45_safe_unicode_newline_origin : forall b t,
  safe_unicode (PBytes b) = Returned (PStr t) -> has_nl t = true -> has_nl b = true.
Proof. exact safe_unicode_newline_origin. Qed.
Print Assumptions C45_safe_unicode_newline_origin.

Theorem C45_safe_unicode_decodes_utf8 : forall t b,
  utf8_encode t = Some b -> safe_unicode (PBytes b) = Returned (PStr t).
Proof. exact safe_unicode_roundtrip. Qed.
Print Assumptions C45_safe_unicode_decodes_utf8.

Theorem C45_bytes_message_optimized : forall i b,
  in_getmsg i = GMReturn (PBytes b) -> in_optimized i = true ->
  message_of i = Returned (VStr (match utf8_decode b with Some t => t | None => repr_bytes b end)).
Proof. exact message_of_bytes_optimized. Qed.
Print Assumptions C45_bytes_message_optimized.

(* Colour: the start / end codes never contain a newline; with the default format the start code
   opens the line, the end code closes the bracketed prefix and the message follows both. *)
Theorem C45_color_codes_have_no_newline : forall cfg lv,
  has_nl (fst (colors_for cfg lv)) = false /\ has_nl (snd (colors_for cfg lv)) = false.
Proof. exact color_codes_no_nl. Qed.
Print Assumptions C45_color_codes_have_no_newline.

Theorem C45_default_format_shape : forall i m ln md lno,
  lookup K_levelname (in_fields i) = Some (VStr ln) ->
  lookup K_module (in_fields i) = Some (VStr md) ->
  lookup K_lineno (in_fields i) = Some (VInt lno) ->
  percent_format DEFAULT_FORMAT (format_env i m)
  = Returned (fst (colors_for (in_color i) (in_levelno i)) ++ [91] ++ pad false 1 (firstn 1 ln) ++ [32]
              ++ in_asctime i ++ [32] ++ md ++ [58] ++ dec_Z lno ++ [93]
              ++ snd (colors_for (in_color i) (in_levelno i)) ++ [32] ++ str_of_fval m).
Proof. exact default_format_shape. Qed.
Print Assumptions C45_default_format_shape.

(* Whether `fmt % record.__dict__` fails, and with which class, does not depend on the message
   (a str or None): message content cannot make the interpolation raise. *)
Theorem C45_interpolation_independent_of_message : forall i m m',
  vkind m = false -> vkind m' = false ->
  erase (percent_format (in_fmt i) (format_env i m)) = erase (percent_format (in_fmt i) (format_env i m')).
Proof. exact percent_shape. Qed.
Print Assumptions C45_interpolation_independent_of_message.

(* record.exc_text is cached exactly as formatException returned it (not indented), an already
   cached text is left alone, and formatting the record again gives the same line. *)
Theorem C45_exc_text_cached_plain : forall i out et,
  format i = Returned (out, et) ->
  (in_exc_info i = true -> truthy (in_exc_text i) = false ->
     exists fe, in_format_exc i = Returned fe /\ et = Some fe)
  /\ (in_exc_info i = false \/ truthy (in_exc_text i) = true -> et = in_exc_text i).
Proof. exact format_caches_plain_exc_text. Qed.
Print Assumptions C45_exc_text_cached_plain.

Theorem C45_format_again_same : forall i out et,
  format i = Returned (out, et) -> format (with_exc_text i et) = Returned (out, et).
Proof. exact format_again_same. Qed.
Print Assumptions C45_format_again_same.

(* The model's observable always satisfies the checker that is applied to the implementation. *)
Theorem C45_model_satisfies_checker : forall c, check_case c (run_case c) = true.
Proof. exact model_satisfies_checker. Qed.
Print Assumptions C45_model_satisfies_checker.

(* What translators/c45_src.py regenerates from tornado/log.py on this run (statement by statement:
   the try / assert / except clause and its f-string, the colour lookup, the interpolation, the
   exc_info / exc_text block, split / join / replace with their literal arguments; _safe_unicode;
   DEFAULT_FORMAT, DEFAULT_COLORS and the ANSI strings) is the model the theorems above are about. *)
Theorem C45_source_matches_model :
  (forall i, src_format i = format i) /\ (forall v, src_safe_unicode v = safe_unicode v) /\
  src_DEFAULT_FORMAT = DEFAULT_FORMAT /\ src_DEFAULT_COLORS = DEFAULT_COLORS /\
  src_ANSI_NORMAL = ANSI_NORMAL /\ (forall code, src_ansi_color code = ansi_color code).
Proof.
  split; [exact src_format_eq|]. split; [exact src_safe_unicode_eq|]. exact src_constants_eq.
Qed.
Print Assumptions C45_source_matches_model.
