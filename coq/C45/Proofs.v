From Coq Require Import List NArith Bool Lia.
Import ListNotations.
From TV Require Import C45.Model.
Local Open Scope N_scope.

Lemma sp_not_nl : (SP =? NL) = false.
Proof. reflexivity. Qed.

Lemma indent_nl_indented : forall s, nl_indented (indent s) = true.
Proof.
  induction s as [|c s IH]; [reflexivity|].
  cbn [indent]. destruct (c =? NL) eqn:E.
  - cbn [nl_indented]. rewrite N.eqb_refl, sp_not_nl. rewrite !N.eqb_refl. cbn [andb]. exact IH.
  - cbn [nl_indented]. rewrite E. cbn [andb]. exact IH.
Qed.

Lemma unindent_indent : forall s, unindent (indent s) = s.
Proof.
  induction s as [|c s IH]; [reflexivity|].
  cbn [indent]. destruct (c =? NL) eqn:E.
  - cbn [unindent drop4]. rewrite N.eqb_refl. cbn [drop4]. rewrite IH.
    apply N.eqb_eq in E. subst c. reflexivity.
  - cbn [unindent]. rewrite E. rewrite IH. reflexivity.
Qed.

(* positional form of the property: whatever follows a newline starts with 4 spaces *)
Lemma nl_indented_spec : forall s pre post,
  nl_indented s = true -> s = pre ++ NL :: post ->
  exists t, post = SP :: SP :: SP :: SP :: t.
Proof.
  intros s pre; revert s; induction pre as [|x pre IH]; intros s post H E; subst s.
  - cbn [app nl_indented] in H. rewrite N.eqb_refl in H.
    apply andb_true_iff in H as [H _].
    destruct post as [|a [|b [|c [|d t]]]]; try discriminate.
    repeat (apply andb_true_iff in H as [H ?]).
    repeat match goal with X : (_ =? _) = true |- _ => apply N.eqb_eq in X; subst end.
    eexists; reflexivity.
  - cbn [app nl_indented] in H. apply andb_true_iff in H as [_ H].
    eapply IH; [exact H|reflexivity].
Qed.

Theorem format_newlines_indented : forall r, nl_indented (format r) = true.
Proof. intro r. unfold format. apply indent_nl_indented. Qed.

Theorem format_no_forged_entry : forall r pre post,
  format r = pre ++ NL :: post -> exists t, post = SP :: SP :: SP :: SP :: t.
Proof. intros r pre post E. eapply nl_indented_spec; [apply format_newlines_indented|exact E]. Qed.

(* indentation is the only change: removing it gives the un-indented text back *)
Definition unindented (r : record) : text :=
  match exc_text r with
  | [] => formatted0 r
  | e => join_nl (rstrip (formatted0 r) :: split_nl e)
  end.

Theorem format_content_preserved : forall r, unindent (format r) = unindented r.
Proof. intro r. unfold format, unindented. rewrite unindent_indent. reflexivity. Qed.

Lemma split_nl_aux_nonempty : forall s cur, split_nl_aux cur s <> [].
Proof.
  induction s as [|c s IH]; intro cur; cbn [split_nl_aux]; [discriminate|].
  destruct (c =? NL); [discriminate|apply IH].
Qed.

(* the exception text is not lost either: joining the split lines gives it back *)
Lemma join_split_aux : forall s cur, join_nl (split_nl_aux cur s) = rev cur ++ s.
Proof.
  induction s as [|c s IH]; intro cur; cbn [split_nl_aux].
  - cbn [join_nl]. rewrite app_nil_r. reflexivity.
  - destruct (c =? NL) eqn:E.
    + apply N.eqb_eq in E; subst c.
      assert (H : forall l ls, ls <> [] -> join_nl (l :: ls) = l ++ NL :: join_nl ls).
      { intros l [|l2 ls] Hn; [contradiction|reflexivity]. }
      rewrite H; [rewrite IH; reflexivity|apply split_nl_aux_nonempty].
    + rewrite IH. cbn [rev]. rewrite <- app_assoc. reflexivity.
Qed.
Theorem join_split_nl : forall s, join_nl (split_nl s) = s.
Proof. intro s. unfold split_nl. rewrite join_split_aux. reflexivity. Qed.

(* non-vacuity / sanity: a message that tries to forge an entry *)
Example forged_message_is_indented :
  format {| prefix := [91;73;93;32]; message := [97;10;91;69;93;32;98]; suffix := []; exc_text := [] |}
  = [91;73;93;32;97;10;32;32;32;32;91;69;93;32;98].
Proof. reflexivity. Qed.
Example with_exception_text :
  format {| prefix := [91;69;93;32]; message := [109;32;32]; suffix := []; exc_text := [84;10;120] |}
  = [91;69;93;32;109;10;32;32;32;32;84;10;32;32;32;32;120].
Proof. reflexivity. Qed.
