(* C45 proofs, part 1: the text pipeline (indent / split / join), the exception hierarchy,
   _safe_unicode. *)
From Coq Require Import List NArith ZArith Bool Lia String.
Import ListNotations.
From TV Require Import C14.Utf8 C14.Utf8Proofs C45.Model.
Local Open Scope N_scope.

(* ---------------- indentation ---------------- *)

Lemma sp_not_nl : (SP =? NL) = false.
Proof. reflexivity. Qed.

Lemma indent_nl_indented : forall s, nl_indented (indent s) = true.
Proof.
  induction s as [|c s IH]; [reflexivity|].
  cbn [indent]. destruct (c =? NL) eqn:E.
  - cbn [nl_indented]. rewrite N.eqb_refl, sp_not_nl. rewrite !N.eqb_refl. cbn [andb]. exact IH.
  - cbn [nl_indented]. rewrite E. cbn [andb]. exact IH.
Qed.

Lemma unindent_indent : forall s, unindent (indent s) = s.
Proof.
  induction s as [|c s IH]; [reflexivity|].
  cbn [indent]. destruct (c =? NL) eqn:E.
  - cbn [unindent drop4]. rewrite N.eqb_refl. cbn [drop4]. rewrite IH.
    apply N.eqb_eq in E. subst c. reflexivity.
  - cbn [unindent]. rewrite E. rewrite IH. reflexivity.
Qed.

(* positional form of the property: whatever follows a newline starts with 4 spaces *)
Lemma nl_indented_spec : forall s pre post,
  nl_indented s = true -> s = pre ++ NL :: post ->
  exists t, post = SP :: SP :: SP :: SP :: t.
Proof.
  intros s pre; revert s; induction pre as [|x pre IH]; intros s post H E; subst s.
  - cbn [app nl_indented] in H. rewrite N.eqb_refl in H.
    apply andb_true_iff in H as [H _].
    destruct post as [|a [|b [|c [|d t]]]]; try discriminate.
    repeat (apply andb_true_iff in H as [H ?]).
    repeat match goal with X : (_ =? _) = true |- _ => apply N.eqb_eq in X; subst end.
    eexists; reflexivity.
  - cbn [app nl_indented] in H. apply andb_true_iff in H as [_ H].
    eapply IH; [exact H|reflexivity].
Qed.

Lemma split_nl_aux_nonempty : forall s cur, split_nl_aux cur s <> [].
Proof.
  induction s as [|c s IH]; intro cur; cbn [split_nl_aux]; [discriminate|].
  destruct (c =? NL); [discriminate|apply IH].
Qed.

(* joining the split lines gives the text back *)
Lemma join_cons : forall l ls, ls <> [] -> join_nl (l :: ls) = l ++ NL :: join_nl ls.
Proof. intros l [|l2 ls] Hn; [contradiction|reflexivity]. Qed.

Lemma join_split_aux : forall s cur, join_nl (split_nl_aux cur s) = rev cur ++ s.
Proof.
  induction s as [|c s IH]; intro cur; cbn [split_nl_aux].
  - cbn [join_nl]. rewrite app_nil_r. reflexivity.
  - destruct (c =? NL) eqn:E.
    + apply N.eqb_eq in E; subst c.
      rewrite join_cons; [rewrite IH; reflexivity|apply split_nl_aux_nonempty].
    + rewrite IH. cbn [rev]. rewrite <- app_assoc. reflexivity.
Qed.
Theorem join_split_nl : forall s, join_nl (split_nl s) = s.
Proof. intro s. unfold split_nl. rewrite join_split_aux. reflexivity. Qed.

(* the first line of a split starts with what was accumulated *)
Lemma split_nl_aux_head : forall s cur, exists l ls, split_nl_aux cur s = (rev cur ++ l) :: ls.
Proof.
  induction s as [|c s IH]; intro cur; cbn [split_nl_aux].
  - exists [], []. rewrite app_nil_r. reflexivity.
  - destruct (c =? NL).
    + exists [], (split_nl_aux [] s). rewrite app_nil_r. reflexivity.
    + destruct (IH (c :: cur)) as (l & ls & E). rewrite E. exists (c :: l), ls.
      cbn [rev]. rewrite <- app_assoc. reflexivity.
Qed.

Definition starts_indented (l : text) : Prop := exists t, l = SP :: SP :: SP :: SP :: t.

(* line view of the property: every line after the first starts with the indent *)
Lemma nl_indented_lines_aux : forall s cur,
  nl_indented s = true -> Forall starts_indented (tl (split_nl_aux cur s)).
Proof.
  induction s as [|c s IH]; intros cur H; cbn [split_nl_aux].
  - constructor.
  - cbn [nl_indented] in H. apply andb_true_iff in H as [H1 H2].
    destruct (c =? NL) eqn:E.
    + cbn [tl].
      destruct s as [|a [|b [|c' [|d t]]]]; try discriminate.
      repeat (apply andb_true_iff in H1 as [H1 ?]).
      repeat match goal with X : (_ =? SP) = true |- _ => apply N.eqb_eq in X; subst end.
      pose proof (IH [] H2) as F.
      cbn [split_nl_aux] in F |- *. rewrite sp_not_nl in F |- *.
      destruct (split_nl_aux_head t [SP; SP; SP; SP]) as (l & ls & E2).
      rewrite E2 in F |- *. constructor; [|exact F].
      exists l. reflexivity.
    + apply IH. exact H2.
Qed.

Lemma nl_indented_lines : forall s,
  nl_indented s = true -> Forall starts_indented (tl (split_nl s)).
Proof. intros s H. apply nl_indented_lines_aux. exact H. Qed.

Lemma has_nl_app : forall a b, has_nl (a ++ b) = has_nl a || has_nl b.
Proof. intros a b. unfold has_nl. apply existsb_app. Qed.

(* ---------------- exception hierarchy ---------------- *)

Lemma exc_eqb_eq : forall a b, exc_eqb a b = true <-> a = b.
Proof.
  intros a b; split.
  - destruct a, b; try reflexivity; intro H; vm_compute in H; discriminate.
  - intros ->. unfold exc_eqb. apply N.eqb_refl.
Qed.

(* the fuel is enough: every class reaches BaseException, and one more unit changes nothing *)
Lemma is_subclass_base : forall c, is_subclass c EBaseException = true.
Proof. destruct c; reflexivity. Qed.
Lemma is_subclass_fuel_enough : forall c h, is_subclass_fuel 7 c h = is_subclass c h.
Proof. destruct c, h; reflexivity. Qed.
Lemma is_subclass_refl : forall c, is_subclass c c = true.
Proof. destruct c; reflexivity. Qed.

Definition not_an_Exception : list exc_class :=
  [EBaseException; EKeyboardInterrupt; ESystemExit; EGeneratorExit; EUserBase].

(* exactly the five classes outside Exception escape `except Exception` *)
Lemma except_Exception_spec : forall c,
  except_catches [EException] c = negb (existsb (exc_eqb c) not_an_Exception).
Proof. destruct c; reflexivity. Qed.

Lemma is_subclass_Exception_catches : forall c,
  is_subclass c EException = true -> except_catches FORMAT_EXCEPT c = true.
Proof. intros c H. unfold except_catches, FORMAT_EXCEPT. cbn [existsb]. rewrite H. reflexivity. Qed.

(* ---------------- _safe_unicode ---------------- *)

Lemma safe_unicode_str : forall t, safe_unicode (PStr t) = Returned (PStr t).
Proof. reflexivity. Qed.
Lemma safe_unicode_none : safe_unicode PNone = Returned PNone.
Proof. reflexivity. Qed.

Lemma safe_unicode_bytes : forall b,
  safe_unicode (PBytes b)
  = Returned (PStr (match utf8_decode b with Some t => t | None => repr_bytes b end)).
Proof.
  intro b. unfold safe_unicode, to_unicode. destruct (utf8_decode b); reflexivity.
Qed.

Lemma safe_unicode_other : forall ty,
  safe_unicode (POther ty) = Raised ETypeError (exc_repr1 "TypeError"%string (TO_UNICODE_MSG ++ ty)).
Proof. reflexivity. Qed.

(* what str.encode("utf-8") produced is decoded back *)
Lemma safe_unicode_roundtrip : forall t b,
  utf8_encode t = Some b -> safe_unicode (PBytes b) = Returned (PStr t).
Proof. intros t b E. rewrite safe_unicode_bytes, (utf8_roundtrip t b E). reflexivity. Qed.

Lemma safe_unicode_result : forall v r,
  safe_unicode v = Returned r -> (exists t, r = PStr t) \/ (r = PNone /\ v = PNone).
Proof.
  intros [| t | b | ty] r H.
  - injection H as <-. right; auto.
  - injection H as <-. left; eauto.
  - rewrite safe_unicode_bytes in H. injection H as <-. left; eauto.
  - discriminate.
Qed.

Lemma safe_lines_id : forall ls, safe_lines ls = Returned ls.
Proof.
  induction ls as [|l ls IH]; [reflexivity|].
  cbn [safe_lines]. rewrite safe_unicode_str. cbn [bind]. rewrite IH. reflexivity.
Qed.

Lemma hexd_not_nl : forall n, (hexd n =? NL) = false.
Proof.
  intro n. unfold hexd, NL. destruct (n <? 10) eqn:E; apply N.eqb_neq.
  - apply N.ltb_lt in E. lia.
  - lia.
Qed.

Lemma repr_byte_no_nl : forall q c, (q =? NL) = false -> has_nl (repr_byte q c) = false.
Proof.
  intros q c Hq. unfold repr_byte.
  destruct ((c =? q) || (c =? 92)) eqn:E1.
  - apply orb_true_iff in E1 as [E|E]; apply N.eqb_eq in E; subst c.
    + cbn [has_nl existsb]. rewrite Hq. reflexivity.
    + reflexivity.
  - destruct (c =? 9); [reflexivity|].
    destruct (c =? 10) eqn:E10; [reflexivity|].
    destruct (c =? 13); [reflexivity|].
    destruct ((c <? 32) || (127 <=? c)).
    + cbn [has_nl existsb]. rewrite !hexd_not_nl. reflexivity.
    + cbn [has_nl existsb]. unfold NL. rewrite E10. reflexivity.
Qed.

Lemma has_nl_flat_map : forall (f : N -> text) l,
  (forall c, has_nl (f c) = false) -> has_nl (flat_map f l) = false.
Proof.
  intros f l H. induction l as [|c l IH]; [reflexivity|].
  cbn [flat_map]. rewrite has_nl_app, H, IH. reflexivity.
Qed.

(* the repr() fallback for undecodable bytes contains no newline at all *)
Lemma repr_bytes_no_nl : forall b, has_nl (repr_bytes b) = false.
Proof.
  intro b. unfold repr_bytes.
  assert (Hq : (bytes_quote b =? NL) = false).
  { unfold bytes_quote. destruct (_ && _); reflexivity. }
  cbn [has_nl existsb]. fold (has_nl (flat_map (repr_byte (bytes_quote b)) b ++ [bytes_quote b])).
  rewrite Hq. cbn [orb].
  rewrite has_nl_app, has_nl_flat_map by (intro c; apply repr_byte_no_nl; exact Hq).
  cbn [has_nl existsb orb]. rewrite Hq. reflexivity.
Qed.
