(* C45: concrete records — the hypotheses of the theorems are satisfiable and the model computes
   what the real formatter prints (these very records are in the harness corpus). *)
From Coq Require Import List NArith ZArith Bool String.
Import ListNotations.
From TV Require Import Lib.Obs C45.Model C45.Proofs C45.ProofsFmt C45.ProofsMain C45.Run.
Local Open Scope N_scope.

Definition base_fields : env :=
  [(t_of_string "name", VStr (t_of_string "tornado.test")); (t_of_string "levelname", VStr (t_of_string "ERROR"));
   (t_of_string "module", VStr (t_of_string "mod")); (t_of_string "lineno", VInt 42)].

Definition mk (color : color_cfg) (gm : gm_result) (dict : text) (exc_info : bool) (et : option text)
  (fe : outcome text) : log_input :=
  {| in_fmt := DEFAULT_FORMAT; in_color := color; in_optimized := false; in_getmsg := gm;
     in_dict_repr := ReprOk dict; in_asctime := t_of_string "110313 07:06:40"; in_levelno := 40%Z;
     in_fields := base_fields; in_exc_info := exc_info; in_exc_text := et; in_format_exc := fe |}.

(* a message that tries to forge an entry, colour on *)
Definition ex_forged := mk (ColorAnsi DEFAULT_COLORS)
  (GMReturn (PStr (t_of_string "hi" ++ [10] ++ t_of_string "[E 260101 00:00:00 web:1] forged"))) [] false None Unsupported.

Example forged_in_domain : in_domain ex_forged = true.
Proof. vm_compute. reflexivity. Qed.
Example forged_is_indented :
  format ex_forged
  = Returned ([27] ++ t_of_string "[2;31m[E 110313 07:06:40 mod:42]" ++ [27] ++ t_of_string "[0m hi" ++ [10]
              ++ t_of_string "    [E 260101 00:00:00 web:1] forged", None).
Proof. vm_compute. reflexivity. Qed.

(* logger.error('user=%(user)s path=%(path)s', {'user': 'bob'}): getMessage raises KeyError('path') *)
Definition ex_keyerror := mk ColorOff
  (GMRaise EKeyError (ReprOk (t_of_string "KeyError('path')"))) (t_of_string "{'msg': 'user=%(user)s path=%(path)s'}")
  false None Unsupported.

Example keyerror_in_domain : in_domain ex_keyerror = true.
Proof. vm_compute. reflexivity. Qed.
Example keyerror_takes_fallback :
  format ex_keyerror
  = Returned (t_of_string "[E 110313 07:06:40 mod:42] Bad message (KeyError('path')): {'msg': 'user=%(user)s path=%(path)s'}", None).
Proof. vm_compute. reflexivity. Qed.

(* the `except` clause must be as wide as Exception: with (TypeError, ValueError) the same record
   would make format() raise (this is seeded change C45_2) *)
Example narrow_except_misses :
  except_catches [ETypeError; EValueError] EKeyError = false /\
  except_catches [ETypeError; EValueError] EOverflowError = false /\
  except_catches [ETypeError; EValueError] EAttributeError = false /\
  except_catches [ETypeError; EValueError] EUnicodeDecodeError = true /\
  except_catches FORMAT_EXCEPT EKeyError = true /\
  except_catches FORMAT_EXCEPT EOverflowError = true /\
  except_catches FORMAT_EXCEPT EAttributeError = true /\
  except_catches FORMAT_EXCEPT EKeyboardInterrupt = false.
Proof. vm_compute. repeat split. Qed.

(* exception text with a forged line: rstrip of the first line, every exception line indented,
   and the cache keeps the plain text *)
Definition ex_exc := mk ColorOff (GMReturn (PStr (t_of_string "boom  "))) [] true None
  (Returned (t_of_string "ValueError: x" ++ [10] ++ t_of_string "[E 260101 00:00:00 web:1] forged")).

Example exc_in_domain : in_domain ex_exc = true.
Proof. vm_compute. reflexivity. Qed.
Example exc_lines_indented :
  format ex_exc
  = Returned (t_of_string "[E 110313 07:06:40 mod:42] boom" ++ [10] ++ t_of_string "    ValueError: x" ++ [10]
              ++ t_of_string "    [E 260101 00:00:00 web:1] forged",
              Some (t_of_string "ValueError: x" ++ [10] ++ t_of_string "[E 260101 00:00:00 web:1] forged")).
Proof. vm_compute. reflexivity. Qed.

(* outside the domain: KeyboardInterrupt from an argument's __str__ propagates *)
Example keyboard_interrupt_propagates :
  format (mk ColorOff (GMRaise EKeyboardInterrupt (ReprOk [])) [] false None Unsupported)
  = Raised EKeyboardInterrupt (ReprOk []).
Proof. vm_compute. reflexivity. Qed.

(* _safe_unicode on bytes *)
Example safe_unicode_examples :
  safe_unicode (PBytes [99; 97; 102; 195; 169; 10]) = Returned (PStr [99; 97; 102; 233; 10]) /\
  safe_unicode (PBytes [255; 10; 39]) = Returned (PStr (t_of_string "b""\xff\n'""")) /\
  safe_unicode (PBytes [255; 39; 34; 92]) = Returned (PStr (t_of_string "b'\xff\'""\\'")).
Proof. vm_compute. repeat split. Qed.

(* the hypotheses of default_format_shape hold for the base fields *)
Example default_shape_hyps :
  lookup K_levelname base_fields = Some (VStr (t_of_string "ERROR")) /\
  lookup K_module base_fields = Some (VStr (t_of_string "mod")) /\
  lookup K_lineno base_fields = Some (VInt 42).
Proof. vm_compute. repeat split. Qed.
