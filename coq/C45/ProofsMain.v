(* C45 proofs, part 3: LogFormatter.format — the fallback for every exception class, totality
   on the stated domain, indentation, content, caching of exc_text, the checker. *)
From Coq Require Import List NArith ZArith Bool Lia String.
Import ListNotations.
From TV Require Import Lib.Obs C14.Utf8 C45.Model C45.Proofs C45.ProofsUtf8 C45.ProofsFmt C45.Run.
Local Open Scope N_scope.

(* ---------------- record.message ---------------- *)

Lemma message_of_str : forall i t,
  in_getmsg i = GMReturn (PStr t) -> message_of i = Returned (VStr t).
Proof.
  intros i t H. unfold message_of, try_body. rewrite H.
  cbn [negb andb]. rewrite andb_false_r. reflexivity.
Qed.

(* getMessage() raised ANY subclass of Exception: the "Bad message" line *)
Lemma message_of_fallback : forall i c er dr,
  in_getmsg i = GMRaise c (ReprOk er) -> is_subclass c EException = true ->
  in_dict_repr i = ReprOk dr ->
  message_of i = Returned (VStr (BAD1 ++ er ++ BAD2 ++ dr)).
Proof.
  intros i c er dr H Hc Hd. unfold message_of, try_body. rewrite H.
  rewrite (is_subclass_Exception_catches c Hc). rewrite Hd. reflexivity.
Qed.

(* ... and a BaseException that is not an Exception propagates unchanged *)
Lemma message_of_uncaught : forall i c r,
  in_getmsg i = GMRaise c r -> is_subclass c EException = false ->
  message_of i = Raised c r.
Proof.
  intros i c r H Hc. unfold message_of, try_body. rewrite H.
  unfold except_catches, FORMAT_EXCEPT. cbn [existsb]. rewrite Hc. reflexivity.
Qed.

(* the assert: a non-str message (without -O) is an AssertionError, hence the fallback *)
Lemma message_of_not_str : forall i v dr,
  in_getmsg i = GMReturn v -> (forall t, v <> PStr t) -> in_optimized i = false ->
  in_dict_repr i = ReprOk dr ->
  message_of i = Returned (VStr (BAD1 ++ t_of_string "AssertionError()" ++ BAD2 ++ dr)).
Proof.
  intros i v dr H Hv Ho Hd. unfold message_of, try_body. rewrite H, Ho.
  destruct v as [| t | b | ty]; try (exfalso; eapply Hv; reflexivity);
    cbn [negb andb]; rewrite Hd; reflexivity.
Qed.

(* python -O: bytes reach _safe_unicode — decoded when valid UTF-8, repr() otherwise *)
Lemma message_of_bytes_optimized : forall i b,
  in_getmsg i = GMReturn (PBytes b) -> in_optimized i = true ->
  message_of i = Returned (VStr (match utf8_decode b with Some t => t | None => repr_bytes b end)).
Proof.
  intros i b H Ho. unfold message_of, try_body. rewrite H, Ho. cbn [negb andb].
  rewrite safe_unicode_bytes. reflexivity.
Qed.

Lemma plain_msg : forallb plain_char TO_UNICODE_MSG = true.
Proof. reflexivity. Qed.

Lemma repr_str_plain : forall t, forallb plain_char t = true -> exists r, repr_str t = Returned r.
Proof. intros t H. unfold repr_str. rewrite H. eauto. Qed.

Lemma message_total : forall i, in_domain i = true ->
  exists m, message_of i = Returned m /\ vkind m = false.
Proof.
  intros i D. unfold in_domain in D.
  apply andb_true_iff in D as [D _]. apply andb_true_iff in D as [D _].
  apply andb_true_iff in D as [Dg Dd].
  destruct (in_dict_repr i) as [dr| |] eqn:Ed; try discriminate Dd.
  unfold message_of, try_body.
  destruct (in_getmsg i) as [v|c r] eqn:Eg.
  - destruct (in_optimized i); cbn [negb andb].
    + destruct v as [| t | b | ty].
      * eexists; split; reflexivity.
      * eexists; split; reflexivity.
      * rewrite safe_unicode_bytes. eexists; split; reflexivity.
      * rewrite safe_unicode_other. cbn [except_catches FORMAT_EXCEPT existsb].
        change (is_subclass ETypeError EException) with true. cbn [orb].
        unfold exc_repr1.
        destruct (repr_str_plain (TO_UNICODE_MSG ++ ty)) as [r Hr].
        { rewrite forallb_app, plain_msg. exact Dg. }
        rewrite Hr, Ed. eexists; split; reflexivity.
    + destruct v as [| t | b | ty]; cbn [negb];
        try (change (except_catches FORMAT_EXCEPT EAssertionError) with true; cbn iota;
             rewrite Ed; eexists; split; reflexivity).
  - apply andb_true_iff in Dg as [Dc Dr].
    destruct r as [er| |]; try discriminate Dr.
    rewrite (is_subclass_Exception_catches c Dc), Ed. eexists; split; reflexivity.
Qed.

(* ---------------- format ---------------- *)

(* the text before the final replace *)
Definition unindented (formatted : text) (et : option text) : text :=
  match et with
  | Some (c :: e) => join_nl (rstrip formatted :: split_nl (c :: e))
  | _ => formatted
  end.

(* record.exc_text after format() *)
Definition exc_text_after (i : log_input) : outcome (option text) :=
  if in_exc_info i && negb (truthy (in_exc_text i))
  then omap Some (in_format_exc i) else Returned (in_exc_text i).

Lemma format_structure : forall i,
  format i =
  bind (message_of i) (fun m =>
  bind (percent_format (in_fmt i) (format_env i m)) (fun formatted =>
  bind (exc_text_after i) (fun et =>
  Returned (indent (unindented formatted et), et)))).
Proof.
  intro i. unfold format, exc_text_after.
  destruct (message_of i) as [m| |]; cbn [bind]; try reflexivity.
  destruct (percent_format (in_fmt i) (format_env i m)) as [f| |]; cbn [bind]; try reflexivity.
  destruct (if in_exc_info i && negb (truthy (in_exc_text i)) then omap Some (in_format_exc i)
            else Returned (in_exc_text i)) as [et| |]; cbn [bind]; try reflexivity.
  destruct et as [[|c e]|]; cbn [unindented]; try reflexivity.
  rewrite safe_lines_id. reflexivity.
Qed.

Lemma format_returned : forall i out et,
  format i = Returned (out, et) ->
  exists m formatted,
    message_of i = Returned m /\
    percent_format (in_fmt i) (format_env i m) = Returned formatted /\
    exc_text_after i = Returned et /\
    out = indent (unindented formatted et).
Proof.
  intros i out et H. rewrite format_structure in H.
  destruct (message_of i) as [m| |] eqn:Hm; cbn [bind] in H; try discriminate H.
  destruct (percent_format (in_fmt i) (format_env i m)) as [f| |] eqn:Hf; cbn [bind] in H; try discriminate H.
  destruct (exc_text_after i) as [et'| |] eqn:He; cbn [bind] in H; try discriminate H.
  injection H as <- <-. exists m, f. repeat split; try reflexivity; assumption.
Qed.

Theorem format_newlines_indented : forall i out et,
  format i = Returned (out, et) -> nl_indented out = true.
Proof.
  intros i out et H. destruct (format_returned i out et H) as (m & f & _ & _ & _ & ->).
  apply indent_nl_indented.
Qed.

Theorem format_no_forged_entry : forall i out et pre post,
  format i = Returned (out, et) -> out = pre ++ NL :: post ->
  exists t, post = SP :: SP :: SP :: SP :: t.
Proof.
  intros i out et pre post H E. eapply nl_indented_spec; [eapply format_newlines_indented; exact H|exact E].
Qed.

Theorem format_later_lines_indented : forall i out et,
  format i = Returned (out, et) -> Forall starts_indented (tl (split_nl out)).
Proof.
  intros i out et H. apply nl_indented_lines. eapply format_newlines_indented; exact H.
Qed.

Theorem format_content_preserved : forall i out et,
  format i = Returned (out, et) ->
  exists m formatted,
    message_of i = Returned m /\
    percent_format (in_fmt i) (format_env i m) = Returned formatted /\
    unindent out = unindented formatted et.
Proof.
  intros i out et H. destruct (format_returned i out et H) as (m & f & Hm & Hf & _ & ->).
  exists m, f. repeat split; try assumption. apply unindent_indent.
Qed.

(* never raises: on the domain of Run.in_domain, format returns *)
Theorem format_total : forall i, in_domain i = true -> exists out et, format i = Returned (out, et).
Proof.
  intros i D. destruct (message_total i D) as (m & Hm & Km).
  unfold in_domain in D.
  apply andb_true_iff in D as [D Df]. apply andb_true_iff in D as [_ De].
  rewrite format_structure, Hm. cbn [bind].
  assert (Hf : exists f, percent_format (in_fmt i) (format_env i m) = Returned f).
  { eapply erase_returned; [apply (percent_shape i (VStr []) m); [reflexivity|exact Km]|].
    destruct (percent_format (in_fmt i) (format_env i (VStr []))); try discriminate Df. eauto. }
  destruct Hf as [f Hf]. rewrite Hf. cbn [bind].
  unfold exc_text_after.
  destruct (in_exc_info i && negb (truthy (in_exc_text i))); cbn [negb orb] in De.
  - destruct (in_format_exc i); try discriminate De. cbn [omap bind]. eauto.
  - cbn [bind]. eauto.
Qed.

(* conversely an exception escapes only outside the domain *)
Corollary format_raises_only_outside_domain : forall i,
  (forall out et, format i <> Returned (out, et)) -> in_domain i = false.
Proof.
  intros i H. destruct (in_domain i) eqn:D; [|reflexivity].
  destruct (format_total i D) as (out & et & E). exfalso. exact (H out et E).
Qed.

(* which exception escapes when getMessage raises outside Exception: that very class *)
Theorem format_propagates_base_exception : forall i c r,
  in_getmsg i = GMRaise c r -> is_subclass c EException = false -> format i = Raised c r.
Proof.
  intros i c r H Hc. unfold format. rewrite (message_of_uncaught i c r H Hc). reflexivity.
Qed.

(* ---------------- record.exc_text is cached un-indented; formatting again ---------------- *)

Definition with_exc_text (i : log_input) (et : option text) : log_input :=
  {| in_fmt := in_fmt i; in_color := in_color i; in_optimized := in_optimized i;
     in_getmsg := in_getmsg i; in_dict_repr := in_dict_repr i; in_asctime := in_asctime i;
     in_levelno := in_levelno i; in_fields := in_fields i; in_exc_info := in_exc_info i;
     in_exc_text := et; in_format_exc := in_format_exc i |}.

Theorem format_caches_plain_exc_text : forall i out et,
  format i = Returned (out, et) ->
  (in_exc_info i = true -> truthy (in_exc_text i) = false ->
     exists fe, in_format_exc i = Returned fe /\ et = Some fe)
  /\ (in_exc_info i = false \/ truthy (in_exc_text i) = true -> et = in_exc_text i).
Proof.
  intros i out et H. destruct (format_returned i out et H) as (m & f & _ & _ & He & _).
  unfold exc_text_after in He. split.
  - intros Ei Et. rewrite Ei, Et in He. cbn [negb andb] in He.
    destruct (in_format_exc i) as [fe| |]; try discriminate He. injection He as <-. eauto.
  - intros [Ei|Et]; [rewrite Ei in He|rewrite Et, andb_false_r in He]; cbn [negb andb] in He;
      injection He as <-; reflexivity.
Qed.

(* a second format() of the same record (exc_text now cached) gives the same line: the cache is
   not indented, so a stock logging.Formatter sharing the record sees the standard text and
   Tornado's formatter indents it again itself *)
Theorem format_again_same : forall i out et,
  format i = Returned (out, et) -> format (with_exc_text i et) = Returned (out, et).
Proof.
  intros i out et H. destruct (format_returned i out et H) as (m & f & Hm & Hf & He & ->).
  rewrite format_structure.
  change (message_of (with_exc_text i et)) with (message_of i).
  change (in_fmt (with_exc_text i et)) with (in_fmt i).
  rewrite Hm. cbn [bind].
  change (format_env (with_exc_text i et) m) with (format_env i m).
  rewrite Hf. cbn [bind].
  unfold exc_text_after in *. cbn [with_exc_text in_exc_info in_exc_text in_format_exc].
  destruct (in_exc_info i) eqn:Ei; cbn [andb] in *.
  - destruct (truthy (in_exc_text i)) eqn:Et; cbn [negb] in He.
    + injection He as <-. rewrite Et. reflexivity.
    + destruct (in_format_exc i) as [fe| |] eqn:Ef; try discriminate He.
      cbn [omap bind] in He. injection He as <-.
      destruct (truthy (Some fe)); cbn [negb omap bind]; reflexivity.
  - injection He as <-. reflexivity.
Qed.

(* ---------------- the checker ---------------- *)

Lemma text_eqb_refl : forall t, text_eqb t t = true.
Proof. induction t as [|c t IH]; [reflexivity|]. cbn. rewrite N.eqb_refl. exact IH. Qed.

Theorem model_satisfies_checker : forall c, check_case c (run_case c) = true.
Proof.
  intros [i|v]; cbn [run_case check_case].
  - destruct (format i) as [[out et]|c r|] eqn:E.
    + eapply format_newlines_indented; exact E.
    + cbn [obs_raised]. rewrite format_raises_only_outside_domain; [reflexivity|].
      intros out et; rewrite E; discriminate.
    + cbn [obs_unsupported]. rewrite format_raises_only_outside_domain; [reflexivity|].
      intros out et; rewrite E; discriminate.
  - destruct v as [| t | b | ty].
    + reflexivity.
    + cbn [safe_unicode to_unicode]. apply text_eqb_refl.
    + pose proof (safe_unicode_newline_origin b) as O. rewrite safe_unicode_bytes in O |- *.
      destruct (has_nl (match utf8_decode b with Some t => t | None => repr_bytes b end)) eqn:Hn;
        [|reflexivity].
      cbn [negb orb]. eapply O; [reflexivity|exact Hn].
    + destruct (safe_unicode (POther ty)) as [[| | |]| |]; reflexivity.
Qed.
