(* C45 — the Python statement / expression forms that translators/c45_src.py maps the source of
   tornado/log.py (_safe_unicode, LogFormatter.format, the ANSI strings of __init__) onto.
   Definitions only.  The oracles (getMessage, reprs, formatTime, formatException) are the
   fields of Model.log_input. *)
From Coq Require Import List NArith ZArith Bool String.
Import ListNotations.
From TV Require Import C45.Model.
Local Open Scope N_scope.

(* try: body   except (handlers) as e: h e      — h receives repr(e) (all that is used of e) *)
Definition py_try {A} (body : outcome A) (handlers : list exc_class) (h : repr_res -> outcome A)
  : outcome A :=
  match body with
  | Raised c r => if except_catches handlers c then h r else Raised c r
  | o => o
  end.

(* record.getMessage() *)
Definition py_getMessage (i : log_input) : outcome pyval :=
  match in_getmsg i with
  | GMReturn v => Returned v
  | GMRaise c r => Raised c r
  end.

(* isinstance(v, basestring_type)   (basestring_type = str) *)
Definition py_isinstance_str (v : pyval) : bool := match v with PStr _ => true | _ => false end.

(* assert cond      (compiled away under python -O) *)
Definition py_assert (optimized : bool) (cond : bool) : outcome unit :=
  if negb optimized && negb cond
  then Raised EAssertionError (ReprOk (t_of_string "AssertionError()"%string))
  else Returned tt.

(* f"...{e!r}...{record.__dict__!r}..." *)
Inductive fpart := FLit (t : text) | FExcRepr | FDictRepr.
Fixpoint py_fstring (parts : list fpart) (e_repr dict_repr : repr_res) : outcome text :=
  match parts with
  | [] => Returned []
  | FLit t :: ps => omap (app t) (py_fstring ps e_repr dict_repr)
  | FExcRepr :: ps =>
      bind (repr_outcome e_repr) (fun r => omap (app r) (py_fstring ps e_repr dict_repr))
  | FDictRepr :: ps =>
      bind (repr_outcome dict_repr) (fun r => omap (app r) (py_fstring ps e_repr dict_repr))
  end.

(* the value stored in record.message, as `%` will see it *)
Definition py_message_fval (v : pyval) : outcome fval :=
  match v with
  | PStr t => Returned (VStr t)
  | PNone => Returned VNone
  | _ => Unsupported
  end.

(* "<pre>%d<post>" % code *)
Definition py_percent_d (pre : text) (code : Z) (post : text) : text := pre ++ dec_Z code ++ post.

(* self._colors / self._normal as built by the ANSI branch of __init__ from `ansi`, `normal`;
   if record.levelno in self._colors: (self._colors[levelno], self._normal) else (none, none) *)
Definition py_colors (cfg : color_cfg) (ansi : Z -> text) (normal none : text) (levelno : Z)
  : text * text :=
  match cfg with
  | ColorOff => (none, none)
  | ColorAnsi colors =>
      match zlookup levelno colors with
      | Some code => (ansi code, normal)
      | None => (none, none)
      end
  end.

(* record.__dict__ after the attribute assignments of format() *)
Definition py_record_dict (i : log_input) (message : fval) (asctime color end_color : text) : env :=
  (K_end_color, VStr end_color) :: (K_color, VStr color) :: (K_asctime, VStr asctime)
  :: (K_message, message) :: (K_levelno, VInt (in_levelno i)) :: in_fields i.

(* s.split(<one character>) *)
Fixpoint py_split1_aux (sep : N) (cur : text) (s : text) : list text :=
  match s with
  | [] => [rev cur]
  | c :: s' => if c =? sep then rev cur :: py_split1_aux sep [] s' else py_split1_aux sep (c :: cur) s'
  end.
Definition py_split1 (sep : N) (s : text) : list text := py_split1_aux sep [] s.

(* sep.join(lines) *)
Fixpoint py_join (sep : text) (ls : list text) : text :=
  match ls with
  | [] => []
  | [l] => l
  | l :: ls' => l ++ sep ++ py_join sep ls'
  end.

(* s.replace(<one character>, to) *)
Fixpoint py_replace1 (from : N) (to : text) (s : text) : text :=
  match s with
  | [] => []
  | c :: s' => if c =? from then to ++ py_replace1 from to s' else c :: py_replace1 from to s'
  end.

(* (f(x) for x in xs) consumed by list.extend, f may raise; f must give a str here *)
Fixpoint py_map_str (f : pyval -> outcome pyval) (xs : list text) : outcome (list text) :=
  match xs with
  | [] => Returned []
  | x :: xs' =>
      bind (f (PStr x)) (fun v =>
        match v with
        | PStr t => omap (cons t) (py_map_str f xs')
        | _ => Unsupported
        end)
  end.

(* truthiness of record.exc_text (None or a str) and its text *)
Definition py_truthy (t : option text) : bool := truthy t.
Definition py_text_of (t : option text) : text := match t with Some e => e | None => [] end.
