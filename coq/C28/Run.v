From Coq Require Import List NArith ZArith String Bool.
Import ListNotations.
From TV Require Import Lib.Obs C28.Model.
Local Open Scope N_scope.

(* which handler answers (the harness fixture) and its configuration *)
Inductive kind :=
| KRemove | KAdd                                              (* @removeslash / @addslash on get/head/post *)
| KStatic (has_default : bool) (fs : fsres) (index_exists : bool)   (* StaticFileHandler; fs = the environment's answer *)
| KAuth (login : option text) (user : bool)                  (* @authenticated on get/head/post *)
| KRedirect (flush_first : bool) (url : text) (permanent : bool) (status : option N).  (* self.redirect(...) in get/head/post *)

(* input: (kind, method, request target, Host header) of  "<method> <target> HTTP/1.1\r\nHost: <host>\r\n\r\n" *)
Definition input := (kind * list N * list N * list N)%type.

Definition defined_methods (k : kind) : list text :=
  match k with KStatic _ _ _ => [GET; HEAD] | _ => [GET; HEAD; POST] end.

Definition handler_body (k : kind) (m path query host uri : text) : outcome :=
  match k with
  | KRemove => removeslash m path query
  | KAdd => addslash m path query
  | KStatic d fs ix => static_get d fs ix path
  | KAuth login user => authenticated m login user host uri
  | KRedirect fl url perm st => redirect fl url perm st
  end.

(* request line + Host validation (400), uri.partition("?"), method dispatch (405), handler *)
Definition handle (i : input) : outcome :=
  let '(k, m, target, host) := i in
  if valid_method m && valid_target target && valid_host host then
    let (path, query) := partition_q target in
    dispatch (defined_methods k) m (handler_body k m path query host target)
  else Status 400.

Definition obs_of (o : outcome) : obs :=
  match o with
  | Redirect st loc => OList [OInt (Z.of_N st); OBytes loc]
  | Status c => OList [OInt (Z.of_N c); ONone]
  | CallHandler => OList [OInt 200%Z; ONone]
  | HeadersSent => OList [OInt 200%Z; ONone]      (* the 200 head was already flushed *)
  end.

Definition run_case (i : input) : obs := obs_of (handle i).

Definition QNEXT : text := QMARK :: NEXT_EQ.       (* "?next=" *)

(* the property on the implementation's response.
   - slash decorators / static directory: the Location is never protocol-relative or
     scheme-qualified, and for an origin-form target it starts with exactly one "/";
   - @authenticated: the Location is the configured login URL (as UTF-8), alone or followed by
     "?next=" and characters that are not URL delimiters;
   - self.redirect(url): the caller's URL, nothing demanded here. *)
Definition check_case (i : input) (o : obs) : bool :=
  let '(k, m, target, host) := i in
  match o with
  | OList [OInt _; OBytes loc] =>
      match k with
      | KAuth (Some login) _ =>
          let l := wire login in
          text_eqb loc l
          || (is_prefix (l ++ QNEXT) loc && forallb url_safe (skipn (List.length (l ++ QNEXT)) loc))
      | KAuth None _ => false
      | KRedirect _ _ _ _ => true
      | _ => if starts_with_slash target then same_host_path loc else safe_location loc
      end
  | OList [OInt _; ONone] => true
  | _ => false
  end.
