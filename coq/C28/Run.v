From Coq Require Import List NArith ZArith String Bool.
Import ListNotations.
From TV Require Import Lib.Obs C28.Model.
Local Open Scope N_scope.

Inductive kind := KRemove | KAdd | KStatic | KAuth.

(* input: (kind, method, path, query, login_url, login_is_absolute, full_url, uri) *)
Definition input := (kind * list N * list N * list N * list N * bool * list N * list N)%type.

Definition decide (i : input) : outcome :=
  let '(k, m, p, q, login, absl, full, uri) := i in
  match k with
  | KRemove => removeslash m p q
  | KAdd => addslash m p q
  | KStatic => static_dir p
  | KAuth => authenticated m login absl full uri
  end.

Definition obs_of (o : outcome) : obs :=
  match o with
  | Redirect st loc => OList [OInt (Z.of_N st); OBytes loc]
  | Status c => OList [OInt (Z.of_N c); ONone]
  | CallHandler => OList [OInt 200%Z; ONone]
  end.

Definition run_case (i : input) : obs := obs_of (decide i).

(* the property on the implementation's response: a Location derived from the
   request path is never protocol-relative or scheme-qualified; the
   authenticated redirect goes to the configured login URL *)
Definition check_case (i : input) (o : obs) : bool :=
  let '(k, m, p, q, login, absl, full, uri) := i in
  match o with
  | OList [OInt _; OBytes loc] =>
      match k with
      | KAuth => is_prefix login loc
      | _ => safe_location loc
      end
  | OList [OInt _; ONone] => true
  | _ => false
  end.
