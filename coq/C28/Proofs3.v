(* C28 — the whole modelled request path: validation, partition, dispatch, handler. *)
From Coq Require Import List NArith ZArith Bool Arith Lia.
Import ListNotations.
From TV Require Import Lib.Obs C28.Model C28.Proofs C28.Proofs2 C28.Run.
Local Open Scope N_scope.

Definition path_kind (k : kind) : bool :=
  match k with KRemove | KAdd | KStatic _ _ _ => true | _ => false end.

Lemma dispatch_inv : forall defined m body st loc,
  dispatch defined m body = Redirect st loc ->
  mem_texts m SUPPORTED_METHODS = true /\ mem_texts m defined = true /\ body = Redirect st loc.
Proof.
  intros defined m body st loc H. unfold dispatch in H.
  destruct (mem_texts m SUPPORTED_METHODS); [|discriminate].
  destruct (mem_texts m defined); [|discriminate]. auto.
Qed.

Theorem handle_inv : forall k m t h st loc,
  handle (k, m, t, h) = Redirect st loc ->
  valid_method m = true /\ valid_target t = true /\ valid_host h = true /\
  mem_texts m SUPPORTED_METHODS = true /\ mem_texts m (defined_methods k) = true /\
  handler_body k m (fst (partition_q t)) (snd (partition_q t)) h t = Redirect st loc.
Proof.
  intros k m t h st loc H. unfold handle in H.
  destruct (valid_method m) eqn:Vm; [|discriminate].
  destruct (valid_target t) eqn:Vt; [|discriminate].
  destruct (valid_host h) eqn:Vh; [|discriminate]. cbn [andb] in H.
  destruct (partition_q t) as [p q] eqn:P.
  apply dispatch_inv in H as (S & D & B). cbn [fst snd]. repeat split; assumption.
Qed.

Lemma static_get_inv : forall d fs ix p st loc,
  static_get d fs ix p = Redirect st loc -> d = true /\ fs = FsDir /\ static_dir p = Redirect st loc.
Proof.
  intros d fs ix p st loc H. unfold static_get in H.
  destruct fs; try discriminate. destruct d; [|discriminate].
  destruct (static_dir p) eqn:S; try discriminate; [auto|].
  destruct ix; discriminate.
Qed.

Lemma partition_q_starts : forall t, starts_with_slash t = true -> starts_with_slash (fst (partition_q t)) = true.
Proof.
  intros [|c t] H; [discriminate|]. cbn in H. apply N.eqb_eq in H; subst c.
  cbn [partition_q]. change (SLASH =? QMARK) with false. cbv iota.
  destruct (partition_q t). reflexivity.
Qed.

Lemma has_scheme_partition : forall t, has_scheme (fst (partition_q t)) = has_scheme t.
Proof.
  intro t. destruct (partition_q t) as [p q] eqn:P. cbn [fst].
  destruct (partition_q_spec _ _ _ P) as [_ [[-> _]| ->]]; [reflexivity|].
  symmetry. apply has_scheme_app_stop; [discriminate|reflexivity].
Qed.

Lemma second_is_backslash_partition : forall t, second_is_backslash t = false ->
  second_is_backslash (fst (partition_q t)) = false.
Proof.
  intros t H. destruct (partition_q t) as [p q] eqn:P. cbn [fst].
  destruct (partition_q_spec _ _ _ P) as [_ [[-> _]| ->]]; [exact H|].
  destruct p as [|a [|b r]]; [reflexivity|reflexivity|exact H].
Qed.

(* the path-derived redirect a path kind performs *)
Lemma path_kind_body : forall k m p q h t st loc,
  path_kind k = true -> handler_body k m p q h t = Redirect st loc ->
  removeslash m p q = Redirect st loc \/ addslash m p q = Redirect st loc \/ static_dir p = Redirect st loc.
Proof.
  intros k m p q h t st loc K H. destruct k; try discriminate; cbn [handler_body] in H.
  - left; exact H.
  - right; left; exact H.
  - right; right. apply static_get_inv in H as (_ & _ & S). exact S.
Qed.

(* --- end to end: the Location of a path-derived redirect --- *)
Theorem handle_path_redirect : forall k m t h st loc,
  path_kind k = true -> handle (k, m, t, h) = Redirect st loc ->
  st = 301
  /\ starts_with_2slash loc = false
  /\ has_scheme loc = has_scheme t
  /\ (starts_with_slash t = true -> same_host_path loc = true)
  /\ (starts_with_slash t = true -> second_is_backslash t = false -> browser_same_host loc = true).
Proof.
  intros k m t h st loc K H. apply handle_inv in H as (_ & _ & _ & _ & _ & B).
  pose proof (partition_q_starts t) as PS. pose proof (has_scheme_partition t) as PH.
  pose proof (second_is_backslash_partition t) as PB.
  set (p := fst (partition_q t)) in *. set (q := snd (partition_q t)) in *.
  destruct (path_kind_body _ _ _ _ _ _ _ _ K B) as [R|[R|R]].
  - split; [apply removeslash_inv in R; tauto|].
    split; [eapply removeslash_never_protocol_relative; eauto|].
    split; [rewrite <- PH; eapply removeslash_scheme; eauto|].
    split; [intro S; eapply removeslash_safe; eauto|].
    intros S Bk. eapply removeslash_browser; eauto.
  - split; [apply addslash_inv in R; tauto|].
    split; [eapply addslash_never_protocol_relative; eauto|].
    split; [rewrite <- PH; eapply addslash_scheme; eauto|].
    split; [intro S; eapply addslash_safe; eauto|].
    intros S Bk. eapply addslash_browser; eauto.
  - split; [apply static_dir_inv in R; tauto|].
    split; [eapply static_dir_never_protocol_relative; eauto|].
    split; [rewrite <- PH; eapply static_dir_scheme; eauto|].
    split; [intro S; eapply static_dir_safe; eauto|].
    intros S Bk. eapply static_dir_browser; eauto.
Qed.

Theorem handle_safe_iff : forall k m t h st loc,
  path_kind k = true -> handle (k, m, t, h) = Redirect st loc ->
  safe_location loc = negb (has_scheme t).
Proof.
  intros k m t h st loc K H. destruct (handle_path_redirect _ _ _ _ _ _ K H) as (_ & N2 & S & _).
  unfold safe_location. rewrite N2, S. reflexivity.
Qed.

(* --- redirects derived from the request are answered to GET and HEAD only --- *)
Lemma get_or_head_eq : forall m, is_get_or_head m = true -> m = GET \/ m = HEAD.
Proof.
  intros m H. unfold is_get_or_head in H. apply orb_true_iff in H as [H|H]; apply text_eqb_eq in H; auto.
Qed.

Theorem handle_redirect_get_head : forall k m t h st loc,
  match k with KRedirect _ _ _ _ => False | _ => True end ->
  handle (k, m, t, h) = Redirect st loc -> m = GET \/ m = HEAD.
Proof.
  intros k m t h st loc K H. apply handle_inv in H as (_ & _ & _ & _ & D & B).
  apply get_or_head_eq.
  destruct k; cbn [handler_body defined_methods] in *.
  - apply removeslash_inv in B. tauto.
  - apply addslash_inv in B. tauto.
  - unfold mem_texts in D. cbn [existsb] in D. rewrite orb_false_r in D. exact D.
  - apply authenticated_inv in B. tauto.
  - contradiction.
Qed.

(* a method outside SUPPORTED_METHODS, or one the handler does not define, never reaches the handler *)
Theorem handle_method_405 : forall k m t h,
  valid_method m = true -> valid_target t = true -> valid_host h = true ->
  mem_texts m (defined_methods k) = false -> handle (k, m, t, h) = Status 405.
Proof.
  intros k m t h Vm Vt Vh D. unfold handle. rewrite Vm, Vt, Vh. cbn [andb].
  destruct (partition_q t) as [p q]. unfold dispatch.
  destruct (mem_texts m SUPPORTED_METHODS); [|reflexivity]. rewrite D. reflexivity.
Qed.

Theorem handle_invalid_400 : forall k m t h,
  valid_method m && valid_target t && valid_host h = false -> handle (k, m, t, h) = Status 400.
Proof. intros k m t h V. unfold handle. rewrite V. reflexivity. Qed.

(* the static handler without default_filename, or for anything but a directory, never redirects *)
Theorem static_redirect_needs_default_dir : forall d fs ix m t h st loc,
  handle (KStatic d fs ix, m, t, h) = Redirect st loc -> d = true /\ fs = FsDir.
Proof.
  intros d fs ix m t h st loc H. apply handle_inv in H as (_ & _ & _ & _ & _ & B).
  cbn [handler_body] in B. apply static_get_inv in B. tauto.
Qed.

(* --- @authenticated through the whole path --- *)
Theorem handle_auth_redirect : forall login user m t h st loc,
  handle (KAuth login user, m, t, h) = Redirect st loc ->
  st = 302 /\ user = false /\ valid_host h = true /\
  exists url, login = Some url /\
    ((mem_text QMARK url = true /\ loc = wire url) \/
     (mem_text QMARK url = false /\
      partition_q loc = (wire url, NEXT_EQ ++ quote_plus (next_of url h t)) /\
      unquote_plus (quote_plus (next_of url h t)) = wire (next_of url h t) /\
      forallb url_safe (quote_plus (next_of url h t)) = true /\
      loc = wire url ++ QNEXT ++ quote_plus (next_of url h t))).
Proof.
  intros login user m t h st loc H. apply handle_inv in H as (_ & _ & Vh & _ & _ & B).
  cbn [handler_body] in B. pose proof B as B0.
  apply authenticated_inv in B as (U & _ & S & url & E & C). subst login.
  repeat split; auto. exists url. split; [reflexivity|].
  destruct C as [[Q L]|(Q & V & L)]; [left; auto|right].
  destruct (authenticated_split _ _ _ _ _ _ _ B0 Q) as (P & R & F). repeat split; auto.
Qed.

(* --- RequestHandler.redirect through the whole path --- *)
Theorem handle_redirect_call : forall fl url perm status m t h st loc,
  handle (KRedirect fl url perm status, m, t, h) = Redirect st loc ->
  fl = false /\ loc = wire url /\ 300 <= st <= 399
  /\ match status with None => st = (if perm then 301 else 302) | Some s => st = s end
  /\ forallb valid_header_byte loc = true.
Proof.
  intros fl url perm status m t h st loc H. apply handle_inv in H as (_ & _ & _ & _ & _ & B).
  cbn [handler_body] in B. apply redirect_inv in B. tauto.
Qed.

(* every Location the model emits is free of CR, LF and other control bytes *)
Theorem handle_location_no_control : forall i st loc,
  handle i = Redirect st loc -> forallb valid_header_byte loc = true /\ 300 <= st <= 399.
Proof.
  intros [[[k m] t] h] st loc H. apply handle_inv in H as (_ & _ & _ & _ & _ & B).
  assert (G : forall hw u p s, redirect hw u p s = Redirect st loc -> forallb valid_header_byte loc = true /\ 300 <= st <= 399).
  { intros hw u p s R. apply redirect_inv in R. tauto. }
  destruct k; cbn [handler_body] in B.
  - unfold removeslash in B. destruct (ends_with_slash _); [|discriminate]. destruct (is_get_or_head m); [|discriminate].
    destruct (rstrip_slash _); [discriminate|]. destruct (starts_with_2slash _); [discriminate|]. eapply G; eauto.
  - unfold addslash in B. destruct (negb _); [|discriminate]. destruct (is_get_or_head m); [|discriminate].
    destruct (starts_with_2slash _); [discriminate|]. eapply G; eauto.
  - apply static_get_inv in B as (_ & _ & B). unfold static_dir in B. destruct (negb _); [|discriminate].
    destruct (starts_with_2slash _); [discriminate|]. eapply G; eauto.
  - unfold authenticated in B. destruct user; [discriminate|]. destruct (is_get_or_head m); [|discriminate].
    destruct login; [|discriminate]. destruct (mem_text QMARK t0); [eapply G; eauto|].
    destruct (forallb valid_cp _); [eapply G; eauto|discriminate].
  - eapply G; eauto.
Qed.

(* --- the model satisfies the checker applied to the implementation --- *)
Theorem model_satisfies_checker : forall k m t h,
  (path_kind k = true -> has_scheme t = false) ->
  check_case (k, m, t, h) (run_case (k, m, t, h)) = true.
Proof.
  intros k m t h Hs. unfold run_case, check_case.
  destruct (handle (k, m, t, h)) as [st loc| | |] eqn:E; cbn [obs_of]; try reflexivity.
  destruct k as [| |d fs ix|login user|fl url perm status].
  - destruct (handle_path_redirect KRemove _ _ _ _ _ eq_refl E) as (_ & N2 & S & P & _).
    destruct (starts_with_slash t) eqn:T; [apply P; reflexivity|].
    unfold safe_location. rewrite N2, S, (Hs eq_refl). reflexivity.
  - destruct (handle_path_redirect KAdd _ _ _ _ _ eq_refl E) as (_ & N2 & S & P & _).
    destruct (starts_with_slash t) eqn:T; [apply P; reflexivity|].
    unfold safe_location. rewrite N2, S, (Hs eq_refl). reflexivity.
  - destruct (handle_path_redirect (KStatic d fs ix) _ _ _ _ _ eq_refl E) as (_ & N2 & S & P & _).
    destruct (starts_with_slash t) eqn:T; [apply P; reflexivity|].
    unfold safe_location. rewrite N2, S, (Hs eq_refl). reflexivity.
  - apply handle_auth_redirect in E as (_ & _ & _ & url & -> & [[_ ->]|(_ & _ & _ & F & ->)]).
    + rewrite text_eqb_refl. reflexivity.
    + apply orb_true_iff. right.
      change Run.QNEXT with QNEXT. rewrite app_assoc.
      rewrite is_prefix_app, skipn_app_exact, F. reflexivity.
  - reflexivity.
Qed.

Example handle_examples :
  handle (KRemove, GET, [47;97;47;63;120], [104]) = Redirect 301 [47;97;63;120]
  /\ handle (KRemove, POST, [47;97;47], [104]) = Status 404
  /\ handle (KRemove, PUT, [47;97;47], [104]) = Status 405
  /\ handle (KRemove, [103;101;116], [47;97;47], [104]) = Status 405
  /\ handle (KRemove, GET, [47;97;32;47], [104]) = Status 400
  /\ handle (KRemove, GET, [47;97;47], [97;44;98]) = Status 400
  /\ handle (KStatic true FsDir true, GET, [47;100], [104]) = Redirect 301 [47;100;47]
  /\ handle (KStatic false FsDir true, GET, [47;100], [104]) = Status 403
  /\ handle (KStatic true FsDir true, POST, [47;100], [104]) = Status 405
  /\ handle (KRedirect false [47;120] false (Some 307), POST, [47], [104]) = Redirect 307 [47;120]
  /\ handle (KRedirect false [47;120] false (Some 200), GET, [47], [104]) = Status 500
  /\ handle (KRedirect false [47;13;10] false None, GET, [47], [104]) = Status 500
  /\ handle (KRedirect true [47;120] false None, GET, [47], [104]) = HeadersSent.
Proof. repeat split; reflexivity. Qed.

(* the hypotheses of authenticated_site_independent / handle_auth_redirect are met by requests whose
   paths differ and start with "//host" *)
Example auth_site_example :
  exists st1 loc1 st2 loc2,
    handle (KAuth (Some [47;108]) false, GET, [47;47;101;46;99;47;112], [104]) = Redirect st1 loc1
    /\ handle (KAuth (Some [47;108]) false, HEAD, [47;120;63;97], [104;50]) = Redirect st2 loc2
    /\ before_qmark loc1 = [47;108] /\ before_qmark loc2 = [47;108].
Proof. do 4 eexists. repeat split; vm_compute; reflexivity. Qed.

(* a target without a scheme that is not origin-form still meets the checker theorem's hypothesis *)
Example checker_hypothesis_example :
  has_scheme [92;92;101;46;99;47] = false /\ has_scheme [47;97;58;98] = false /\ has_scheme [42] = false
  /\ has_scheme [104;116;116;112;58;47;47;101] = true.
Proof. repeat split; reflexivity. Qed.
