(* C28 — redirects Tornado derives from the request path: web.removeslash,
   web.addslash, StaticFileHandler.validate_absolute_path's directory redirect,
   web.authenticated, all through RequestHandler.redirect; around them the request
   line / Host validation (httputil), uri.partition("?"), request.full_url(), the
   method dispatch of RequestHandler._execute, urlsplit(login_url).scheme and
   urlencode(dict(next=...)).  Text = list of code points.  Definitions only. *)
From Coq Require Import List NArith Bool Arith.
Import ListNotations.
Local Open Scope N_scope.

Definition text := list N.
Definition SLASH : N := 47.
Definition QMARK : N := 63.
Definition BACKSLASH : N := 92.
Definition COLON : N := 58.

Fixpoint text_eqb (a b : text) : bool :=
  match a, b with
  | [], [] => true
  | x :: a', y :: b' => (x =? y) && text_eqb a' b'
  | _, _ => false
  end.

Definition ends_with_slash (p : text) : bool :=
  match rev p with c :: _ => c =? SLASH | [] => false end.

Fixpoint lstrip_slash (p : text) : text :=
  match p with c :: p' => if c =? SLASH then lstrip_slash p' else p | [] => [] end.
(* str.rstrip("/") *)
Definition rstrip_slash (p : text) : text := rev (lstrip_slash (rev p)).

Definition starts_with_2slash (p : text) : bool :=
  match p with a :: b :: _ => (a =? SLASH) && (b =? SLASH) | _ => false end.

Definition mem_text (c : N) (t : text) : bool := existsb (N.eqb c) t.
Definition mem_texts (m : text) (l : list text) : bool := existsb (text_eqb m) l.

Definition GET : text := [71;69;84].
Definition HEAD : text := [72;69;65;68].
Definition POST : text := [80;79;83;84].
Definition DELETE : text := [68;69;76;69;84;69].
Definition PATCH : text := [80;65;84;67;72].
Definition PUT : text := [80;85;84].
Definition OPTIONS : text := [79;80;84;73;79;78;83].
Definition is_get_or_head (m : text) : bool := text_eqb m GET || text_eqb m HEAD.
(* RequestHandler.SUPPORTED_METHODS *)
Definition SUPPORTED_METHODS : list text := [GET; HEAD; POST; DELETE; PATCH; PUT; OPTIONS].

Inductive outcome :=
| Redirect (status : N) (location : text)   (* location = the bytes of the Location header *)
| Status (code : N)          (* HTTPError(code) / an uncaught exception (500) / HTTPInputError (400) *)
| CallHandler                (* the wrapped method runs *)
| HeadersSent.               (* redirect() raised because the response had already started *)

Definition with_query (uri query : text) : text :=
  match query with [] => uri | _ => uri ++ QMARK :: query end.

(* ---------- escape.utf8 : str.encode("utf-8") ---------- *)
Definition utf8_cp (c : N) : list N :=
  if c <? 128 then [c]
  else if c <? 2048 then [192 + c / 64; 128 + c mod 64]
  else if c <? 65536 then [224 + c / 4096; 128 + (c / 64) mod 64; 128 + c mod 64]
  else [240 + c / 262144; 128 + (c / 4096) mod 64; 128 + (c / 64) mod 64; 128 + c mod 64].
(* encodable code points: not a surrogate, at most U+10FFFF (else UnicodeEncodeError) *)
Definition valid_cp (c : N) : bool := (c <? 55296) || ((57343 <? c) && (c <? 1114112)).
Definition wire (t : text) : text := flat_map utf8_cp t.

(* RequestHandler._VALID_HEADER_CHARS on the latin-1 view of the value bytes *)
Definition valid_header_byte (b : N) : bool :=
  (b =? 9) || ((32 <=? b) && (b <=? 126)) || (128 <=? b).

(* RequestHandler.redirect(url, permanent, status) *)
Definition redirect (headers_written : bool) (url : text) (permanent : bool) (status : option N) : outcome :=
  if headers_written then HeadersSent
  else
    match (match status with
           | None => Some (if permanent then 301 else 302)
           | Some s => if (300 <=? s) && (s <=? 399) then Some s else None      (* assert *)
           end) with
    | None => Status 500
    | Some st =>
        if forallb valid_cp url then
          let b := wire url in
          if forallb valid_header_byte b then Redirect st b
          else Status 500                                   (* ValueError("Unsafe header value") *)
        else Status 500                                     (* UnicodeEncodeError *)
    end.

(* @removeslash *)
Definition removeslash (meth path query : text) : outcome :=
  if ends_with_slash path then
    if is_get_or_head meth then
      let uri := rstrip_slash path in
      match uri with
      | [] => CallHandler                                  (* don't redirect '/' to '' *)
      | _ => if starts_with_2slash uri then Status 403
             else redirect false (with_query uri query) true None
      end
    else Status 404
  else CallHandler.

(* @addslash *)
Definition addslash (meth path query : text) : outcome :=
  if negb (ends_with_slash path) then
    if is_get_or_head meth then
      let uri := path ++ [SLASH] in
      if starts_with_2slash uri then Status 403
      else redirect false (with_query uri query) true None
    else Status 404
  else CallHandler.

(* StaticFileHandler.validate_absolute_path, for a request that resolved to a
   directory inside the root with a default_filename configured *)
Definition static_dir (path : text) : outcome :=
  if negb (ends_with_slash path) then
    if starts_with_2slash path then Status 403
    else redirect false (path ++ [SLASH]) true None
  else CallHandler.

(* what os.path says about abspath(join(root, url_unescape(captured path))) — the environment *)
Inductive fsres := FsOutside | FsDir | FsFile | FsMissing.

(* StaticFileHandler.get up to validate_absolute_path (no conditional / range headers) *)
Definition static_get (has_default : bool) (fs : fsres) (index_exists : bool) (path : text) : outcome :=
  match fs with
  | FsOutside => Status 403
  | FsDir =>
      if has_default then
        match static_dir path with
        | CallHandler => if index_exists then CallHandler else Status 404
        | o => o
        end
      else Status 403                                       (* "is not a file" *)
  | FsFile => CallHandler
  | FsMissing => Status 404
  end.

(* ---------- urllib.parse.quote_plus (via urlencode(dict(next=...))) ---------- *)
Definition is_unreserved (b : N) : bool :=
  ((48 <=? b) && (b <=? 57)) || ((65 <=? b) && (b <=? 90)) || ((97 <=? b) && (b <=? 122))
  || (b =? 95) || (b =? 46) || (b =? 45) || (b =? 126).
Definition hexdigit (n : N) : N := if n <? 10 then 48 + n else 55 + n.   (* upper case *)
Definition pct (b : N) : text := [37; hexdigit (b / 16); hexdigit (b mod 16)].
Definition quote_byte (b : N) : text :=
  if is_unreserved b then [b] else if b =? 32 then [43] else pct b.
Definition quote_plus (s : text) : text := flat_map quote_byte (wire s).

(* characters that are not URL delimiters: unreserved, "%", "+" *)
Definition url_safe (c : N) : bool := is_unreserved c || (c =? 37) || (c =? 43).

(* urllib.parse.unquote_plus on bytes (what the login page's parse_qs applies to the value) *)
Definition hexval (c : N) : option N :=
  if (48 <=? c) && (c <=? 57) then Some (c - 48)
  else if (65 <=? c) && (c <=? 70) then Some (c - 55)
  else if (97 <=? c) && (c <=? 102) then Some (c - 87)
  else None.
Fixpoint unquote_plus (s : text) : text :=
  match s with
  | [] => []
  | c :: r =>
      if c =? 43 then 32 :: unquote_plus r
      else if c =? 37 then
        match r with
        | a :: b :: r' =>
            match hexval a, hexval b with
            | Some x, Some y => (16 * x + y) :: unquote_plus r'
            | _, _ => c :: unquote_plus r
            end
        | _ => c :: unquote_plus r
        end
      else c :: unquote_plus r
  end.

Definition NEXT_EQ : text := [110;101;120;116;61].   (* "next=" *)

(* RFC 3986 scheme ":" at the start of a reference: ALPHA *( ALPHA / DIGIT / "+" / "-" / "." ) ":" *)
Definition is_alpha (c : N) : bool := ((65 <=? c) && (c <=? 90)) || ((97 <=? c) && (c <=? 122)).
Definition is_scheme_char (c : N) : bool :=
  is_alpha c || ((48 <=? c) && (c <=? 57)) || (c =? 43) || (c =? 45) || (c =? 46).
Fixpoint scheme_rest (s : text) : bool :=
  match s with
  | [] => false
  | c :: s' => if c =? 58 then true else if is_scheme_char c then scheme_rest s' else false
  end.
Definition has_scheme (s : text) : bool :=
  match s with c :: s' => is_alpha c && scheme_rest s' | [] => false end.

(* bool(urllib.parse.urlsplit(url).scheme)  (CPython 3.12): lstrip C0 controls and space,
   delete TAB/CR/LF anywhere, then  i = find(':') > 0, url[0] an ASCII letter, url[:i] scheme chars *)
Fixpoint lstrip_c0 (s : text) : text :=
  match s with c :: s' => if c <=? 32 then lstrip_c0 s' else s | [] => [] end.
Definition is_tab_nl (c : N) : bool := (c =? 9) || (c =? 10) || (c =? 13).
Definition urlsplit_has_scheme (url : text) : bool :=
  has_scheme (filter (fun c => negb (is_tab_nl c)) (lstrip_c0 url)).

(* HTTPServerRequest.full_url() on a plain-HTTP connection *)
Definition HTTP_PREFIX : text := [104;116;116;112;58;47;47].    (* "http://" *)
Definition full_url (host uri : text) : text := HTTP_PREFIX ++ host ++ uri.

(* @authenticated; login = settings.get("login_url") (None: require_setting raises),
   user = bool(self.current_user) *)
Definition authenticated (meth : text) (login : option text) (user : bool) (host uri : text) : outcome :=
  if user then CallHandler
  else if is_get_or_head meth then
    match login with
    | None => Status 500
    | Some url =>
        if mem_text QMARK url then redirect false url false None
        else
          let next_url := if urlsplit_has_scheme url then full_url host uri else uri in
          if forallb valid_cp next_url then
            redirect false (url ++ QMARK :: NEXT_EQ ++ quote_plus next_url) false None
          else Status 500                                   (* UnicodeEncodeError in urlencode *)
    end
  else Status 403.

(* ---------- request line, Host header, dispatch ---------- *)
Definition is_digit (c : N) : bool := (48 <=? c) && (c <=? 57).
Definition is_alnum (c : N) : bool := is_alpha c || is_digit c.
(* _ABNF.tchar *)
Definition is_tchar (c : N) : bool :=
  is_alnum c || mem_text c [33;35;36;37;38;39;42;43;45;46;94;95;96;124;126].
(* _ABNF.field_vchar *)
Definition is_vchar (c : N) : bool := ((33 <=? c) && (c <=? 126)) || ((128 <=? c) && (c <=? 255)).
Definition nonempty (t : text) : bool := match t with [] => false | _ => true end.
Definition valid_method (m : text) : bool := nonempty m && forallb is_tchar m.
Definition valid_target (t : text) : bool := nonempty t && forallb is_vchar t.

Definition is_hex (c : N) : bool := is_digit c || ((65 <=? c) && (c <=? 70)) || ((97 <=? c) && (c <=? 102)).
(* unreserved / sub-delims / "[" "]" ":" *)
Definition host_char (c : N) : bool :=
  is_alnum c || mem_text c [45;46;95;126; 33;36;38;39;40;41;42;43;44;59;61; 91;93;58].
Fixpoint valid_host_chars (h : text) : bool :=
  match h with
  | [] => true
  | c :: r =>
      if c =? 37 then
        match r with
        | a :: b :: r' => is_hex a && is_hex b && valid_host_chars r'
        | _ => false
        end
      else host_char c && valid_host_chars r
  end.
(* _ABNF.host.fullmatch(host) and "," not in host *)
Definition valid_host (h : text) : bool := valid_host_chars h && negb (mem_text 44 h).

(* str.partition("?") -> (path, query) *)
Fixpoint partition_q (uri : text) : text * text :=
  match uri with
  | [] => ([], [])
  | c :: r => if c =? QMARK then ([], r) else let (p, q) := partition_q r in (c :: p, q)
  end.

(* RequestHandler._execute: 405 for a method outside SUPPORTED_METHODS or one the handler
   class leaves as _unimplemented_method *)
Definition dispatch (defined : list text) (m : text) (body : outcome) : outcome :=
  if negb (mem_texts m SUPPORTED_METHODS) then Status 405
  else if negb (mem_texts m defined) then Status 405
  else body.

(* ---------- location classifiers (what the property demands) ---------- *)
Definition same_host_path (loc : text) : bool :=
  match loc with
  | a :: rest => (a =? SLASH) && negb (match rest with b :: _ => b =? SLASH | [] => false end)
  | [] => false
  end.

Definition starts_with_slash (p : text) : bool :=
  match p with a :: _ => a =? SLASH | [] => false end.

Fixpoint is_prefix (p s : text) : bool :=
  match p, s with
  | [], _ => true
  | x :: p', y :: s' => (x =? y) && is_prefix p' s'
  | _ :: _, [] => false
  end.

(* the property's demand on a Location derived from the request path *)
Definition safe_location (loc : text) : bool :=
  negb (starts_with_2slash loc) && negb (has_scheme loc).

(* a stricter reading: browsers treat "\" as "/" in http(s) URLs *)
Definition unbackslash (t : text) : text := map (fun c => if c =? BACKSLASH then SLASH else c) t.
Definition browser_same_host (loc : text) : bool := same_host_path (unbackslash loc).
Definition second_is_backslash (p : text) : bool :=
  match p with _ :: b :: _ => b =? BACKSLASH | _ => false end.

(* the part of a URL before the first "?" *)
Definition before_qmark (t : text) : text := fst (partition_q t).
