(* C28 — redirects Tornado derives from the request path: web.removeslash,
   web.addslash, StaticFileHandler.validate_absolute_path's directory redirect,
   web.authenticated.  Text = list of code points.  Definitions only. *)
From Coq Require Import List NArith Bool Arith.
Import ListNotations.
Local Open Scope N_scope.

Definition text := list N.
Definition SLASH : N := 47.
Definition QMARK : N := 63.

Fixpoint text_eqb (a b : text) : bool :=
  match a, b with
  | [], [] => true
  | x :: a', y :: b' => (x =? y) && text_eqb a' b'
  | _, _ => false
  end.

Definition ends_with_slash (p : text) : bool :=
  match rev p with c :: _ => c =? SLASH | [] => false end.

Fixpoint lstrip_slash (p : text) : text :=
  match p with c :: p' => if c =? SLASH then lstrip_slash p' else p | [] => [] end.
(* str.rstrip("/") *)
Definition rstrip_slash (p : text) : text := rev (lstrip_slash (rev p)).

Definition starts_with_2slash (p : text) : bool :=
  match p with a :: b :: _ => (a =? SLASH) && (b =? SLASH) | _ => false end.

Definition mem_text (c : N) (t : text) : bool := existsb (N.eqb c) t.

Definition GET : text := [71;69;84].
Definition HEAD : text := [72;69;65;68].
Definition is_get_or_head (m : text) : bool := text_eqb m GET || text_eqb m HEAD.

Inductive outcome :=
| Redirect (status : N) (location : text)
| Status (code : N)          (* HTTPError(code) raised by the decorator *)
| CallHandler.               (* the wrapped method runs *)

Definition with_query (uri query : text) : text :=
  match query with [] => uri | _ => uri ++ QMARK :: query end.

(* RequestHandler.redirect sends utf8(url); the header block is written as latin-1,
   so a code point >= 128 reaches the wire as its UTF-8 bytes *)
Definition utf8_small (c : N) : list N :=      (* code points < 2048 *)
  if c <? 128 then [c] else [192 + c / 64; 128 + c mod 64].
Definition wire (t : text) : text := flat_map utf8_small t.

(* @removeslash *)
Definition removeslash (meth path query : text) : outcome :=
  if ends_with_slash path then
    if is_get_or_head meth then
      let uri := rstrip_slash path in
      match uri with
      | [] => CallHandler                                  (* don't redirect '/' to '' *)
      | _ => if starts_with_2slash uri then Status 403
             else Redirect 301 (wire (with_query uri query))
      end
    else Status 404
  else CallHandler.

(* @addslash *)
Definition addslash (meth path query : text) : outcome :=
  if negb (ends_with_slash path) then
    if is_get_or_head meth then
      let uri := path ++ [SLASH] in
      if starts_with_2slash uri then Status 403
      else Redirect 301 (wire (with_query uri query))
    else Status 404
  else CallHandler.

(* StaticFileHandler.validate_absolute_path, for a request that resolved to a
   directory inside the root with a default_filename configured *)
Definition static_dir (path : text) : outcome :=
  if negb (ends_with_slash path) then
    if starts_with_2slash path then Status 403
    else Redirect 301 (wire (path ++ [SLASH]))
  else CallHandler.

(* urllib.parse.quote_plus applied to a str whose code points are < 256
   (request text is latin-1 decoded): UTF-8 encode, keep unreserved, ' ' -> '+' *)
Definition is_unreserved (b : N) : bool :=
  ((48 <=? b) && (b <=? 57)) || ((65 <=? b) && (b <=? 90)) || ((97 <=? b) && (b <=? 122))
  || (b =? 95) || (b =? 46) || (b =? 45) || (b =? 126).
Definition hexdigit (n : N) : N := if n <? 10 then 48 + n else 55 + n.   (* upper case *)
Definition pct (b : N) : text := [37; hexdigit (b / 16); hexdigit (b mod 16)].
Definition quote_byte (b : N) : text :=
  if is_unreserved b then [b] else if b =? 32 then [43] else pct b.
Definition quote_plus (s : text) : text := flat_map (fun c => flat_map quote_byte (utf8_small c)) s.

Definition NEXT_EQ : text := [110;101;120;116;61].   (* "next=" *)

(* @authenticated, for a request without a current user.
   abs_login = urlsplit(login_url).scheme is non-empty (configuration, computed by the stdlib);
   full_url = request.full_url(), uri = request.uri *)
Definition authenticated (meth login_url : text) (abs_login : bool) (full_url uri : text) : outcome :=
  if is_get_or_head meth then
    if mem_text QMARK login_url then Redirect 302 login_url
    else
      let next_url := if abs_login then full_url else uri in
      Redirect 302 (login_url ++ QMARK :: NEXT_EQ ++ quote_plus next_url)
  else Status 403.

(* what the property demands of a Location derived from the request path *)
Definition same_host_path (loc : text) : bool :=
  match loc with
  | a :: rest => (a =? SLASH) && negb (match rest with b :: _ => b =? SLASH | [] => false end)
  | [] => false
  end.

Definition starts_with_slash (p : text) : bool :=
  match p with a :: _ => a =? SLASH | [] => false end.

Fixpoint is_prefix (p s : text) : bool :=
  match p, s with
  | [], _ => true
  | x :: p', y :: s' => (x =? y) && is_prefix p' s'
  | _ :: _, [] => false
  end.

(* RFC 3986 scheme ":" at the start of a reference: ALPHA *( ALPHA / DIGIT / "+" / "-" / "." ) ":" *)
Definition is_alpha (c : N) : bool := ((65 <=? c) && (c <=? 90)) || ((97 <=? c) && (c <=? 122)).
Definition is_scheme_char (c : N) : bool :=
  is_alpha c || ((48 <=? c) && (c <=? 57)) || (c =? 43) || (c =? 45) || (c =? 46).
Fixpoint scheme_rest (s : text) : bool :=
  match s with
  | [] => false
  | c :: s' => if c =? 58 then true else if is_scheme_char c then scheme_rest s' else false
  end.
Definition has_scheme (s : text) : bool :=
  match s with c :: s' => is_alpha c && scheme_rest s' | [] => false end.

(* the property's demand on a Location derived from the request path *)
Definition safe_location (loc : text) : bool :=
  negb (starts_with_2slash loc) && negb (has_scheme loc).
