From Coq Require Import List NArith Bool Arith Lia.
Import ListNotations.
From TV Require Import C28.Model.
Local Open Scope N_scope.

Lemma lstrip_suffix : forall l, exists h, l = h ++ lstrip_slash l.
Proof.
  induction l as [|c l [h IH]]; [exists []; reflexivity|].
  cbn [lstrip_slash]. destruct (c =? SLASH).
  - exists (c :: h). cbn [app]. f_equal. exact IH.
  - exists []. reflexivity.
Qed.

Lemma rstrip_prefix : forall p, exists t, p = rstrip_slash p ++ t.
Proof.
  intro p. unfold rstrip_slash. destruct (lstrip_suffix (rev p)) as [h E].
  exists (rev h). rewrite <- rev_app_distr, <- E, rev_involutive. reflexivity.
Qed.

Lemma same_host_path_safe : forall loc, same_host_path loc = true -> safe_location loc = true.
Proof.
  intros [|a [|b r]] H; cbn in H; try discriminate.
  - apply andb_true_iff in H as [Ha _]. apply N.eqb_eq in Ha; subst a. reflexivity.
  - apply andb_true_iff in H as [Ha Hb]. apply N.eqb_eq in Ha; subst a.
    unfold safe_location, starts_with_2slash, has_scheme. cbn.
    apply negb_true_iff in Hb. rewrite Hb. reflexivity.
Qed.

(* a text that starts with "/" but not "//" keeps that shape when anything
   that does not start with "/" (or nothing) is appended *)
Lemma shp_app : forall u t,
  starts_with_slash u = true -> starts_with_2slash u = false ->
  (u = [SLASH] -> starts_with_slash t = false) ->
  same_host_path (u ++ t) = true.
Proof.
  intros [|a [|b r]] t H1 H2 H3; cbn in H1; try discriminate.
  - apply N.eqb_eq in H1; subst a. cbn [app same_host_path]. rewrite N.eqb_refl. cbn [andb].
    specialize (H3 eq_refl). destruct t as [|c t]; [reflexivity|]. cbn in H3. rewrite H3. reflexivity.
  - apply N.eqb_eq in H1; subst a. cbn [starts_with_2slash] in H2. rewrite N.eqb_refl in H2. cbn [andb] in H2.
    cbn [app same_host_path]. rewrite N.eqb_refl, H2. reflexivity.
Qed.

Lemma utf8_head_not_slash : forall b, b <> SLASH -> exists x r, utf8_small b = x :: r /\ x <> SLASH.
Proof.
  intros b H. unfold utf8_small. destruct (N.ltb_spec b 128).
  - exists b, []. auto.
  - exists (192 + b / 64), [128 + b mod 64]. split; [reflexivity|]. unfold SLASH. remember (b / 64) as qq. lia.
Qed.

Lemma wire_same_host : forall u, same_host_path u = true -> same_host_path (wire u) = true.
Proof.
  intros [|a [|b r]] H; cbn [same_host_path] in H; try discriminate.
  - apply andb_true_iff in H as [Ha _]. apply N.eqb_eq in Ha; subst a. reflexivity.
  - apply andb_true_iff in H as [Ha Hb]. apply N.eqb_eq in Ha; subst a.
    apply negb_true_iff in Hb. apply N.eqb_neq in Hb.
    destruct (utf8_head_not_slash b Hb) as (x & t & E & Hx).
    unfold wire. cbn [flat_map]. rewrite E. change (utf8_small SLASH) with [SLASH].
    cbn [app same_host_path]. rewrite N.eqb_refl. apply N.eqb_neq in Hx. rewrite Hx. reflexivity.
Qed.

Lemma wire_not2 : forall u, starts_with_2slash u = false -> starts_with_2slash (wire u) = false.
Proof.
  intros [|a r] H; [reflexivity|].
  destruct (N.eq_dec a SLASH) as [->|Na].
  - destruct r as [|b r]; [reflexivity|].
    cbn [starts_with_2slash] in H. rewrite N.eqb_refl in H. cbn [andb] in H. apply N.eqb_neq in H.
    destruct (utf8_head_not_slash b H) as (x & t & E & Hx).
    unfold wire. cbn [flat_map]. rewrite E. change (utf8_small SLASH) with [SLASH].
    cbn [app starts_with_2slash]. apply N.eqb_neq in Hx. rewrite Hx. apply andb_false_r.
  - destruct (utf8_head_not_slash a Na) as (x & t & E & Hx).
    unfold wire. cbn [flat_map]. rewrite E. cbn [app]. apply N.eqb_neq in Hx.
    destruct (t ++ flat_map utf8_small r); cbn [starts_with_2slash]; [reflexivity|]. rewrite Hx. reflexivity.
Qed.

Lemma with_query_shape : forall uri q, exists t, with_query uri q = uri ++ t /\ starts_with_slash t = false.
Proof.
  intros uri [|c q].
  - exists []. cbn. rewrite app_nil_r. auto.
  - exists (QMARK :: c :: q). split; reflexivity.
Qed.

Theorem removeslash_safe : forall m p q st loc,
  removeslash m p q = Redirect st loc -> starts_with_slash p = true -> same_host_path loc = true.
Proof.
  intros m p q st loc H Hp. unfold removeslash in H.
  destruct (ends_with_slash p); [|discriminate].
  destruct (is_get_or_head m); [|discriminate].
  destruct (rstrip_slash p) as [|a u] eqn:E; [discriminate|].
  destruct (starts_with_2slash (a :: u)) eqn:E2; [discriminate|].
  injection H as _ <-.
  destruct (rstrip_prefix p) as [t Ht]. rewrite E in Ht.
  assert (Ha : starts_with_slash (a :: u) = true).
  { rewrite Ht in Hp. exact Hp. }
  apply wire_same_host.
  destruct (with_query_shape (a :: u) q) as [w [Ew Hw]]. rewrite Ew.
  apply shp_app; [exact Ha|exact E2|intros _; exact Hw].
Qed.

Theorem addslash_safe : forall m p q st loc,
  addslash m p q = Redirect st loc -> starts_with_slash p = true -> same_host_path loc = true.
Proof.
  intros m p q st loc H Hp. unfold addslash in H.
  destruct (negb (ends_with_slash p)); [|discriminate].
  destruct (is_get_or_head m); [|discriminate].
  destruct (starts_with_2slash (p ++ [SLASH])) eqn:E2; [discriminate|].
  injection H as _ <-.
  apply wire_same_host.
  destruct (with_query_shape (p ++ [SLASH]) q) as [w [Ew Hw]]. rewrite Ew.
  apply shp_app; [|exact E2|].
  - destruct p; [discriminate|exact Hp].
  - intro E. destruct p as [|a [|b r]]; cbn in E; discriminate.
Qed.

Theorem static_dir_safe : forall p st loc,
  static_dir p = Redirect st loc -> starts_with_slash p = true -> same_host_path loc = true.
Proof.
  intros p st loc H Hp. unfold static_dir in H.
  destruct (negb (ends_with_slash p)) eqn:En; [|discriminate].
  destruct (starts_with_2slash p) eqn:E2; [discriminate|].
  injection H as _ <-.
  apply wire_same_host.
  apply shp_app; [exact Hp|exact E2|].
  intro E; subst p. discriminate.
Qed.

(* without any assumption on the path: never a protocol-relative Location *)
Lemma not2_app : forall u t, u <> [] -> starts_with_2slash u = false ->
  (forall a, u = [a] -> starts_with_slash t = false) -> starts_with_2slash (u ++ t) = false.
Proof.
  intros [|a [|b r]] t Hn H2 H3; [contradiction| |exact H2].
  cbn [app]. specialize (H3 a eq_refl). destruct t as [|c t]; [reflexivity|].
  cbn in *. rewrite H3. apply andb_false_r.
Qed.

Theorem removeslash_never_protocol_relative : forall m p q st loc,
  removeslash m p q = Redirect st loc -> starts_with_2slash loc = false.
Proof.
  intros m p q st loc H. unfold removeslash in H.
  destruct (ends_with_slash p); [|discriminate].
  destruct (is_get_or_head m); [|discriminate].
  destruct (rstrip_slash p) as [|a u] eqn:E; [discriminate|].
  destruct (starts_with_2slash (a :: u)) eqn:E2; [discriminate|].
  injection H as _ <-.
  apply wire_not2.
  destruct (with_query_shape (a :: u) q) as [w [Ew Hw]]. rewrite Ew.
  apply not2_app; [discriminate|exact E2|intros; exact Hw].
Qed.

Theorem addslash_never_protocol_relative : forall m p q st loc,
  addslash m p q = Redirect st loc -> starts_with_2slash loc = false.
Proof.
  intros m p q st loc H. unfold addslash in H.
  destruct (negb (ends_with_slash p)); [|discriminate].
  destruct (is_get_or_head m); [|discriminate].
  destruct (starts_with_2slash (p ++ [SLASH])) eqn:E2; [discriminate|].
  injection H as _ <-.
  apply wire_not2.
  destruct (with_query_shape (p ++ [SLASH]) q) as [w [Ew Hw]]. rewrite Ew.
  apply not2_app; [destruct p; discriminate|exact E2|intros; exact Hw].
Qed.

Theorem static_dir_never_protocol_relative : forall p st loc,
  static_dir p = Redirect st loc -> starts_with_2slash loc = false.
Proof.
  intros p st loc H. unfold static_dir in H.
  destruct (negb (ends_with_slash p)) eqn:En; [|discriminate].
  destruct (starts_with_2slash p) eqn:E2; [discriminate|].
  injection H as _ <-. apply wire_not2.
  destruct p as [|a [|b r]]; [reflexivity| |exact E2].
  unfold ends_with_slash in En. cbn [rev app] in En. apply negb_true_iff in En.
  cbn [app starts_with_2slash]. rewrite En. reflexivity.
Qed.

(* the statement without the origin-form hypothesis is false of the faithful model *)
Theorem removeslash_absolute_form_refuted :
  exists m p q st loc, removeslash m p q = Redirect st loc /\ safe_location loc = false.
Proof.
  exists GET, [104;116;116;112;58;47;47;101;46;99;47;97;47], [], 301, [104;116;116;112;58;47;47;101;46;99;47;97].
  split; vm_compute; reflexivity.
Qed.

(* ---------- authenticated ---------- *)
Definition url_safe (c : N) : bool := is_unreserved c || (c =? 37) || (c =? 43).

Lemma hexdigit_safe : forall n, n < 16 -> url_safe (hexdigit n) = true.
Proof.
  intros n H.
  assert (C : n = 0 \/ n = 1 \/ n = 2 \/ n = 3 \/ n = 4 \/ n = 5 \/ n = 6 \/ n = 7 \/ n = 8 \/ n = 9
              \/ n = 10 \/ n = 11 \/ n = 12 \/ n = 13 \/ n = 14 \/ n = 15) by lia.
  repeat (destruct C as [->|C]; [reflexivity|]). subst; reflexivity.
Qed.

Lemma quote_byte_safe : forall b, b < 256 -> forallb url_safe (quote_byte b) = true.
Proof.
  intros b H. unfold quote_byte. destruct (is_unreserved b) eqn:U.
  - cbn. unfold url_safe. rewrite U. reflexivity.
  - destruct (b =? 32); [reflexivity|]. unfold pct. cbn [forallb].
    rewrite !hexdigit_safe; [reflexivity| |].
    + apply N.mod_lt. discriminate.
    + apply N.div_lt_upper_bound; [discriminate|]. exact H.
Qed.

Lemma forallb_app' : forall {A} (f : A -> bool) a b, forallb f (a ++ b) = forallb f a && forallb f b.
Proof. intros; apply forallb_app. Qed.

Lemma utf8_small_bytes : forall c, c < 2048 -> Forall (fun b => b < 256) (utf8_small c).
Proof.
  intros c H. unfold utf8_small. destruct (N.ltb_spec c 128).
  - constructor; [lia|constructor].
  - constructor; [|constructor; [|constructor]].
    + assert (c / 64 < 32) by (apply N.div_lt_upper_bound; lia). lia.
    + assert (c mod 64 < 64) by (apply N.mod_lt; discriminate). lia.
Qed.

Theorem quote_plus_safe : forall s, Forall (fun c => c < 2048) s -> forallb url_safe (quote_plus s) = true.
Proof.
  induction 1 as [|c s Hc Hs IH]; [reflexivity|].
  unfold quote_plus in *. cbn [flat_map]. rewrite forallb_app, IH, andb_true_r.
  pose proof (utf8_small_bytes c Hc) as B.
  induction B as [|b bs Hb _ IHb]; [reflexivity|].
  cbn [flat_map]. rewrite forallb_app, IHb, andb_true_r. apply quote_byte_safe; exact Hb.
Qed.

Theorem authenticated_only_login_url : forall m login absl full uri st loc,
  authenticated m login absl full uri = Redirect st loc ->
  loc = login \/
  exists nxt, (nxt = full \/ nxt = uri) /\ loc = login ++ QMARK :: NEXT_EQ ++ quote_plus nxt.
Proof.
  intros m login absl full uri st loc H. unfold authenticated in H.
  destruct (is_get_or_head m); [|discriminate].
  destruct (mem_text QMARK login).
  - injection H as _ <-. left; reflexivity.
  - injection H as _ <-. right. destruct absl; [exists full|exists uri]; split; auto.
Qed.

Lemma is_prefix_app : forall p t, is_prefix p (p ++ t) = true.
Proof. induction p as [|x p IH]; intro t; [reflexivity|]. cbn. rewrite N.eqb_refl, IH. reflexivity. Qed.

Theorem authenticated_prefix : forall m login absl full uri st loc,
  authenticated m login absl full uri = Redirect st loc -> is_prefix login loc = true.
Proof.
  intros m login absl full uri st loc H.
  destruct (authenticated_only_login_url _ _ _ _ _ _ _ H) as [->|[n [_ ->]]].
  - rewrite <- (app_nil_r login) at 2. apply is_prefix_app.
  - apply is_prefix_app.
Qed.

Example removeslash_example :
  removeslash GET [47;97;47;47] [120;61;49] = Redirect 301 [47;97;63;120;61;49]
  /\ removeslash GET [47;47;101;46;99;47] [] = Status 403
  /\ addslash GET [47;47;101] [] = Status 403
  /\ addslash HEAD [47;97] [] = Redirect 301 [47;97;47].
Proof. repeat split; reflexivity. Qed.
