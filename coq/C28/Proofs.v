From Coq Require Import List NArith Bool Arith Lia.
Import ListNotations.
From TV Require Import C28.Model.
Local Open Scope N_scope.

(* ---------- strip ---------- *)
Lemma lstrip_suffix : forall l, exists h, l = h ++ lstrip_slash l /\ Forall (eq SLASH) h.
Proof.
  induction l as [|c l [h [IH Hh]]]; [exists []; split; [reflexivity|constructor]|].
  cbn [lstrip_slash]. destruct (c =? SLASH) eqn:E.
  - exists (c :: h). split; [cbn [app]; f_equal; exact IH|].
    constructor; [symmetry; apply N.eqb_eq; exact E|exact Hh].
  - exists []. split; [reflexivity|constructor].
Qed.

Lemma rstrip_prefix : forall p, exists t, p = rstrip_slash p ++ t /\ Forall (eq SLASH) t.
Proof.
  intro p. unfold rstrip_slash. destruct (lstrip_suffix (rev p)) as [h [E Hh]].
  exists (rev h). split.
  - rewrite <- rev_app_distr, <- E, rev_involutive. reflexivity.
  - apply Forall_rev. exact Hh.
Qed.

Lemma slashes_shape : forall t, Forall (eq SLASH) t -> t = [] \/ exists t', t = SLASH :: t'.
Proof. intros t H. destruct H as [|x t Hx _]; [left; reflexivity|right; exists t; subst; reflexivity]. Qed.

(* ---------- location shapes ---------- *)
Lemma same_host_path_safe : forall loc, same_host_path loc = true -> safe_location loc = true.
Proof.
  intros [|a [|b r]] H; cbn in H; try discriminate.
  - apply andb_true_iff in H as [Ha _]. apply N.eqb_eq in Ha; subst a. reflexivity.
  - apply andb_true_iff in H as [Ha Hb]. apply N.eqb_eq in Ha; subst a.
    unfold safe_location, starts_with_2slash, has_scheme. cbn.
    apply negb_true_iff in Hb. rewrite Hb. reflexivity.
Qed.

(* a text that starts with "/" but not "//" keeps that shape when anything
   that does not start with "/" (or nothing) is appended *)
Lemma shp_app : forall u t,
  starts_with_slash u = true -> starts_with_2slash u = false ->
  (u = [SLASH] -> starts_with_slash t = false) ->
  same_host_path (u ++ t) = true.
Proof.
  intros [|a [|b r]] t H1 H2 H3; cbn in H1; try discriminate.
  - apply N.eqb_eq in H1; subst a. cbn [app same_host_path]. rewrite N.eqb_refl. cbn [andb].
    specialize (H3 eq_refl). destruct t as [|c t]; [reflexivity|]. cbn in H3. rewrite H3. reflexivity.
  - apply N.eqb_eq in H1; subst a. cbn [starts_with_2slash] in H2. rewrite N.eqb_refl in H2. cbn [andb] in H2.
    cbn [app same_host_path]. rewrite N.eqb_refl, H2. reflexivity.
Qed.

(* ---------- UTF-8 ---------- *)
Lemma utf8_cp_ascii : forall c, c < 128 -> utf8_cp c = [c].
Proof. intros c H. unfold utf8_cp. apply N.ltb_lt in H. rewrite H. reflexivity. Qed.

Lemma utf8_cp_high : forall c, 128 <= c -> Forall (fun b => 128 <= b) (utf8_cp c) /\ exists x r, utf8_cp c = x :: r /\ 192 <= x.
Proof.
  intros c H. unfold utf8_cp.
  destruct (N.ltb_spec c 128); [lia|].
  generalize (c / 64) (c mod 64) (c / 4096) (c / 64 mod 64) (c / 262144) (c / 4096 mod 64). intros a b d e f g.
  destruct (c <? 2048); [|destruct (c <? 65536)].
  - split; [repeat (constructor; [lia|]); constructor|]. eexists _, _. split; [reflexivity|lia].
  - split; [repeat (constructor; [lia|]); constructor|]. eexists _, _. split; [reflexivity|lia].
  - split; [repeat (constructor; [lia|]); constructor|]. eexists _, _. split; [reflexivity|lia].
Qed.

Lemma utf8_head_not : forall k b, k < 128 -> b <> k -> exists x r, utf8_cp b = x :: r /\ x <> k.
Proof.
  intros k b Hk H. destruct (N.lt_ge_cases b 128) as [L|G].
  - exists b, []. split; [apply utf8_cp_ascii; exact L|exact H].
  - destruct (utf8_cp_high b G) as [_ (x & r & E & Hx)]. exists x, r. split; [exact E|lia].
Qed.

Lemma utf8_head_not_slash : forall b, b <> SLASH -> exists x r, utf8_cp b = x :: r /\ x <> SLASH.
Proof. intros b H. apply utf8_head_not; [reflexivity|exact H]. Qed.

Lemma wire_app : forall a b, wire (a ++ b) = wire a ++ wire b.
Proof. intros a b. unfold wire. apply flat_map_app. Qed.

Lemma wire_ascii : forall s, Forall (fun c => c < 128) s -> wire s = s.
Proof.
  induction 1 as [|c s Hc _ IH]; [reflexivity|].
  unfold wire in *. cbn [flat_map]. rewrite IH, (utf8_cp_ascii c Hc). reflexivity.
Qed.

Lemma wire_same_host : forall u, same_host_path u = true -> same_host_path (wire u) = true.
Proof.
  intros [|a [|b r]] H; cbn [same_host_path] in H; try discriminate.
  - apply andb_true_iff in H as [Ha _]. apply N.eqb_eq in Ha; subst a. reflexivity.
  - apply andb_true_iff in H as [Ha Hb]. apply N.eqb_eq in Ha; subst a.
    apply negb_true_iff in Hb. apply N.eqb_neq in Hb.
    destruct (utf8_head_not_slash b Hb) as (x & t & E & Hx).
    unfold wire. cbn [flat_map]. rewrite E. change (utf8_cp SLASH) with [SLASH].
    cbn [app same_host_path]. rewrite N.eqb_refl. apply N.eqb_neq in Hx. rewrite Hx. reflexivity.
Qed.

Lemma wire_not2 : forall u, starts_with_2slash u = false -> starts_with_2slash (wire u) = false.
Proof.
  intros [|a r] H; [reflexivity|].
  destruct (N.eq_dec a SLASH) as [->|Na].
  - destruct r as [|b r]; [reflexivity|].
    cbn [starts_with_2slash] in H. rewrite N.eqb_refl in H. cbn [andb] in H. apply N.eqb_neq in H.
    destruct (utf8_head_not_slash b H) as (x & t & E & Hx).
    unfold wire. cbn [flat_map]. rewrite E. change (utf8_cp SLASH) with [SLASH].
    cbn [app starts_with_2slash]. apply N.eqb_neq in Hx. rewrite Hx. apply andb_false_r.
  - destruct (utf8_head_not_slash a Na) as (x & t & E & Hx).
    unfold wire. cbn [flat_map]. rewrite E. cbn [app]. apply N.eqb_neq in Hx.
    destruct (t ++ flat_map utf8_cp r); cbn [starts_with_2slash]; [reflexivity|]. rewrite Hx. reflexivity.
Qed.

Lemma with_query_shape : forall uri q, exists t, with_query uri q = uri ++ t /\ (t = [] \/ exists q', t = QMARK :: q').
Proof.
  intros uri [|c q].
  - exists []. cbn. rewrite app_nil_r. auto.
  - exists (QMARK :: c :: q). split; [reflexivity|right; eexists; reflexivity].
Qed.

Lemma tail_not_slash : forall t, (t = [] \/ exists q', t = QMARK :: q') -> starts_with_slash t = false.
Proof. intros t [->|[q' ->]]; reflexivity. Qed.

(* ---------- RequestHandler.redirect ---------- *)
Theorem redirect_inv : forall hw url perm status st loc,
  redirect hw url perm status = Redirect st loc ->
  hw = false /\ loc = wire url /\ 300 <= st <= 399
  /\ match status with None => st = (if perm then 301 else 302) | Some s => st = s end
  /\ forallb valid_cp url = true /\ forallb valid_header_byte loc = true.
Proof.
  intros hw url perm status st loc H. unfold redirect in H.
  destruct hw; [discriminate|].
  destruct status as [s|].
  - destruct ((300 <=? s) && (s <=? 399)) eqn:R; [|discriminate].
    destruct (forallb valid_cp url) eqn:V; [|discriminate].
    destruct (forallb valid_header_byte (wire url)) eqn:B; [|discriminate].
    injection H as <- <-. apply andb_true_iff in R as [R1 R2]. apply N.leb_le in R1, R2.
    repeat split; auto.
  - destruct (forallb valid_cp url) eqn:V; [|discriminate].
    destruct (forallb valid_header_byte (wire url)) eqn:B; [|discriminate].
    injection H as <- <-. repeat split; auto; destruct perm; lia.
Qed.

Lemma redirect_perm_inv : forall url st loc,
  redirect false url true None = Redirect st loc -> st = 301 /\ loc = wire url.
Proof. intros url st loc H. apply redirect_inv in H as (_ & E & _ & S & _). auto. Qed.

(* ---------- the path-derived redirects ---------- *)
Lemma removeslash_inv : forall m p q st loc,
  removeslash m p q = Redirect st loc ->
  ends_with_slash p = true /\ is_get_or_head m = true /\ rstrip_slash p <> [] /\
  starts_with_2slash (rstrip_slash p) = false /\ st = 301 /\ loc = wire (with_query (rstrip_slash p) q).
Proof.
  intros m p q st loc H. unfold removeslash in H.
  destruct (ends_with_slash p); [|discriminate].
  destruct (is_get_or_head m); [|discriminate].
  destruct (rstrip_slash p) as [|a u] eqn:E; [discriminate|].
  destruct (starts_with_2slash (a :: u)) eqn:E2; [discriminate|].
  apply redirect_perm_inv in H as [-> ->]. repeat split; auto. discriminate.
Qed.

Lemma addslash_inv : forall m p q st loc,
  addslash m p q = Redirect st loc ->
  ends_with_slash p = false /\ is_get_or_head m = true /\
  starts_with_2slash (p ++ [SLASH]) = false /\ st = 301 /\ loc = wire (with_query (p ++ [SLASH]) q).
Proof.
  intros m p q st loc H. unfold addslash in H.
  destruct (ends_with_slash p); [discriminate|]. cbn [negb] in H.
  destruct (is_get_or_head m); [|discriminate].
  destruct (starts_with_2slash (p ++ [SLASH])) eqn:E2; [discriminate|].
  apply redirect_perm_inv in H as [-> ->]. repeat split; auto.
Qed.

Lemma static_dir_inv : forall p st loc,
  static_dir p = Redirect st loc ->
  ends_with_slash p = false /\ starts_with_2slash p = false /\ st = 301 /\ loc = wire (p ++ [SLASH]).
Proof.
  intros p st loc H. unfold static_dir in H.
  destruct (ends_with_slash p); [discriminate|]. cbn [negb] in H.
  destruct (starts_with_2slash p) eqn:E2; [discriminate|].
  apply redirect_perm_inv in H as [-> ->]. repeat split; auto.
Qed.

Theorem removeslash_safe : forall m p q st loc,
  removeslash m p q = Redirect st loc -> starts_with_slash p = true -> same_host_path loc = true.
Proof.
  intros m p q st loc H Hp. apply removeslash_inv in H as (_ & _ & Hne & E2 & _ & ->).
  destruct (rstrip_prefix p) as [t [Ht _]].
  assert (Ha : starts_with_slash (rstrip_slash p) = true).
  { destruct (rstrip_slash p) as [|a u]; [contradiction|]. rewrite Ht in Hp. exact Hp. }
  apply wire_same_host.
  destruct (with_query_shape (rstrip_slash p) q) as [w [Ew Hw]]. rewrite Ew.
  apply shp_app; [exact Ha|exact E2|intros _; apply tail_not_slash; exact Hw].
Qed.

Theorem addslash_safe : forall m p q st loc,
  addslash m p q = Redirect st loc -> starts_with_slash p = true -> same_host_path loc = true.
Proof.
  intros m p q st loc H Hp. apply addslash_inv in H as (_ & _ & E2 & _ & ->).
  apply wire_same_host.
  destruct (with_query_shape (p ++ [SLASH]) q) as [w [Ew Hw]]. rewrite Ew.
  apply shp_app; [|exact E2|].
  - destruct p; [discriminate|exact Hp].
  - intro E. destruct p as [|a [|b r]]; cbn in E; discriminate.
Qed.

Theorem static_dir_safe : forall p st loc,
  static_dir p = Redirect st loc -> starts_with_slash p = true -> same_host_path loc = true.
Proof.
  intros p st loc H Hp. apply static_dir_inv in H as (En & E2 & _ & ->).
  apply wire_same_host.
  apply shp_app; [exact Hp|exact E2|].
  intro E; subst p. discriminate.
Qed.

(* without any assumption on the path: never a protocol-relative Location *)
Lemma not2_app : forall u t, u <> [] -> starts_with_2slash u = false ->
  (forall a, u = [a] -> starts_with_slash t = false) -> starts_with_2slash (u ++ t) = false.
Proof.
  intros [|a [|b r]] t Hn H2 H3; [contradiction| |exact H2].
  cbn [app]. specialize (H3 a eq_refl). destruct t as [|c t]; [reflexivity|].
  cbn in *. rewrite H3. apply andb_false_r.
Qed.

Theorem removeslash_never_protocol_relative : forall m p q st loc,
  removeslash m p q = Redirect st loc -> starts_with_2slash loc = false.
Proof.
  intros m p q st loc H. apply removeslash_inv in H as (_ & _ & Hne & E2 & _ & ->).
  apply wire_not2.
  destruct (with_query_shape (rstrip_slash p) q) as [w [Ew Hw]]. rewrite Ew.
  apply not2_app; [exact Hne|exact E2|intros; apply tail_not_slash; exact Hw].
Qed.

Theorem addslash_never_protocol_relative : forall m p q st loc,
  addslash m p q = Redirect st loc -> starts_with_2slash loc = false.
Proof.
  intros m p q st loc H. apply addslash_inv in H as (_ & _ & E2 & _ & ->).
  apply wire_not2.
  destruct (with_query_shape (p ++ [SLASH]) q) as [w [Ew Hw]]. rewrite Ew.
  apply not2_app; [destruct p; discriminate|exact E2|intros; apply tail_not_slash; exact Hw].
Qed.

Theorem static_dir_never_protocol_relative : forall p st loc,
  static_dir p = Redirect st loc -> starts_with_2slash loc = false.
Proof.
  intros p st loc H. apply static_dir_inv in H as (En & E2 & _ & ->). apply wire_not2.
  destruct p as [|a [|b r]]; [reflexivity| |exact E2].
  unfold ends_with_slash in En. cbn [rev app] in En.
  cbn [app starts_with_2slash]. rewrite En. reflexivity.
Qed.

(* ---------- scheme scan ---------- *)
Lemma scheme_char_lt128 : forall c, is_scheme_char c = true -> c < 128.
Proof.
  intros c H. unfold is_scheme_char, is_alpha in H.
  repeat (apply orb_true_iff in H as [H|H]); try (apply andb_true_iff in H as [H1 H2]; apply N.leb_le in H2; lia);
    apply N.eqb_eq in H; lia.
Qed.

Lemma alpha_scheme_char : forall c, is_alpha c = true -> is_scheme_char c = true.
Proof. intros c H. unfold is_scheme_char. rewrite H. reflexivity. Qed.

Lemma scheme_rest_app_stop : forall u c t, c <> 58 -> is_scheme_char c = false ->
  scheme_rest (u ++ c :: t) = scheme_rest u.
Proof.
  induction u as [|x u IH]; intros c t Hc Hs.
  - cbn [app scheme_rest]. apply N.eqb_neq in Hc. rewrite Hc, Hs. reflexivity.
  - cbn [app scheme_rest]. rewrite IH by assumption. reflexivity.
Qed.

Lemma has_scheme_app_stop : forall u c t, c <> 58 -> is_scheme_char c = false ->
  has_scheme (u ++ c :: t) = has_scheme u.
Proof.
  intros [|x u] c t Hc Hs.
  - cbn [app has_scheme]. destruct (is_alpha c) eqn:A; [|reflexivity].
    apply alpha_scheme_char in A. congruence.
  - cbn [app has_scheme]. rewrite scheme_rest_app_stop by assumption. reflexivity.
Qed.

Lemma scheme_rest_wire : forall u, scheme_rest (wire u) = scheme_rest u.
Proof.
  induction u as [|c u IH]; [reflexivity|].
  unfold wire in *. cbn [flat_map].
  destruct (N.lt_ge_cases c 128) as [L|G].
  - rewrite (utf8_cp_ascii c L). cbn [app scheme_rest]. rewrite IH. reflexivity.
  - destruct (utf8_cp_high c G) as [_ (x & r & E & Hx)]. rewrite E. cbn [app scheme_rest].
    assert (X1 : x =? 58 = false) by (apply N.eqb_neq; lia).
    assert (C1 : c =? 58 = false) by (apply N.eqb_neq; lia).
    assert (X2 : is_scheme_char x = false).
    { destruct (is_scheme_char x) eqn:S; [apply scheme_char_lt128 in S; lia|reflexivity]. }
    assert (C2 : is_scheme_char c = false).
    { destruct (is_scheme_char c) eqn:S; [apply scheme_char_lt128 in S; lia|reflexivity]. }
    rewrite X1, X2, C1, C2. reflexivity.
Qed.

Lemma has_scheme_wire : forall u, has_scheme (wire u) = has_scheme u.
Proof.
  intros [|c u]; [reflexivity|].
  unfold wire. cbn [flat_map]. fold (wire u).
  destruct (N.lt_ge_cases c 128) as [L|G].
  - rewrite (utf8_cp_ascii c L). cbn [app has_scheme]. rewrite scheme_rest_wire. reflexivity.
  - destruct (utf8_cp_high c G) as [_ (x & r & E & Hx)]. rewrite E. cbn [app has_scheme].
    assert (X : is_alpha x = false).
    { destruct (is_alpha x) eqn:S; [apply alpha_scheme_char, scheme_char_lt128 in S; lia|reflexivity]. }
    assert (C : is_alpha c = false).
    { destruct (is_alpha c) eqn:S; [apply alpha_scheme_char, scheme_char_lt128 in S; lia|reflexivity]. }
    rewrite X, C. reflexivity.
Qed.

Lemma has_scheme_app_tail : forall u t, (t = [] \/ exists c t', t = c :: t' /\ c <> 58 /\ is_scheme_char c = false) ->
  has_scheme (u ++ t) = has_scheme u.
Proof.
  intros u t [->|(c & t' & -> & Hc & Hs)]; [rewrite app_nil_r; reflexivity|].
  apply has_scheme_app_stop; assumption.
Qed.

Lemma has_scheme_with_query : forall u q, has_scheme (with_query u q) = has_scheme u.
Proof.
  intros u q. destruct (with_query_shape u q) as [w [-> Hw]].
  apply has_scheme_app_tail. destruct Hw as [->|[q' ->]]; [left; reflexivity|].
  right. exists QMARK, q'. split; [reflexivity|split; [discriminate|reflexivity]].
Qed.

Lemma has_scheme_slash : forall u t, has_scheme (u ++ SLASH :: t) = has_scheme u.
Proof. intros u t. apply has_scheme_app_stop; [discriminate|reflexivity]. Qed.

(* the Location carries a scheme exactly when the request path does *)
Theorem removeslash_scheme : forall m p q st loc,
  removeslash m p q = Redirect st loc -> has_scheme loc = has_scheme p.
Proof.
  intros m p q st loc H. apply removeslash_inv in H as (_ & _ & _ & _ & _ & ->).
  rewrite has_scheme_wire, has_scheme_with_query.
  destruct (rstrip_prefix p) as [t [Ht Hs]]. rewrite Ht at 2.
  destruct (slashes_shape t Hs) as [->|[t' ->]]; [rewrite app_nil_r; reflexivity|].
  rewrite has_scheme_slash. reflexivity.
Qed.

Theorem addslash_scheme : forall m p q st loc,
  addslash m p q = Redirect st loc -> has_scheme loc = has_scheme p.
Proof.
  intros m p q st loc H. apply addslash_inv in H as (_ & _ & _ & _ & ->).
  rewrite has_scheme_wire, has_scheme_with_query. apply has_scheme_slash.
Qed.

Theorem static_dir_scheme : forall p st loc,
  static_dir p = Redirect st loc -> has_scheme loc = has_scheme p.
Proof.
  intros p st loc H. apply static_dir_inv in H as (_ & _ & _ & ->).
  rewrite has_scheme_wire. apply has_scheme_slash.
Qed.

(* the statement without the origin-form hypothesis is false of the faithful model *)
Theorem removeslash_absolute_form_refuted :
  exists m p q st loc, removeslash m p q = Redirect st loc /\ safe_location loc = false.
Proof.
  exists GET, [104;116;116;112;58;47;47;101;46;99;47;97;47], [], 301, [104;116;116;112;58;47;47;101;46;99;47;97].
  split; vm_compute; reflexivity.
Qed.

(* ---------- the stricter reading: "\" counts as "/" ---------- *)
Definition second_bad (u : text) : bool :=
  match u with _ :: b :: _ => (b =? SLASH) || (b =? BACKSLASH) | _ => false end.
Definition strict_path (loc : text) : bool := starts_with_slash loc && negb (second_bad loc).

Lemma strict_browser : forall loc, strict_path loc = true -> browser_same_host loc = true.
Proof.
  intros [|a [|b r]] H; unfold strict_path in H; cbn in H; try discriminate.
  - rewrite andb_true_r in H. apply N.eqb_eq in H; subst a. reflexivity.
  - apply andb_true_iff in H as [Ha Hb]. apply N.eqb_eq in Ha; subst a.
    apply negb_true_iff, orb_false_iff in Hb as [B1 B2].
    unfold browser_same_host, unbackslash. cbn [map]. rewrite B2.
    change (SLASH =? BACKSLASH) with false. cbn [same_host_path]. rewrite N.eqb_refl, B1. reflexivity.
Qed.

Lemma strict_app : forall u t,
  starts_with_slash u = true -> second_bad u = false ->
  (u = [SLASH] -> t = [] \/ exists q', t = QMARK :: q') ->
  strict_path (u ++ t) = true.
Proof.
  intros [|a [|b r]] t H1 H2 H3; cbn in H1; try discriminate.
  - apply N.eqb_eq in H1; subst a. destruct (H3 eq_refl) as [->|[q' ->]]; reflexivity.
  - unfold strict_path. cbn [app starts_with_slash second_bad] in *. rewrite H1, H2. reflexivity.
Qed.

Lemma wire_strict : forall u, strict_path u = true -> strict_path (wire u) = true.
Proof.
  intros [|a [|b r]] H; unfold strict_path in H; cbn [starts_with_slash second_bad] in H; try discriminate.
  - rewrite andb_true_r in H. apply N.eqb_eq in H; subst a. reflexivity.
  - apply andb_true_iff in H as [Ha Hb]. apply N.eqb_eq in Ha; subst a.
    apply negb_true_iff, orb_false_iff in Hb as [B1 B2]. apply N.eqb_neq in B1, B2.
    unfold wire. cbn [flat_map]. change (utf8_cp SLASH) with [SLASH].
    destruct (N.lt_ge_cases b 128) as [L|G].
    + rewrite (utf8_cp_ascii b L). unfold strict_path. cbn [app starts_with_slash second_bad].
      apply N.eqb_neq in B1, B2. rewrite B1, B2. reflexivity.
    + destruct (utf8_cp_high b G) as [_ (x & t & E & Hx)]. rewrite E.
      unfold strict_path. cbn [app starts_with_slash second_bad].
      assert (X1 : x =? SLASH = false) by (apply N.eqb_neq; unfold SLASH; lia).
      assert (X2 : x =? BACKSLASH = false) by (apply N.eqb_neq; unfold BACKSLASH; lia).
      rewrite X1, X2. reflexivity.
Qed.

Lemma second_bad_of : forall u, starts_with_2slash u = false -> second_is_backslash u = false ->
  starts_with_slash u = true -> second_bad u = false.
Proof.
  intros [|a [|b r]] H2 Hb Hs; try reflexivity.
  cbn in *. rewrite Hs in H2. cbn [andb] in H2. rewrite H2, Hb. reflexivity.
Qed.

Lemma second_is_backslash_prefix : forall u t, second_is_backslash (u ++ t) = false -> u <> [] ->
  second_is_backslash u = false \/ exists a, u = [a].
Proof.
  intros [|a [|b r]] t H Hn; [contradiction|right; eexists; reflexivity|left; exact H].
Qed.

Theorem removeslash_browser : forall m p q st loc,
  removeslash m p q = Redirect st loc -> starts_with_slash p = true -> second_is_backslash p = false ->
  browser_same_host loc = true.
Proof.
  intros m p q st loc H Hp Hb. apply removeslash_inv in H as (_ & _ & Hne & E2 & _ & ->).
  destruct (rstrip_prefix p) as [t [Ht _]].
  set (u := rstrip_slash p) in *.
  assert (Ha : starts_with_slash u = true).
  { destruct u as [|a u']; [contradiction|]. rewrite Ht in Hp. exact Hp. }
  assert (Hb' : second_is_backslash u = false).
  { rewrite Ht in Hb. destruct (second_is_backslash_prefix u t Hb Hne) as [X|[a ->]]; [exact X|reflexivity]. }
  apply strict_browser, wire_strict.
  destruct (with_query_shape u q) as [w [Ew Hw]]. rewrite Ew.
  apply strict_app; [exact Ha|apply second_bad_of; assumption|intros _; exact Hw].
Qed.

Theorem addslash_browser : forall m p q st loc,
  addslash m p q = Redirect st loc -> starts_with_slash p = true -> second_is_backslash p = false ->
  browser_same_host loc = true.
Proof.
  intros m p q st loc H Hp Hb. apply addslash_inv in H as (_ & _ & E2 & _ & ->).
  apply strict_browser, wire_strict.
  destruct (with_query_shape (p ++ [SLASH]) q) as [w [Ew Hw]]. rewrite Ew.
  apply strict_app.
  - destruct p; [discriminate|exact Hp].
  - apply second_bad_of; [exact E2| |destruct p; [discriminate|exact Hp]].
    destruct p as [|a [|b r]]; [reflexivity|reflexivity|exact Hb].
  - intro E. destruct p as [|a [|b r]]; cbn in E; discriminate.
Qed.

Theorem static_dir_browser : forall p st loc,
  static_dir p = Redirect st loc -> starts_with_slash p = true -> second_is_backslash p = false ->
  browser_same_host loc = true.
Proof.
  intros p st loc H Hp Hb. apply static_dir_inv in H as (En & E2 & _ & ->).
  apply strict_browser, wire_strict.
  destruct p as [|a [|b r]]; [discriminate| |].
  - cbn in Hp. apply N.eqb_eq in Hp; subst a. discriminate.
  - unfold strict_path. cbn [app starts_with_slash second_bad]. cbn in Hp, Hb, E2.
    rewrite Hp in *. cbn [andb] in E2. rewrite E2, Hb. reflexivity.
Qed.

(* a raw backslash after the leading slash is echoed *)
Theorem removeslash_backslash_refuted :
  exists m p q st loc, starts_with_slash p = true /\ removeslash m p q = Redirect st loc /\ browser_same_host loc = false.
Proof.
  exists GET, [47;92;101;46;99;47], [], 301, [47;92;101;46;99].
  repeat split; vm_compute; reflexivity.
Qed.

Example removeslash_example :
  removeslash GET [47;97;47;47] [120;61;49] = Redirect 301 [47;97;63;120;61;49]
  /\ removeslash GET [47;47;101;46;99;47] [] = Status 403
  /\ addslash GET [47;47;101] [] = Status 403
  /\ addslash HEAD [47;97] [] = Redirect 301 [47;97;47]
  /\ removeslash GET [47;97;47] [233] = Redirect 301 [47;97;63;195;169].
Proof. repeat split; reflexivity. Qed.
