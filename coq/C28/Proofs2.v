(* C28 — @authenticated: shape of the Location, the next value and its decoding. *)
From Coq Require Import List NArith Bool Arith Lia.
Import ListNotations.
From TV Require Import C28.Model C28.Proofs.
Local Open Scope N_scope.

Definition QNEXT : text := QMARK :: NEXT_EQ.       (* "?next=" *)

(* ---------- quote_plus produces only unreserved, "%" and "+" ---------- *)
Lemma lt16_cases : forall n, n < 16 ->
  n = 0 \/ n = 1 \/ n = 2 \/ n = 3 \/ n = 4 \/ n = 5 \/ n = 6 \/ n = 7 \/ n = 8 \/ n = 9
  \/ n = 10 \/ n = 11 \/ n = 12 \/ n = 13 \/ n = 14 \/ n = 15.
Proof. intros n H. lia. Qed.

Lemma hexdigit_safe : forall n, n < 16 -> url_safe (hexdigit n) = true.
Proof.
  intros n H. pose proof (lt16_cases n H) as C.
  repeat (destruct C as [->|C]; [reflexivity|]). subst; reflexivity.
Qed.

Lemma hexval_hexdigit : forall n, n < 16 -> hexval (hexdigit n) = Some n.
Proof.
  intros n H. pose proof (lt16_cases n H) as C.
  repeat (destruct C as [->|C]; [reflexivity|]). subst; reflexivity.
Qed.

Lemma quote_byte_safe : forall b, b < 256 -> forallb url_safe (quote_byte b) = true.
Proof.
  intros b H. unfold quote_byte. destruct (is_unreserved b) eqn:U.
  - cbn. unfold url_safe. rewrite U. reflexivity.
  - destruct (b =? 32); [reflexivity|]. unfold pct. cbn [forallb].
    rewrite !hexdigit_safe; [reflexivity| |].
    + apply N.mod_lt. discriminate.
    + apply N.div_lt_upper_bound; [discriminate|]. exact H.
Qed.

Lemma utf8_cp_bytes : forall c, c < 1114112 -> Forall (fun b => b < 256) (utf8_cp c).
Proof.
  intros c H. unfold utf8_cp.
  assert (M1 : c mod 64 < 64) by (apply N.mod_lt; discriminate).
  assert (M2 : (c / 64) mod 64 < 64) by (apply N.mod_lt; discriminate).
  assert (M3 : (c / 4096) mod 64 < 64) by (apply N.mod_lt; discriminate).
  destruct (N.ltb_spec c 128); [repeat constructor; lia|].
  destruct (N.ltb_spec c 2048).
  { assert (c / 64 < 32) by (apply N.div_lt_upper_bound; lia).
    repeat (constructor; [lia|]); constructor. }
  destruct (N.ltb_spec c 65536).
  { assert (c / 4096 < 16) by (apply N.div_lt_upper_bound; lia).
    repeat (constructor; [lia|]); constructor. }
  assert (c / 262144 < 5) by (apply N.div_lt_upper_bound; lia).
  repeat (constructor; [lia|]); constructor.
Qed.

Lemma valid_cp_bound : forall c, valid_cp c = true -> c < 1114112.
Proof.
  intros c H. unfold valid_cp in H. apply orb_true_iff in H as [H|H].
  - apply N.ltb_lt in H. lia.
  - apply andb_true_iff in H as [_ H]. apply N.ltb_lt in H. exact H.
Qed.

Lemma wire_bytes : forall s, Forall (fun c => c < 1114112) s -> Forall (fun b => b < 256) (wire s).
Proof.
  induction 1 as [|c s Hc _ IH]; [constructor|].
  unfold wire in *. cbn [flat_map]. apply Forall_app. split; [apply utf8_cp_bytes; exact Hc|exact IH].
Qed.

Lemma quote_bytes_safe : forall bs, Forall (fun b => b < 256) bs -> forallb url_safe (flat_map quote_byte bs) = true.
Proof.
  induction 1 as [|b bs Hb _ IH]; [reflexivity|].
  cbn [flat_map]. rewrite forallb_app, IH, andb_true_r. apply quote_byte_safe; exact Hb.
Qed.

Theorem quote_plus_safe : forall s, Forall (fun c => c < 1114112) s -> forallb url_safe (quote_plus s) = true.
Proof. intros s H. unfold quote_plus. apply quote_bytes_safe, wire_bytes, H. Qed.

Lemma url_safe_lt128 : forall c, url_safe c = true -> c < 128.
Proof.
  intros c H. unfold url_safe, is_unreserved in H.
  repeat (apply orb_true_iff in H as [H|H]); try (apply andb_true_iff in H as [H1 H2]; apply N.leb_le in H2; lia);
    apply N.eqb_eq in H; lia.
Qed.

Lemma url_safe_not_qmark : forall c, url_safe c = true -> c <> QMARK.
Proof. intros c H ->. discriminate H. Qed.

Lemma forallb_Forall_lt128 : forall s, forallb url_safe s = true -> Forall (fun c => c < 128) s.
Proof.
  intros s H. apply Forall_forall. intros x Hx.
  apply url_safe_lt128. rewrite forallb_forall in H. apply H, Hx.
Qed.

(* ---------- decoding the next value ---------- *)
Lemma unquote_quote_byte : forall b rest, b < 256 ->
  unquote_plus (quote_byte b ++ rest) = b :: unquote_plus rest.
Proof.
  intros b rest H. unfold quote_byte. destruct (is_unreserved b) eqn:U.
  - cbn [app unquote_plus].
    assert (b =? 43 = false) as -> by (destruct (N.eqb_spec b 43) as [->|]; [discriminate U|reflexivity]).
    assert (b =? 37 = false) as -> by (destruct (N.eqb_spec b 37) as [->|]; [discriminate U|reflexivity]).
    reflexivity.
  - destruct (N.eqb_spec b 32) as [->|N32]; [reflexivity|].
    unfold pct. cbn [app unquote_plus]. change (37 =? 43) with false. change (37 =? 37) with true. cbv iota.
    rewrite !hexval_hexdigit.
    + f_equal. symmetry. apply N.div_mod'.
    + apply N.mod_lt. discriminate.
    + apply N.div_lt_upper_bound; [discriminate|]. exact H.
Qed.

Lemma unquote_quote_bytes : forall bs, Forall (fun b => b < 256) bs -> unquote_plus (flat_map quote_byte bs) = bs.
Proof.
  induction 1 as [|b bs Hb _ IH]; [reflexivity|].
  cbn [flat_map]. rewrite unquote_quote_byte by exact Hb. rewrite IH. reflexivity.
Qed.

(* the login page's unquote_plus recovers the UTF-8 bytes of the quoted text *)
Theorem unquote_quote_plus : forall s, Forall (fun c => c < 1114112) s -> unquote_plus (quote_plus s) = wire s.
Proof. intros s H. unfold quote_plus. apply unquote_quote_bytes, wire_bytes, H. Qed.

(* ---------- partition at the first "?" ---------- *)
Lemma partition_q_app : forall a b, mem_text QMARK a = false -> partition_q (a ++ QMARK :: b) = (a, b).
Proof.
  induction a as [|c a IH]; intros b H.
  - cbn. reflexivity.
  - unfold mem_text in H. cbn [existsb] in H. apply orb_false_iff in H as [Hc Ha].
    cbn [app partition_q]. rewrite N.eqb_sym, Hc. rewrite (IH b Ha). reflexivity.
Qed.

Lemma partition_q_spec : forall t p q, partition_q t = (p, q) ->
  mem_text QMARK p = false /\ (t = p /\ q = [] \/ t = p ++ QMARK :: q).
Proof.
  induction t as [|c t IH]; intros p q H.
  - injection H as <- <-. split; [reflexivity|left; auto].
  - cbn [partition_q] in H. destruct (c =? QMARK) eqn:E.
    + injection H as <- <-. apply N.eqb_eq in E; subst c. split; [reflexivity|right; reflexivity].
    + destruct (partition_q t) as [p' q'] eqn:P. injection H as <- <-.
      destruct (IH p' q' eq_refl) as [M [[E1 E2]|E1]]; subst.
      * split; [unfold mem_text; cbn [existsb]; rewrite N.eqb_sym, E; exact M|left; auto].
      * split; [unfold mem_text; cbn [existsb]; rewrite N.eqb_sym, E; exact M|right; reflexivity].
Qed.

Lemma mem_text_app : forall k a b, mem_text k (a ++ b) = mem_text k a || mem_text k b.
Proof. intros. unfold mem_text. apply existsb_app. Qed.

Lemma mem_text_high : forall k s, k < 128 -> Forall (fun b => 128 <= b) s -> mem_text k s = false.
Proof.
  intros k s Hk H. induction H as [|b s Hb _ IH]; [reflexivity|].
  unfold mem_text in *. cbn [existsb]. rewrite IH, orb_false_r. apply N.eqb_neq. lia.
Qed.

(* UTF-8 never creates or hides an ASCII character *)
Lemma mem_text_wire : forall k u, k < 128 -> mem_text k (wire u) = mem_text k u.
Proof.
  intros k u Hk. induction u as [|c u IH]; [reflexivity|].
  unfold wire in *. cbn [flat_map]. rewrite mem_text_app, IH.
  destruct (N.lt_ge_cases c 128) as [L|G].
  - rewrite (utf8_cp_ascii c L). unfold mem_text. cbn [existsb]. rewrite orb_false_r. reflexivity.
  - destruct (utf8_cp_high c G) as [Hall _]. rewrite (mem_text_high k _ Hk Hall).
    unfold mem_text at 2. cbn [existsb]. fold (mem_text k u).
    assert (k =? c = false) as -> by (apply N.eqb_neq; lia). reflexivity.
Qed.

(* ---------- @authenticated ---------- *)
Definition next_of (url host uri : text) : text :=
  if urlsplit_has_scheme url then full_url host uri else uri.

Lemma QNEXT_ascii : Forall (fun c => c < 128) QNEXT.
Proof. unfold QNEXT, NEXT_EQ, QMARK. repeat (constructor; [reflexivity|]). constructor. Qed.

Theorem authenticated_inv : forall m login user host uri st loc,
  authenticated m login user host uri = Redirect st loc ->
  user = false /\ is_get_or_head m = true /\ st = 302 /\
  exists url, login = Some url /\
    ((mem_text QMARK url = true /\ loc = wire url) \/
     (mem_text QMARK url = false /\ forallb valid_cp (next_of url host uri) = true /\
      loc = wire url ++ QNEXT ++ quote_plus (next_of url host uri))).
Proof.
  intros m login user host uri st loc H. unfold authenticated in H.
  destruct user; [discriminate|].
  destruct (is_get_or_head m); [|discriminate].
  destruct login as [url|]; [|discriminate].
  fold (next_of url host uri) in H.
  destruct (mem_text QMARK url) eqn:Q.
  - apply redirect_inv in H as (_ & -> & _ & -> & _). repeat split; auto.
    exists url. split; [reflexivity|left; auto].
  - destruct (forallb valid_cp (next_of url host uri)) eqn:V; [|discriminate].
    apply redirect_inv in H as (_ & -> & _ & -> & _). repeat split; auto.
    exists url. split; [reflexivity|right]. repeat split; auto.
    rewrite wire_app. f_equal.
    change (QMARK :: NEXT_EQ ++ quote_plus (next_of url host uri)) with (QNEXT ++ quote_plus (next_of url host uri)).
    apply wire_ascii. apply Forall_app. split; [exact QNEXT_ascii|].
    apply forallb_Forall_lt128, quote_plus_safe.
    apply Forall_forall. intros x Hx. apply valid_cp_bound.
    rewrite forallb_forall in V. apply V, Hx.
Qed.

Lemma valid_cp_Forall : forall s, forallb valid_cp s = true -> Forall (fun c => c < 1114112) s.
Proof.
  intros s V. apply Forall_forall. intros x Hx. apply valid_cp_bound.
  rewrite forallb_forall in V. apply V, Hx.
Qed.

(* the part of the Location before the first "?" is the configured login URL (as UTF-8) and the
   query is "next=" followed by a value that decodes to the request URI / full URL *)
Theorem authenticated_split : forall m url user host uri st loc,
  authenticated m (Some url) user host uri = Redirect st loc ->
  mem_text QMARK url = false ->
  partition_q loc = (wire url, NEXT_EQ ++ quote_plus (next_of url host uri))
  /\ unquote_plus (quote_plus (next_of url host uri)) = wire (next_of url host uri)
  /\ forallb url_safe (quote_plus (next_of url host uri)) = true.
Proof.
  intros m url user host uri st loc H Q.
  apply authenticated_inv in H as (_ & _ & _ & url' & E & [[Q' _]|(_ & V & ->)]); injection E as <-; [congruence|].
  pose proof (valid_cp_Forall _ V) as B.
  split; [|split; [apply unquote_quote_plus, B|apply quote_plus_safe, B]].
  unfold QNEXT. cbn [app]. apply partition_q_app.
  rewrite mem_text_wire by reflexivity. exact Q.
Qed.

(* the site the Location points to (everything before "?") does not depend on the request *)
Theorem authenticated_site_independent : forall url m1 u1 h1 r1 st1 loc1 m2 u2 h2 r2 st2 loc2,
  authenticated m1 (Some url) u1 h1 r1 = Redirect st1 loc1 ->
  authenticated m2 (Some url) u2 h2 r2 = Redirect st2 loc2 ->
  before_qmark loc1 = before_qmark loc2 /\ before_qmark loc1 = before_qmark (wire url).
Proof.
  intros url m1 u1 h1 r1 st1 loc1 m2 u2 h2 r2 st2 loc2 H1 H2.
  destruct (mem_text QMARK url) eqn:Q.
  - apply authenticated_inv in H1 as (_ & _ & _ & x1 & E1 & [[_ ->]|(Q1 & _)]); injection E1 as <-; [|congruence].
    apply authenticated_inv in H2 as (_ & _ & _ & x2 & E2 & [[_ ->]|(Q2 & _)]); injection E2 as <-; [|congruence].
    split; reflexivity.
  - destruct (authenticated_split _ _ _ _ _ _ _ H1 Q) as [P1 _].
    destruct (authenticated_split _ _ _ _ _ _ _ H2 Q) as [P2 _].
    unfold before_qmark. rewrite P1, P2. cbn [fst]. split; [reflexivity|].
    assert (M : mem_text QMARK (wire url) = false) by (rewrite mem_text_wire by reflexivity; exact Q).
    destruct (partition_q (wire url)) as [p q] eqn:P.
    destruct (partition_q_spec _ _ _ P) as [_ [[-> _]|E]]; [reflexivity|].
    rewrite E, mem_text_app in M. apply orb_false_iff in M as [_ M]. discriminate M.
Qed.

(* a login URL that starts with "/" is never taken for absolute: next is the request URI *)
Theorem relative_login_next_is_uri : forall url host uri,
  starts_with_slash url = true -> next_of url host uri = uri.
Proof.
  intros [|c url] host uri H; [discriminate|]. cbn in H. apply N.eqb_eq in H; subst c.
  unfold next_of, urlsplit_has_scheme. reflexivity.
Qed.

Lemma is_prefix_app : forall p t, is_prefix p (p ++ t) = true.
Proof. induction p as [|x p IH]; intro t; [reflexivity|]. cbn. rewrite N.eqb_refl, IH. reflexivity. Qed.

Lemma text_eqb_refl : forall a, text_eqb a a = true.
Proof. induction a as [|x a IH]; [reflexivity|]. cbn. rewrite N.eqb_refl, IH. reflexivity. Qed.

Lemma text_eqb_eq : forall a b, text_eqb a b = true -> a = b.
Proof.
  induction a as [|x a IH]; intros [|y b] H; try discriminate; [reflexivity|].
  cbn in H. apply andb_true_iff in H as [H1 H2]. apply N.eqb_eq in H1. subst. f_equal. apply IH, H2.
Qed.

Lemma skipn_app_exact : forall (a b : text), skipn (length a) (a ++ b) = b.
Proof. induction a as [|x a IH]; intro b; [reflexivity|]. cbn. apply IH. Qed.

Example authenticated_example :
  authenticated GET (Some [47;108]) false [104] [47;47;101;47;112;63;97;61;98;32]
    = Redirect 302 [47;108;63;110;101;120;116;61;37;50;70;37;50;70;101;37;50;70;112;37;51;70;97;37;51;68;98;43]
  /\ authenticated GET (Some [104;116;116;112;58;47;47;115;47;108]) false [104] [47;112]
    = Redirect 302 [104;116;116;112;58;47;47;115;47;108;63;110;101;120;116;61;104;116;116;112;37;51;65;37;50;70;37;50;70;104;37;50;70;112]
  /\ authenticated POST (Some [47;108]) false [104] [47;112] = Status 403
  /\ authenticated GET None false [104] [47;112] = Status 500
  /\ authenticated GET (Some [47;108]) true [104] [47;112] = CallHandler.
Proof. repeat split; reflexivity. Qed.
