(* C28 — the Python string operations and framework calls that the generated file
   Gen/C28_src.v (translators/c28_src.py) is written in.  Definitions only. *)
From Coq Require Import List NArith Bool.
Import ListNotations.
From TV Require Import C28.Model.
Local Open Scope N_scope.

(* s.startswith(lit) / s.endswith(lit) *)
Definition str_startswith (s lit : text) : bool := is_prefix lit s.
Definition str_endswith (s lit : text) : bool := is_prefix (rev lit) (rev s).

(* s.rstrip(chars) *)
Fixpoint lstrip_set (chars s : text) : text :=
  match s with c :: s' => if mem_text c chars then lstrip_set chars s' else s | [] => [] end.
Definition str_rstrip (s chars : text) : text := rev (lstrip_set chars (rev s)).

(* truth value of a str *)
Definition truthy (s : text) : bool := nonempty s.

(* x in ("A", "B") *)
Definition in_tuple (x : text) (l : list text) : bool := mem_texts x l.

(* the tail of RequestHandler.redirect: set_status(status); set_header("Location", utf8(url)); finish()
   (UnicodeEncodeError / ValueError("Unsafe header value") -> 500) *)
Definition emit_location (status : N) (url : text) : outcome :=
  if forallb valid_cp url then
    if forallb valid_header_byte (wire url) then Redirect status (wire url) else Status 500
  else Status 500.

(* urlencode(dict(next=v)); None = UnicodeEncodeError *)
Definition urlencode_next (v : text) : option text :=
  if forallb valid_cp v then Some (NEXT_EQ ++ quote_plus v) else None.
