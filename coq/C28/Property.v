(* C28 — Framework-generated redirects never point to another site. *)
From Coq Require Import List NArith Bool.
Import ListNotations.
From TV Require Import Lib.Obs C28.Model C28.Proofs C28.Proofs2 C28.Proofs3 C28.Run.
Local Open Scope N_scope.

(* For every method, query and origin-form request path (starting with "/"), a redirect
   produced by @removeslash / @addslash / the static directory redirect has a
   Location that starts with exactly one "/" : a path on the same host. *)
Theorem C28_removeslash_same_host : forall m p q st loc,
  removeslash m p q = Redirect st loc -> starts_with_slash p = true -> same_host_path loc = true.
Proof. exact removeslash_safe. Qed.
Print Assumptions C28_removeslash_same_host.

Theorem C28_addslash_same_host : forall m p q st loc,
  addslash m p q = Redirect st loc -> starts_with_slash p = true -> same_host_path loc = true.
Proof. exact addslash_safe. Qed.
Print Assumptions C28_addslash_same_host.

Theorem C28_static_dir_same_host : forall p st loc,
  static_dir p = Redirect st loc -> starts_with_slash p = true -> same_host_path loc = true.
Proof. exact static_dir_safe. Qed.
Print Assumptions C28_static_dir_same_host.

(* For EVERY request path (no hypothesis): never a protocol-relative Location. *)
Theorem C28_never_protocol_relative : forall m p q st loc,
  (removeslash m p q = Redirect st loc \/ addslash m p q = Redirect st loc \/ static_dir p = Redirect st loc) ->
  starts_with_2slash loc = false.
Proof.
  intros m p q st loc [H|[H|H]];
    [eapply removeslash_never_protocol_relative|eapply addslash_never_protocol_relative|eapply static_dir_never_protocol_relative]; exact H.
Qed.
Print Assumptions C28_never_protocol_relative.

(* End to end — request-line and Host validation, partition at "?", method dispatch, decorator /
   static handler, RequestHandler.redirect — for every method, request target and Host:
   a path-derived redirect has status 301; its Location is never protocol-relative; it carries a
   scheme exactly when the request target itself starts with "scheme:"; for an origin-form target
   it starts with exactly one "/"; and unless the target's second character is a raw backslash it
   is a same-host path even for a client that reads "\" as "/". *)
Theorem C28_request_path_redirect : forall k m t h st loc,
  path_kind k = true -> handle (k, m, t, h) = Redirect st loc ->
  st = 301
  /\ starts_with_2slash loc = false
  /\ has_scheme loc = has_scheme t
  /\ (starts_with_slash t = true -> same_host_path loc = true)
  /\ (starts_with_slash t = true -> second_is_backslash t = false -> browser_same_host loc = true).
Proof. exact handle_path_redirect. Qed.
Print Assumptions C28_request_path_redirect.

(* the property's classifier fails exactly on absolute-form request targets *)
Theorem C28_location_unsafe_iff_absolute_form_target : forall k m t h st loc,
  path_kind k = true -> handle (k, m, t, h) = Redirect st loc ->
  safe_location loc = negb (has_scheme t).
Proof. exact handle_safe_iff. Qed.
Print Assumptions C28_location_unsafe_iff_absolute_form_target.

(* FULL statement (false of the faithful model, see the refutation below):
     forall m p q st loc, removeslash m p q = Redirect st loc -> safe_location loc = true.
   It holds for every target that does not start with "scheme:" (theorems above); for an absolute-form
   request target "GET http://e.c/a/" the Location is the scheme-qualified "http://e.c/a". *)
Theorem C28_scheme_qualified_refuted :
  exists m p q st loc, removeslash m p q = Redirect st loc /\ safe_location loc = false.
Proof. exact removeslash_absolute_form_refuted. Qed.
Print Assumptions C28_scheme_qualified_refuted.

(* Under the stricter reading that counts "\" as "/" (browser URL parsing) the statement is false for an
   origin-form path whose second character is a raw backslash: "GET /\e.c/" -> "Location: /\e.c".
   C28_request_path_redirect shows this is the only such case. *)
Theorem C28_backslash_form_refuted :
  exists m p q st loc, starts_with_slash p = true /\ removeslash m p q = Redirect st loc /\ browser_same_host loc = false.
Proof. exact removeslash_backslash_refuted. Qed.
Print Assumptions C28_backslash_form_refuted.

(* RequestHandler.redirect: the Location is the UTF-8 of the URL it was given, free of control bytes
   (no header injection); the status is 3xx — 301/302 from `permanent`, or the explicit one. *)
Theorem C28_redirect_status_and_location : forall hw url perm status st loc,
  redirect hw url perm status = Redirect st loc ->
  hw = false /\ loc = wire url /\ 300 <= st <= 399
  /\ match status with None => st = (if perm then 301 else 302) | Some s => st = s end
  /\ forallb valid_cp url = true /\ forallb valid_header_byte loc = true.
Proof. exact redirect_inv. Qed.
Print Assumptions C28_redirect_status_and_location.

(* every Location the modelled request path can emit, for every handler kind and input *)
Theorem C28_location_never_has_control_bytes : forall i st loc,
  handle i = Redirect st loc -> forallb valid_header_byte loc = true /\ 300 <= st <= 399.
Proof. exact handle_location_no_control. Qed.
Print Assumptions C28_location_never_has_control_bytes.

(* redirects derived from the request (decorators, static handler, @authenticated) answer GET and HEAD only *)
Theorem C28_redirect_only_for_get_head : forall k m t h st loc,
  match k with KRedirect _ _ _ _ => False | _ => True end ->
  handle (k, m, t, h) = Redirect st loc -> m = GET \/ m = HEAD.
Proof. exact handle_redirect_get_head. Qed.
Print Assumptions C28_redirect_only_for_get_head.

Theorem C28_undefined_method_405 : forall k m t h,
  valid_method m = true -> valid_target t = true -> valid_host h = true ->
  mem_texts m (defined_methods k) = false -> handle (k, m, t, h) = Status 405.
Proof. exact handle_method_405. Qed.
Print Assumptions C28_undefined_method_405.

Theorem C28_invalid_request_400 : forall k m t h,
  valid_method m && valid_target t && valid_host h = false -> handle (k, m, t, h) = Status 400.
Proof. exact handle_invalid_400. Qed.
Print Assumptions C28_invalid_request_400.

Theorem C28_static_redirect_needs_default_dir : forall d fs ix m t h st loc,
  handle (KStatic d fs ix, m, t, h) = Redirect st loc -> d = true /\ fs = FsDir.
Proof. exact static_redirect_needs_default_dir. Qed.
Print Assumptions C28_static_redirect_needs_default_dir.

(* @authenticated (through the whole request path) redirects with 302 only to the configured login URL:
   either exactly its UTF-8 (login URL with a query), or that followed by "?next=" and a percent-encoded
   value of inert characters; the Location splits at its first "?" into exactly (login URL, "next=" value),
   and the value decodes (unquote_plus) to the UTF-8 of the request URI — of the full URL
   "http://" ++ Host ++ URI when urlsplit finds a scheme in the login URL. *)
Theorem C28_authenticated_only_login_url : forall login user m t h st loc,
  handle (KAuth login user, m, t, h) = Redirect st loc ->
  st = 302 /\ user = false /\ valid_host h = true /\
  exists url, login = Some url /\
    ((mem_text QMARK url = true /\ loc = wire url) \/
     (mem_text QMARK url = false /\
      partition_q loc = (wire url, NEXT_EQ ++ quote_plus (next_of url h t)) /\
      unquote_plus (quote_plus (next_of url h t)) = wire (next_of url h t) /\
      forallb url_safe (quote_plus (next_of url h t)) = true /\
      loc = wire url ++ QNEXT ++ quote_plus (next_of url h t))).
Proof. exact handle_auth_redirect. Qed.
Print Assumptions C28_authenticated_only_login_url.

(* the site the login redirect points to (everything before "?") is the same for all requests *)
Theorem C28_authenticated_site_independent_of_request : forall url m1 u1 h1 r1 st1 loc1 m2 u2 h2 r2 st2 loc2,
  authenticated m1 (Some url) u1 h1 r1 = Redirect st1 loc1 ->
  authenticated m2 (Some url) u2 h2 r2 = Redirect st2 loc2 ->
  before_qmark loc1 = before_qmark loc2 /\ before_qmark loc1 = before_qmark (wire url).
Proof. exact authenticated_site_independent. Qed.
Print Assumptions C28_authenticated_site_independent_of_request.

Theorem C28_next_value_is_inert : forall s,
  Forall (fun c => c < 1114112) s -> forallb url_safe (quote_plus s) = true.
Proof. exact quote_plus_safe. Qed.
Print Assumptions C28_next_value_is_inert.

Theorem C28_next_value_round_trip : forall s,
  Forall (fun c => c < 1114112) s -> unquote_plus (quote_plus s) = wire s.
Proof. exact unquote_quote_plus. Qed.
Print Assumptions C28_next_value_round_trip.

Theorem C28_relative_login_next_is_uri : forall url host uri,
  starts_with_slash url = true -> next_of url host uri = uri.
Proof. exact relative_login_next_is_uri. Qed.
Print Assumptions C28_relative_login_next_is_uri.

(* The model satisfies the checker that is applied to the implementation, for every handler kind, method,
   Host and every request target that does not start with "scheme:".
   FULL statement (no hypothesis) is false because of the open known finding 'absolute-form-target'
   (C28_scheme_qualified_refuted / C28_location_unsafe_iff_absolute_form_target). *)
Theorem C28_model_satisfies_checker_partial : forall k m t h,
  (path_kind k = true -> has_scheme t = false) ->
  check_case (k, m, t, h) (run_case (k, m, t, h)) = true.
Proof. exact model_satisfies_checker. Qed.
Print Assumptions C28_model_satisfies_checker_partial.
