(* C28 — Framework-generated redirects never point to another site. *)
From Coq Require Import List NArith Bool.
Import ListNotations.
From TV Require Import Lib.Obs C28.Model C28.Proofs C28.Run.

(* For every method, query and origin-form request path (starting with "/"), a redirect
   produced by @removeslash / @addslash / the static directory redirect has a
   Location that starts with exactly one "/" : a path on the same host. *)
Theorem C28_removeslash_same_host : forall m p q st loc,
  removeslash m p q = Redirect st loc -> starts_with_slash p = true -> same_host_path loc = true.
Proof. exact removeslash_safe. Qed.
Print Assumptions C28_removeslash_same_host.

Theorem C28_addslash_same_host : forall m p q st loc,
  addslash m p q = Redirect st loc -> starts_with_slash p = true -> same_host_path loc = true.
Proof. exact addslash_safe. Qed.
Print Assumptions C28_addslash_same_host.

Theorem C28_static_dir_same_host : forall p st loc,
  static_dir p = Redirect st loc -> starts_with_slash p = true -> same_host_path loc = true.
Proof. exact static_dir_safe. Qed.
Print Assumptions C28_static_dir_same_host.

(* For EVERY request path (no hypothesis): never a protocol-relative Location. *)
Theorem C28_never_protocol_relative : forall m p q st loc,
  (removeslash m p q = Redirect st loc \/ addslash m p q = Redirect st loc \/ static_dir p = Redirect st loc) ->
  starts_with_2slash loc = false.
Proof.
  intros m p q st loc [H|[H|H]];
    [eapply removeslash_never_protocol_relative|eapply addslash_never_protocol_relative|eapply static_dir_never_protocol_relative]; exact H.
Qed.
Print Assumptions C28_never_protocol_relative.

(* FULL statement (false of the faithful model, see the refutation below):
     forall m p q st loc, removeslash m p q = Redirect st loc -> safe_location loc = true.
   It holds for origin-form targets (theorems above); for an absolute-form request target
   "GET http://e.c/a/" the Location is the scheme-qualified "http://e.c/a". *)
Theorem C28_scheme_qualified_refuted :
  exists m p q st loc, removeslash m p q = Redirect st loc /\ safe_location loc = false.
Proof. exact removeslash_absolute_form_refuted. Qed.
Print Assumptions C28_scheme_qualified_refuted.

(* @authenticated redirects only to the configured login URL, optionally followed by
   "?next=" and a percent-encoded value that contains no URL delimiter. *)
Theorem C28_authenticated_only_login_url : forall m login absl full uri st loc,
  authenticated m login absl full uri = Redirect st loc ->
  loc = login \/
  exists nxt, (nxt = full \/ nxt = uri) /\ loc = login ++ QMARK :: NEXT_EQ ++ quote_plus nxt.
Proof. exact authenticated_only_login_url. Qed.
Print Assumptions C28_authenticated_only_login_url.

Theorem C28_next_value_is_inert : forall s,
  Forall (fun c => (c < 2048)%N) s -> forallb url_safe (quote_plus s) = true.
Proof. exact quote_plus_safe. Qed.
Print Assumptions C28_next_value_is_inert.

(* the model satisfies the checker that is applied to the implementation (origin-form paths) *)
Theorem C28_model_satisfies_checker_partial : forall k m p q login absl full uri,
  (k = KAuth \/ starts_with_slash p = true) ->
  check_case (k, m, p, q, login, absl, full, uri) (run_case (k, m, p, q, login, absl, full, uri)) = true.
Proof.
  intros k m p q login absl full uri H. unfold run_case, decide, check_case.
  destruct k.
  - destruct H as [H|H]; [discriminate|].
    destruct (removeslash m p q) eqn:E; cbn; auto. apply same_host_path_safe. eapply removeslash_safe; eauto.
  - destruct H as [H|H]; [discriminate|].
    destruct (addslash m p q) eqn:E; cbn; auto. apply same_host_path_safe. eapply addslash_safe; eauto.
  - destruct H as [H|H]; [discriminate|].
    destruct (static_dir p) eqn:E; cbn; auto. apply same_host_path_safe. eapply static_dir_safe; eauto.
  - destruct (authenticated m login absl full uri) eqn:E; cbn; auto. eapply authenticated_prefix; eauto.
Qed.
Print Assumptions C28_model_satisfies_checker_partial.
