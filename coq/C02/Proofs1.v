(* C02 — basic lemmas: byte-string equality, HTTPHeaders dictionary operations, decimal text. *)
From Coq Require Import String Ascii.
From Coq Require Import NArith ZArith Bool Arith List Lia.
From Coq Require Import DecimalN DecimalPos DecimalFacts.
Import ListNotations.
From TV Require Import C02.Model.
Local Open Scope N_scope.

Lemma beqb_refl : forall x, beqb x x = true.
Proof. induction x as [|a x IH]; simpl; auto. rewrite N.eqb_refl; auto. Qed.

Lemma beqb_eq : forall x y, beqb x y = true -> x = y.
Proof.
  induction x as [|a x IH]; intros [|c y] E; simpl in E; try discriminate; auto.
  apply andb_true_iff in E as [E1 E2]. apply N.eqb_eq in E1. f_equal; auto.
Qed.

Lemma beqb_sym : forall x y, beqb x y = beqb y x.
Proof.
  induction x as [|a x IH]; intros [|c y]; simpl; auto. rewrite N.eqb_sym, IH; auto.
Qed.

Lemma beqb_neq_trans : forall k k' key, beqb k k' = false -> beqb k' key = true -> beqb k key = false.
Proof. intros k k' key N E. apply beqb_eq in E. subst. exact N. Qed.

(* ---------- hset / hadd / hdel / hmem / hget ---------- *)
Lemma hmem_hset_other : forall k k' v H, beqb k k' = false -> hmem k (hset k' v H) = hmem k H.
Proof.
  intros k k' v H N. induction H as [|[key vs] t IH]; simpl.
  - rewrite N; reflexivity.
  - destruct (beqb k' key) eqn:E; simpl; auto. rewrite IH; auto.
Qed.

Lemma hmem_hset_same : forall k v H, hmem k (hset k v H) = true.
Proof.
  intros k v H. induction H as [|[key vs] t IH]; simpl.
  - rewrite beqb_refl; reflexivity.
  - destruct (beqb k key) eqn:E; simpl; rewrite ?E; auto. 
Qed.

Lemma hmem_hadd_other : forall k k' v H, beqb k k' = false -> hmem k (hadd k' v H) = hmem k H.
Proof.
  intros k k' v H N. induction H as [|[key vs] t IH]; simpl.
  - rewrite N; reflexivity.
  - destruct (beqb k' key) eqn:E; simpl; auto. rewrite IH; auto.
Qed.

Lemma hmem_hdel_false : forall k k' H, hmem k H = false -> hmem k (hdel k' H) = false.
Proof.
  intros k k' H. induction H as [|[key vs] t IH]; simpl; auto.
  intros E. apply orb_false_iff in E as [E1 E2].
  destruct (beqb k' key); simpl; auto. rewrite E1; simpl; auto.
Qed.

Lemma hget_hset_same : forall k v H, hget k (hset k v H) = Some v.
Proof.
  intros k v H. induction H as [|[key vs] t IH]; simpl.
  - rewrite beqb_refl; reflexivity.
  - destruct (beqb k key) eqn:E; simpl; rewrite E; auto.
Qed.

Lemma hget_hset_other : forall k k' v H, beqb k k' = false -> hget k (hset k' v H) = hget k H.
Proof.
  intros k k' v H N. induction H as [|[key vs] t IH]; simpl.
  - rewrite N; reflexivity.
  - destruct (beqb k' key) eqn:E; simpl.
    + rewrite (beqb_neq_trans _ _ _ N E). reflexivity.
    + destruct (beqb k key); auto.
Qed.

Lemma hget_none_hmem : forall k H, hget k H = None <-> hmem k H = false.
Proof.
  intros k H. induction H as [|[key vs] t IH]; simpl; [tauto|].
  destruct (beqb k key); simpl; [split; discriminate|exact IH].
Qed.

Lemma hget_some_hmem : forall k H v, hget k H = Some v -> hmem k H = true.
Proof.
  intros k H v E. destruct (hmem k H) eqn:M; auto.
  apply hget_none_hmem in M. congruence.
Qed.

Lemma hmem_true_hget : forall k H, hmem k H = true -> exists v, hget k H = Some v.
Proof.
  intros k H M. destruct (hget k H) eqn:E; eauto. apply hget_none_hmem in E. congruence.
Qed.

(* ---------- decimal text: parse_int (dec n) = Some n ---------- *)
Lemma bytes_uint_uint_bytes : forall u, bytes_uint (uint_bytes u) = Some u.
Proof. induction u; simpl; try rewrite IHu; reflexivity. Qed.

Lemma uint_bytes_nonempty : forall n, uint_bytes (N.to_uint n) <> [].
Proof.
  intros n E. assert (H : N.to_uint n <> Decimal.Nil).
  { destruct n; simpl; [discriminate|]. apply DecimalPos.Unsigned.to_uint_nonnil. }
  destruct (N.to_uint n); simpl in E; try discriminate. apply H; reflexivity.
Qed.

Lemma parse_int_dec : forall n, parse_int (dec n) = Some n.
Proof.
  intros n. unfold parse_int, dec.
  destruct (uint_bytes (N.to_uint n)) eqn:E.
  - exfalso. apply (uint_bytes_nonempty n). exact E.
  - rewrite <- E. rewrite bytes_uint_uint_bytes. rewrite DecimalN.Unsigned.of_to. reflexivity.
Qed.
