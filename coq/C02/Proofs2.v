(* C02/C03 — phases of the handler/connection state machine and the facts write_headers
   establishes about the emitted header block. *)
From Coq Require Import String Ascii.
From Coq Require Import NArith ZArith Bool Arith List Lia.
Import ListNotations.
From TV Require Import C02.Model C02.Proofs1.
Local Open Scope N_scope.

Definition blenZ (l : list bytes) : Z := Z.of_nat (length (concat l)).

Lemma blenZ_nil : blenZ [] = 0%Z. Proof. reflexivity. Qed.
Lemma blenZ_app1 : forall l c, blenZ (l ++ [c]) = (blenZ l + Z.of_nat (length c))%Z.
Proof.
  intros l c. unfold blenZ. rewrite concat_app. simpl. rewrite app_nil_r, app_length. lia.
Qed.
Lemma blenZ_nonneg : forall l, (0 <= blenZ l)%Z. Proof. intros; unfold blenZ; lia. Qed.

Section Phases.
Variable e : env.
Variable q : req.
Variable nc : bool.       (* true: the handler program never sets a Connection header *)

Definition nobody (code : N) : bool := is_head q || negb (body_allowed code).
Definition disc0 : bool := negb (can_keep_alive q).
Definition ka : bool := opt_beqb (conn_lower q) (b "keep-alive").
Definition discB (code : N) (H : hdrs) : bool :=
  disc0 || (is_v10 q && negb (nobody code) && negb (hmem K_CL H)).

Definition ConnFacts (code : N) (H : hdrs) : Prop :=
  (is_v11 q = true -> disc0 = true -> hget K_CONN H = Some (b "close")) /\
  (is_v10 q = true -> ka = true -> discB code H = false -> hget K_CONN H = Some (b "Keep-Alive")) /\
  (nc = true -> hget K_CONN H = Some (b "close") -> is_v11 q = true /\ disc0 = true) /\
  (nc = true -> hget K_CONN H = Some (b "Keep-Alive") ->
     is_v10 q = true /\ ka = true /\ discB code H = false).

Definition HeadFacts (s : st) (code : N) (H : hdrs) : Prop :=
  c_chunking s = wh_chunking q code H /\
  (c_chunking s = true -> hget K_TE H = Some (b "chunked")) /\
  ConnFacts code H.

Definition PhaseA (s : st) : Prop :=
  h_hw s = false /\ h_fin s = false /\ c_chunking s = false /\ c_rem s = None /\
  c_disc s = disc0 /\ c_closed s = false /\ o_head s = None /\ o_body s = [] /\
  o_term s = false /\ g_hdr_err s = false /\ g_early_fin s = false /\ g_out_err s = false /\
  (nc = true -> hmem K_CONN (h_hdrs s) = false).

Definition PhaseB (s : st) : Prop :=
  h_hw s = true /\ h_fin s = false /\ c_closed s = false /\ o_term s = false /\
  g_hdr_err s = false /\ g_early_fin s = false /\ g_out_err s = false /\
  exists code H r0,
    o_head s = Some (code, H) /\ HeadFacts s code H /\ wh_rem q code H = Some r0 /\
    c_rem s = option_map (fun z => (z - blenZ (o_body s))%Z) r0 /\
    (match c_rem s with Some r => (0 <= r)%Z | None => True end) /\
    c_disc s = discB code H.

Definition PhaseX (s : st) : Prop :=
  h_hw s = true /\ c_closed s = true /\ o_term s = false /\ g_hdr_err s = false /\
  g_out_err s = true /\
  match o_head s with
  | None => o_body s = []
  | Some (code, H) =>
      HeadFacts s code H /\
      exists r0, wh_rem q code H = Some r0 /\
                 match r0 with Some z => (blenZ (o_body s) <= z)%Z | None => True end
  end.

Definition PhaseD (s : st) : Prop :=
  h_fin s = true /\ g_hdr_err s = false /\ g_out_err s = false /\
  exists code H r0,
    o_head s = Some (code, H) /\ HeadFacts s code H /\ wh_rem q code H = Some r0 /\
    (match r0 with Some z => blenZ (o_body s) = z | None => True end) /\
    o_term s = c_chunking s /\
    c_closed s = (discB code H || g_early_fin s).

Definition Final (s : st) : Prop := PhaseD s \/ PhaseX s \/ g_hdr_err s = true.

(* ---------- key disequalities (computed) ---------- *)
Lemma k_cl_conn : beqb K_CL K_CONN = false. Proof. reflexivity. Qed.
Lemma k_cl_te : beqb K_CL K_TE = false. Proof. reflexivity. Qed.
Lemma k_te_conn : beqb K_TE K_CONN = false. Proof. reflexivity. Qed.
Lemma k_conn_te : beqb K_CONN K_TE = false. Proof. reflexivity. Qed.

Lemma is_v10_v11 : is_v10 q = negb (is_v11 q). Proof. reflexivity. Qed.

Lemma hmem_cl_H1 : forall d H, hmem K_CL (wh_H1 q d H) = hmem K_CL H.
Proof. intros. unfold wh_H1. destruct (is_v11 q && d); auto. apply hmem_hset_other, k_cl_conn. Qed.
Lemma hmem_cl_H2 : forall d H, hmem K_CL (wh_H2 q d H) = hmem K_CL H.
Proof.
  intros. unfold wh_H2. destruct (is_v10 q && opt_beqb (conn_lower q) (b "keep-alive") && negb d); auto.
  apply hmem_hset_other, k_cl_conn.
Qed.
Lemma hmem_cl_H3 : forall c H, hmem K_CL (wh_H3 c H) = hmem K_CL H.
Proof. intros. unfold wh_H3. destruct c; auto. apply hmem_hset_other, k_cl_te. Qed.

Lemma hget_conn_H3 : forall c H, hget K_CONN (wh_H3 c H) = hget K_CONN H.
Proof. intros. unfold wh_H3. destruct c; auto. apply hget_hset_other, k_conn_te. Qed.

Lemma close_ne_ka : b "close" <> b "Keep-Alive". Proof. discriminate. Qed.

(* what write_headers does to the header dictionary *)
Lemma wh_hdrs_facts : forall code H0,
  (nc = true -> hmem K_CONN H0 = false) ->
  let chunking := wh_chunking q code H0 in
  let H1 := wh_H1 q disc0 H0 in
  let disc := wh_disc q code disc0 H1 in
  let H := wh_H3 chunking (wh_H2 q disc H1) in
  hmem K_CL H = hmem K_CL H0 /\
  disc = discB code H /\
  wh_chunking q code H = chunking /\
  (chunking = true -> hget K_TE H = Some (b "chunked")) /\
  ConnFacts code H.
Proof.
  intros code H0 NC chunking H1 disc H.
  assert (CL : hmem K_CL H = hmem K_CL H0).
  { unfold H, H1. rewrite hmem_cl_H3, hmem_cl_H2, hmem_cl_H1. reflexivity. }
  assert (DISC : disc = discB code H).
  { unfold disc, wh_disc, discB, nobody. rewrite CL. unfold H1. rewrite hmem_cl_H1.
    rewrite negb_orb, negb_involutive.
    destruct (is_v10 q), (is_head q), (body_allowed code), (hmem K_CL H0), disc0; reflexivity. }
  split; [exact CL|]. split; [exact DISC|].
  split. { unfold wh_chunking. rewrite CL. reflexivity. }
  split.
  { intros C. unfold H, wh_H3. rewrite C. apply hget_hset_same. }
  assert (CONN : hget K_CONN H = hget K_CONN (wh_H2 q disc H1)).
  { unfold H. apply hget_conn_H3. }
  unfold ConnFacts. rewrite CONN, <- DISC. fold ka.
  unfold wh_H2, H1, wh_H1. fold ka. rewrite is_v10_v11.
  assert (NCE : forall v, nc = true -> hget K_CONN H0 = Some v -> False).
  { intros v N E. specialize (NC N). apply hget_some_hmem in E. congruence. }
  destruct (is_v11 q) eqn:V; simpl.
  - (* HTTP/1.1 *)
    destruct disc0 eqn:D0; simpl.
    + rewrite hget_hset_same.
      repeat split; auto; try discriminate; intros; try discriminate;
        match goal with E : Some _ = Some _ |- _ => inversion E end.
    + repeat split; intros; try discriminate; exfalso; eauto.
  - (* HTTP/1.0 *)
    destruct ka eqn:KA; simpl.
    + destruct disc eqn:DD; simpl.
      * repeat split; intros; try discriminate; exfalso; eauto.
      * rewrite hget_hset_same.
        repeat split; auto; try discriminate; intros; try discriminate;
          match goal with E : Some _ = Some _ |- _ => inversion E end.
    + repeat split; intros; try discriminate; exfalso; eauto.
Qed.

Lemma wh_rem_nonneg : forall code H z, wh_rem q code H = Some (Some z) -> (0 <= z)%Z.
Proof.
  intros code H z. unfold wh_rem.
  destruct (is_head q || negb (body_allowed code)).
  - intros E; inversion E; lia.
  - destruct (hget K_CL H) as [v|]; [|discriminate].
    destruct (parse_int v); [|discriminate]. intros E; inversion E; lia.
Qed.

End Phases.
