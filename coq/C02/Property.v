(* C02 — HTTP responses are well-framed and carry exactly what the handler wrote.
   Property theorems only; proofs are in Proofs1-4.v.

   Vocabulary (C02/Model.v): [run e q p] is the final state of RequestHandler + HTTP1Connection
   after the handler program [p] (status / set, add, clear header / write / flush / finish, any
   length, any bytes) ran for request [q] (GET/HEAD/POST, HTTP/1.0 or 1.1, any Connection and
   If-None-Match value, any request-body framing, no_keep_alive, early or normal execution) in
   environment [e] (Server and Date values, SHA-1 as an uninterpreted function).  Of that state,
   [o_head] = the header block handed to the stream (status code, headers), [o_body] = the chunks
   handed to the stream, [o_term] = whether the chunked terminator was, [c_closed] = whether the
   stream was closed, and [wire_of] renders exactly these as the bytes on the wire. *)
From Coq Require Import String.
From Coq Require Import NArith ZArith Bool List.
Import ListNotations.
From TV Require Import C02.Model C02.Client C02.Proofs2 C02.Proofs3 C02.Proofs4 C02.Proofs5 C02.Proofs7 C02.Codec C02.Compress C02.CompressProofs.
From TV Require C29.Model.

(* FULL STATEMENT (INV of DESIGN.md section 7), refuted by the open known finding
   "write-headers-raised" (C02_header_error_refuted below):
     forall e q p, Framed q (run e q p).
   Proved with exactly that exclusion: no header-block-serialisation error occurred, i.e.
   write_headers did not raise ValueError after flush had set _headers_written.

   Framed says: either nothing at all reached the stream and it was closed; or one header block
   went out, and
   - for HEAD requests and 1xx/204/304 statuses no body byte and no terminator followed;
   - otherwise, if the server chunk-encodes: Transfer-Encoding: chunked is in the block,
     Content-Length is not, and the terminator was written unless the stream was closed;
   - otherwise no terminator was written and: if the block has a Content-Length it is a decimal
     number n, at most n body bytes were written, and exactly n unless the stream was closed
     (a declared length is never exceeded, and a short body is never passed off as complete on an
     open connection); if it has none, the connection is closed after the body. *)
Theorem C02_framing_partial : forall e q p,
  g_hdr_err (run e q p) = false -> Framed q (run e q p).
Proof. exact framing. Qed.
Print Assumptions C02_framing_partial.

(* Every run ends in one of three ways: a complete response (PhaseD: finished, body length equal
   to the declared/implied length, terminator iff chunked, closed iff _disconnect_on_finish), an
   abort by the Content-Length guard with the stream closed (PhaseX), or the header-serialisation
   error.  No other end state exists, for any program. *)
Theorem C02_every_run_ends_complete_aborted_or_header_error : forall e q p,
  PhaseD q false (run e q p) \/ PhaseX q false (run e q p) \/ g_hdr_err (run e q p) = true.
Proof. intros e q p. apply (run_final e q false p). discriminate. Qed.
Print Assumptions C02_every_run_ends_complete_aborted_or_header_error.

(* RT of DESIGN.md section 7, at the level of what is handed to the stream.  [spec] (C02/Client.v) is
   the reference semantics of plain programs (every header operation valid and not touching
   Content-Length / Transfer-Encoding / Etag / Connection, final statuses), defined without any
   wire-level notion: expected status, the body a GET would carry, the handler's headers.  Whenever
   it makes a claim - for every environment, request (method, version, If-None-Match, early,
   write-completion order, ...) and plain program of any length - the run ends finished, was not
   aborted, the header block carries exactly the expected status (the handler's last status before
   the first flush; 304 on an ETag match; 500 with the error page when a 1xx/204/304 response was
   given a body), the bytes handed to the stream after it are exactly the concatenation of the
   writes (nothing for HEAD and 1xx/204/304; no buffered write is lost or duplicated across
   flushes), and a Content-Length, if present, is the decimal length of the body a GET would carry
   (also for HEAD).
   FULL STATEMENT has no [g_hdr_err] hypothesis; it is refuted only by the open known finding
   "write-headers-raised" (a plain program's header block can still fail to serialise when the
   Server/Date values of the environment contain CR/LF), hence the _partial name. *)
Theorem C02_content_partial : forall e q p code gbody hh,
  spec e q p = Expect code gbody hh -> g_hdr_err (run e q p) = false ->
  h_fin (run e q p) = true /\ g_out_err (run e q p) = false /\
  exists H', o_head (run e q p) = Some (code, H') /\
             concat (o_body (run e q p)) = (if nobody q code then [] else gbody) /\
             (hmem K_CL H' = true -> hget K_CL H' = Some (dec (blen gbody))).
Proof. exact content. Qed.
Print Assumptions C02_content_partial.

(* the hypotheses are met: a streamed and a buffered plain program *)
Example C02_content_example_streamed :
  spec env0 q_get11 [Status 404; Write (b "x"); Flush; Write (b "yz")] =
    Expect 404 (b "xyz") (hall (default_hdrs env0))
  /\ g_hdr_err (run env0 q_get11 [Status 404; Write (b "x"); Flush; Write (b "yz")]) = false.
Proof. vm_compute. split; reflexivity. Qed.

(* Chunk formatting and the empty-chunk rule: for every list of chunks (any bytes, empty chunks
   included - they are not written, because an empty chunk would mean end-of-stream) and whatever
   follows on the connection, the strict client decoder [dechunk] (hex size, CRLF, data, CRLF, ...,
   "0" CRLF CRLF; no extensions, no trailers), run with the fuel [parse_resp] gives it, returns
   exactly the concatenation of the chunks and leaves exactly the following bytes.  [wire_of] renders
   a chunk-encoded body as  concat (map (enc_chunk true) (o_body s)) ++ "0" CRLF CRLF. *)
Theorem C02_chunked_coding_roundtrip : forall chunks rest,
  let w := concat (map (enc_chunk true) chunks) ++ b "0" ++ CRLF ++ CRLF ++ rest in
  dechunk (S (length w)) w [] = DDone (concat chunks) rest.
Proof. exact chunked_roundtrip. Qed.
Print Assumptions C02_chunked_coding_roundtrip.

(* The output-transform dimension (compress_response=True).  [crun] (C02/Compress.v) runs the handler
   side of C29's model - headers, write, flush, finish with GZipContentEncoding applied BEFORE the
   HEAD discard, any gzip codec - and feeds what it hands over (status, header dictionary, chunks) to
   this property's connection model.
   (1) For every codec, environment, HEAD request (any version / Connection / ...), Accept-Encoding
   value and handler program: a completed HEAD response carries no body byte. *)
Theorem C02_head_no_body_with_output_transform : forall c e q ae p s,
  is_head q = true -> crun c e q ae p = CDone s -> concat (o_body s) = [].
Proof. exact head_no_body_with_transform. Qed.
Print Assumptions C02_head_no_body_with_output_transform.

(* (2) write_headers, for HEAD and GET alike, never alters a header other than Connection and
   Transfer-Encoding: the values of Content-Length, Content-Encoding, Vary, ... in the emitted block
   are exactly those of the dictionary the handler handed over.  Together with
   C29_head_has_get_headers_and_no_body (the handler hands the same status, Content-Length,
   Content-Encoding, Vary and Content-Type to the connection for HEAD as for GET, transform on or
   off) this is the clause "a HEAD response's header block equals the GET's". *)
Theorem C02_write_headers_keeps_entity_headers : forall q code H k,
  beqb k K_CONN = false -> beqb k K_TE = false ->
  field_values k (whH q code H) = field_values k H.
Proof. exact whH_keeps_fields. Qed.
Print Assumptions C02_write_headers_keeps_entity_headers.

(* The open finding, as a theorem about the faithful model: GET HTTP/1.1, handler
   set_header("Bad Name", "v"); flush()  puts the bare chunk terminator on the wire with no header
   block and leaves the connection open; a non-integer handler-set Content-Length puts nothing on
   the wire and leaves the connection open. *)
Theorem C02_header_error_refuted :
  exists e q p, ~ Framed q (run e q p) /\ g_hdr_err (run e q p) = true /\
                c_closed (run e q p) = false /\ wire_of (run e q p) = [48; 13; 10; 13; 10]%N.
Proof.
  exists env0, q_get11, [SetH (b "Bad Name") (b "v"); Flush].
  destruct hdr_err_witness as (A & B & C & D). repeat split; auto.
  unfold Framed. rewrite C. intros (_ & _ & E). congruence.
Qed.
Print Assumptions C02_header_error_refuted.

Theorem C02_header_error_refuted_content_length :
  exists e q p, g_hdr_err (run e q p) = true /\ c_closed (run e q p) = false /\ wire_of (run e q p) = [].
Proof.
  exists env0, q_get11, [SetH (b "Content-Length") (b "abc"); Write (b "x")]. exact hdr_err_witness_cl.
Qed.
Print Assumptions C02_header_error_refuted_content_length.

(* the hypothesis of C02_framing_partial is met by a streamed three-operation program *)
Example C02_framing_hypothesis_satisfiable :
  g_hdr_err (run env0 q_get11 [Write (b "x"); Flush; Write (b "yz")]) = false.
Proof. exact framing_example. Qed.
