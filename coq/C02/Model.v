(* C02/C03 — shared executable model of the response side of tornado.web.RequestHandler
   (set_status/set_header/add_header/clear_header/write/flush/finish/send_error/
   check_etag_header/_clear_representation_headers) driving
   tornado.http1connection.HTTP1Connection (write_headers/_format_chunk/write/finish/
   _can_keep_alive/_finish_request), as the code is in /repo NOW.
   Definitions only (total, computable).  Bytes and text are [list N]. *)
From Coq Require Import String Ascii.
From Coq Require Import NArith ZArith Bool Arith List.
From Coq Require Import DecimalN HexadecimalN.
Import ListNotations.
Local Open Scope N_scope.

Definition bytes := list N.

(* ASCII string literal -> bytes *)
Definition b (s : string) : bytes := map N_of_ascii (list_ascii_of_string s).
Arguments b s%string.

Fixpoint beqb (x y : bytes) : bool :=
  match x, y with
  | [], [] => true
  | a :: x', c :: y' => (a =? c) && beqb x' y'
  | _, _ => false
  end.

Definition blen (x : bytes) : N := N.of_nat (length x).
Definition nonempty (x : bytes) : bool := match x with [] => false | _ => true end.

Definition CRLF : bytes := [13; 10].

(* ---------- decimal / hexadecimal text (Python percent-d, str(int), percent-x, int()) ---------- *)
Fixpoint uint_bytes (u : Decimal.uint) : bytes :=
  match u with
  | Decimal.Nil => []
  | Decimal.D0 u => 48 :: uint_bytes u | Decimal.D1 u => 49 :: uint_bytes u
  | Decimal.D2 u => 50 :: uint_bytes u | Decimal.D3 u => 51 :: uint_bytes u
  | Decimal.D4 u => 52 :: uint_bytes u | Decimal.D5 u => 53 :: uint_bytes u
  | Decimal.D6 u => 54 :: uint_bytes u | Decimal.D7 u => 55 :: uint_bytes u
  | Decimal.D8 u => 56 :: uint_bytes u | Decimal.D9 u => 57 :: uint_bytes u
  end.
Definition dec (n : N) : bytes := uint_bytes (N.to_uint n).

Fixpoint bytes_uint (l : bytes) : option Decimal.uint :=
  match l with
  | [] => Some Decimal.Nil
  | c :: l' =>
      match bytes_uint l' with
      | None => None
      | Some u =>
          if c =? 48 then Some (Decimal.D0 u) else if c =? 49 then Some (Decimal.D1 u)
          else if c =? 50 then Some (Decimal.D2 u) else if c =? 51 then Some (Decimal.D3 u)
          else if c =? 52 then Some (Decimal.D4 u) else if c =? 53 then Some (Decimal.D5 u)
          else if c =? 54 then Some (Decimal.D6 u) else if c =? 55 then Some (Decimal.D7 u)
          else if c =? 56 then Some (Decimal.D8 u) else if c =? 57 then Some (Decimal.D9 u)
          else None
      end
  end.
(* http1connection.parse_int: [0-9]+ fullmatch, then int() *)
Definition parse_int (l : bytes) : option N :=
  match l with
  | [] => None
  | _ => match bytes_uint l with Some u => Some (N.of_uint u) | None => None end
  end.

Fixpoint hex_bytes (u : Hexadecimal.uint) : bytes :=
  match u with
  | Hexadecimal.Nil => []
  | Hexadecimal.D0 u => 48 :: hex_bytes u | Hexadecimal.D1 u => 49 :: hex_bytes u
  | Hexadecimal.D2 u => 50 :: hex_bytes u | Hexadecimal.D3 u => 51 :: hex_bytes u
  | Hexadecimal.D4 u => 52 :: hex_bytes u | Hexadecimal.D5 u => 53 :: hex_bytes u
  | Hexadecimal.D6 u => 54 :: hex_bytes u | Hexadecimal.D7 u => 55 :: hex_bytes u
  | Hexadecimal.D8 u => 56 :: hex_bytes u | Hexadecimal.D9 u => 57 :: hex_bytes u
  | Hexadecimal.Da u => 97 :: hex_bytes u | Hexadecimal.Db u => 98 :: hex_bytes u
  | Hexadecimal.Dc u => 99 :: hex_bytes u | Hexadecimal.Dd u => 100 :: hex_bytes u
  | Hexadecimal.De u => 101 :: hex_bytes u | Hexadecimal.Df u => 102 :: hex_bytes u
  end.
Definition hex (n : N) : bytes := hex_bytes (N.to_hex_uint n).

(* ---------- ASCII case mapping, header-name normalisation ---------- *)
Definition upper (c : N) : N := if (97 <=? c) && (c <=? 122) then c - 32 else c.
Definition lower (c : N) : N := if (65 <=? c) && (c <=? 90) then c + 32 else c.
Definition lower_bytes (l : bytes) : bytes := map lower l.

(* httputil._normalize_header: join on dash of w.capitalize() for w in name.split(dash), ASCII names *)
Fixpoint norm_from (start : bool) (l : bytes) : bytes :=
  match l with
  | [] => []
  | c :: l' => if c =? 45 then 45 :: norm_from true l'
               else (if start then upper c else lower c) :: norm_from false l'
  end.
Definition norm (n : bytes) : bytes := norm_from true n.

(* ---------- character classes ---------- *)
Definition is_digit (c : N) := (48 <=? c) && (c <=? 57).
Definition is_alpha (c : N) := ((65 <=? c) && (c <=? 90)) || ((97 <=? c) && (c <=? 122)).
(* _ABNF.tchar *)
Definition is_tchar (c : N) : bool :=
  is_digit c || is_alpha c ||
  existsb (N.eqb c) [33; 35; 36; 37; 38; 39; 42; 43; 45; 46; 94; 95; 96; 124; 126].
(* _ABNF.field_name.fullmatch *)
Definition name_ok (n : bytes) : bool := nonempty n && forallb is_tchar n.
(* RequestHandler._VALID_HEADER_CHARS = [\x09\x20-\x7e\x80-\xff]* *)
Definition is_value_char (c : N) : bool :=
  (c =? 9) || ((32 <=? c) && (c <=? 126)) || ((128 <=? c) && (c <=? 255)).
Definition is_vchar (c : N) : bool := ((33 <=? c) && (c <=? 126)) || ((128 <=? c) && (c <=? 255)).
Definition is_vchar_ws (c : N) : bool := is_vchar c || (c =? 32) || (c =? 9).
(* _ABNF.field_value.fullmatch: empty | vchar | vchar (vchar|SP|HT)* vchar *)
Definition field_value_ok (v : bytes) : bool :=
  match v with
  | [] => true
  | c :: _ => is_vchar c && is_vchar (last v 0) && forallb is_vchar_ws v
  end.
Definition is_crlf (c : N) : bool := (c =? 13) || (c =? 10).

(* ---------- HTTPHeaders: insertion-ordered dict  normalised-name -> list of values ---------- *)
Definition hdrs := list (bytes * list bytes).
Fixpoint hmem (k : bytes) (h : hdrs) : bool :=
  match h with [] => false | (k', _) :: t => beqb k k' || hmem k t end.
Fixpoint hset (k v : bytes) (h : hdrs) : hdrs :=
  match h with
  | [] => [(k, [v])]
  | (k', vs) :: t => if beqb k k' then (k', [v]) :: t else (k', vs) :: hset k v t
  end.
Fixpoint hadd (k v : bytes) (h : hdrs) : hdrs :=
  match h with
  | [] => [(k, [v])]
  | (k', vs) :: t => if beqb k k' then (k', vs ++ [v]) :: t else (k', vs) :: hadd k v t
  end.
Fixpoint hdel (k : bytes) (h : hdrs) : hdrs :=
  match h with
  | [] => []
  | (k', vs) :: t => if beqb k k' then t else (k', vs) :: hdel k t
  end.
Fixpoint join_comma (vs : list bytes) : bytes :=
  match vs with [] => [] | [v] => v | v :: t => v ++ 44 :: join_comma t end.
Fixpoint hget (k : bytes) (h : hdrs) : option bytes :=
  match h with
  | [] => None
  | (k', vs) :: t => if beqb k k' then Some (join_comma vs) else hget k t
  end.
(* get_all *)
Definition hall (h : hdrs) : list (bytes * bytes) :=
  flat_map (fun kv => map (pair (fst kv)) (snd kv)) h.

Definition K_CL := b "Content-Length".
Definition K_TE := b "Transfer-Encoding".
Definition K_CONN := b "Connection".
Definition K_ETAG := b "Etag".
Definition K_CT := b "Content-Type".

(* ---------- httputil.responses (http.client.responses of this interpreter; the harness
   checks this table against the running interpreter at import) ---------- *)
Definition reason_table : list (N * bytes) := [
  (100, b "Continue");
  (101, b "Switching Protocols");
  (102, b "Processing");
  (103, b "Early Hints");
  (200, b "OK");
  (201, b "Created");
  (202, b "Accepted");
  (203, b "Non-Authoritative Information");
  (204, b "No Content");
  (205, b "Reset Content");
  (206, b "Partial Content");
  (207, b "Multi-Status");
  (208, b "Already Reported");
  (226, b "IM Used");
  (300, b "Multiple Choices");
  (301, b "Moved Permanently");
  (302, b "Found");
  (303, b "See Other");
  (304, b "Not Modified");
  (305, b "Use Proxy");
  (307, b "Temporary Redirect");
  (308, b "Permanent Redirect");
  (400, b "Bad Request");
  (401, b "Unauthorized");
  (402, b "Payment Required");
  (403, b "Forbidden");
  (404, b "Not Found");
  (405, b "Method Not Allowed");
  (406, b "Not Acceptable");
  (407, b "Proxy Authentication Required");
  (408, b "Request Timeout");
  (409, b "Conflict");
  (410, b "Gone");
  (411, b "Length Required");
  (412, b "Precondition Failed");
  (413, b "Request Entity Too Large");
  (414, b "Request-URI Too Long");
  (415, b "Unsupported Media Type");
  (416, b "Requested Range Not Satisfiable");
  (417, b "Expectation Failed");
  (418, b "I'm a Teapot");
  (421, b "Misdirected Request");
  (422, b "Unprocessable Entity");
  (423, b "Locked");
  (424, b "Failed Dependency");
  (425, b "Too Early");
  (426, b "Upgrade Required");
  (428, b "Precondition Required");
  (429, b "Too Many Requests");
  (431, b "Request Header Fields Too Large");
  (451, b "Unavailable For Legal Reasons");
  (500, b "Internal Server Error");
  (501, b "Not Implemented");
  (502, b "Bad Gateway");
  (503, b "Service Unavailable");
  (504, b "Gateway Timeout");
  (505, b "HTTP Version Not Supported");
  (506, b "Variant Also Negotiates");
  (507, b "Insufficient Storage");
  (508, b "Loop Detected");
  (510, b "Not Extended");
  (511, b "Network Authentication Required")].
Fixpoint assoc_N (c : N) (t : list (N * bytes)) : option bytes :=
  match t with [] => None | (k, v) :: t' => if c =? k then Some v else assoc_N c t' end.
Definition reason_of (c : N) : bytes :=
  match assoc_N c reason_table with Some r => r | None => b "Unknown" end.

(* ---------- the request, as far as the response side depends on it ---------- *)
Inductive meth := GET | HEAD | POST.
Inductive ver := V10 | V11.
Inductive rbody := NoBody | BodyCL | BodyChunked.   (* request body framing *)
(* transport: when do the response writes complete?  WSync: at once.  Otherwise the transport is
   blocked when the request head arrives, and is unblocked either after the remainder of the request
   (its body) has arrived and been drained (WAfterBody) or before that remainder arrives (WBeforeBody). *)
Inductive wmode := WSync | WAfterBody | WBeforeBody.
Record req := mkReq {
  q_meth : meth; q_ver : ver;
  q_conn : option bytes;        (* request Connection header value (stripped), if any *)
  q_inm : option bytes;         (* request If-None-Match header value, if any *)
  q_body : rbody;
  q_nka : bool;                 (* HTTPServer(no_keep_alive=True) *)
  q_early : bool;               (* the program runs in prepare() of a @stream_request_body handler,
                                   i.e. before the request body has been read *)
  q_wmode : wmode               (* order of write completion and body arrival *)
}.
Definition has_body (q : req) : bool := match q_body q with NoBody => false | _ => true end.
(* is the transport still blocked while the program's operations run / while the automatic finish
   at the end of the handler method runs?  (a handler runs when the head arrived if it is early or
   the request has no body, otherwise when the body arrived; the automatic finish of an early
   handler happens after the body) *)
Definition blocked_prog (q : req) : bool :=
  match q_wmode q with
  | WSync => false
  | WAfterBody => true
  | WBeforeBody => q_early q || negb (has_body q)
  end.
Definition blocked_auto (q : req) : bool :=
  match q_wmode q with
  | WSync => false
  | WAfterBody => true
  | WBeforeBody => negb (has_body q)
  end.
Definition is_head (q : req) := match q_meth q with HEAD => true | _ => false end.
Definition is_v11 (q : req) := match q_ver q with V11 => true | V10 => false end.
Definition is_v10 (q : req) := negb (is_v11 q).
Definition opt_beqb (x : option bytes) (y : bytes) : bool :=
  match x with Some v => beqb v y | None => false end.
Definition conn_lower (q : req) : option bytes := option_map lower_bytes (q_conn q).

(* HTTP1Connection._can_keep_alive *)
Definition can_keep_alive (q : req) : bool :=
  if q_nka q then false
  else match q_ver q with
       | V11 => negb (opt_beqb (conn_lower q) (b "close"))
       | V10 =>
           if (match q_body q with BodyCL | BodyChunked => true | NoBody => false end)
              || (match q_meth q with HEAD | GET => true | POST => false end)
           then opt_beqb (conn_lower q) (b "keep-alive")
           else false
       end.

(* ---------- check_etag_header: re.findall of  STAR | (W/)? DQUOTE [^DQUOTE]* DQUOTE  over If-None-Match ---------- *)
(* position of the first double quote (34) *)
Fixpoint find_quote (l : bytes) : option nat :=
  match l with
  | [] => None
  | c :: l' => if c =? 34 then Some O else option_map S (find_quote l')
  end.
(* a match of  DQUOTE [^DQUOTE]* DQUOTE  at the head of l: returns its length *)
Definition quoted_at (l : bytes) : option nat :=
  match l with
  | 34 :: l' => match find_quote l' with Some k => Some (S (S k)) | None => None end
  | _ => None
  end.
Definition etag_at (l : bytes) : option nat :=
  match l with
  | 42 :: _ => Some 1%nat
  | 87 :: 47 :: l' => match quoted_at l' with Some k => Some (S (S k)) | None => quoted_at l end
  | _ => quoted_at l
  end.
(* [skip] = number of leading bytes that belong to the previous match *)
Fixpoint findall_etags (skip : nat) (l : bytes) : list bytes :=
  match l with
  | [] => []
  | _ :: l' =>
      match skip with
      | S k => findall_etags k l'
      | O => match etag_at l with
             | Some (S k) => firstn (S k) l :: findall_etags k l'
             | _ => findall_etags O l'
             end
      end
  end.
Definition etag_val (x : bytes) : bytes :=
  match x with 87 :: 47 :: r => r | _ => x end.
Definition etag_matches (computed inm : bytes) : bool :=
  let etags := findall_etags O inm in
  match computed, etags with
  | [], _ => false
  | _, [] => false
  | _, e :: _ =>
      if beqb e [42] then true
      else existsb (fun e' => beqb (etag_val e') (etag_val computed)) etags
  end.

(* ---------- handler program ---------- *)
Inductive op :=
| Status (c : N)
| SetH (n v : bytes)
| AddH (n v : bytes)
| ClearH (n : bytes)
| Write (d : bytes)
| Flush
| Finish.

(* ---------- combined state of RequestHandler + HTTP1Connection + what reached the stream ---------- *)
Record st := mkSt {
  h_status : N;                 (* _status_code (reason = reason_of) *)
  h_hdrs : hdrs;                (* _headers *)
  h_buf : list bytes;           (* _write_buffer *)
  h_hw : bool;                  (* _headers_written *)
  h_fin : bool;                 (* _finished *)
  c_chunking : bool;            (* _chunking_output *)
  c_rem : option Z;             (* _expected_content_remaining *)
  c_disc : bool;                (* _disconnect_on_finish *)
  c_closed : bool;              (* stream.closed() *)
  o_head : option (N * hdrs);   (* header block handed to stream.write: status code, headers (get_all order) *)
  o_body : list bytes;          (* chunks handed to stream.write after _format_chunk accepted them *)
  o_term : bool;                (* chunked terminator handed to stream.write *)
  g_hdr_err : bool;             (* ghost: write_headers raised ValueError (unparsable Content-Length, illegal
                                   header name, CR/LF) after flush had set _headers_written *)
  g_early_fin : bool;           (* ghost: HTTP1Connection.finish ran while _read_finished was still False *)
  g_out_err : bool;             (* ghost: HTTPOutputError was raised (stream closed by the Content-Length guard) *)
  t_blocked : bool              (* the transport accepts nothing right now: what is handed to the stream stays in its
                                   write buffer, and is discarded if the stream is closed meanwhile *)
}.
Definition set_status s v := mkSt v (h_hdrs s) (h_buf s) (h_hw s) (h_fin s) (c_chunking s) (c_rem s) (c_disc s) (c_closed s) (o_head s) (o_body s) (o_term s) (g_hdr_err s) (g_early_fin s) (g_out_err s) (t_blocked s).
Definition set_hdrs s v := mkSt (h_status s) v (h_buf s) (h_hw s) (h_fin s) (c_chunking s) (c_rem s) (c_disc s) (c_closed s) (o_head s) (o_body s) (o_term s) (g_hdr_err s) (g_early_fin s) (g_out_err s) (t_blocked s).
Definition set_buf s v := mkSt (h_status s) (h_hdrs s) v (h_hw s) (h_fin s) (c_chunking s) (c_rem s) (c_disc s) (c_closed s) (o_head s) (o_body s) (o_term s) (g_hdr_err s) (g_early_fin s) (g_out_err s) (t_blocked s).
Definition set_hw s v := mkSt (h_status s) (h_hdrs s) (h_buf s) v (h_fin s) (c_chunking s) (c_rem s) (c_disc s) (c_closed s) (o_head s) (o_body s) (o_term s) (g_hdr_err s) (g_early_fin s) (g_out_err s) (t_blocked s).
Definition set_fin s v := mkSt (h_status s) (h_hdrs s) (h_buf s) (h_hw s) v (c_chunking s) (c_rem s) (c_disc s) (c_closed s) (o_head s) (o_body s) (o_term s) (g_hdr_err s) (g_early_fin s) (g_out_err s) (t_blocked s).
Definition set_chunking s v := mkSt (h_status s) (h_hdrs s) (h_buf s) (h_hw s) (h_fin s) v (c_rem s) (c_disc s) (c_closed s) (o_head s) (o_body s) (o_term s) (g_hdr_err s) (g_early_fin s) (g_out_err s) (t_blocked s).
Definition set_rem s v := mkSt (h_status s) (h_hdrs s) (h_buf s) (h_hw s) (h_fin s) (c_chunking s) v (c_disc s) (c_closed s) (o_head s) (o_body s) (o_term s) (g_hdr_err s) (g_early_fin s) (g_out_err s) (t_blocked s).
Definition set_disc s v := mkSt (h_status s) (h_hdrs s) (h_buf s) (h_hw s) (h_fin s) (c_chunking s) (c_rem s) v (c_closed s) (o_head s) (o_body s) (o_term s) (g_hdr_err s) (g_early_fin s) (g_out_err s) (t_blocked s).
Definition set_closed s v := mkSt (h_status s) (h_hdrs s) (h_buf s) (h_hw s) (h_fin s) (c_chunking s) (c_rem s) (c_disc s) v (o_head s) (o_body s) (o_term s) (g_hdr_err s) (g_early_fin s) (g_out_err s) (t_blocked s).
Definition set_head s v := mkSt (h_status s) (h_hdrs s) (h_buf s) (h_hw s) (h_fin s) (c_chunking s) (c_rem s) (c_disc s) (c_closed s) v (o_body s) (o_term s) (g_hdr_err s) (g_early_fin s) (g_out_err s) (t_blocked s).
Definition set_body s v := mkSt (h_status s) (h_hdrs s) (h_buf s) (h_hw s) (h_fin s) (c_chunking s) (c_rem s) (c_disc s) (c_closed s) (o_head s) v (o_term s) (g_hdr_err s) (g_early_fin s) (g_out_err s) (t_blocked s).
Definition set_term s v := mkSt (h_status s) (h_hdrs s) (h_buf s) (h_hw s) (h_fin s) (c_chunking s) (c_rem s) (c_disc s) (c_closed s) (o_head s) (o_body s) v (g_hdr_err s) (g_early_fin s) (g_out_err s) (t_blocked s).
Definition set_hdr_err s v := mkSt (h_status s) (h_hdrs s) (h_buf s) (h_hw s) (h_fin s) (c_chunking s) (c_rem s) (c_disc s) (c_closed s) (o_head s) (o_body s) (o_term s) v (g_early_fin s) (g_out_err s) (t_blocked s).
Definition set_early_fin s v := mkSt (h_status s) (h_hdrs s) (h_buf s) (h_hw s) (h_fin s) (c_chunking s) (c_rem s) (c_disc s) (c_closed s) (o_head s) (o_body s) (o_term s) (g_hdr_err s) v (g_out_err s) (t_blocked s).
Definition set_out_err s v := mkSt (h_status s) (h_hdrs s) (h_buf s) (h_hw s) (h_fin s) (c_chunking s) (c_rem s) (c_disc s) (c_closed s) (o_head s) (o_body s) (o_term s) (g_hdr_err s) (g_early_fin s) v (t_blocked s).
Definition set_blocked s v := mkSt (h_status s) (h_hdrs s) (h_buf s) (h_hw s) (h_fin s) (c_chunking s) (c_rem s) (c_disc s) (c_closed s) (o_head s) (o_body s) (o_term s) (g_hdr_err s) (g_early_fin s) (g_out_err s) v.
(* stream.close() while the transport is blocked: the unsent write buffer is discarded *)
Definition drop_pending (s : st) : st := if t_blocked s then set_body (set_head s None) [] else s.

(* environment: Server / Date default header values and the SHA-1 hex digest function *)
Record env := mkEnv { e_server : bytes; e_date : bytes; e_sha : bytes -> bytes }.

Definition default_hdrs (e : env) : hdrs :=
  [(b "Server", [e_server e]); (K_CT, [b "text/html; charset=UTF-8"]); (b "Date", [e_date e])].

Definition init (e : env) (q : req) : st :=
  mkSt 200 (default_hdrs e) [] false false false None (negb (can_keep_alive q)) false None [] false false false false (blocked_prog q).

(* every function below returns (state, raised?) : an exception leaves the mutations made so far *)

(* HTTP1Connection._format_chunk, the part that can raise (the byte formatting is in [enc_chunk]) *)
Definition fmt_check (s : st) (chunk : bytes) : st * bool :=
  match c_rem s with
  | Some r =>
      let r' := (r - Z.of_nat (length chunk))%Z in
      let s := set_rem s (Some r') in
      if (r' <? 0)%Z then (set_out_err (set_closed (drop_pending s) true) true, true)   (* stream.close(); HTTPOutputError *)
      else (s, false)
  | None => (s, false)
  end.

(* 1xx, 204 and 304 responses have no body *)
Definition body_allowed (code : N) : bool :=
  negb ((code =? 204) || (code =? 304)) && ((code <? 100) || (200 <=? code)).

Definition header_line (nv : bytes * bytes) : bytes := fst nv ++ [58; 32] ++ snd nv.
Definition status_line (code : N) : bytes := b "HTTP/1.1 " ++ dec code ++ [32] ++ reason_of code.

(* HTTP1Connection.write_headers (server side), called from RequestHandler.flush with
   start_line = (empty, _status_code, _reason), headers = self._headers (mutated in place).
   The header mutations, in source order: *)
Definition wh_chunking (q : req) (code : N) (H : hdrs) : bool :=
  is_v11 q && negb (is_head q) && body_allowed code && negb (hmem K_CL H).
(* Connection: close for a 1.1 client when the connection will be closed *)
Definition wh_H1 (q : req) (disc0 : bool) (H : hdrs) : hdrs :=
  if is_v11 q && disc0 then hset K_CONN (b "close") H else H.
(* an HTTP/1.0 body without Content-Length is delimited by closing (fix 68ff8f6) *)
Definition wh_disc (q : req) (code : N) (disc0 : bool) (H1 : hdrs) : bool :=
  if is_v10 q && negb (is_head q) && body_allowed code && negb (hmem K_CL H1) then true else disc0.
(* Connection: Keep-Alive for a 1.0 client that asked for it, unless closing *)
Definition wh_H2 (q : req) (disc : bool) (H1 : hdrs) : hdrs :=
  if is_v10 q && opt_beqb (conn_lower q) (b "keep-alive") && negb disc
  then hset K_CONN (b "Keep-Alive") H1 else H1.
Definition wh_H3 (chunking : bool) (H2 : hdrs) : hdrs :=
  if chunking then hset K_TE (b "chunked") H2 else H2.
(* _expected_content_remaining; outer None = parse_int raised ValueError *)
Definition wh_rem (q : req) (code : N) (H : hdrs) : option (option Z) :=
  if is_head q || negb (body_allowed code) then Some (Some 0%Z)
  else match hget K_CL H with
       | Some v => match parse_int v with
                   | Some n => Some (Some (Z.of_N n))
                   | None => None
                   end
       | None => Some None
       end.
Definition wh_lines_ok (code : N) (H : hdrs) : bool :=
  negb (existsb (fun l => existsb is_crlf l) (status_line code :: map header_line (hall H))).

Definition write_headers (q : req) (s : st) (chunk : bytes) : st * bool :=
  let code := h_status s in
  let chunking := wh_chunking q code (h_hdrs s) in
  let s := set_chunking s chunking in
  let H1 := wh_H1 q (c_disc s) (h_hdrs s) in
  let disc := wh_disc q code (c_disc s) H1 in
  let s := set_disc s disc in
  let H := wh_H3 chunking (wh_H2 q disc H1) in
  let s := set_hdrs s H in
  match wh_rem q code H with
  | None => (set_hdr_err s true, true)                                          (* ValueError from parse_int *)
  | Some r =>
      let s := set_rem s r in
      if negb (forallb (fun nv => name_ok (fst nv)) (hall H)) then (set_hdr_err s true, true)   (* Illegal header name *)
      else if negb (wh_lines_ok code H) then (set_hdr_err s true, true)         (* CR or LF in header *)
      else if c_closed s then (s, false)                                     (* future with StreamClosedError *)
      else if nonempty chunk then
             let '(s, raised) := fmt_check s chunk in
             if raised then (s, true)
             else (set_body (set_head s (Some (code, H))) (o_body s ++ [chunk]), false)
           else (set_head s (Some (code, H)), false)
  end.

(* HTTP1Connection.write *)
Definition conn_write (s : st) (chunk : bytes) : st * bool :=
  if c_closed s then (s, false)
  else let '(s, raised) := fmt_check s chunk in
       if raised then (s, true) else (set_body s (o_body s ++ [chunk]), false).

(* HTTP1Connection.finish followed by _finish_request (which runs when the last write completes; the
   decision to close is taken here, in finish, so the completion order cannot change it; a close by
   _finish_request happens after the write buffer drained; the terminator is the bytes 0 CR LF CR LF).  [rf] = _read_finished at this moment. *)
Definition conn_finish (rf : bool) (s : st) : st * bool :=
  if (match c_rem s with Some r => negb (r =? 0)%Z | None => false end) && negb (c_closed s)
  then (set_out_err (set_closed (drop_pending s) true) true, true)   (* stream.close(); HTTPOutputError *)
  else
    let s := if c_chunking s && negb (c_closed s) then set_term s true else s in
    let s := if rf then s else set_early_fin (set_disc s true) true in
    let s := if c_disc s then set_closed s true else s in
    (s, false).

(* RequestHandler.flush *)
Definition flush (q : req) (s : st) : st * bool :=
  let chunk := concat (h_buf s) in
  let s := set_buf s [] in
  if negb (h_hw s) then
    let s := set_hw s true in
    write_headers q s (if is_head q then [] else chunk)
  else if is_head q then (s, false)
  else conn_write s chunk.

Definition total_len (l : list bytes) : N := blen (concat l).

Definition clear_repr (h : hdrs) : hdrs :=
  hdel K_CT (hdel (b "Content-Language") (hdel (b "Content-Encoding") h)).

(* RequestHandler.finish() (no chunk argument) *)
Definition finish (e : env) (q : req) (rf : bool) (s : st) : st * bool :=
  if h_fin s then (s, true)                                (* RuntimeError: finish() called twice *)
  else
    let pre : st * bool :=
      if h_hw s then (s, false)
      else
        let s :=
          if (h_status s =? 200) && (match q_meth q with GET | HEAD => true | POST => false end)
             && negb (hmem K_ETAG (h_hdrs s))
          then
            let etag := [34] ++ e_sha e (concat (h_buf s)) ++ [34] in
            let s := set_hdrs s (hset K_ETAG etag (h_hdrs s)) in
            if etag_matches (match hget K_ETAG (h_hdrs s) with Some v => v | None => [] end)
                            (match q_inm q with Some v => v | None => [] end)
            then set_status (set_buf s []) 304
            else s
          else s in
        if negb (body_allowed (h_status s)) then
          match h_buf s with
          | [] => (set_hdrs s (clear_repr (h_hdrs s)), false)
          | _ :: _ => (s, true)                             (* AssertionError: Cannot send body with ... *)
          end
        else if hmem K_CL (h_hdrs s) then (s, false)
        else (set_hdrs s (hset K_CL (dec (total_len (h_buf s))) (h_hdrs s)), false) in
    let '(s, raised) := pre in
    if raised then (s, true)
    else
      let '(s, raised) := flush q s in
      if raised then (s, true)
      else
        let '(s, raised) := conn_finish rf s in
        if raised then (s, true)
        else (set_fin s true, false).

Definition error_page : bytes :=
  b "<html><title>500: Internal Server Error</title><body>500: Internal Server Error</body></html>".

(* RequestHandler._handle_request_exception -> send_error(500) for an exception that is not an HTTPError *)
Definition on_exc (e : env) (q : req) (rf : bool) (s : st) : st :=
  if h_fin s then s
  else if h_hw s then fst (finish e q rf s)                 (* Cannot send error response after headers written *)
  else
    (* clear(); set_status(500); write_error -> self.finish(page) *)
    let s := set_status (set_buf (set_hdrs s (default_hdrs e)) []) 500 in
    let s := set_buf s (h_buf s ++ [error_page]) in
    let '(s, _) := finish e q rf s in
    if h_fin s then s else fst (finish e q rf s).

(* RequestHandler.set_header's _convert_header_value for a str argument *)
Definition conv_value (v : bytes) : option bytes :=
  if forallb is_value_char v then Some v else None.        (* ValueError: Unsafe header value *)

Definition do_op (e : env) (q : req) (rf : bool) (o : op) (s : st) : st * bool :=
  match o with
  | Status c => (set_status s c, false)
  | SetH n v =>
      match conv_value v with
      | None => (s, true)
      | Some v' => (set_hdrs s (hset (norm n) v' (h_hdrs s)), false)
      end
  | AddH n v =>
      match conv_value v with
      | None => (s, true)
      | Some v' =>
          if name_ok n && field_value_ok v'                 (* HTTPHeaders.add: HTTPInputError *)
          then (set_hdrs s (hadd (norm n) v' (h_hdrs s)), false)
          else (s, true)
      end
  | ClearH n => (set_hdrs s (hdel (norm n) (h_hdrs s)), false)
  | Write d => if h_fin s then (s, true) else (set_buf s (h_buf s ++ [d]), false)
  | Flush => flush q s
  | Finish => finish e q rf s
  end.

(* RequestHandler._execute running the program as the body of get/head/post (or of prepare()
   when q_early): the first exception aborts the program; a program that does not finish is
   finished automatically, which in the early case happens after the body was read. *)
Fixpoint exec (e : env) (q : req) (ops : list op) (s : st) : st :=
  match ops with
  | [] =>
      if h_fin s then s
      else let s := set_blocked s (blocked_auto q) in
           let '(s', raised) := finish e q true s in
           if raised then on_exc e q true s' else s'
  | o :: t =>
      if h_fin s then s
      else let rf := negb (q_early q) in
           let '(s', raised) := do_op e q rf o s in
           if raised then on_exc e q rf s' else exec e q t s'
  end.

Definition run (e : env) (q : req) (p : list op) : st := exec e q p (init e q).

(* ---------- bytes on the wire ---------- *)
Definition enc_chunk (chunking : bool) (chunk : bytes) : bytes :=
  if chunking && nonempty chunk then hex (blen chunk) ++ CRLF ++ chunk ++ CRLF else chunk.
Definition render_head (code : N) (hl : list (bytes * bytes)) : bytes :=
  status_line code ++ concat (map (fun nv => CRLF ++ header_line nv) hl) ++ CRLF ++ CRLF.
Definition wire_of (s : st) : bytes :=
  (match o_head s with Some (code, H) => render_head code (hall H) | None => [] end)
  ++ concat (map (enc_chunk (c_chunking s)) (o_body s))
  ++ (if o_term s then b "0" ++ CRLF ++ CRLF else []).

(* the handler program never sets/adds a Connection header itself *)
Definition sets_name (k : bytes) (o : op) : bool :=
  match o with SetH n _ | AddH n _ => beqb (norm n) k | _ => false end.
Definition no_handler_connection (p : list op) : bool := negb (existsb (sets_name K_CONN) p).
