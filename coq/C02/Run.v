(* C02 — executable entry points used by the correspondence check:
   run_case (model observable) and check_case (the property as a boolean checker applied to
   the IMPLEMENTATION's observable; it uses the strict client parser of Client.v and the
   reference semantics of Spec.v, not the wire model). *)
From Coq Require Import String Ascii.
From Coq Require Import NArith ZArith Bool Arith List.
Import ListNotations.
From TV Require Import Lib.Obs C02.Model C02.Client.
Local Open Scope N_scope.

(* case environment: Server value, Date value, table of SHA-1 hex digests supplied by the harness *)
Definition cenv := (bytes * bytes * list (bytes * bytes))%type.
Definition sha_lookup (tbl : list (bytes * bytes)) (x : bytes) : bytes :=
  match find (fun kv => beqb (fst kv) x) tbl with
  | Some kv => snd kv
  | None => b "MISSING-SHA1-ORACLE"      (* shows up as a correspondence mismatch *)
  end.
Definition env_of (c : cenv) : env :=
  let '(srv, date, tbl) := c in mkEnv srv date (sha_lookup tbl).

Definition input := (cenv * req * list op)%type.

Definition run_case (i : input) : obs :=
  let '(c, q, p) := i in
  let s := run (env_of c) q p in
  OList [OBytes (wire_of s); OBool (c_closed s)].

Definition check_case (i : input) (o : obs) : bool :=
  let '(c, q, p) := i in
  match o with
  | OList [OBytes w; OBool closed] => check_response (env_of c) q p w closed
  | _ => false
  end.

(* ---------- the output-transform dimension (compress_response=True, toy gzip codec of C29) ---------- *)
From TV Require Import C02.Compress.
From TV Require C29.Model.

(* Some ae: the application has compress_response=True and the request's Accept-Encoding is ae *)
Definition input2 := (input * option (option bytes))%type.

Definition proj (r : cres) : obs :=
  match r with
  | CNotInDomain => OTag "NotInDomain"
  | CAssert => OTag "AssertionError"
  | CRaised => OTag "Raised"
  | CDone s =>
      match o_head s with
      | None => OTag "NoHeaders"
      | Some (code, H) =>
          OList [OInt (Z.of_N code);
                 OList (map OBytes (field_values K_CL H));
                 OList (map OBytes (field_values (b "Content-Encoding") H));
                 OList (map OBytes (field_values K_TE H));
                 OList (map OBytes (field_values (b "Vary") H));
                 OBytes (concat (o_body s)); OBool (c_closed s)]
      end
  end.

Definition as_get (q : req) : req :=
  mkReq GET (q_ver q) (q_conn q) (q_inm q) (q_body q) (q_nka q) (q_early q) (q_wmode q).

Definition run_case2 (i : input2) : obs :=
  let '((c, q, p), comp) := i in
  match comp with
  | None => run_case (c, q, p)
  | Some ae =>
      let e := env_of c in
      OList [proj (crun C29.Model.toy e q ae p); proj (crun C29.Model.toy e (as_get q) ae p)]
  end.

(* the property clause of this dimension, on the implementation's two projections (request as given,
   and the same request as GET): a HEAD response carries the status, Content-Length, Content-Encoding
   and Vary of the GET response and no body byte; the GET body has the announced length *)
Definition check_pair (q : req) (pm pg : obs) : bool :=
  match pm, pg with
  | OList [OInt sm; OList clm; OList cem; OList tem; OList vm; OBytes bm; OBool _],
    OList [OInt sg; OList clg; OList ceg; OList teg; OList vg; OBytes bg; OBool _] =>
      (if is_head q
       then Z.eqb sm sg && obs_eqb (OList clm) (OList clg) && obs_eqb (OList cem) (OList ceg)
            && obs_eqb (OList vm) (OList vg) && (match bm with [] => true | _ => false end)
            && (match tem with [] => true | _ => false end)
       else obs_eqb pm pg)
      && forallb (fun v => obs_eqb v (OBytes (dec (blen bg)))) clg
      && (match clg, teg with _ :: _, _ :: _ => false | _, _ => true end)
  | OTag t1, OTag t2 => String.eqb t1 t2 && String.eqb t1 "AssertionError"
  | _, _ => false
  end.

Definition check_case2 (i : input2) (o : obs) : bool :=
  let '((c, q, p), comp) := i in
  match comp with
  | None => check_case (c, q, p) o
  | Some _ => match o with OList [pm; pg] => check_pair q pm pg | _ => false end
  end.
