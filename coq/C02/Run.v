(* C02 — executable entry points used by the correspondence check:
   run_case (model observable) and check_case (the property as a boolean checker applied to
   the IMPLEMENTATION's observable; it uses the strict client parser of Client.v and the
   reference semantics of Spec.v, not the wire model). *)
From Coq Require Import String Ascii.
From Coq Require Import NArith ZArith Bool Arith List.
Import ListNotations.
From TV Require Import Lib.Obs C02.Model C02.Client.
Local Open Scope N_scope.

(* case environment: Server value, Date value, table of SHA-1 hex digests supplied by the harness *)
Definition cenv := (bytes * bytes * list (bytes * bytes))%type.
Definition sha_lookup (tbl : list (bytes * bytes)) (x : bytes) : bytes :=
  match find (fun kv => beqb (fst kv) x) tbl with
  | Some kv => snd kv
  | None => b "MISSING-SHA1-ORACLE"      (* shows up as a correspondence mismatch *)
  end.
Definition env_of (c : cenv) : env :=
  let '(srv, date, tbl) := c in mkEnv srv date (sha_lookup tbl).

Definition input := (cenv * req * list op)%type.

Definition run_case (i : input) : obs :=
  let '(c, q, p) := i in
  let s := run (env_of c) q p in
  OList [OBytes (wire_of s); OBool (c_closed s)].

Definition check_case (i : input) (o : obs) : bool :=
  let '(c, q, p) := i in
  match o with
  | OList [OBytes w; OBool closed] => check_response (env_of c) q p w closed
  | _ => false
  end.
