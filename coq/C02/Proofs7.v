(* C02 — content, part 3: the run of a plain program agrees with the reference semantics. *)
From Coq Require Import String Ascii.
From Coq Require Import NArith ZArith Bool Arith List Lia.
Import ListNotations.
From TV Require Import C02.Model C02.Client C02.Proofs1 C02.Proofs2 C02.Proofs3 C02.Proofs5 C02.Proofs6.
Local Open Scope N_scope.

Section Content3.
Variable e : env.
Variable q : req.

(* the reference semantics with accumulators: status, headers and buffer so far *)
Definition gspec (sc : N) (H : hdrs) (buf : list bytes) (rest : list op) : claim :=
  let live := until_finish rest in
  let ws := buf ++ writes live in
  if has_flush live then
    let pre := until_flush live in
    let code := last_status pre sc in
    let hh := hall (apply_hdr_ops pre H) in
    if is_head q then Expect code [] hh
    else if body_allowed code then Expect code (concat ws) hh
    else match ws with [] => Expect code [] hh | _ => NoClaim end
  else
    let code := last_status live sc in
    let hh := apply_hdr_ops live H in
    if negb (body_allowed code) then
      match ws with
      | [] => Expect code [] (hall (clear_repr hh))
      | _ => Expect 500 error_page (hall (default_hdrs e))
      end
    else if (code =? 200) && (match q_meth q with GET | HEAD => true | POST => false end)
            && etag_matches ([34] ++ e_sha e (concat ws) ++ [34])
                            (match q_inm q with Some v => v | None => [] end)
    then Expect 304 [] (hall (clear_repr hh))
    else Expect code (concat ws) (hall hh).

Lemma spec_gspec : forall p, forallb plain_op p = true -> spec e q p = gspec 200 (default_hdrs e) [] p.
Proof. intros p PL. unfold spec. rewrite PL. reflexivity. Qed.

Definition Claim (c : claim) (s' : st) : Prop :=
  match c with NoClaim => True | Expect code gbody _ => g_hdr_err s' = false -> Res q code gbody s' end.

(* one simple plain operation on a state in which nothing was sent *)
Definition upd (o : op) (sc : N) (H : hdrs) (buf : list bytes) : N * hdrs * list bytes :=
  match o with
  | Status c => (c, H, buf)
  | SetH n v => (sc, hset (norm n) v H, buf)
  | AddH n v => (sc, hadd (norm n) v H, buf)
  | ClearH n => (sc, hdel (norm n) H, buf)
  | Write d => (sc, H, buf ++ [d])
  | _ => (sc, H, buf)
  end.

Lemma do_op_A_val : forall rf o sc H buf blk,
  simple_op o = true -> plain_op o = true ->
  do_op e q rf o (mkA q sc H buf blk) =
  (let '(sc', H', buf') := upd o sc H buf in mkA q sc' H' buf' blk, false).
Proof.
  intros rf o sc H buf blk SO PL. destruct o; simpl in SO; try discriminate; simpl in PL; simpl; auto.
  - apply andb_true_iff in PL as [_ V]. unfold conv_value. rewrite V. reflexivity.
  - apply andb_true_iff in PL as [PL FV]. apply andb_true_iff in PL as [PL V].
    apply andb_true_iff in PL as [NO _]. unfold conv_value. rewrite V, NO, FV. reflexivity.
Qed.

Lemma framing_name_other : forall n k,
  framing_name n = false -> (k = K_CL \/ k = K_ETAG) -> beqb k (norm n) = false.
Proof.
  intros n k F [-> | ->]; unfold framing_name in F; rewrite beqb_sym;
    repeat (apply orb_false_iff in F as [F ?]); auto.
Qed.

Lemma upd_keeps : forall o sc H buf k,
  simple_op o = true -> plain_op o = true -> (k = K_CL \/ k = K_ETAG) -> hmem k H = false ->
  hmem k (snd (fst (upd o sc H buf))) = false.
Proof.
  intros o sc H buf k SO PL K M. destruct o; simpl in SO; try discriminate; simpl in PL; simpl; auto.
  - apply andb_true_iff in PL as [PL _]. apply andb_true_iff in PL as [_ F]. apply negb_true_iff in F.
    rewrite hmem_hset_other; auto. apply framing_name_other; auto.
  - apply andb_true_iff in PL as [PL _]. apply andb_true_iff in PL as [PL _].
    apply andb_true_iff in PL as [_ F]. apply negb_true_iff in F.
    rewrite hmem_hadd_other; auto. apply framing_name_other; auto.
  - apply hmem_hdel_false; auto.
Qed.

Lemma gspec_step : forall o sc H buf t,
  simple_op o = true ->
  gspec sc H buf (o :: t) = (let '(sc', H', buf') := upd o sc H buf in gspec sc' H' buf' t).
Proof.
  intros o sc H buf t SO. destruct o; simpl in SO; try discriminate; unfold gspec; simpl; auto.
  rewrite <- app_assoc. reflexivity.
Qed.

Lemma ba_false_not_200 : forall sc, body_allowed sc = false -> (sc =? 200) = false.
Proof.
  intros sc B. destruct (sc =? 200) eqn:E; auto. apply N.eqb_eq in E. subst. discriminate.
Qed.

Lemma on_exc_herr : forall rf s, g_hdr_err s = true -> g_hdr_err (on_exc e q rf s) = true.
Proof.
  intros rf s E. unfold on_exc.
  destruct (h_fin s); [exact E|].
  destruct (h_hw s); [apply (herr_mono_finish e q false); exact E|].
  set (sR := set_buf _ _).
  assert (ER : g_hdr_err sR = true) by (subst sR; destruct s; exact E).
  pose proof (herr_mono_finish e q false rf sR ER) as E1.
  destruct (finish e q rf sR) as [s1 r1]. simpl in E1.
  destruct (h_fin s1); [exact E1|apply (herr_mono_finish e q false); exact E1].
Qed.

(* the 500 page sent when an operation is rejected before anything was flushed *)
Lemma on_exc_A_page : forall rf sc H buf blk,
  g_hdr_err (on_exc e q rf (mkA q sc H buf blk)) = false ->
  Res q 500 error_page (on_exc e q rf (mkA q sc H buf blk)).
Proof.
  intros rf sc H buf blk HE. unfold on_exc in *. simpl in *.
  change (set_buf _ _) with (mkA q 500 (default_hdrs e) [error_page] blk) in *.
  destruct (finish e q rf (mkA q 500 (default_hdrs e) [error_page] blk)) as [s1 r1] eqn:F.
  assert (HE1 : g_hdr_err s1 = false).
  { destruct (g_hdr_err s1) eqn:G; auto. exfalso.
    destruct (h_fin s1); [congruence|]. rewrite (herr_mono_finish e q false rf s1 G) in HE. discriminate. }
  pose proof (finish_A_buffered e q rf 500 (default_hdrs e) [error_page] blk s1 r1 eq_refl eq_refl F HE1) as R.
  simpl in R. destruct R as (_ & R).
  assert (FIN : h_fin s1 = true) by (destruct R as (E & _); exact E).
  rewrite FIN. exact R.
Qed.

Lemma finish_false_fin : forall rf s s', finish e q rf s = (s', false) -> h_fin s' = true.
Proof.
  intros rf s s' F. rewrite finish_unfold in F.
  destruct (h_fin s); [discriminate|].
  destruct (if h_hw s then (s, false) else finish_pre e q rf s) as [s1 [|]]; [discriminate|].
  destruct (flush q s1) as [s2 [|]]; [discriminate|].
  destruct (conn_finish rf s2) as [s3 [|]]; [discriminate|].
  injection F as <-. destruct s3; reflexivity.
Qed.

(* finish() of a plain program that never flushed *)
Lemma finish_A_claim : forall rf sc H buf blk,
  hmem K_CL H = false -> hmem K_ETAG H = false ->
  let c :=
    if negb (body_allowed sc) then
      match buf with
      | [] => Expect sc [] (hall (clear_repr H))
      | _ => Expect 500 error_page (hall (default_hdrs e))
      end
    else if (sc =? 200) && (match q_meth q with GET | HEAD => true | POST => false end)
            && etag_matches ([34] ++ e_sha e (concat buf) ++ [34])
                            (match q_inm q with Some v => v | None => [] end)
    then Expect 304 [] (hall (clear_repr H))
    else Expect sc (concat buf) (hall H) in
  forall s' rr, finish e q rf (mkA q sc H buf blk) = (s', rr) ->
    Claim c (if rr then on_exc e q rf s' else s').
Proof.
  intros rf sc H buf blk CL ET c s' rr F.
  assert (HEs : g_hdr_err (if rr then on_exc e q rf s' else s') = false -> g_hdr_err s' = false).
  { intros E. destruct (g_hdr_err s') eqn:G; auto. destruct rr; [|congruence].
    rewrite (on_exc_herr rf s' G) in E. discriminate. }
  subst c.
  destruct (body_allowed sc) eqn:BA; cbn [negb].
  - match goal with
    | |- Claim (if ?c then _ else _) _ =>
        assert (CE : c = (sc =? 200) && meth_etag q && etag_matches (etag_of e buf) (inm q)) by reflexivity;
        destruct c
    end; intros HE;
      pose proof (finish_A_buffered e q rf sc H buf blk s' rr CL ET F (HEs HE)) as R;
      rewrite <- CE, ?BA in R; cbn [negb] in R; destruct R as (-> & R); exact R.
  - assert (C : (sc =? 200) && meth_etag q && etag_matches (etag_of e buf) (inm q) = false).
    { rewrite (ba_false_not_200 sc BA). reflexivity. }
    destruct buf as [|d buf']; intros HE;
      pose proof (finish_A_buffered e q rf sc H _ blk s' rr CL ET F (HEs HE)) as R;
      rewrite C, BA in R; cbn [negb] in R.
    + destruct R as (-> & R); exact R.
    + destruct R as (-> & ->). apply on_exc_A_page. exact HE.
Qed.

Lemma wh_herr_raise : forall s chunk s' rr,
  write_headers q s chunk = (s', rr) -> g_hdr_err s = false -> g_hdr_err s' = true -> rr = true.
Proof.
  intros s chunk s' rr W E0 E1.
  destruct s as [status H0 buf hw fin chunking rem disc closed head body term herr efin oerr blkd].
  simpl in E0. subst herr. unfold write_headers, fmt_check, drop_pending in W; simpl in W.
  repeat match type of W with
         | context [if ?c then _ else _] => destruct c; simpl in W
         | context [match ?c with Some _ => _ | None => _ end] => destruct c; simpl in W
         end; injection W as <- <-; auto; simpl in E1; discriminate.
Qed.

(* the first flush of a plain program, and everything after it *)
Lemma flush_A_claim : forall rf sc H buf blk t,
  hmem K_CL H = false -> forallb plain_op t = true ->
  let ws := buf ++ writes (until_finish t) in
  let c := if is_head q then Expect sc [] (hall H)
           else if body_allowed sc then Expect sc (concat ws) (hall H)
           else match ws with [] => Expect sc [] (hall H) | _ => NoClaim end in
  forall s1 r1, flush q (mkA q sc H buf blk) = (s1, r1) ->
    Claim c (if r1 then on_exc e q rf s1 else exec e q t s1).
Proof.
  intros rf sc H buf blk t CL PL ws c s1 r1 F.
  unfold flush, mkA, set_buf, set_hw in F. simpl in F.
  assert (GN : hget K_CL H = None) by (apply hget_none_hmem; exact CL).
  assert (HE1 : g_hdr_err (if r1 then on_exc e q rf s1 else exec e q t s1) = false -> g_hdr_err s1 = false).
  { intros E. destruct (g_hdr_err s1) eqn:G; auto.
    rewrite (wh_herr_raise _ _ _ _ F eq_refl G) in E. rewrite (on_exc_herr rf s1 G) in E. discriminate. }
  assert (FINISH : forall r0 chunk,
            wh_rem q sc H = Some r0 ->
            (match r0 with Some z => (Z.of_nat (length chunk) <= z)%Z | None => True end) ->
            write_headers q (mkSt sc H [] true false false None (disc0 q) false None [] false false false false blk) chunk = (s1, r1) ->
            (r0 = None \/ (r0 = Some 0%Z /\ (is_head q = true \/ chunk = [] /\ writes (until_finish t) = []))) ->
            g_hdr_err (if r1 then on_exc e q rf s1 else exec e q t s1) = false ->
            let f := if r1 then on_exc e q rf s1 else exec e q t s1 in
            h_fin f = true /\ g_out_err f = false /\ o_head f = Some (sc, whH q sc H) /\
            concat (o_body f) = chunk ++ (if is_head q then [] else concat (writes (until_finish t)))).
  { intros r0 chunk REM FIT W RC HE.
    destruct (wh_ok q sc H [] blk chunk r0 s1 r1 REM FIT W (HE1 HE)) as (-> & ->).
    cbv zeta. cbv iota.
    match goal with |- h_fin (exec e q t ?s) = true /\ _ => set (sB := s) end.
    assert (B : InB q sc (whH q sc H) sB).
    { unfold InB, sB; simpl. repeat split; auto.
      destruct RC as [->|(-> & RC)].
      - left. destruct (nonempty chunk); reflexivity.
      - right. destruct RC as [HQ|(-> & _)]; simpl; auto. split; auto.
        destruct (nonempty chunk) eqn:NE; simpl; [f_equal|reflexivity].
        destruct chunk; [discriminate|]. simpl in FIT. lia. }
    assert (NW : c_rem sB = None \/ is_head q = true \/ writes (until_finish t) = []).
    { destruct RC as [->|(-> & [HQ|(_ & W0)])]; auto. left. unfold sB; simpl. destruct (nonempty chunk); reflexivity. }
    assert (OB : out q sB = chunk).
    { unfold out, sB; simpl. destruct (is_head q); rewrite app_nil_r;
        (destruct chunk; simpl; [reflexivity|rewrite app_nil_r; reflexivity]). }
    destruct (exec_B_plain e q t sc (whH q sc H) sB PL B NW) as (A1 & A2 & A3 & A4 & A5).
    rewrite OB in A5. auto. }
  assert (NCL : forall H', hmem K_CL (whH q sc H) = true -> hget K_CL (whH q sc H) = Some H').
  { intros H' E. rewrite hmem_cl_whH in E. congruence. }
  subst c. unfold wh_rem in FINISH. rewrite GN in FINISH.
  destruct (is_head q) eqn:HQ; simpl in FINISH.
  - (* HEAD *)
    intros HE.
    destruct (FINISH (Some 0%Z) [] eq_refl) as (A1 & A2 & A3 & A4); auto; [simpl; lia|].
    split; auto. split; auto. exists (whH q sc H). split; auto. split; [|apply NCL].
    rewrite A4. unfold nobody. rewrite HQ. reflexivity.
  - destruct (body_allowed sc) eqn:BA; simpl in FINISH.
    + intros HE.
      destruct (FINISH None (concat buf) eq_refl) as (A1 & A2 & A3 & A4); auto.
      split; auto. split; auto. exists (whH q sc H). split; auto. split; [|apply NCL].
      rewrite A4. unfold nobody. rewrite HQ, BA. simpl. unfold ws. rewrite concat_app. reflexivity.
    + destruct ws as [|w0 ws'] eqn:WS; [|exact I].
      unfold ws in WS. apply app_eq_nil in WS as [-> WT].
      intros HE.
      destruct (FINISH (Some 0%Z) [] eq_refl) as (A1 & A2 & A3 & A4); auto; [simpl; lia|].
      split; auto. split; auto. exists (whH q sc H). split; auto. split; [|apply NCL].
      rewrite A4, WT. unfold nobody. rewrite HQ, BA. reflexivity.
Qed.

(* a plain program from the initial state *)
Lemma exec_A_plain : forall rest sc H buf blk,
  forallb plain_op rest = true -> hmem K_CL H = false -> hmem K_ETAG H = false ->
  Claim (gspec sc H buf rest) (exec e q rest (mkA q sc H buf blk)).
Proof.
  induction rest as [|o t IH]; intros sc H buf blk PL CL ET.
  - cbn [exec]. change (h_fin (mkA q sc H buf blk)) with false. cbv iota.
    change (set_blocked (mkA q sc H buf blk) (blocked_auto q)) with (mkA q sc H buf (blocked_auto q)).
    destruct (finish e q true (mkA q sc H buf (blocked_auto q))) as [s' rr] eqn:F.
    pose proof (finish_A_claim true sc H buf (blocked_auto q) CL ET s' rr F) as C.
    unfold gspec. simpl. rewrite app_nil_r. exact C.
  - simpl in PL. apply andb_true_iff in PL as [PLo PLt].
    cbn [exec]. change (h_fin (mkA q sc H buf blk)) with false. cbv iota.
    destruct (simple_op o) eqn:SO.
    + rewrite (do_op_A_val (negb (q_early q)) o sc H buf blk SO PLo).
      rewrite (gspec_step o sc H buf t SO).
      pose proof (upd_keeps o sc H buf K_CL SO PLo (or_introl eq_refl) CL) as CL'.
      pose proof (upd_keeps o sc H buf K_ETAG SO PLo (or_intror eq_refl) ET) as ET'.
      destruct (upd o sc H buf) as [[sc' H'] buf']. simpl in CL', ET'.
      apply IH; auto.
    + destruct o; simpl in SO; try discriminate; cbn [do_op].
      * (* Flush *)
        destruct (flush q (mkA q sc H buf blk)) as [s1 r1] eqn:F.
        pose proof (flush_A_claim (negb (q_early q)) sc H buf blk t CL PLt s1 r1 F) as C.
        unfold gspec. simpl. exact C.
      * (* Finish *)
        destruct (finish e q (negb (q_early q)) (mkA q sc H buf blk)) as [s' rr] eqn:F.
        pose proof (finish_A_claim (negb (q_early q)) sc H buf blk CL ET s' rr F) as C.
        unfold gspec. simpl. rewrite app_nil_r.
        destruct rr; [exact C|].
        rewrite exec_fin; [exact C|]. apply (finish_false_fin _ _ _ F).
Qed.

Lemma mkA_init : init e q = mkA q 200 (default_hdrs e) [] (blocked_prog q).
Proof. reflexivity. Qed.

Theorem content : forall p code gbody hh,
  spec e q p = Expect code gbody hh -> g_hdr_err (run e q p) = false ->
  Res q code gbody (run e q p).
Proof.
  intros p code gbody hh SP HE.
  assert (PL : forallb plain_op p = true).
  { unfold spec in SP. destruct (forallb plain_op p); [reflexivity|discriminate]. }
  rewrite (spec_gspec p PL) in SP.
  pose proof (exec_A_plain p 200 (default_hdrs e) [] (blocked_prog q) PL eq_refl eq_refl) as C.
  rewrite SP in C. unfold run. rewrite mkA_init. apply C. exact HE.
Qed.

End Content3.
