(* C02 — the framing statement derived from the final-phase characterisation. *)
From Coq Require Import String Ascii.
From Coq Require Import NArith ZArith Bool Arith List Lia.
Import ListNotations.
From TV Require Import C02.Model C02.Proofs1 C02.Proofs2 C02.Proofs3.
Local Open Scope N_scope.

Definition body_len (s : st) : nat := length (concat (o_body s)).

(* what a client can rely on, in terms of what was handed to the stream *)
Definition Framed (q : req) (s : st) : Prop :=
  match o_head s with
  | None => o_body s = [] /\ o_term s = false /\ c_closed s = true
  | Some (code, H) =>
      c_chunking s = wh_chunking q code H /\
      (nobody q code = true -> concat (o_body s) = [] /\ o_term s = false) /\
      (nobody q code = false ->
         (c_chunking s = true ->
            hget K_TE H = Some (b "chunked") /\ hmem K_CL H = false /\
            (o_term s = true \/ c_closed s = true)) /\
         (c_chunking s = false ->
            o_term s = false /\
            match hget K_CL H with
            | Some v => exists n, parse_int v = Some n /\ (body_len s <= N.to_nat n)%nat /\
                                  (body_len s = N.to_nat n \/ c_closed s = true)
            | None => c_closed s = true
            end))
  end.

Lemma nobody_no_chunking : forall q code H, nobody q code = true -> wh_chunking q code H = false.
Proof.
  intros q code H. unfold nobody, wh_chunking.
  destruct (is_v11 q), (is_head q), (body_allowed code); simpl; auto; discriminate.
Qed.

Lemma wh_rem_nobody : forall q code H, nobody q code = true -> wh_rem q code H = Some (Some 0%Z).
Proof. intros q code H E. unfold wh_rem. unfold nobody in E. rewrite E. reflexivity. Qed.

Lemma wh_rem_body : forall q code H r0, nobody q code = false -> wh_rem q code H = Some r0 ->
  match hget K_CL H with
  | Some v => exists n, parse_int v = Some n /\ r0 = Some (Z.of_N n)
  | None => r0 = None
  end.
Proof.
  intros q code H r0 E. unfold wh_rem. unfold nobody in E. rewrite E.
  destruct (hget K_CL H) as [v|].
  - destruct (parse_int v) as [n|]; [|discriminate]. intros W; injection W as <-. eauto.
  - intros W; injection W as <-. reflexivity.
Qed.

Lemma blenZ_zero : forall l, blenZ l = 0%Z -> concat l = [].
Proof. intros l E. unfold blenZ in E. destruct (concat l); auto. simpl in E. lia. Qed.

Lemma final_framed : forall q nc s, g_hdr_err s = false -> Final q nc s -> Framed q s.
Proof.
  intros q nc s HE [D|[X|E]]; [| |congruence].
  - (* complete *)
    destruct D as (_ & _ & _ & code & H & r0 & HD & (CH & TE & _) & REM & LEN & TERM & CLOSED).
    unfold Framed. rewrite HD. split; [exact CH|]. split.
    + intros NB. rewrite (wh_rem_nobody _ _ H NB) in REM. injection REM as <-.
      split; [apply blenZ_zero; exact LEN|].
      rewrite TERM, CH. apply nobody_no_chunking; exact NB.
    + intros NB. pose proof (wh_rem_body _ _ _ _ NB REM) as RB. split.
      * intros C. split; [auto|]. split.
        -- rewrite CH in C. unfold wh_chunking in C.
           apply andb_true_iff in C as [_ C]. apply negb_true_iff in C. exact C.
        -- left. congruence.
      * intros C. split; [congruence|].
        destruct (hget K_CL H) as [v|] eqn:G.
        -- destruct RB as (n & P & ->). exists n. split; [exact P|].
           unfold body_len. unfold blenZ in LEN. split; [lia|left; lia].
        -- rewrite CLOSED. apply hget_none_hmem in G.
           rewrite CH in C. unfold wh_chunking in C. unfold nobody in NB.
           unfold discB, nobody. rewrite G. rewrite G in C. rewrite is_v10_v11.
           destruct (is_v11 q), (is_head q), (body_allowed code); simpl in *; try discriminate;
             rewrite ?orb_true_r; auto.
  - (* aborted by the Content-Length guard *)
    destruct X as (_ & CLOSED & TERM & _ & _ & HX).
    unfold Framed. destruct (o_head s) as [[code H]|].
    + destruct HX as ((CH & TE & _) & r0 & REM & LEN). split; [exact CH|]. split.
      * intros NB. rewrite (wh_rem_nobody _ _ H NB) in REM. injection REM as <-.
        split; [|exact TERM]. apply blenZ_zero. pose proof (blenZ_nonneg (o_body s)). lia.
      * intros NB. pose proof (wh_rem_body _ _ _ _ NB REM) as RB. split.
        -- intros C. split; [auto|]. split; [|right; exact CLOSED].
           rewrite CH in C. unfold wh_chunking in C.
           apply andb_true_iff in C as [_ C]. apply negb_true_iff in C. exact C.
        -- intros C. split; [exact TERM|].
           destruct (hget K_CL H) as [v|]; [|exact CLOSED].
           destruct RB as (n & P & ->). exists n. split; [exact P|].
           unfold body_len. unfold blenZ in LEN. split; [lia|right; exact CLOSED].
    + auto.
Qed.

Theorem framing : forall e q p,
  g_hdr_err (run e q p) = false -> Framed q (run e q p).
Proof.
  intros e q p HE. apply (final_framed q false); [exact HE|].
  apply run_final. discriminate.
Qed.

(* the known finding: a header-serialisation error leaves garbage / nothing on an open connection *)
Definition env0 : env := mkEnv (b "S") (b "D") (fun _ => []).
Definition q_get11 : req := mkReq GET V11 None None NoBody false false WSync.

Lemma hdr_err_witness :
  let s := run env0 q_get11 [SetH (b "Bad Name") (b "v"); Flush] in
  g_hdr_err s = true /\ c_closed s = false /\ o_head s = None /\ wire_of s = b "0" ++ CRLF ++ CRLF.
Proof. vm_compute. repeat split. Qed.

Lemma hdr_err_witness_cl :
  let s := run env0 q_get11 [SetH (b "Content-Length") (b "abc"); Write (b "x")] in
  g_hdr_err s = true /\ c_closed s = false /\ wire_of s = [].
Proof. vm_compute. repeat split. Qed.

(* the hypothesis of [framing] is satisfiable, non-trivially *)
Lemma framing_example :
  g_hdr_err (run env0 q_get11 [Write (b "x"); Flush; Write (b "yz")]) = false.
Proof. vm_compute. reflexivity. Qed.
