(* C02 — content, part 2: induction over plain programs. *)
From Coq Require Import String Ascii.
From Coq Require Import NArith ZArith Bool Arith List Lia.
Import ListNotations.
From TV Require Import C02.Model C02.Client C02.Proofs1 C02.Proofs2 C02.Proofs3 C02.Proofs5.
Local Open Scope N_scope.

Section Content2.
Variable e : env.
Variable q : req.

(* header block (code, H') is out; no error so far; the Content-Length guard cannot trip *)
Definition InB (code : N) (H' : hdrs) (s : st) : Prop :=
  h_hw s = true /\ h_fin s = false /\ c_closed s = false /\ g_hdr_err s = false /\
  g_out_err s = false /\ o_head s = Some (code, H') /\
  (c_rem s = None \/ (c_rem s = Some 0%Z /\ (is_head q = true \/ concat (h_buf s) = []))).

(* bytes that have reached or will reach the stream from what was written so far *)
Definition out (s : st) : bytes :=
  concat (o_body s) ++ (if is_head q then [] else concat (h_buf s)).

Lemma flush_B_val : forall code H' s,
  InB code H' s ->
  exists s', flush q s = (s', false) /\ InB code H' s' /\ h_buf s' = [] /\
             concat (o_body s') = out s /\ (c_rem s = None -> c_rem s' = None).
Proof.
  intros code H' s (HW & FIN & CL & HE & OE & HD & R).
  destruct s as [status H0 buf hw fin chunking rem disc closed head body term herr efin oerr blkd].
  simpl in *. subst. unfold flush, out; simpl.
  destruct (is_head q) eqn:HQ.
  - eexists; split; [reflexivity|]. unfold InB; simpl. rewrite app_nil_r.
    repeat split; auto. destruct R as [R|(R & _)]; auto.
  - unfold conn_write, fmt_check; simpl.
    destruct R as [->|(-> & [X|E])]; [| discriminate |].
    + eexists; split; [reflexivity|]. unfold InB; simpl. rewrite concat_app; simpl. rewrite app_nil_r.
      repeat split; auto.
    + rewrite E. simpl. eexists; split; [reflexivity|]. unfold InB; simpl.
      rewrite concat_app; simpl. repeat split; auto.
Qed.

Lemma conn_finish_B_val : forall rf code H' s,
  InB code H' s ->
  exists s', conn_finish rf s = (s', false) /\ o_head s' = Some (code, H') /\ o_body s' = o_body s /\
             g_out_err s' = false /\ g_hdr_err s' = false /\ h_fin s' = false.
Proof.
  intros rf code H' s (HW & FIN & CL & HE & OE & HD & R).
  destruct (conn_finish rf s) as [s' rr] eqn:CF.
  destruct (conn_finish_ok rf s s' rr) as (-> & A1 & A2 & A3 & A4 & A5); auto.
  { destruct R as [R|(R & _)]; auto. }
  exists s'. repeat split; congruence.
Qed.

(* finish() after the header block went out *)
Lemma finish_B_val : forall rf code H' s,
  InB code H' s ->
  exists s', finish e q rf s = (s', false) /\ h_fin s' = true /\ g_out_err s' = false /\
             g_hdr_err s' = false /\ o_head s' = Some (code, H') /\ concat (o_body s') = out s.
Proof.
  intros rf code H' s B. rewrite finish_unfold.
  destruct B as (HW & FIN & REST). rewrite FIN, HW.
  destruct (flush_B_val code H' s (conj HW (conj FIN REST))) as (s1 & F1 & B1 & _ & O1 & _). rewrite F1.
  destruct (conn_finish_B_val rf code H' s1 B1) as (s2 & F2 & HD & BD & OE & HE & _). rewrite F2.
  exists (set_fin s2 true). destruct s2; simpl in *. repeat split; auto. congruence.
Qed.

Definition is_finish (o : op) : bool := match o with Finish => true | _ => false end.

Lemma do_op_simple_B : forall rf o code H' s,
  simple_op o = true -> plain_op o = true -> InB code H' s ->
  (c_rem s = None \/ is_head q = true \/ match o with Write _ => False | _ => True end) ->
  exists s', do_op e q rf o s = (s', false) /\ InB code H' s' /\ c_rem s' = c_rem s /\
             out s' = out s ++ (if is_head q then [] else match o with Write d => d | _ => [] end).
Proof.
  intros rf o code H' s SO PL (HW & FIN & CL & HE & OE & HD & R) NW.
  destruct s as [status H0 buf hw fin chunking rem disc closed head body term herr efin oerr blkd].
  simpl in *. subst.
  destruct o; simpl in SO; try discriminate; simpl in PL; simpl.
  - eexists; split; [reflexivity|]. unfold InB, out; simpl.
    destruct (is_head q); rewrite ?app_nil_r; repeat split; auto.
  - apply andb_true_iff in PL as [_ V]. unfold conv_value. rewrite V.
    eexists; split; [reflexivity|]. unfold InB, out; simpl.
    destruct (is_head q); rewrite ?app_nil_r; repeat split; auto.
  - apply andb_true_iff in PL as [PL FV]. apply andb_true_iff in PL as [PL V].
    apply andb_true_iff in PL as [NO _]. unfold conv_value. rewrite V, NO, FV. simpl.
    eexists; split; [reflexivity|]. unfold InB, out; simpl.
    destruct (is_head q); rewrite ?app_nil_r; repeat split; auto.
  - eexists; split; [reflexivity|]. unfold InB, out; simpl.
    destruct (is_head q); rewrite ?app_nil_r; repeat split; auto.
  - eexists; split; [reflexivity|]. unfold InB, out; simpl.
    destruct (is_head q) eqn:HQ.
    + rewrite ?app_nil_r. repeat split; auto.
      destruct R as [R|(R & _)]; auto.
    + rewrite concat_app; simpl. rewrite app_nil_r, app_assoc. repeat split; auto.
      destruct NW as [N|[N|N]]; [left; exact N|discriminate|contradiction].
Qed.

Lemma set_blocked_B : forall code H' s v, InB code H' s -> InB code H' (set_blocked s v) /\ out (set_blocked s v) = out s.
Proof. intros code H' s v B. destruct s; split; [exact B|reflexivity]. Qed.

(* the rest of a plain program after the first flush *)
Lemma exec_B_plain : forall rest code H' s,
  forallb plain_op rest = true -> InB code H' s ->
  (c_rem s = None \/ is_head q = true \/ writes (until_finish rest) = []) ->
  let s' := exec e q rest s in
  h_fin s' = true /\ g_out_err s' = false /\ g_hdr_err s' = false /\ o_head s' = Some (code, H') /\
  concat (o_body s') = out s ++ (if is_head q then [] else concat (writes (until_finish rest))).
Proof.
  induction rest as [|o t IH]; intros code H' s PL B NW; simpl.
  - destruct B as (HW & FIN & REST). rewrite FIN.
    destruct (set_blocked_B code H' s (blocked_auto q) (conj HW (conj FIN REST))) as (Bb & Ob).
    destruct (finish_B_val true code H' _ Bb) as (s1 & F1 & A1 & A2 & A3 & A4 & A5). rewrite F1.
    rewrite Ob in A5. destruct (is_head q); rewrite ?app_nil_r; auto.
  - simpl in PL. apply andb_true_iff in PL as [PLo PLt].
    assert (FIN : h_fin s = false) by (destruct B as (_ & E & _); exact E). rewrite FIN.
    destruct (simple_op o) eqn:SO.
    + destruct (do_op_simple_B (negb (q_early q)) o code H' s SO PLo B) as (s1 & D1 & B1 & R1 & O1).
      { destruct NW as [N|[N|N]]; auto. right; right. destruct o; simpl in *; auto; discriminate. }
      rewrite D1.
      assert (NW1 : c_rem s1 = None \/ is_head q = true \/ writes (until_finish t) = []).
      { destruct NW as [N|[N|N]]; [left; congruence|auto|].
        right; right. destruct o; simpl in SO, N |- *; try discriminate; auto. }
      destruct (IH code H' s1 PLt B1 NW1) as (A1 & A2 & A3 & A4 & A5).
      repeat split; auto. rewrite A5, O1.
      destruct o; simpl in SO |- *; try discriminate;
        destruct (is_head q); rewrite ?app_nil_r; auto.
      rewrite <- app_assoc. reflexivity.
    + destruct o; simpl in SO; try discriminate; simpl.
      * (* Flush *)
        destruct (flush_B_val code H' s B) as (s1 & F1 & B1 & BF & O1 & RN). rewrite F1.
        assert (NW1 : c_rem s1 = None \/ is_head q = true \/ writes (until_finish t) = []).
        { destruct NW as [N|[N|N]]; auto. }
        destruct (IH code H' s1 PLt B1 NW1) as (A1 & A2 & A3 & A4 & A5).
        repeat split; auto. rewrite A5. unfold out at 1. rewrite BF, O1.
        destruct (is_head q); simpl; rewrite ?app_nil_r; auto.
      * (* Finish *)
        destruct (finish_B_val (negb (q_early q)) code H' s B) as (s1 & F1 & A1 & A2 & A3 & A4 & A5).
        rewrite F1. rewrite exec_fin; auto. repeat split; auto.
        rewrite A5. destruct (is_head q); rewrite ?app_nil_r; auto.
Qed.

End Content2.
