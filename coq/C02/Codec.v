(* C02 — the chunked transfer coding as written by HTTP1Connection._format_chunk / finish is decoded by
   the strict client to exactly the concatenation of the chunks, whatever follows on the connection. *)
From Coq Require Import String Ascii.
From Coq Require Import NArith ZArith Bool Arith List Lia.
From Coq Require Import HexadecimalN HexadecimalPos.
Import ListNotations.
From TV Require Import C02.Model C02.Client.
Local Open Scope N_scope.

Lemma hexbytes_uint_hex_bytes : forall u, hexbytes_uint (hex_bytes u) = Some u.
Proof. induction u; simpl; try rewrite IHu; reflexivity. Qed.

Lemma hex_bytes_nonempty : forall n, hex_bytes (N.to_hex_uint n) <> [].
Proof.
  intros n E. assert (H : N.to_hex_uint n <> Hexadecimal.Nil).
  { destruct n; simpl; [discriminate|]. apply HexadecimalPos.Unsigned.to_uint_nonnil. }
  destruct (N.to_hex_uint n); simpl in E; try discriminate. apply H; reflexivity.
Qed.

Lemma parse_hex_hex : forall n, parse_hex (hex n) = Some n.
Proof.
  intros n. unfold parse_hex, hex.
  destruct (hex_bytes (N.to_hex_uint n)) eqn:E.
  - exfalso. apply (hex_bytes_nonempty n). exact E.
  - rewrite <- E. rewrite hexbytes_uint_hex_bytes. rewrite HexadecimalN.Unsigned.of_to. reflexivity.
Qed.

Lemma hex_bytes_no_cr : forall u, Forall (fun c => (13 =? c) = false) (hex_bytes u).
Proof. induction u; simpl; constructor; auto. Qed.

Lemma split_at_crlf : forall pre r,
  Forall (fun c => (13 =? c) = false) pre -> split_at CRLF (pre ++ CRLF ++ r) = Some (pre, r).
Proof.
  induction pre as [|a pre IH]; intros r F.
  - simpl. destruct r; reflexivity.
  - inversion F as [|? ? A F']; subst.
    change ((a :: pre) ++ CRLF ++ r) with (a :: (pre ++ CRLF ++ r)).
    cbn [split_at]. unfold CRLF at 1. cbn [strip_prefix]. rewrite A. rewrite (IH r F'). reflexivity.
Qed.

Fixpoint count_nonempty (l : list bytes) : nat :=
  match l with [] => O | c :: t => (if nonempty c then 1 else 0) + count_nonempty t end.

Lemma dechunk_encoded : forall chunks fuel acc rest,
  (count_nonempty chunks < fuel)%nat ->
  dechunk fuel (concat (map (enc_chunk true) chunks) ++ b "0" ++ CRLF ++ CRLF ++ rest) acc
  = DDone (acc ++ concat chunks) rest.
Proof.
  induction chunks as [|c t IH]; intros fuel acc rest LT.
  - destruct fuel; [simpl in LT; lia|]. simpl. rewrite app_nil_r. destruct rest; reflexivity.
  - destruct c as [|x c'].
    + simpl. apply IH. simpl in LT. exact LT.
    + destruct fuel; [simpl in LT; lia|].
      set (c := x :: c') in *.
      match goal with
      | |- dechunk _ ?w _ = _ =>
          assert (E : w = hex (blen c) ++ CRLF ++ (c ++ CRLF ++ (concat (map (enc_chunk true) t) ++ b "0" ++ CRLF ++ CRLF ++ rest)))
      end.
      { cbn [map concat]. unfold enc_chunk at 1. unfold c at 1. cbn [nonempty andb].
        fold c. rewrite <- !app_assoc. reflexivity. }
      rewrite E. cbn [dechunk].
      rewrite (split_at_crlf (hex (blen c)) _ (hex_bytes_no_cr _)).
      rewrite parse_hex_hex.
      assert (NZ : (blen c =? 0) = false).
      { apply N.eqb_neq. unfold blen, c. simpl. lia. }
      rewrite NZ.
      assert (K : N.to_nat (blen c) = length c) by (unfold blen; apply Nat2N.id).
      rewrite K.
      set (W' := concat (map (enc_chunk true) t) ++ b "0" ++ CRLF ++ CRLF ++ rest).
      assert (LEN : (length (c ++ CRLF ++ W') <? length c + 2)%nat = false).
      { apply Nat.ltb_ge. rewrite !app_length. simpl. lia. }
      rewrite LEN.
      rewrite skipn_app, Nat.sub_diag, skipn_all. cbn [skipn app].
      rewrite firstn_app, Nat.sub_diag, firstn_all. cbn [firstn]. rewrite app_nil_r.
      change (strip_prefix CRLF (CRLF ++ W')) with (Some W').
      unfold W'. rewrite IH.
      * rewrite <- app_assoc. reflexivity.
      * simpl in LT. lia.
Qed.

Lemma count_nonempty_le : forall chunks, (count_nonempty chunks <= length (concat (map (enc_chunk true) chunks)))%nat.
Proof.
  induction chunks as [|c t IH]; [simpl; lia|].
  destruct c as [|x c'].
  - simpl. exact IH.
  - cbn [map concat count_nonempty nonempty]. unfold enc_chunk at 1. cbn [nonempty andb].
    rewrite !app_length. cbn [length]. lia.
Qed.

(* with the fuel parse_resp supplies *)
Theorem chunked_roundtrip : forall chunks rest,
  let w := concat (map (enc_chunk true) chunks) ++ b "0" ++ CRLF ++ CRLF ++ rest in
  dechunk (S (length w)) w [] = DDone (concat chunks) rest.
Proof.
  intros chunks rest w. unfold w. rewrite dechunk_encoded; [reflexivity|].
  rewrite app_length. pose proof (count_nonempty_le chunks). lia.
Qed.
