(* C02 — content: for plain programs the header block carries the status the reference semantics
   expects and the body handed to the stream is the concatenation of the writes (RT of DESIGN 7 at
   the level of what is handed to the stream).  Part 1: explicit states and single calls. *)
From Coq Require Import String Ascii.
From Coq Require Import NArith ZArith Bool Arith List Lia.
Import ListNotations.
From TV Require Import C02.Model C02.Client C02.Proofs1 C02.Proofs2 C02.Proofs3.
Local Open Scope N_scope.

Section Content.
Variable e : env.
Variable q : req.

(* nothing sent yet *)
Definition mkA (sc : N) (H : hdrs) (buf : list bytes) (blk : bool) : st :=
  mkSt sc H buf false false false None (disc0 q) false None [] false false false false blk.

Definition whD (sc : N) (H : hdrs) : bool := wh_disc q sc (disc0 q) (wh_H1 q (disc0 q) H).
Definition whH (sc : N) (H : hdrs) : hdrs :=
  wh_H3 (wh_chunking q sc H) (wh_H2 q (whD sc H) (wh_H1 q (disc0 q) H)).

(* header block out, [body] handed to the stream *)
Definition mkB (st0 : N) (H0 : hdrs) (buf : list bytes) (code : N) (H : hdrs) (rem : option Z)
           (body : list bytes) (blk : bool) : st :=
  mkSt st0 H0 buf true false (wh_chunking q code H) rem (whD code H) false
       (Some (code, whH code H)) body false false false false blk.

Lemma hget_cl_H1 : forall d H, hget K_CL (wh_H1 q d H) = hget K_CL H.
Proof. intros. unfold wh_H1. destruct (is_v11 q && d); auto. apply hget_hset_other, k_cl_conn. Qed.
Lemma hget_cl_H2 : forall d H, hget K_CL (wh_H2 q d H) = hget K_CL H.
Proof.
  intros. unfold wh_H2. destruct (is_v10 q && opt_beqb (conn_lower q) (b "keep-alive") && negb d); auto.
  apply hget_hset_other, k_cl_conn.
Qed.
Lemma hget_cl_H3 : forall c H, hget K_CL (wh_H3 c H) = hget K_CL H.
Proof. intros. unfold wh_H3. destruct c; auto. apply hget_hset_other, k_cl_te. Qed.
Lemma hget_cl_whH : forall sc H, hget K_CL (whH sc H) = hget K_CL H.
Proof. intros. unfold whH. rewrite hget_cl_H3, hget_cl_H2, hget_cl_H1. reflexivity. Qed.

Lemma wh_rem_whH : forall sc H, wh_rem q sc (whH sc H) = wh_rem q sc H.
Proof. intros. unfold wh_rem. rewrite hget_cl_whH. reflexivity. Qed.

(* write_headers from the fresh connection state, when the first chunk fits *)
Lemma wh_ok : forall sc H buf blk chunk r0 s' rr,
  wh_rem q sc H = Some r0 ->
  (match r0 with Some z => (Z.of_nat (length chunk) <= z)%Z | None => True end) ->
  write_headers q (mkSt sc H buf true false false None (disc0 q) false None [] false false false false blk) chunk
    = (s', rr) ->
  g_hdr_err s' = false ->
  rr = false /\
  s' = mkSt sc (whH sc H) buf true false (wh_chunking q sc H)
            (if nonempty chunk then option_map (fun z => (z - Z.of_nat (length chunk))%Z) r0 else r0)
            (whD sc H) false (Some (sc, whH sc H)) (if nonempty chunk then [chunk] else [])
            false false false false blk.
Proof.
  intros sc H buf blk chunk r0 s' rr REM FIT W HE.
  unfold write_headers in W; simpl in W. fold (whD sc H) in W. fold (whH sc H) in W.
  rewrite wh_rem_whH, REM in W. simpl in W.
  destruct (forallb (fun nv => name_ok (fst nv)) (hall (whH sc H))); simpl in W;
    [|injection W as <- <-; simpl in HE; discriminate].
  destruct (wh_lines_ok sc (whH sc H)); simpl in W;
    [|injection W as <- <-; simpl in HE; discriminate].
  destruct (nonempty chunk).
  - unfold fmt_check in W; simpl in W. destruct r0 as [z|]; simpl in W.
    + destruct (z - Z.of_nat (length chunk) <? 0)%Z eqn:LT; [apply Z.ltb_lt in LT; lia|].
      simpl in W. injection W as <- <-. auto.
    + injection W as <- <-. auto.
  - injection W as <- <-. auto.
Qed.

(* HTTP1Connection.finish when nothing is missing *)
Lemma conn_finish_ok : forall rf s s' rr,
  (c_rem s = None \/ c_rem s = Some 0%Z) -> conn_finish rf s = (s', rr) ->
  rr = false /\ o_head s' = o_head s /\ o_body s' = o_body s /\ g_out_err s' = g_out_err s /\
  g_hdr_err s' = g_hdr_err s /\ h_fin s' = h_fin s.
Proof.
  intros rf s s' rr R W.
  destruct s as [status H0 buf hw fin chunking rem disc closed head body term herr efin oerr blkd].
  simpl in R. unfold conn_finish in W; simpl in W.
  assert (E : (match rem with Some r => negb (r =? 0)%Z | None => false end) = false).
  { destruct R as [->| ->]; reflexivity. }
  rewrite E in W. simpl in W.
  destruct (chunking && negb closed), rf, disc; simpl in W; injection W as <- <-; simpl; auto 10.
Qed.

Definition tail (rf : bool) (s : st) : st * bool :=
  let '(s, raised) := flush q s in
  if raised then (s, true)
  else let '(s, raised) := conn_finish rf s in
       if raised then (s, true) else (set_fin s true, false).

(* flush + connection.finish from the fresh state when the buffer is exactly the declared length *)
Lemma tail_A_exact : forall rf sc H buf blk z s' rr,
  wh_rem q sc H = Some (Some z) ->
  Z.of_nat (length (if is_head q then [] else concat buf)) = z ->
  tail rf (mkA sc H buf blk) = (s', rr) -> g_hdr_err s' = false ->
  rr = false /\ h_fin s' = true /\ g_out_err s' = false /\
  o_head s' = Some (sc, whH sc H) /\ concat (o_body s') = (if is_head q then [] else concat buf).
Proof.
  intros rf sc H buf blk z s' rr REM FIT W HE.
  unfold tail, flush, mkA, set_buf, set_hw in W. simpl in W.
  pose (chunk := if is_head q then [] else concat buf). fold chunk in FIT. fold chunk.
  match type of W with context [write_headers ?a ?x ?c] => destruct (write_headers a x c) as [s1 r1] eqn:WH end.
  assert (HE1 : g_hdr_err s1 = false).
  { destruct r1; cbv iota beta in W; [injection W as <- <-; exact HE|].
    destruct (conn_finish rf s1) as [s2 r2] eqn:CF.
    destruct (g_hdr_err s1) eqn:G; auto. exfalso.
    assert (g_hdr_err s2 = true).
    { clear - CF G. destruct s1. simpl in G. subst. unfold conn_finish, drop_pending in CF; simpl in CF.
      repeat match type of CF with
             | context [if ?c then _ else _] => destruct c; simpl in CF
             | context [match ?c with Some _ => _ | None => _ end] => destruct c; simpl in CF
             end; injection CF as <- <-; reflexivity. }
    destruct r2; injection W as <- <-; [|destruct s2; simpl in *]; congruence. }
  destruct (wh_ok sc H [] blk chunk (Some z) s1 r1 REM) as (-> & ->); auto; [simpl; lia|].
  destruct (conn_finish rf _) as [s2 r2] eqn:CF in W.
  apply conn_finish_ok in CF.
  2:{ simpl. right. destruct (nonempty chunk) eqn:NE; simpl; f_equal; [lia|].
      destruct chunk; [simpl in FIT; lia|discriminate]. }
  destruct CF as (-> & HD & BD & OE & _ & _). injection W as <- <-.
  split; auto. destruct s2; simpl in *. split; auto. split; auto. split; auto.
  rewrite BD. destruct (nonempty chunk) eqn:NE; simpl; [apply app_nil_r|].
  destruct chunk; [reflexivity|discriminate].
Qed.

Definition meth_etag : bool := match q_meth q with GET | HEAD => true | POST => false end.
Definition inm : bytes := match q_inm q with Some v => v | None => [] end.
Definition etag_of (buf : list bytes) : bytes := [34] ++ e_sha e (concat buf) ++ [34].

Lemma k_cl_etag : beqb K_CL K_ETAG = false. Proof. reflexivity. Qed.

Lemma ba_304 : body_allowed 304 = false. Proof. reflexivity. Qed.
Lemma ba_200 : body_allowed 200 = true. Proof. reflexivity. Qed.
Lemma ba_500 : body_allowed 500 = true. Proof. reflexivity. Qed.

Local Arguments etag_matches : simpl never.
Local Arguments clear_repr : simpl never.
Local Arguments dec : simpl never.
Local Arguments total_len : simpl never.
Local Arguments hset : simpl never.
Local Arguments body_allowed : simpl never.

(* the decisions of RequestHandler.finish before the first flush, on explicit states *)
Lemma finish_pre_val : forall rf sc H buf blk,
  hmem K_CL H = false -> hmem K_ETAG H = false ->
  finish_pre e q rf (mkA sc H buf blk) =
  if (sc =? 200) && meth_etag then
    if etag_matches (etag_of buf) inm
    then (mkA 304 (clear_repr (hset K_ETAG (etag_of buf) H)) [] blk, false)
    else (mkA sc (hset K_CL (dec (total_len buf)) (hset K_ETAG (etag_of buf) H)) buf blk, false)
  else if negb (body_allowed sc) then
    match buf with
    | [] => (mkA sc (clear_repr H) [] blk, false)
    | _ :: _ => (mkA sc H buf blk, true)
    end
  else (mkA sc (hset K_CL (dec (total_len buf)) H) buf blk, false).
Proof.
  intros rf sc H buf blk CL ET. unfold finish_pre, mkA; simpl. rewrite ET. simpl. rewrite andb_true_r.
  fold meth_etag. fold inm.
  change (34 :: e_sha e (concat buf) ++ [34]) with (etag_of buf).
  destruct ((sc =? 200) && meth_etag) eqn:C; simpl.
  - rewrite hget_hset_same.
    destruct (etag_matches (etag_of buf) inm); simpl.
    + rewrite ?ba_304. reflexivity.
    + apply andb_true_iff in C as [C _]. apply N.eqb_eq in C. subst sc. rewrite ?ba_200. simpl.
      rewrite hmem_hset_other; [rewrite CL; reflexivity|apply k_cl_etag].
  - destruct (negb (body_allowed sc)); simpl.
    + destruct buf; reflexivity.
    + rewrite CL. reflexivity.
Qed.

Definition Res (code : N) (gbody : bytes) (s' : st) : Prop :=
  h_fin s' = true /\ g_out_err s' = false /\
  exists H', o_head s' = Some (code, H') /\
             concat (o_body s') = (if nobody q code then [] else gbody) /\
             (hmem K_CL H' = true -> hget K_CL H' = Some (dec (blen gbody))).

Lemma hmem_cl_whH : forall sc H, hmem K_CL (whH sc H) = hmem K_CL H.
Proof. intros. unfold whH. rewrite hmem_cl_H3, hmem_cl_H2, hmem_cl_H1. reflexivity. Qed.

Lemma tail_nobody : forall rf sc H blk s' rr,
  hmem K_CL H = false ->
  body_allowed sc = false ->
  tail rf (mkA sc H [] blk) = (s', rr) -> g_hdr_err s' = false -> rr = false /\ Res sc [] s'.
Proof.
  intros rf sc H blk s' rr NCL BA W HE.
  destruct (tail_A_exact rf sc H [] blk 0%Z s' rr) as (R & F & O & HD & BD); auto.
  - unfold wh_rem. rewrite BA. simpl. rewrite orb_true_r. reflexivity.
  - destruct (is_head q); reflexivity.
  - split; auto. split; auto. split; auto. exists (whH sc H). split; auto. split.
    + rewrite BD. destruct (is_head q), (nobody q sc); reflexivity.
    + rewrite hmem_cl_whH. congruence.
Qed.

Lemma tail_with_cl : forall rf sc H buf blk s' rr,
  body_allowed sc = true ->
  tail rf (mkA sc (hset K_CL (dec (total_len buf)) H) buf blk) = (s', rr) -> g_hdr_err s' = false ->
  rr = false /\ Res sc (concat buf) s'.
Proof.
  intros rf sc H buf blk s' rr BA W HE.
  set (H2 := hset K_CL (dec (total_len buf)) H) in *.
  destruct (tail_A_exact rf sc H2 buf blk
              (Z.of_nat (length (if is_head q then [] else concat buf))) s' rr) as (R & F & O & HD & BD); auto.
  - unfold wh_rem. rewrite BA. simpl. rewrite orb_false_r.
    destruct (is_head q); [reflexivity|].
    unfold H2. rewrite hget_hset_same, parse_int_dec. unfold total_len, blen.
    rewrite nat_N_Z. reflexivity.
  - split; auto. split; auto. split; auto. exists (whH sc H2). split; auto. split.
    + rewrite BD. unfold nobody. rewrite BA. simpl. rewrite orb_false_r. reflexivity.
    + intros _. rewrite hget_cl_whH. unfold H2. rewrite hget_hset_same. reflexivity.
Qed.


(* RequestHandler.finish with nothing flushed before *)
Lemma finish_A_buffered : forall rf sc H buf blk s' rr,
  hmem K_CL H = false -> hmem K_ETAG H = false ->
  finish e q rf (mkA sc H buf blk) = (s', rr) -> g_hdr_err s' = false ->
  if (sc =? 200) && meth_etag && etag_matches (etag_of buf) inm then rr = false /\ Res 304 [] s'
  else if negb (body_allowed sc) then
    match buf with
    | [] => rr = false /\ Res sc [] s'
    | _ :: _ => rr = true /\ s' = mkA sc H buf blk
    end
  else rr = false /\ Res sc (concat buf) s'.
Proof.
  intros rf sc H buf blk s' rr CL ET W HE.
  rewrite finish_unfold in W. change (h_fin (mkA sc H buf blk)) with false in W.
  change (h_hw (mkA sc H buf blk)) with false in W. cbv iota in W.
  rewrite (finish_pre_val rf sc H buf blk CL ET) in W.
  destruct ((sc =? 200) && meth_etag) eqn:C; simpl.
  - destruct (etag_matches (etag_of buf) inm); simpl.
    + refine (tail_nobody rf 304 _ blk s' rr _ ba_304 W HE).
      unfold clear_repr. repeat apply hmem_hdel_false. rewrite hmem_hset_other; [exact CL|apply k_cl_etag].
    + apply andb_true_iff in C as [C _]. apply N.eqb_eq in C. subst sc. simpl.
      apply (tail_with_cl rf 200 _ buf blk s' rr eq_refl W HE).
  - destruct (body_allowed sc) eqn:BA; simpl.
    + apply (tail_with_cl rf sc _ buf blk s' rr BA W HE).
    + destruct buf.
      * refine (tail_nobody rf sc _ blk s' rr _ BA W HE).
        unfold clear_repr. repeat apply hmem_hdel_false. exact CL.
      * injection W as <- <-. auto.
Qed.

End Content.
