(* C02 — a strict HTTP/1.1 client-side response parser (the oracle inside Coq), an independent
   reference semantics of "plain" handler programs, and the property as a boolean checker on a
   raw wire observable.  Definitions only. *)
From Coq Require Import String Ascii.
From Coq Require Import NArith ZArith Bool Arith List.
Import ListNotations.
From TV Require Import C02.Model.
Local Open Scope N_scope.

Fixpoint strip_prefix (p w : bytes) : option bytes :=
  match p with
  | [] => Some w
  | a :: p' => match w with
               | c :: w' => if a =? c then strip_prefix p' w' else None
               | [] => None
               end
  end.

(* split at the first occurrence of [sep] *)
Fixpoint split_at (sep w : bytes) : option (bytes * bytes) :=
  match strip_prefix sep w with
  | Some r => Some ([], r)
  | None => match w with
            | [] => None
            | c :: w' => match split_at sep w' with
                         | Some (h, r) => Some (c :: h, r)
                         | None => None
                         end
            end
  end.

(* split on CRLF; [cur] is the current line, reversed *)
Fixpoint lines_of (cur w : bytes) : list bytes :=
  match w with
  | [] => [rev cur]
  | c :: w' =>
      if c =? 10 then
        match cur with
        | 13 :: cur' => rev cur' :: lines_of [] w'
        | _ => lines_of (c :: cur) w'
        end
      else lines_of (c :: cur) w'
  end.

Definition is_ows (c : N) : bool := (c =? 32) || (c =? 9).
Fixpoint drop_ows (l : bytes) : bytes :=
  match l with c :: l' => if is_ows c then drop_ows l' else l | [] => [] end.
Definition trim (l : bytes) : bytes := rev (drop_ows (rev (drop_ows l))).

(* chunk-size = 1*HEXDIG (either case), read through the standard library's hexadecimal numbers *)
Fixpoint hexbytes_uint (l : bytes) : option Hexadecimal.uint :=
  match l with
  | [] => Some Hexadecimal.Nil
  | c :: l' =>
      match hexbytes_uint l' with
      | None => None
      | Some u =>
          if c =? 48 then Some (Hexadecimal.D0 u) else if c =? 49 then Some (Hexadecimal.D1 u)
          else if c =? 50 then Some (Hexadecimal.D2 u) else if c =? 51 then Some (Hexadecimal.D3 u)
          else if c =? 52 then Some (Hexadecimal.D4 u) else if c =? 53 then Some (Hexadecimal.D5 u)
          else if c =? 54 then Some (Hexadecimal.D6 u) else if c =? 55 then Some (Hexadecimal.D7 u)
          else if c =? 56 then Some (Hexadecimal.D8 u) else if c =? 57 then Some (Hexadecimal.D9 u)
          else if (c =? 97) || (c =? 65) then Some (Hexadecimal.Da u)
          else if (c =? 98) || (c =? 66) then Some (Hexadecimal.Db u)
          else if (c =? 99) || (c =? 67) then Some (Hexadecimal.Dc u)
          else if (c =? 100) || (c =? 68) then Some (Hexadecimal.Dd u)
          else if (c =? 101) || (c =? 69) then Some (Hexadecimal.De u)
          else if (c =? 102) || (c =? 70) then Some (Hexadecimal.Df u)
          else None
      end
  end.
Definition parse_hex (l : bytes) : option N :=
  match l with
  | [] => None
  | _ => match hexbytes_uint l with Some u => Some (N.of_hex_uint u) | None => None end
  end.

Inductive delim := DNoBody | DLength | DChunked | DClose.
Definition delim_eqb (x y : delim) : bool :=
  match x, y with
  | DNoBody, DNoBody | DLength, DLength | DChunked, DChunked | DClose, DClose => true
  | _, _ => false
  end.

Inductive presult :=
| PEmpty                       (* not a single byte *)
| PIncomplete                  (* a proper prefix of a response: at EOF the client reports truncation *)
| PBad                         (* malformed or ambiguously framed *)
| POk (code : N) (hl : list (bytes * bytes)) (d : delim) (body rest : bytes).

(* status-line = "HTTP/1.1" SP 3DIGIT SP reason *)
Definition parse_status_line (l : bytes) : option N :=
  match strip_prefix (b "HTTP/1.1 ") l with
  | Some (d1 :: d2 :: d3 :: 32 :: _) =>
      if is_digit d1 && is_digit d2 && is_digit d3
      then Some (100 * (d1 - 48) + 10 * (d2 - 48) + (d3 - 48)) else None
  | _ => None
  end.

(* field-line = token ":" OWS value OWS *)
Definition parse_header_line (l : bytes) : option (bytes * bytes) :=
  match split_at [58] l with
  | Some (n, v) => if name_ok n then Some (n, trim v) else None
  | None => None
  end.

Fixpoint parse_header_lines (ls : list bytes) : option (list (bytes * bytes)) :=
  match ls with
  | [] => Some []
  | l :: ls' =>
      match parse_header_line l, parse_header_lines ls' with
      | Some nv, Some r => Some (nv :: r)
      | _, _ => None
      end
  end.

Definition values_of (name : bytes) (hl : list (bytes * bytes)) : list bytes :=
  map snd (filter (fun nv => beqb (lower_bytes (fst nv)) name) hl).

Inductive dres := DDone (body rest : bytes) | DMore | DBad.
(* chunked-body = *( hex CRLF data CRLF ) "0" CRLF CRLF ; no extensions, no trailers *)
Fixpoint dechunk (fuel : nat) (w acc : bytes) : dres :=
  match fuel with
  | O => DMore
  | S f =>
      match split_at CRLF w with
      | None => DMore
      | Some (szl, r) =>
          match parse_hex szl with
          | None => DBad
          | Some n =>
              if n =? 0 then
                match strip_prefix CRLF r with
                | Some r' => DDone acc r'
                | None => if (length r <? 2)%nat then DMore else DBad
                end
              else
                let k := N.to_nat n in
                if (length r <? k + 2)%nat then DMore
                else match strip_prefix CRLF (skipn k r) with
                     | Some r' => dechunk f r' (acc ++ firstn k r)
                     | None => DBad
                     end
          end
      end
  end.

Definition no_body_status (code : N) : bool := (code =? 204) || (code =? 304) || (code <? 200).

Definition parse_resp (m : meth) (w : bytes) : presult :=
  match w with
  | [] => PEmpty
  | _ =>
    match split_at (CRLF ++ CRLF) w with
    | None => PIncomplete
    | Some (head, rest) =>
        match lines_of [] head with
        | [] => PBad
        | sl :: hls =>
            if existsb (existsb is_crlf) (sl :: hls) then PBad else
            match parse_status_line sl, parse_header_lines hls with
            | Some code, Some hl =>
                let te := values_of (b "transfer-encoding") hl in
                let cl := values_of (b "content-length") hl in
                if (match m with HEAD => true | _ => false end) || no_body_status code
                then POk code hl DNoBody [] rest
                else match te, cl with
                     | [], [] => POk code hl DClose rest []
                     | [], [v] =>
                         match parse_int v with
                         | Some n =>
                             let k := N.to_nat n in
                             if (length rest <? k)%nat then PIncomplete
                             else POk code hl DLength (firstn k rest) (skipn k rest)
                         | None => PBad
                         end
                     | [t], [] =>
                         if beqb (lower_bytes t) (b "chunked") then
                           match dechunk (S (length rest)) rest [] with
                           | DDone body r => POk code hl DChunked body r
                           | DMore => PIncomplete
                           | DBad => PBad
                           end
                         else PBad
                     | _, _ => PBad        (* both, or repeated: ambiguous *)
                     end
            | _, _ => PBad
            end
        end
    end
  end.

(* ---------- reference semantics of plain programs (no wire-level notions) ---------- *)
Definition framing_name (n : bytes) : bool :=
  let k := norm n in beqb k K_CL || beqb k K_TE || beqb k K_ETAG || beqb k K_CONN.
Definition plain_op (o : op) : bool :=
  match o with
  | Status c => (200 <=? c) && (c <=? 999)
  | SetH n v => name_ok n && negb (framing_name n) && forallb is_value_char v
  | AddH n v => name_ok n && negb (framing_name n) && forallb is_value_char v && field_value_ok v
  | ClearH n => negb (framing_name n)
  | Write _ | Flush | Finish => true
  end.
Fixpoint until_finish (p : list op) : list op :=
  match p with [] => [] | Finish :: _ => [] | o :: t => o :: until_finish t end.
Fixpoint until_flush (p : list op) : list op :=
  match p with [] => [] | Flush :: _ => [] | o :: t => o :: until_flush t end.
Definition has_flush (p : list op) : bool := existsb (fun o => match o with Flush => true | _ => false end) p.
Fixpoint last_status (p : list op) (cur : N) : N :=
  match p with [] => cur | Status c :: t => last_status t c | _ :: t => last_status t cur end.
Fixpoint writes (p : list op) : list bytes :=
  match p with [] => [] | Write d :: t => d :: writes t | _ :: t => writes t end.
Fixpoint apply_hdr_ops (p : list op) (h : hdrs) : hdrs :=
  match p with
  | [] => h
  | SetH n v :: t => apply_hdr_ops t (hset (norm n) v h)
  | AddH n v :: t => apply_hdr_ops t (hadd (norm n) v h)
  | ClearH n :: t => apply_hdr_ops t (hdel (norm n) h)
  | _ :: t => apply_hdr_ops t h
  end.

Inductive claim :=
| NoClaim
| Expect (code : N) (get_body : bytes) (handler_hdrs : list (bytes * bytes)).

Definition spec (e : env) (q : req) (p : list op) : claim :=
  if negb (forallb plain_op p) then NoClaim else
  let live := until_finish p in
  let ws := writes live in
  if has_flush live then
    let pre := until_flush live in
    let code := last_status pre 200 in
    let hh := hall (apply_hdr_ops pre (default_hdrs e)) in
    if is_head q then Expect code [] hh
    else if body_allowed code then Expect code (concat ws) hh
    else match ws with [] => Expect code [] hh | _ => NoClaim end
  else
    let code := last_status live 200 in
    let hh := apply_hdr_ops live (default_hdrs e) in
    if negb (body_allowed code) then
      match ws with
      | [] => Expect code [] (hall (clear_repr hh))
      | _ => Expect 500 error_page (hall (default_hdrs e))
      end
    else if (code =? 200) && (match q_meth q with GET | HEAD => true | POST => false end)
            && etag_matches ([34] ++ e_sha e (concat ws) ++ [34])
                            (match q_inm q with Some v => v | None => [] end)
    then Expect 304 [] (hall (clear_repr hh))
    else Expect code (concat ws) (hall hh).

Fixpoint is_subseq (eqb : (bytes * bytes) -> (bytes * bytes) -> bool)
         (x y : list (bytes * bytes)) : bool :=
  match y with
  | [] => match x with [] => true | _ => false end
  | c :: y' => match x with
               | [] => true
               | a :: x' => if eqb a c then is_subseq eqb x' y' else is_subseq eqb x y'
               end
  end.
Definition hdr_eqb (a c : bytes * bytes) : bool :=
  beqb (fst a) (fst c) && beqb (trim (snd a)) (snd c).

(* ---------- the property on a raw observable (wire bytes, connection closed?) ---------- *)
Definition check_response (e : env) (q : req) (p : list op) (w : bytes) (closed : bool) : bool :=
  match parse_resp (q_meth q) w with
  | PBad => false
  | PEmpty | PIncomplete =>
      (* no complete response: acceptable only as an abort that the client can detect (EOF),
         and never for a program whose response is fixed by the reference semantics *)
      closed && match spec e q p with NoClaim => true | Expect _ _ _ => false end
  | POk code hl d body rest =>
      match rest with [] => true | _ => false end
      && (if delim_eqb d DClose then closed else true)
      && match spec e q p with
         | NoClaim => true
         | Expect code' gbody hh =>
             (code =? code')
             && beqb body (if is_head q || no_body_status code then [] else gbody)
             && is_subseq hdr_eqb hh hl
             && forallb (fun v => match parse_int v with
                                  | Some n => n =? blen gbody
                                  | None => false end)
                        (values_of (b "content-length") hl)
         end
  end.
