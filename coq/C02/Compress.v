(* C02 — the output-transform dimension (Application(compress_response=True): GZipContentEncoding).
   The handler side with the transform is the executable model of C29 (C29/Model.v: set/add/clear header,
   write, flush, finish with transform_first_chunk / transform_chunk applied BEFORE the HEAD discard, abstract
   gzip codec); what it hands to the connection (status, header dictionary, chunks) is fed to this
   property's connection model (write_headers / write / finish).  Definitions only. *)
From Coq Require Import String Ascii.
From Coq Require Import NArith ZArith Bool Arith List.
Import ListNotations.
From TV Require Import C02.Model.
From TV Require C29.Model.
Local Open Scope N_scope.

(* handler programs of the C29 model: no explicit Finish (finish() is the automatic one) *)
Definition to29 (o : op) : option C29.Model.op :=
  match o with
  | Status c => Some (C29.Model.Status c)
  | SetH n v => Some (C29.Model.SetH n v)
  | AddH n v => Some (C29.Model.AddH n v)
  | ClearH n => Some (C29.Model.ClearH n)
  | Write d => Some (C29.Model.Write d)
  | Flush => Some C29.Model.Flush
  | Finish => None
  end.
Fixpoint prog29 (p : list op) : option (list C29.Model.op) :=
  match p with
  | [] => Some []
  | o :: t => match to29 o, prog29 t with Some o', Some t' => Some (o' :: t') | _, _ => None end
  end.

Definition env29 (q : req) (ae : option bytes) : C29.Model.env :=
  {| C29.Model.is_head := is_head q; C29.Model.accept_enc := ae; C29.Model.compress := true |}.

(* the connection side, fed with what the handler handed over *)
Fixpoint conn_writes (s : st) (chunks : list bytes) : st * bool :=
  match chunks with
  | [] => (s, false)
  | ch :: t => let '(s', raised) := conn_write s ch in
               if raised then (s', true) else conn_writes s' t
  end.

Inductive cres := CNotInDomain | CAssert | CRaised | CDone (s : st).

Definition crun (c : C29.Model.codec) (e : env) (q : req) (ae : option bytes) (p : list op) : cres :=
  match prog29 p with
  | None => CNotInDomain
  | Some p' =>
      match C29.Model.run c (env29 q ae) p' None with
      | None => CAssert                                   (* finish(): Cannot send body with 1xx/204/304 *)
      | Some hsr =>
          let k := C29.Model.core hsr in
          match C29.Model.w_hdrs k, C29.Model.sent k with
          | Some H, first :: rest =>
              let s0 := set_hw (set_hdrs (set_status (init e q) (C29.Model.wcode hsr)) H) true in
              let '(s1, r1) := write_headers q s0 first in
              if r1 then CRaised
              else let '(s2, r2) := conn_writes s1 rest in
                   if r2 then CRaised
                   else let '(s3, r3) := conn_finish true s2 in
                        if r3 then CRaised else CDone s3
          | _, _ => CNotInDomain
          end
      end
  end.

(* what of a response this dimension is about: status, Content-Length / Content-Encoding /
   Transfer-Encoding / Vary field values, the (de-chunked) body bytes, closed? *)
Definition field_values (k : bytes) (H : hdrs) : list bytes :=
  map snd (filter (fun nv => beqb (fst nv) k) (hall H)).
