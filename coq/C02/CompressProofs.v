(* C02 — the output-transform dimension: what the connection model adds to C29's handler/transform model. *)
From Coq Require Import String Ascii.
From Coq Require Import NArith ZArith Bool Arith List Lia.
Import ListNotations.
From TV Require Import C02.Model C02.Proofs1 C02.Proofs2 C02.Proofs5 C02.Compress.
From TV Require C29.Model C29.Run C29.Proofs2 C29.Proofs4 C29.Property.
Local Open Scope N_scope.

(* write_headers only ever touches Connection and Transfer-Encoding *)
Lemma hall_cons : forall a vs t, hall ((a, vs) :: t) = map (pair a) vs ++ hall t.
Proof. reflexivity. Qed.

Lemma filter_other_key : forall k k' (l : list bytes),
  beqb k k' = false -> filter (fun nv : bytes * bytes => beqb (fst nv) k) (map (pair k') l) = [].
Proof. intros k k' l N. induction l; simpl; auto. rewrite beqb_sym, N. auto. Qed.

Lemma field_values_hset_other : forall k k' v H,
  beqb k k' = false -> field_values k (hset k' v H) = field_values k H.
Proof.
  intros k k' v H N. unfold field_values.
  induction H as [|[key vs] t IH].
  - cbn [hset]. rewrite hall_cons, filter_app, (filter_other_key k k' [v] N). reflexivity.
  - cbn [hset]. destruct (beqb k' key) eqn:E.
    + apply beqb_eq in E. subst key.
      rewrite !hall_cons, !filter_app, !(filter_other_key k k' _ N). reflexivity.
    + rewrite !hall_cons, !filter_app, !map_app. f_equal. exact IH.
Qed.

Theorem whH_keeps_fields : forall q code H k,
  beqb k K_CONN = false -> beqb k K_TE = false ->
  field_values k (whH q code H) = field_values k H.
Proof.
  intros q code H k NC NT. unfold whH, wh_H3, wh_H2, wh_H1.
  repeat match goal with
         | |- context [if ?c then _ else _] => destruct c
         end; rewrite ?field_values_hset_other; auto.
Qed.

(* ---------- a HEAD request never gets a body byte, with the transform on ---------- *)
Lemma wh_empty_chunk_body : forall q s s' r, write_headers q s [] = (s', r) -> o_body s' = o_body s.
Proof.
  intros q s s' r W. destruct s. unfold write_headers in W; simpl in W.
  repeat match type of W with
         | context [if ?c then _ else _] => destruct c; simpl in W
         | context [match ?c with Some _ => _ | None => _ end] => destruct c; simpl in W
         end; injection W as <- <-; reflexivity.
Qed.

Lemma conn_write_empty : forall s s', conn_write s [] = (s', false) -> concat (o_body s') = concat (o_body s).
Proof.
  intros s s' W. destruct s. unfold conn_write, fmt_check, drop_pending in W; simpl in W.
  repeat match type of W with
         | context [if ?c then _ else _] => destruct c; simpl in W
         | context [match ?c with Some _ => _ | None => _ end] => destruct c; simpl in W
         end; try discriminate; injection W as <-; simpl; rewrite ?concat_app; simpl; rewrite ?app_nil_r; reflexivity.
Qed.

Lemma conn_writes_empty : forall chunks s s',
  concat chunks = [] -> conn_writes s chunks = (s', false) -> concat (o_body s') = concat (o_body s).
Proof.
  induction chunks as [|ch t IH]; intros s s' E W; simpl in W.
  - injection W as <-. reflexivity.
  - simpl in E. apply app_eq_nil in E as [-> Et].
    destruct (conn_write s []) as [s1 [|]] eqn:CW; [discriminate|].
    rewrite (IH s1 s' Et W). apply conn_write_empty. exact CW.
Qed.

Lemma conn_finish_body : forall rf s s', conn_finish rf s = (s', false) -> o_body s' = o_body s.
Proof.
  intros rf s s' W. destruct s. unfold conn_finish, drop_pending in W; simpl in W.
  repeat match type of W with
         | context [if ?c then _ else _] => destruct c; simpl in W
         | context [match ?c with Some _ => _ | None => _ end] => destruct c; simpl in W
         end; try discriminate; injection W as <-; reflexivity.
Qed.

Theorem head_no_body_with_transform : forall c e q ae p s,
  is_head q = true -> crun c e q ae p = CDone s -> concat (o_body s) = [].
Proof.
  intros c e q ae p s HQ R. unfold crun in R.
  destruct (prog29 p) as [p'|]; [|discriminate].
  assert (EQ : env29 q ae = C29.Proofs4.envH ae true) by (unfold env29; rewrite HQ; reflexivity).
  rewrite EQ in R.
  destruct (C29.Model.run c (C29.Proofs4.envH ae true) p' None) as [hsr|] eqn:RUN; [|discriminate].
  assert (AF : C29.Run.assertion_fails p' None = false).
  { pose proof (C29.Proofs4.run_summary_any c true ae true p' None) as RS. cbv zeta in RS.
    destruct (C29.Run.assertion_fails p' None); [|reflexivity].
    change {| C29.Model.is_head := true; C29.Model.accept_enc := ae; C29.Model.compress := true |}
      with (C29.Proofs4.envH ae true) in RS.
    rewrite RUN in RS. unfold C29.Run.outcome_of in RS.
    destruct (C29.Model.err (C29.Model.core hsr)); [discriminate|].
    destruct (C29.Model.w_hdrs (C29.Model.core hsr)); discriminate. }
  destruct (C29.Property.C29_head_has_get_headers_and_no_body c ae true p' None AF)
    as (rH & rG & OH & _ & _ & _ & _ & _ & _ & SENT).
  rewrite RUN in OH. unfold C29.Run.outcome_of in OH.
  destruct (C29.Model.w_hdrs (C29.Model.core hsr)) as [H|] eqn:WH;
    [|destruct (C29.Model.err (C29.Model.core hsr)); discriminate].
  destruct (C29.Model.err (C29.Model.core hsr)); [discriminate|].
  injection OH as <-. simpl in SENT.
  destruct (C29.Model.sent (C29.Model.core hsr)) as [|first rest]; [discriminate|].
  simpl in SENT. apply app_eq_nil in SENT as [-> RESTE].
  match type of R with context [write_headers q ?s0 []] =>
    destruct (write_headers q s0 []) as [s1 [|]] eqn:W1; [discriminate|];
    pose proof (wh_empty_chunk_body _ _ _ _ W1) as B1 end.
  destruct (conn_writes s1 rest) as [s2 [|]] eqn:W2; [discriminate|].
  destruct (conn_finish true s2) as [s3 [|]] eqn:W3; [discriminate|].
  injection R as <-.
  rewrite (conn_finish_body _ _ _ W3), (conn_writes_empty _ _ _ RESTE W2), B1. reflexivity.
Qed.
