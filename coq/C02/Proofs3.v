(* C02/C03 — transition lemmas: every run of a handler program ends in PhaseD (response complete),
   PhaseX (aborted by the Content-Length guard, stream closed) or with the header-serialisation
   error flag set. *)
From Coq Require Import String Ascii.
From Coq Require Import NArith ZArith Bool Arith List Lia.
Import ListNotations.
From TV Require Import C02.Model C02.Proofs1 C02.Proofs2.
Local Open Scope N_scope.

Section Trans.
Variable e : env.
Variable q : req.
Variable nc : bool.

Definition Fresh (s : st) : Prop :=
  h_fin s = false /\ c_chunking s = false /\ c_rem s = None /\
  c_disc s = disc0 q /\ c_closed s = false /\ o_head s = None /\ o_body s = [] /\
  o_term s = false /\ g_hdr_err s = false /\ g_early_fin s = false /\ g_out_err s = false /\
  (nc = true -> hmem K_CONN (h_hdrs s) = false).

Lemma PhaseA_Fresh : forall s, PhaseA q nc s <-> h_hw s = false /\ Fresh s.
Proof. intros; unfold PhaseA, Fresh; tauto. Qed.

Lemma wh_fresh : forall s chunk s' r,
  h_hw s = true -> Fresh s -> write_headers q s chunk = (s', r) ->
  (r = false /\ PhaseB q nc s') \/ (r = true /\ (PhaseX q nc s' \/ g_hdr_err s' = true)).
Proof.
  intros s chunk s' r HW F W.
  destruct s as [status H0 buf hw fin chunking rem disc closed head body term herr efin oerr blkd].
  unfold Fresh in F; simpl in *.
  destruct F as (-> & -> & -> & -> & -> & -> & -> & -> & -> & -> & -> & NC). subst hw.
  pose proof (wh_hdrs_facts q nc status H0 NC) as FACTS. cbv zeta in FACTS.
  unfold write_headers in W; simpl in W.
  remember (wh_H3 (wh_chunking q status H0)
              (wh_H2 q (wh_disc q status (disc0 q) (wh_H1 q (disc0 q) H0)) (wh_H1 q (disc0 q) H0))) as H.
  destruct FACTS as (CL & DISC & CH & TE & CONN).
  assert (HF : forall s0, c_chunking s0 = wh_chunking q status H0 -> HeadFacts q nc s0 status H).
  { intros s0 E. unfold HeadFacts. rewrite E, CH. auto. }
  destruct (wh_rem q status H) as [r0|] eqn:REM.
  2:{ injection W as <- <-; simpl. right; auto. }
  simpl in W.
  destruct (forallb (fun nv => name_ok (fst nv)) (hall H)); simpl in W.
  2:{ injection W as <- <-; simpl. right; auto. }
  destruct (wh_lines_ok status H); simpl in W.
  2:{ injection W as <- <-; simpl. right; auto. }
  destruct (nonempty chunk) eqn:NE.
  - unfold fmt_check in W; simpl in W.
    destruct r0 as [z|]; simpl in W.
    + destruct (z - Z.of_nat (length chunk) <? 0)%Z eqn:LT; simpl in W.
      * injection W as <- <-. right. split; auto. left.
        unfold PhaseX, drop_pending; destruct blkd; simpl; repeat split; auto.
      * injection W as <- <-; simpl. left. split; auto.
        unfold PhaseB; simpl. do 7 (split; [reflexivity|]).
        exists status, H, (Some z). simpl.
        assert (BL : blenZ [chunk] = Z.of_nat (length chunk)).
        { unfold blenZ; simpl. rewrite app_nil_r. reflexivity. }
        rewrite BL. apply Z.ltb_ge in LT.
        split; [reflexivity|]. split; [apply HF; reflexivity|]. split; [exact REM|].
        split; [reflexivity|]. split; [exact LT|exact DISC].
    + injection W as <- <-; simpl. left. split; auto.
      unfold PhaseB; simpl. do 7 (split; [reflexivity|]).
      exists status, H, None. simpl.
      split; [reflexivity|]. split; [apply HF; reflexivity|]. split; [exact REM|].
      split; [reflexivity|]. split; [exact I|exact DISC].
  - injection W as <- <-; simpl. left. split; auto.
    unfold PhaseB; simpl. do 7 (split; [reflexivity|]).
    exists status, H, r0. simpl.
    split; [reflexivity|]. split; [apply HF; reflexivity|]. split; [exact REM|].
    split; [|split; [|exact DISC]].
    + destruct r0; simpl; auto. rewrite blenZ_nil. f_equal. lia.
    + destruct r0 as [z|]; simpl; auto. apply (wh_rem_nonneg q status H). exact REM.
Qed.

(* ---------- the connection after the header block went out ---------- *)
Lemma conn_write_B : forall s chunk s' r,
  PhaseB q nc s -> conn_write s chunk = (s', r) ->
  (r = false /\ PhaseB q nc s') \/ (r = true /\ PhaseX q nc s').
Proof.
  intros s chunk s' r B W.
  destruct s as [status H0 buf hw fin chunking rem disc closed head body term herr efin oerr blkd].
  unfold PhaseB in B; simpl in B.
  destruct B as (-> & -> & -> & -> & -> & -> & -> & code & H & r0 & -> & HF & REM & RE & NN & DISC).
  unfold conn_write, fmt_check in W; simpl in W.
  destruct rem as [z|]; simpl in W.
  - destruct r0 as [z0|]; simpl in RE; [|discriminate]. injection RE as RE.
    destruct (z - Z.of_nat (length chunk) <? 0)%Z eqn:LT; simpl in W.
    + injection W as <- <-. right. split; auto.
      unfold PhaseX, drop_pending; destruct blkd; simpl; (do 5 (split; [reflexivity|])); [reflexivity|].
      split; [exact HF|]. exists (Some z0). split; [exact REM|]. lia.
    + injection W as <- <-. left. split; auto.
      unfold PhaseB; simpl. do 7 (split; [reflexivity|]).
      exists code, H, (Some z0). simpl. apply Z.ltb_ge in LT.
      split; [reflexivity|]. split; [exact HF|]. split; [exact REM|].
      split; [|split; [exact LT|exact DISC]].
      rewrite blenZ_app1. f_equal. lia.
  - destruct r0 as [z0|]; simpl in RE; [discriminate|].
    injection W as <- <-. left. split; auto.
    unfold PhaseB; simpl. do 7 (split; [reflexivity|]).
    exists code, H, None. simpl.
    split; [reflexivity|]. split; [exact HF|]. split; [exact REM|].
    split; [reflexivity|]. split; [exact I|exact DISC].
Qed.

Lemma conn_finish_B : forall rf s s' r,
  PhaseB q nc s -> conn_finish rf s = (s', r) ->
  (r = false /\ PhaseD q nc (set_fin s' true)) \/ (r = true /\ PhaseX q nc s').
Proof.
  intros rf s s' r B W.
  destruct s as [status H0 buf hw fin chunking rem disc closed head body term herr efin oerr blkd].
  unfold PhaseB in B; simpl in B.
  destruct B as (-> & -> & -> & -> & -> & -> & -> & code & H & r0 & -> & HF & REM & RE & NN & DISC).
  unfold conn_finish in W; simpl in W.
  assert (DONE : forall z0, r0 = Some z0 -> rem = Some 0%Z -> blenZ body = z0).
  { intros z0 -> E. rewrite E in RE. simpl in RE. injection RE as RE. lia. }
  destruct rem as [z|]; simpl in W.
  - destruct (z =? 0)%Z eqn:Z0; simpl in W.
    + apply Z.eqb_eq in Z0. subst z.
      destruct r0 as [z0|]; simpl in RE; [|discriminate].
      specialize (DONE z0 eq_refl eq_refl).
      rewrite andb_true_r in W.
      destruct rf, chunking, disc; simpl in W; injection W as <- <-; left; (split; [reflexivity|]);
        unfold PhaseD; simpl; (do 3 (split; [reflexivity|]));
        exists code, H, (Some z0); simpl;
        (split; [reflexivity|]); (split; [exact HF|]); (split; [exact REM|]); (split; [exact DONE|]);
        (split; [reflexivity|]); rewrite <- DISC; reflexivity.
    + injection W as <- <-. right. split; auto.
      unfold PhaseX, drop_pending; destruct blkd; simpl; (do 5 (split; [reflexivity|])); [reflexivity|].
      split; [exact HF|]. destruct r0 as [z0|]; simpl in RE; [|discriminate]. injection RE as RE.
      exists (Some z0). split; [exact REM|]. lia.
  - destruct r0 as [z0|]; simpl in RE; [discriminate|].
    rewrite andb_true_r in W.
    destruct rf, chunking, disc; simpl in W; injection W as <- <-; left; (split; [reflexivity|]);
      unfold PhaseD; simpl; (do 3 (split; [reflexivity|]));
      exists code, H, None; simpl;
      (split; [reflexivity|]); (split; [exact HF|]); (split; [exact REM|]); (split; [exact I|]);
      (split; [reflexivity|]); rewrite <- DISC; reflexivity.
Qed.

(* ---------- phases do not depend on the handler-side fields status / headers / buffer ---------- *)
Definition same_conn (s s' : st) : Prop :=
  h_hw s = h_hw s' /\ h_fin s = h_fin s' /\ c_chunking s = c_chunking s' /\ c_rem s = c_rem s' /\
  c_disc s = c_disc s' /\ c_closed s = c_closed s' /\ o_head s = o_head s' /\ o_body s = o_body s' /\
  o_term s = o_term s' /\ g_hdr_err s = g_hdr_err s' /\ g_early_fin s = g_early_fin s' /\
  g_out_err s = g_out_err s' /\ t_blocked s = t_blocked s'.

Lemma same_conn_refl : forall s, same_conn s s.
Proof. intros; unfold same_conn; repeat split. Qed.
Lemma same_conn_trans : forall a c d, same_conn a c -> same_conn c d -> same_conn a d.
Proof. unfold same_conn; intros; intuition congruence. Qed.
Lemma same_conn_status : forall s v, same_conn s (set_status s v).
Proof. intros; unfold same_conn; repeat split. Qed.
Lemma same_conn_hdrs : forall s v, same_conn s (set_hdrs s v).
Proof. intros; unfold same_conn; repeat split. Qed.
Lemma same_conn_buf : forall s v, same_conn s (set_buf s v).
Proof. intros; unfold same_conn; repeat split. Qed.

Ltac use_same :=
  match goal with
  | SC : same_conn ?s ?s' |- _ =>
      destruct s, s'; unfold same_conn in SC; simpl in SC;
      destruct SC as (? & ? & ? & ? & ? & ? & ? & ? & ? & ? & ? & ? & ?); subst
  end.

Lemma PhaseB_same : forall s s', same_conn s s' -> PhaseB q nc s -> PhaseB q nc s'.
Proof. intros s s' SC B. use_same. exact B. Qed.
Lemma PhaseX_same : forall s s', same_conn s s' -> PhaseX q nc s -> PhaseX q nc s'.
Proof. intros s s' SC B. use_same. exact B. Qed.
Lemma Fresh_same : forall s s', same_conn s s' -> Fresh s ->
  (nc = true -> hmem K_CONN (h_hdrs s') = false) -> Fresh s'.
Proof.
  intros s s' SC F NC. use_same. unfold Fresh in *; simpl in *.
  destruct F as (? & ? & ? & ? & ? & ? & ? & ? & ? & ? & ? & _). repeat split; auto.
Qed.

(* ---------- once the stream is closed by the guard nothing more reaches it ---------- *)
Lemma conn_write_X : forall s chunk, PhaseX q nc s -> conn_write s chunk = (s, false).
Proof.
  intros s chunk X. unfold conn_write. destruct X as (_ & -> & _). reflexivity.
Qed.

Lemma conn_finish_X : forall rf s, PhaseX q nc s ->
  exists s', conn_finish rf s = (s', false) /\ PhaseX q nc s' /\ h_fin s' = h_fin s.
Proof.
  intros rf s X.
  destruct s as [status H0 buf hw fin chunking rem disc closed head body term herr efin oerr blkd].
  unfold PhaseX in X; simpl in X. destruct X as (-> & -> & -> & -> & -> & HX).
  unfold conn_finish; simpl. rewrite andb_false_r. simpl.
  destruct rf, disc, chunking; simpl; eexists; (split; [reflexivity|]); (split; [|reflexivity]);
    unfold PhaseX; simpl; (do 5 (split; [reflexivity|])); exact HX.
Qed.

Lemma flush_X : forall s, PhaseX q nc s ->
  exists s', flush q s = (s', false) /\ PhaseX q nc s' /\ h_fin s' = h_fin s.
Proof.
  intros s X. unfold flush.
  assert (X' : PhaseX q nc (set_buf s [])) by (eapply PhaseX_same; [apply same_conn_buf|exact X]).
  assert (HW : h_hw (set_buf s []) = true) by (destruct X' as (E & _); exact E).
  rewrite HW. simpl negb. cbv iota.
  destruct (is_head q).
  - eexists; split; [reflexivity|]. split; [exact X'|reflexivity].
  - rewrite (conn_write_X _ _ X'). eexists; split; [reflexivity|]. split; [exact X'|reflexivity].
Qed.

Lemma finish_X : forall rf s, PhaseX q nc s -> PhaseX q nc (fst (finish e q rf s)).
Proof.
  intros rf s X. unfold finish.
  destruct (h_fin s) eqn:FIN; [exact X|].
  assert (HW : h_hw s = true) by (destruct X as (E & _); exact E).
  rewrite HW.
  destruct (flush_X s X) as (s1 & F1 & X1 & _). rewrite F1.
  destruct (conn_finish_X rf s1 X1) as (s2 & F2 & X2 & _). rewrite F2. simpl.
  destruct s2; exact X2.
Qed.

(* ---------- RequestHandler.flush ---------- *)
Lemma flush_A : forall s s' r, PhaseA q nc s -> flush q s = (s', r) ->
  (r = false /\ PhaseB q nc s') \/ (r = true /\ (PhaseX q nc s' \/ g_hdr_err s' = true)).
Proof.
  intros s s' r A W. apply PhaseA_Fresh in A as (HW & F).
  unfold flush in W.
  assert (HW1 : h_hw (set_buf s []) = false) by (destruct s; exact HW).
  rewrite HW1 in W. simpl negb in W. cbv iota in W.
  eapply wh_fresh; [| |exact W].
  - destruct s; reflexivity.
  - destruct s; exact F.
Qed.

Lemma flush_B : forall s s' r, PhaseB q nc s -> flush q s = (s', r) ->
  (r = false /\ PhaseB q nc s') \/ (r = true /\ PhaseX q nc s').
Proof.
  intros s s' r B W. unfold flush in W.
  assert (B' : PhaseB q nc (set_buf s [])) by (eapply PhaseB_same; [apply same_conn_buf|exact B]).
  assert (HW : h_hw (set_buf s []) = true) by (destruct B' as (E & _); exact E).
  rewrite HW in W. simpl negb in W. cbv iota in W.
  destruct (is_head q).
  - injection W as <- <-. left; auto.
  - eapply conn_write_B; eauto.
Qed.

(* ---------- RequestHandler.finish ---------- *)
Lemma finish_B : forall rf s s' r, PhaseB q nc s -> finish e q rf s = (s', r) ->
  (r = false /\ PhaseD q nc s') \/ (r = true /\ PhaseX q nc s').
Proof.
  intros rf s s' r B W. unfold finish in W.
  assert (FIN : h_fin s = false) by (destruct B as (_ & E & _); exact E).
  assert (HW : h_hw s = true) by (destruct B as (E & _); exact E).
  rewrite FIN, HW in W.
  destruct (flush q s) as [s1 r1] eqn:F1.
  destruct (flush_B _ _ _ B F1) as [(-> & B1)|(-> & X1)].
  - destruct (conn_finish rf s1) as [s2 r2] eqn:F2.
    destruct (conn_finish_B _ _ _ _ B1 F2) as [(-> & D2)|(-> & X2)].
    + injection W as <- <-. left; auto.
    + injection W as <- <-. right; auto.
  - injection W as <- <-. right; auto.
Qed.

Lemma k_conn_etag : beqb K_CONN K_ETAG = false. Proof. reflexivity. Qed.
Lemma k_conn_cl : beqb K_CONN K_CL = false. Proof. reflexivity. Qed.

Lemma clear_repr_conn : forall H, hmem K_CONN H = false -> hmem K_CONN (clear_repr H) = false.
Proof. intros H E. unfold clear_repr. repeat apply hmem_hdel_false. exact E. Qed.

(* the part of finish() before flush only touches status / headers / buffer *)
Definition finish_pre (rf : bool) (s : st) : st * bool :=
        let s :=
          if (h_status s =? 200) && (match q_meth q with GET | HEAD => true | POST => false end)
             && negb (hmem K_ETAG (h_hdrs s))
          then
            let etag := [34] ++ e_sha e (concat (h_buf s)) ++ [34] in
            let s := set_hdrs s (hset K_ETAG etag (h_hdrs s)) in
            if etag_matches (match hget K_ETAG (h_hdrs s) with Some v => v | None => [] end)
                            (match q_inm q with Some v => v | None => [] end)
            then set_status (set_buf s []) 304
            else s
          else s in
        if negb (body_allowed (h_status s)) then
          match h_buf s with
          | [] => (set_hdrs s (clear_repr (h_hdrs s)), false)
          | _ :: _ => (s, true)
          end
        else if hmem K_CL (h_hdrs s) then (s, false)
        else (set_hdrs s (hset K_CL (dec (total_len (h_buf s))) (h_hdrs s)), false).

Lemma finish_unfold : forall rf s,
  finish e q rf s =
  if h_fin s then (s, true)
  else
    let '(s, raised) := if h_hw s then (s, false) else finish_pre rf s in
    if raised then (s, true)
    else
      let '(s, raised) := flush q s in
      if raised then (s, true)
      else
        let '(s, raised) := conn_finish rf s in
        if raised then (s, true)
        else (set_fin s true, false).
Proof. reflexivity. Qed.

Lemma finish_pre_same : forall rf s s' r, finish_pre rf s = (s', r) ->
  same_conn s s' /\
  ((nc = true -> hmem K_CONN (h_hdrs s) = false) -> (nc = true -> hmem K_CONN (h_hdrs s') = false)) /\
  (r = true -> (h_status s =? 200) || negb (body_allowed (h_status s)) = true).
Proof.
  intros rf s s' r W.
  destruct s as [status H0 buf hw fin chunking rem disc closed head body term herr efin oerr blkd].
  unfold finish_pre in W; simpl in W.
  destruct ((status =? 200) && match q_meth q with GET | HEAD => true | POST => false end
            && negb (hmem K_ETAG H0)) eqn:C1; simpl in W.
  - assert (S200 : (status =? 200) = true).
    { destruct (status =? 200); auto. }
    simpl. rewrite S200. simpl.
    destruct (etag_matches _ _); simpl in W.
    + (* 304 *) injection W as <- <-. split; [unfold same_conn; simpl; repeat split|].
      split; [|discriminate]. simpl. intros NC N. apply clear_repr_conn.
      rewrite hmem_hset_other; [auto|apply k_conn_etag].
    + destruct (negb (body_allowed status)) eqn:BA; simpl in W.
      * destruct buf; injection W as <- <-; (split; [unfold same_conn; simpl; repeat split|]);
          (split; [|auto]); simpl; intros NC N.
        -- apply clear_repr_conn. rewrite hmem_hset_other; [auto|apply k_conn_etag].
        -- rewrite hmem_hset_other; [auto|apply k_conn_etag].
      * destruct (hmem K_CL (hset K_ETAG _ H0)); injection W as <- <-;
          (split; [unfold same_conn; simpl; repeat split|]); (split; [|discriminate]); simpl; intros NC N.
        -- rewrite hmem_hset_other; [auto|apply k_conn_etag].
        -- rewrite hmem_hset_other; [|apply k_conn_cl]. rewrite hmem_hset_other; [auto|apply k_conn_etag].
  - destruct (negb (body_allowed status)) eqn:BA; simpl in W.
    + destruct buf; injection W as <- <-; (split; [unfold same_conn; simpl; repeat split|]);
        (split; [|intros _; simpl; rewrite BA; apply orb_true_r]); simpl; intros NC N; auto.
      apply clear_repr_conn; auto.
    + destruct (hmem K_CL H0); injection W as <- <-;
        (split; [unfold same_conn; simpl; repeat split|]); (split; [|discriminate]); simpl; intros NC N; auto.
      rewrite hmem_hset_other; [auto|apply k_conn_cl].
Qed.

Lemma finish_A : forall rf s s' r, PhaseA q nc s -> finish e q rf s = (s', r) ->
  (r = false /\ PhaseD q nc s') \/
  (r = true /\ (PhaseX q nc s' \/ g_hdr_err s' = true \/
                (PhaseA q nc s' /\ (h_status s =? 200) || negb (body_allowed (h_status s)) = true))).
Proof.
  intros rf s s' r A W. rewrite finish_unfold in W.
  apply PhaseA_Fresh in A as (HW & F).
  assert (FIN : h_fin s = false) by (destruct F as (E & _); exact E).
  rewrite FIN, HW in W.
  destruct (finish_pre rf s) as [s1 r1] eqn:P.
  destruct (finish_pre_same _ _ _ _ P) as (SC & NC & RS).
  assert (A1 : PhaseA q nc s1).
  { apply PhaseA_Fresh. split.
    - destruct SC as (E & _). congruence.
    - eapply Fresh_same; [exact SC|exact F|]. apply NC.
      destruct F as (_&_&_&_&_&_&_&_&_&_&_&N). exact N. }
  destruct r1.
  - injection W as <- <-. right. split; auto.
  - destruct (flush q s1) as [s2 r2] eqn:F2.
    destruct (flush_A _ _ _ A1 F2) as [(-> & B2)|(-> & XE)].
    + destruct (conn_finish rf s2) as [s3 r3] eqn:F3.
      destruct (conn_finish_B _ _ _ _ B2 F3) as [(-> & D3)|(-> & X3)].
      * injection W as <- <-. left; auto.
      * injection W as <- <-. right; auto.
    + injection W as <- <-. right. split; auto. destruct XE; auto.
Qed.

(* ---------- the header-error flag is never reset ---------- *)
Lemma herr_mono_finish : forall rf s, g_hdr_err s = true -> g_hdr_err (fst (finish e q rf s)) = true.
Proof.
  intros rf s E. rewrite finish_unfold.
  destruct (h_fin s); [exact E|].
  assert (E1 : g_hdr_err (fst (if h_hw s then (s, false) else finish_pre rf s)) = true).
  { destruct (h_hw s); [exact E|]. destruct (finish_pre rf s) as [s1 r1] eqn:P.
    destruct (finish_pre_same _ _ _ _ P) as (SC & _). simpl.
    destruct SC as (_&_&_&_&_&_&_&_&_&SE&_). congruence. }
  destruct (if h_hw s then (s, false) else finish_pre rf s) as [s1 r1]. simpl in E1.
  destruct r1; [exact E1|].
  clear E. revert E1. generalize s1. clear s. intros s E.
  destruct s as [status H0 buf hw fin chunking rem disc closed head body term herr efin oerr blkd].
  simpl in E. subst herr. destruct blkd.
  all: unfold flush, write_headers, conn_write, conn_finish, fmt_check, drop_pending; simpl.
  all: repeat match goal with
         | |- context [if ?c then _ else _] => destruct c; simpl
         | |- context [match ?c with Some _ => _ | None => _ end] => destruct c; simpl
         end; reflexivity.
Qed.

(* ---------- operations that only touch status / headers / buffer ---------- *)
Definition simple_op (o : op) : bool :=
  match o with Flush | Finish => false | _ => true end.

Lemma do_op_simple : forall rf o s s' r, simple_op o = true -> do_op e q rf o s = (s', r) ->
  same_conn s s' /\
  ((nc = true -> sets_name K_CONN o = false) ->
   (nc = true -> hmem K_CONN (h_hdrs s) = false) -> (nc = true -> hmem K_CONN (h_hdrs s') = false)).
Proof.
  intros rf o s s' r SO W.
  destruct o; simpl in SO; try discriminate; simpl in W.
  - injection W as <- <-. split; [apply same_conn_status|]. destruct s; simpl; auto.
  - destruct (conv_value v); injection W as <- <-.
    + split; [apply same_conn_hdrs|]. destruct s; simpl. intros NS NC N.
      rewrite hmem_hset_other; auto. rewrite beqb_sym. auto.
    + split; [apply same_conn_refl|auto].
  - destruct (conv_value v) as [v'|]; [destruct (name_ok n && field_value_ok v')|]; injection W as <- <-.
    + split; [apply same_conn_hdrs|]. destruct s; simpl. intros NS NC N.
      rewrite hmem_hadd_other; auto. rewrite beqb_sym. auto.
    + split; [apply same_conn_refl|auto].
    + split; [apply same_conn_refl|auto].
  - injection W as <- <-. split; [apply same_conn_hdrs|]. destruct s; simpl. intros _ NC N.
    apply hmem_hdel_false; auto.
  - destruct (h_fin s); injection W as <- <-.
    + split; [apply same_conn_refl|auto].
    + split; [apply same_conn_buf|]. destruct s; simpl; auto.
Qed.

Lemma PhaseA_same : forall s s', same_conn s s' -> PhaseA q nc s ->
  (nc = true -> hmem K_CONN (h_hdrs s') = false) -> PhaseA q nc s'.
Proof.
  intros s s' SC A NC. apply PhaseA_Fresh in A as (HW & F). apply PhaseA_Fresh. split.
  - destruct SC as (E & _). congruence.
  - eapply Fresh_same; eauto.
Qed.

Lemma PhaseA_nc : forall s, PhaseA q nc s -> nc = true -> hmem K_CONN (h_hdrs s) = false.
Proof. intros s A. destruct A as (_&_&_&_&_&_&_&_&_&_&_&_&N). exact N. Qed.

(* ---------- _handle_request_exception / send_error ---------- *)
Lemma default_no_conn : hmem K_CONN (default_hdrs e) = false.
Proof. reflexivity. Qed.

Lemma on_exc_final : forall rf s,
  PhaseA q nc s \/ PhaseB q nc s \/ PhaseX q nc s \/ g_hdr_err s = true ->
  Final q nc (on_exc e q rf s).
Proof.
  intros rf s [A|[B|[X|E]]]; unfold on_exc.
  - (* nothing sent yet: the 500 page *)
    assert (FIN : h_fin s = false) by (destruct A as (_ & E & _); exact E).
    assert (HW : h_hw s = false) by (destruct A as (E & _); exact E).
    rewrite FIN, HW.
    set (sR := set_buf _ _).
    assert (AR : PhaseA q nc sR).
    { eapply PhaseA_same; [|exact A|].
      - subst sR. destruct s; unfold same_conn; simpl; repeat split.
      - intros _. subst sR. destruct s; simpl. apply default_no_conn. }
    assert (SR : h_status sR = 500) by (subst sR; destruct s; reflexivity).
    destruct (finish e q rf sR) as [s1 r1] eqn:F1.
    destruct (finish_A _ _ _ _ AR F1) as [(-> & D)|(-> & [X|[E|(A1 & C)]])].
    + assert (FIN1 : h_fin s1 = true) by (destruct D as (E & _); exact E).
      rewrite FIN1. left; exact D.
    + destruct (h_fin s1); right; left; [exact X|apply finish_X; exact X].
    + destruct (h_fin s1); right; right; [exact E|apply herr_mono_finish; exact E].
    + rewrite SR in C. discriminate.
  - assert (FIN : h_fin s = false) by (destruct B as (_ & E & _); exact E).
    assert (HW : h_hw s = true) by (destruct B as (E & _); exact E).
    rewrite FIN, HW.
    destruct (finish e q rf s) as [s1 r1] eqn:F1. simpl.
    destruct (finish_B _ _ _ _ B F1) as [(-> & D)|(-> & X)]; [left|right; left]; auto.
  - assert (HW : h_hw s = true) by (destruct X as (E & _); exact E).
    destruct (h_fin s); [right; left; exact X|]. rewrite HW.
    right; left. apply finish_X; exact X.
  - destruct (h_fin s); [right; right; exact E|].
    destruct (h_hw s); [right; right; apply herr_mono_finish; exact E|].
    set (sR := set_buf _ _).
    assert (ER : g_hdr_err sR = true) by (subst sR; destruct s; exact E).
    pose proof (herr_mono_finish rf sR ER) as E1.
    destruct (finish e q rf sR) as [s1 r1]. simpl in E1.
    destruct (h_fin s1); right; right; [exact E1|apply herr_mono_finish; exact E1].
Qed.

(* ---------- RequestHandler._execute ---------- *)
Lemma exec_fin : forall ops s, h_fin s = true -> exec e q ops s = s.
Proof. intros [|o t] s F; simpl; rewrite F; reflexivity. Qed.

Lemma exec_final : forall ops s,
  (nc = true -> forallb (fun o => negb (sets_name K_CONN o)) ops = true) ->
  PhaseA q nc s \/ PhaseB q nc s -> Final q nc (exec e q ops s).
Proof.
  induction ops as [|o t IH]; intros s NS AB.
  - simpl.
    assert (FIN : h_fin s = false).
    { destruct AB as [A|B]; [destruct A as (_ & E & _)|destruct B as (_ & E & _)]; exact E. }
    rewrite FIN.
    assert (ABb : PhaseA q nc (set_blocked s (blocked_auto q)) \/ PhaseB q nc (set_blocked s (blocked_auto q))).
    { destruct AB as [A|B]; [left|right]; destruct s; assumption. }
    clear AB. generalize dependent (set_blocked s (blocked_auto q)). clear s FIN. intros s AB.
    destruct (finish e q true s) as [s1 r1] eqn:F1.
    destruct AB as [A|B].
    + destruct (finish_A _ _ _ _ A F1) as [(-> & D)|(-> & [X|[E|(A1 & _)]])].
      * left; exact D.
      * apply on_exc_final; auto.
      * apply on_exc_final; auto.
      * apply on_exc_final; auto.
    + destruct (finish_B _ _ _ _ B F1) as [(-> & D)|(-> & X)].
      * left; exact D.
      * apply on_exc_final; auto.
  - assert (FIN : h_fin s = false).
    { destruct AB as [A|B]; [destruct A as (_ & E & _)|destruct B as (_ & E & _)]; exact E. }
    simpl. rewrite FIN.
    assert (NSo : nc = true -> sets_name K_CONN o = false).
    { intros N. specialize (NS N). simpl in NS. apply andb_true_iff in NS as [E _].
      apply negb_true_iff in E. exact E. }
    assert (NSt : nc = true -> forallb (fun o => negb (sets_name K_CONN o)) t = true).
    { intros N. specialize (NS N). simpl in NS. apply andb_true_iff in NS as [_ E]. exact E. }
    destruct (do_op e q (negb (q_early q)) o s) as [s1 r1] eqn:D1.
    destruct (simple_op o) eqn:SO.
    + destruct (do_op_simple _ _ _ _ _ SO D1) as (SC & NCP).
      assert (AB1 : PhaseA q nc s1 \/ PhaseB q nc s1).
      { destruct AB as [A|B]; [left|right].
        - eapply PhaseA_same; eauto. apply NCP; auto. apply PhaseA_nc; exact A.
        - eapply PhaseB_same; eauto. }
      destruct r1; [apply on_exc_final; tauto|apply IH; auto].
    + destruct o; simpl in SO; try discriminate; simpl in D1.
      * (* Flush *)
        destruct AB as [A|B].
        -- destruct (flush_A _ _ _ A D1) as [(-> & B1)|(-> & [X|E])];
             [apply IH; auto|apply on_exc_final; auto|apply on_exc_final; auto].
        -- destruct (flush_B _ _ _ B D1) as [(-> & B1)|(-> & X)];
             [apply IH; auto|apply on_exc_final; auto].
      * (* Finish *)
        destruct AB as [A|B].
        -- destruct (finish_A _ _ _ _ A D1) as [(-> & D)|(-> & [X|[E|(A1 & _)]])].
           ++ rewrite exec_fin; [left; exact D|destruct D as (E & _); exact E].
           ++ apply on_exc_final; auto.
           ++ apply on_exc_final; auto.
           ++ apply on_exc_final; auto.
        -- destruct (finish_B _ _ _ _ B D1) as [(-> & D)|(-> & X)].
           ++ rewrite exec_fin; [left; exact D|destruct D as (E & _); exact E].
           ++ apply on_exc_final; auto.
Qed.

Lemma init_PhaseA : (nc = true -> True) -> PhaseA q nc (init e q).
Proof.
  intros _. unfold PhaseA, init; simpl. repeat split; auto.
Qed.

Theorem run_final : forall p,
  (nc = true -> no_handler_connection p = true) -> Final q nc (run e q p).
Proof.
  intros p NS. unfold run. apply exec_final.
  - intros N. specialize (NS N). unfold no_handler_connection in NS.
    apply negb_true_iff in NS. clear N.
    induction p as [|o t IH]; simpl in *; auto.
    apply orb_false_iff in NS as [E1 E2]. rewrite E1. simpl. auto.
  - left. apply init_PhaseA. auto.
Qed.

End Trans.
