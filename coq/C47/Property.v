(* C47 — The WSGI container presents requests and responses faithfully.
   Property theorems only; proofs are in Proofs.v .. Proofs6.v. *)
From Coq Require Import List NArith Bool String.
Import ListNotations.
From TV Require Import Lib.C21_Utf8 Lib.C21_Pct C47.Model C47.Run C47.Proofs C47.Proofs2 C47.Proofs3 C47.Proofs4 C47.Proofs5 C47.Proofs6 Gen.C47_src Gen.C47_equiv.
Local Open Scope N_scope.

(* ---- building the environ never raises ---- *)

(* Whatever the Host value, the port split never applies int() to a non-number (fix c742a14). *)
Theorem C47_host_split_never_raises :
  forall host https, exists h p, split_host host https = inl (h, p).
Proof. exact split_host_total. Qed.
Print Assumptions C47_host_split_never_raises.

(* For every request the server accepts, environ() returns a dict. *)
Theorem C47_environ_never_raises :
  forall r a, accept r = Some a -> exists e, environ r a = EnvOk e.
Proof. exact environ_total. Qed.
Print Assumptions C47_environ_never_raises.

Theorem C47_container_never_fails_before_the_application :
  forall version r o, serve version r o <> EnvironRaised.
Proof. exact serve_never_environ_raised. Qed.
Print Assumptions C47_container_never_fails_before_the_application.

(* ---- the CGI variables are determined by the request ---- *)

(* method, query string, remote address, protocol, scheme and body are the request's; PATH_INFO
   is the percent-decoding of the path bytes; SERVER_NAME / SERVER_PORT are the host
   split, the port printed in decimal. *)
Theorem C47_fixed_variables :
  forall r a e, environ r a = EnvOk e ->
  e_method e = r_method r /\ e_query e = q_query a /\ e_remote e = q_remote a /\
  e_protocol e = (if r_v11 r then t "HTTP/1.1" else t "HTTP/1.0") /\
  e_scheme e = (if q_https a then t "https" else t "http") /\ e_input e = r_body r /\
  path_info (q_path a) = Some (e_path e) /\
  exists p, split_host (q_host a) (q_https a) = inl (e_name e, p) /\ e_port e = dec_N p.
Proof. exact environ_fixed. Qed.
Print Assumptions C47_fixed_variables.

(* request.protocol (which selects wsgi.url_scheme and the default SERVER_PORT) is the connection's
   protocol, unless the server was created with xheaders=True and the request carries X-Scheme (else
   X-Forwarded-Proto) whose last comma-separated entry, stripped, is exactly "http" or "https"; the
   header lookup is the per-name value sequence of the request's own header lines. *)
Theorem C47_request_protocol :
  forall r a, accept r = Some a -> q_https a = https_spec r.
Proof. exact accept_https. Qed.
Print Assumptions C47_request_protocol.

Theorem C47_protocol_without_xheaders :
  forall r, r_xheaders r = false -> https_spec r = r_https r.
Proof. intros r H. unfold https_spec, effective_https. rewrite H. reflexivity. Qed.
Print Assumptions C47_protocol_without_xheaders.

(* REMOTE_ADDR is the request's remote_ip after _apply_xheaders (C32's model of it: X-Forwarded-For
   walked from the right past trusted_downstream, overridden by X-Real-Ip, kept only if is_valid_ip
   accepts it, for any recorded getaddrinfo behaviour), and the connection's address without xheaders. *)
Theorem C47_remote_addr_is_the_xheaders_remote_ip :
  forall r a e, accept r = Some a -> environ r a = EnvOk e ->
  e_remote e =
  if r_xheaders r then
    let proto := if r_https r then C32.Model.s_https else C32.Model.s_http in
    C32.Model.remote_ip
      (C32.Model.apply_xheaders (gai_of (r_gai r))
         (C32.Model.mkCtx (r_remote_ip r) proto (r_remote_ip r) proto (r_trusted r))
         (C32.Model.classify_headers (map strip_value (r_headers r))))
  else r_remote_ip r.
Proof.
  intros r a e Ha He. destruct (environ_fixed r a e He) as [_ [_ [E _]]]. rewrite E.
  exact (proj2 (proj2 (proj2 (proj2 (accept_inv r a Ha))))).
Qed.
Print Assumptions C47_remote_addr_is_the_xheaders_remote_ip.

(* str(port) is the canonical decimal numeral of the port *)
Theorem C47_port_is_printed_in_decimal :
  forall p, int_digits (dec_N p) = Some p /\ canonical_dec (dec_N p) = true.
Proof. intro p. split; [apply int_digits_dec_N|apply canonical_dec_N]. Qed.
Print Assumptions C47_port_is_printed_in_decimal.

(* Host "name:digits" (at most five digits, possibly none), for ANY name (DNS name, IPv4 or
   bracketed IPv6 literal): the name before the last colon and the numeric port, the scheme's
   default when the digits are missing. *)
Theorem C47_host_with_port :
  forall name ds https, forallb is_digit ds = true -> (List.length ds <= 5)%nat ->
  split_host (name ++ 58 :: ds) https = inl (name, port_of https ds).
Proof. exact split_host_with_port. Qed.
Print Assumptions C47_host_with_port.

(* Host without a port: a name free of colons, or a bracketed literal whatever colons it contains. *)
Theorem C47_host_without_port :
  forall name https, (~ In 58 name \/ exists x, name = x ++ [93]) ->
  split_host name https = inl (name, if https then 443 else 80).
Proof. exact split_host_no_port. Qed.
Print Assumptions C47_host_without_port.

(* The split agrees with reading the Host value left to right (the checker's formulation). *)
Theorem C47_host_split_agrees_with_left_to_right_reading :
  forall h n ds https, host_spec h = Some (n, ds) -> split_host h https = inl (n, port_of https ds).
Proof. exact split_host_agrees_with_spec. Qed.
Print Assumptions C47_host_split_agrees_with_left_to_right_reading.

(* PATH_INFO is the percent-decoding of exactly the path's bytes, for every path the wire can
   deliver (code points < 256), hence for every accepted request (fix 9dbe448) ... *)
Theorem C47_path_info_is_percent_decoded :
  forall p, Forall (fun c => c < 256) p -> path_info p = Some (unquote_bytes p).
Proof. exact path_info_bytes. Qed.
Print Assumptions C47_path_info_is_percent_decoded.

Theorem C47_path_info_of_accepted_request :
  forall r a e, accept r = Some a -> environ r a = EnvOk e -> e_path e = unquote_bytes (q_path a).
Proof.
  intros r a e Ha He. destruct (environ_fixed r a e He) as [_ [_ [_ [_ [_ [_ [E _]]]]]]].
  rewrite (path_info_bytes _ (accept_path_bytes r a Ha)) in E. inversion E. reflexivity.
Qed.
Print Assumptions C47_path_info_of_accepted_request.

(* ... hence any byte string, percent-encoded by the client with any ASCII safe set that keeps
   '%' encoded, arrives in PATH_INFO intact. *)
Theorem C47_path_info_roundtrip :
  forall safe bs,
  (forall x, safe x = true -> x <> 37) -> (forall x, safe x = true -> x < 128) -> Forall (fun b => b < 256) bs ->
  path_info (quote_from_bytes safe bs) = Some bs.
Proof. exact path_info_roundtrip. Qed.
Print Assumptions C47_path_info_roundtrip.

(* the former defect: a raw non-ASCII byte in the path now arrives unchanged *)
Theorem C47_raw_non_ascii_path_example :
  exists a e, accept raw_path_request = Some a /\ environ raw_path_request a = EnvOk e /\ e_path e = [47; 233].
Proof. exact raw_non_ascii_path_example. Qed.
Print Assumptions C47_raw_non_ascii_path_example.

(* Every header line of the request is carried by its CGI variable (CONTENT_TYPE, CONTENT_LENGTH,
   HTTP_<NAME>): the variable exists, and unless a differently named header maps to the same
   variable ('-' and '_' are identified by CGI) its value is the comma-joined sequence of the
   values given to that name, case-insensitively, in order. *)
Theorem C47_headers_become_cgi_variables :
  forall r a e n v, accept r = Some a -> environ r a = EnvOk e ->
  let hs := map strip_value (r_headers r) in
  In (n, v) hs ->
  exists v', env_get (cgi_of n) (e_extra e) = Some v' /\
             (collides n hs = false -> v' = join [44] (values_of n hs)).
Proof. exact header_variable. Qed.
Print Assumptions C47_headers_become_cgi_variables.

(* The model's environ satisfies the environ part of the checker applied to the implementation. *)
Theorem C47_model_environ_passes_checker :
  forall r a e, accept r = Some a -> environ r a = EnvOk e -> check_env r a e = true.
Proof. exact check_env_model. Qed.
Print Assumptions C47_model_environ_passes_checker.

(* ---- the response ---- *)

(* Whatever reaches the transport is the application's: the status line is "HTTP/1.1 " + status,
   the body is the concatenation of the write() calls and the returned chunks (none for a HEAD
   request, fix a2172c8), and for every header name other than Connection the sequence of values on
   the wire is the sequence the application gave (case-insensitively, in order) followed by the
   default, if one was added; the default Content-Length is the length of the application's body
   also for HEAD.  C47_response_is_written below shows that a response IS written. *)
Theorem C47_response_unchanged :
  forall version r a o s wh b status hs,
  a_start o = Some (status, hs) -> status_ok status = true ->
  handle_request version r a o = Wire s wh b ->
  s = t "HTTP/1.1 " ++ status /\ b = sent_body r o /\
  (forall n, hname_eq n (t "connection") = false ->
             values_of n wh = values_of n (with_defaults version (status_code status) hs (app_body o))) /\
  (no_body_code (status_code status) = true -> sent_body r o = []).
Proof. exact handle_request_status_line. Qed.
Print Assumptions C47_response_unchanged.

(* the same without any assumption on the status string *)
Theorem C47_response_faithful_any_status :
  forall version r a o s wh b, handle_request version r a o = Wire s wh b ->
  exists status hs cs reason code,
    a_start o = Some (status, hs) /\ partition1 32 status = (cs, true, reason) /\ py_int cs = IntOk code /\
    utf8_encode (t "HTTP/1.1 " ++ dec_N code ++ [32] ++ reason) = Some s /\
    b = sent_body r o /\
    (forall n, hname_eq n (t "connection") = false ->
               values_of n wh = values_of n (with_defaults version code hs (app_body o))) /\
    (no_body_code code = true -> sent_body r o = []).
Proof. exact handle_request_faithful. Qed.
Print Assumptions C47_response_faithful_any_status.

(* Only the three defaults are added, each only when the application did not set that header
   (and Content-Length / Content-Type not for 304). *)
Theorem C47_only_the_three_defaults_are_added :
  forall n version code hs body,
  values_of n (with_defaults version code hs body) =
  values_of n hs
  ++ (if negb (code =? 304) && negb (app_has "content-length" hs) && hname_eq k_clen n
      then [dec_N (N.of_nat (List.length body))] else [])
  ++ (if negb (code =? 304) && negb (app_has "content-type" hs) && hname_eq k_ctype n then [default_ctype] else [])
  ++ (if negb (app_has "server" hs) && hname_eq k_server n then [t "TornadoServer/" ++ version] else []).
Proof. exact values_of_with_defaults. Qed.
Print Assumptions C47_only_the_three_defaults_are_added.

(* The body is never re-framed: chunked transfer encoding is never selected. *)
Theorem C47_response_never_chunked :
  forall version r a o, handle_request version r a o <> WChunked.
Proof. exact handle_request_never_chunked. Qed.
Print Assumptions C47_response_never_chunked.

(* the former defect: a HEAD request to an application that returns its body anyway gets the status
   line and the headers (Content-Length: 2), and no body *)
Theorem C47_head_response_example :
  exists a, accept head_request = Some a /\ app_ok true hello_app = true /\
            handle_request (t "6.6") head_request a hello_app =
            Wire (t "HTTP/1.1 200 OK")
                 [(t "Content-Length", t "2"); (t "Content-Type", default_ctype); (t "Server", t "TornadoServer/6.6")] [].
Proof. exact head_response_example. Qed.
Print Assumptions C47_head_response_example.

(* For every accepted request and every application output that PEP 3333 / HTTP allow (Run.app_ok:
   "DDD reason" status with printable ASCII reason, token header names, valid field values, no
   hop-by-hop headers, a correct Content-Length if any, no body with 1xx/204/304), the response is
   written, with exactly the application's body (no body for HEAD).  [version_ok]: tornado.version
   consists of visible characters.  Together with C47_response_unchanged this is the pass-through
   property at full strength. *)
Theorem C47_response_is_written :
  forall version r a o,
  version_ok version = true -> app_ok (text_eqb (r_method r) (t "HEAD")) o = true ->
  exists s wh, handle_request version r a o = Wire s wh (sent_body r o).
Proof. exact handle_request_writes. Qed.
Print Assumptions C47_response_is_written.

(* One WSGIContainer serving any sequence of requests: the outcome of the k-th request (the environ
   handed to the application and the response) is that of serving the k-th request alone; nothing is
   carried over from earlier requests (e.g. a SERVER_PORT computed for another scheme). *)
Theorem C47_requests_are_served_independently :
  forall version pre r o post,
  nth_error (container_run version tt (pre ++ (r, o) :: post)) (List.length pre) = Some (serve version r o).
Proof. exact container_stateless. Qed.
Print Assumptions C47_requests_are_served_independently.

(* The model satisfies the very checker that is applied to the implementation's observables on every
   correspondence case (a sequence of requests on one container), for every input. *)
Theorem C47_model_satisfies_checker :
  forall c, version_ok (fst c) = true -> check_case c (run_case c) = true.
Proof. exact check_case_model. Qed.
Print Assumptions C47_model_satisfies_checker.

(* ---- tie to the source text (regenerated from tornado/wsgi.py on every run) ---- *)

(* The host/port statements of WSGIContainer.environ, compiled statement by statement by
   translators/c47_src.py, compute the model's split_host for every Host value and scheme. *)
Theorem C47_source_host_split_is_the_model :
  forall h https, src_split_host h https = split_host h https.
Proof. exact src_split_host_eq. Qed.
Print Assumptions C47_source_host_split_is_the_model.

(* The rest of environ(): the dict literal has the fifteen keys in the model's order with the value
   sources the model assumes; the two content headers are popped into CONTENT_TYPE / CONTENT_LENGTH; the
   loop key is the model's cgi_key; _path_bytes tries latin-1 then UTF-8; and environ reads nothing of
   the container object but self.executor (no state between requests). *)
Theorem C47_source_environ_shape :
  src_fixed = expected_fixed /\
  map (fun p => (t (fst p), t (snd p))) src_content = [(k_ctype, K_CT); (k_clen, K_CL)] /\
  (forall k, src_cgi_key k = cgi_key k) /\
  src_path_bytes = [Latin1; Utf8] /\
  src_self_attrs = ["executor"%string].
Proof.
  split; [exact src_fixed_eq|]. split; [exact src_content_eq|]. split; [exact src_cgi_key_eq|].
  split; [exact src_path_bytes_eq|exact src_self_attrs_eq].
Qed.
Print Assumptions C47_source_environ_shape.

Example C47_hypotheses_are_satisfiable :
  version_ok (t "6.6.dev1") = true /\
  app_ok false hello_app = true /\
  (exists a, accept raw_path_request = Some a) /\
  (exists a, accept head_request = Some a /\ Forall (fun ch => ch < 128) (q_path a)).
Proof.
  split; [reflexivity|]. split; [reflexivity|]. split; [eexists; vm_compute; reflexivity|].
  eexists. split; [vm_compute; reflexivity|]. repeat constructor.
Qed.
