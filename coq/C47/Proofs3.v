(* C47 — proofs, part 3: request headers become CGI variables; the model's environ passes the
   environ part of the checker. *)
From Coq Require Import List NArith ZArith Bool String Lia ZifyBool.
Import ListNotations.
From TV Require Import Lib.Obs Lib.C21_Utf8 Lib.C21_Pct C47.Model C47.Run C47.Proofs C47.Proofs2.
Local Open Scope N_scope.

Definition K_CT := t "CONTENT_TYPE".
Definition K_CL := t "CONTENT_LENGTH".

Definition x1_of (h0 : hmap) : env :=
  match hm_get k_ctype h0 with Some v => [(K_CT, v)] | None => [] end.
Definition x2_of (h0 : hmap) : env :=
  match hm_get k_clen (hm_remove k_ctype h0) with Some v => env_set K_CL v (x1_of h0) | None => x1_of h0 end.
Definition h2_of (h0 : hmap) : hmap := hm_remove k_clen (hm_remove k_ctype h0).
Definition extras_of (h0 : hmap) : env :=
  fold_left (fun e kv => env_set (cgi_key (fst kv)) (snd kv) e) (hm_items (h2_of h0)) (x2_of h0).

Lemma hm_remove_absent k m : hm_find k m = None -> hm_remove k m = m.
Proof.
  induction m as [|[k0 vs] m IH]; cbn [hm_find hm_remove]; [reflexivity|].
  destruct (text_eqb k k0); [discriminate|]. intros H. rewrite (IH H). reflexivity.
Qed.

Lemma environ_extra r a e : environ r a = EnvOk e -> e_extra e = extras_of (q_headers a).
Proof.
  unfold environ, extras_of, x2_of, x1_of, h2_of, K_CT, K_CL.
  destruct (split_host (q_host a) (q_https a)) as [[h p]|]; [|discriminate].
  destruct (path_info (q_path a)) as [pi|]; [|discriminate].
  unfold hm_get. destruct (hm_find k_ctype (q_headers a)) as [vs|] eqn:E1; cbn [option_map].
  - destruct (hm_find k_clen (hm_remove k_ctype (q_headers a))) as [ws|] eqn:E2; cbn [option_map];
      intros H; injection H as <-; cbn [e_extra env_set].
    + reflexivity.
    + rewrite (hm_remove_absent _ _ E2). reflexivity.
  - rewrite (hm_remove_absent _ _ E1).
    destruct (hm_find k_clen (q_headers a)) as [ws|] eqn:E2; cbn [option_map];
      intros H; injection H as <-; cbn [e_extra env_set].
    + reflexivity.
    + rewrite (hm_remove_absent _ _ E2). reflexivity.
Qed.

Lemma CT_not_cgi k : text_eqb K_CT (cgi_key k) = false.
Proof. reflexivity. Qed.
Lemma CL_not_cgi k : text_eqb K_CL (cgi_key k) = false.
Proof. reflexivity. Qed.

Lemma existsb_false_In {A} (p : A -> bool) l x : existsb p l = false -> In x l -> p x = false.
Proof.
  intros H Hin. destruct (p x) eqn:E; [|reflexivity].
  assert (existsb p l = true) by (apply existsb_exists; eauto). congruence.
Qed.

Lemma norm_ct : normalize (t "content-type") = k_ctype. Proof. reflexivity. Qed.
Lemma norm_cl : normalize (t "content-length") = k_clen. Proof. reflexivity. Qed.
Lemma ct_ne_cl : text_eqb k_clen k_ctype = false. Proof. reflexivity. Qed.

Section Extras.
  Variable hs : list (text * text).
  Variable h0 : hmap.
  Hypothesis Hadd : hdr_add_all [] hs = Some h0.

  Lemma h0_find k : hm_find k h0 = match vals k hs with [] => None | w => Some w end.
  Proof. rewrite (hdr_add_all_find _ _ _ Hadd k). reflexivity. Qed.

  Lemma h0_nodup : NoDup (keys h0).
  Proof. apply (hdr_add_all_nodup _ _ _ Hadd). constructor. Qed.

  Lemma h0_find_present n v : In (n, v) hs -> hm_find (normalize n) h0 = Some (vals (normalize n) hs).
  Proof.
    intros Hin. rewrite h0_find. destruct (vals (normalize n) hs) eqn:E; [|reflexivity].
    exfalso. exact (vals_nonempty (normalize n) hs (n, v) Hin eq_refl E).
  Qed.

  Lemma env_get_extras K :
    env_get K (extras_of h0) = fold_left (step K) (hm_items (h2_of h0)) (env_get K (x2_of h0)).
  Proof. unfold extras_of. apply env_get_fold. Qed.

  Lemma extras_ct n v : In (n, v) hs -> hname_eq n (t "content-type") = true ->
    env_get K_CT (extras_of h0) = Some (join [44] (values_of n hs)).
  Proof.
    intros Hin Hn. apply hname_eq_iff in Hn. rewrite norm_ct in Hn.
    rewrite env_get_extras, fold_step_nomatch by (intros kv _; apply CT_not_cgi).
    assert (Hx1 : env_get K_CT (x1_of h0) = Some (join [44] (values_of n hs))).
    { unfold x1_of, hm_get. rewrite <- Hn, (h0_find_present n v Hin). cbn [option_map env_get].
      rewrite text_eqb_refl, values_of_vals. reflexivity. }
    unfold x2_of. destruct (hm_get k_clen (hm_remove k_ctype h0)); [|exact Hx1].
    rewrite env_get_set. replace (text_eqb K_CT K_CL) with false by reflexivity. exact Hx1.
  Qed.

  Lemma extras_cl n v : In (n, v) hs -> hname_eq n (t "content-length") = true ->
    env_get K_CL (extras_of h0) = Some (join [44] (values_of n hs)).
  Proof.
    intros Hin Hn. apply hname_eq_iff in Hn. rewrite norm_cl in Hn.
    rewrite env_get_extras, fold_step_nomatch by (intros kv _; apply CL_not_cgi).
    unfold x2_of, hm_get. rewrite hm_find_remove_other by exact ct_ne_cl.
    rewrite <- Hn, (h0_find_present n v Hin). cbn [option_map]. rewrite env_get_set, text_eqb_refl, values_of_vals.
    reflexivity.
  Qed.

  Lemma cgi_of_other n :
    hname_eq n (t "content-type") = false -> hname_eq n (t "content-length") = false ->
    cgi_of n = cgi_key (normalize n).
  Proof. intros H1 H2. unfold cgi_of. rewrite H1, H2, cgi_key_normalize. reflexivity. Qed.

  Lemma h2_keys k : In k (keys (h2_of h0)) ->
    k <> k_ctype /\ k <> k_clen /\ exists nv, In nv hs /\ k = normalize (fst nv).
  Proof.
    intros Hk. unfold h2_of in Hk.
    assert (Hn1 : NoDup (keys (hm_remove k_ctype h0))) by (apply nodup_remove, h0_nodup).
    split; [|split].
    - intros ->. apply (remove_not_in k_ctype h0 h0_nodup). apply (keys_remove_incl k_clen). exact Hk.
    - intros ->. exact (remove_not_in k_clen _ Hn1 Hk).
    - apply keys_remove_incl, keys_remove_incl in Hk.
      destruct (hdr_add_all_keys _ _ _ Hadd k Hk) as [[]|H]. exact H.
  Qed.

  Lemma extras_other n v : In (n, v) hs ->
    hname_eq n (t "content-type") = false -> hname_eq n (t "content-length") = false ->
    exists v', env_get (cgi_of n) (extras_of h0) = Some v' /\
               (collides n hs = false -> v' = join [44] (values_of n hs)).
  Proof.
    intros Hin H1 H2. rewrite (cgi_of_other n H1 H2). set (k := normalize n). set (K := cgi_key k).
    assert (Hk1 : text_eqb k k_ctype = false).
    { apply text_eqb_neq. intros E. rewrite <- norm_ct in E. apply hname_eq_iff in E. congruence. }
    assert (Hk2 : text_eqb k k_clen = false).
    { apply text_eqb_neq. intros E. rewrite <- norm_cl in E. apply hname_eq_iff in E. congruence. }
    assert (Hf : hm_find k (h2_of h0) = Some (vals k hs)).
    { unfold h2_of. rewrite !hm_find_remove_other by assumption. exact (h0_find_present n v Hin). }
    assert (Hit : In (k, join [44] (vals k hs)) (hm_items (h2_of h0))).
    { apply hm_items_In. exists (vals k hs). split; [apply hm_find_In; exact Hf|reflexivity]. }
    rewrite env_get_extras.
    destruct (fold_step_exists K (hm_items (h2_of h0))
                (ex_intro _ (k, join [44] (vals k hs)) (conj Hit (text_eqb_refl _))) (env_get K (x2_of h0))) as [v' Hv'].
    exists v'. split; [exact Hv'|]. intros Hc.
    rewrite (fold_step_unique K (hm_items (h2_of h0)) k (join [44] (vals k hs))) in Hv'.
    - inversion Hv'. rewrite values_of_vals. reflexivity.
    - rewrite hm_items_fst. unfold h2_of. apply nodup_remove, nodup_remove, h0_nodup.
    - exact Hit.
    - reflexivity.
    - intros k' v'' Hin' He.
      assert (Hk' : In k' (keys (h2_of h0))).
      { rewrite <- hm_items_fst. apply in_map_iff. exists (k', v''). split; [reflexivity|exact Hin']. }
      destruct (h2_keys k' Hk') as [N1 [N2 [[n' w] [Hin'' ->]]]]. cbn [fst] in *.
      assert (F1 : hname_eq n' (t "content-type") = false).
      { destruct (hname_eq n' (t "content-type")) eqn:F; [|reflexivity]. apply hname_eq_iff in F. rewrite norm_ct in F. contradiction. }
      assert (F2 : hname_eq n' (t "content-length") = false).
      { destruct (hname_eq n' (t "content-length")) eqn:F; [|reflexivity]. apply hname_eq_iff in F. rewrite norm_cl in F. contradiction. }
      assert (Hp := existsb_false_In _ _ (n', w) Hc Hin''). cbn [fst] in Hp.
      rewrite (cgi_of_other n' F1 F2), (cgi_of_other n H1 H2) in Hp. fold k in Hp. fold K in Hp.
      rewrite He, text_eqb_refl in Hp. cbn [andb] in Hp. apply negb_false_iff in Hp.
      apply hname_eq_iff in Hp. exact Hp.
  Qed.

  Lemma check_headers_extras : check_headers hs (extras_of h0) = true.
  Proof.
    unfold check_headers. apply forallb_forall. intros [n v] Hin. cbn [fst].
    destruct (hname_eq n (t "content-type")) eqn:H1.
    - assert (E : cgi_of n = K_CT) by (unfold cgi_of; rewrite H1; reflexivity).
      rewrite E, (extras_ct n v Hin H1), text_eqb_refl. apply orb_true_r.
    - destruct (hname_eq n (t "content-length")) eqn:H2.
      + assert (E : cgi_of n = K_CL) by (unfold cgi_of; rewrite H1, H2; reflexivity).
        rewrite E, (extras_cl n v Hin H2), text_eqb_refl. apply orb_true_r.
      + destruct (extras_other n v Hin H1 H2) as [v' [Hg Hv]]. rewrite Hg.
        destruct (collides n hs) eqn:C; [reflexivity|]. rewrite (Hv eq_refl), text_eqb_refl. reflexivity.
  Qed.
End Extras.

(* ---------------- accept ---------------- *)
Lemma accept_inv r a : accept r = Some a ->
  hdr_add_all [] (map strip_value (r_headers r)) = Some (q_headers a) /\
  (exists f, partition1 63 (r_uri r) = (q_path a, f, q_query a)) /\
  host_abnf (q_host a) = true /\
  q_https a = effective_https (r_xheaders r) (r_https r) (hm_get k_xscheme (q_headers a)) (hm_get k_xfproto (q_headers a)) /\
  q_remote a = remote_spec r.
Proof.
  unfold accept. intros H.
  destruct (negb (is_token (r_method r))); [discriminate|].
  destruct (negb match r_uri r with [] => false | _ => forallb field_vchar (r_uri r) end); [discriminate|].
  destruct (hdr_add_all [] (map strip_value (r_headers r))) as [hm|]; [|discriminate].
  destruct (match hm_get k_host hm with Some v => Some v | None => if r_v11 r then None else Some (t "127.0.0.1") end) as [hv|];
    [|discriminate].
  destruct (negb (host_abnf hv)) eqn:Eh; [discriminate|].
  destruct (existsb (N.eqb 44) hv); [discriminate|].
  destruct (partition1 63 (r_uri r)) as [[p f] q] eqn:P. inversion H; subst. cbn.
  split; [reflexivity|]. split; [eauto|]. split; [apply negb_false_iff; exact Eh|]. split; reflexivity.
Qed.

Lemma hm_get_joined hs h0 n : hdr_add_all [] hs = Some h0 -> hm_get (normalize n) h0 = joined n hs.
Proof.
  intros Hadd. unfold hm_get, joined. rewrite (h0_find hs h0 Hadd), values_of_vals.
  destruct (vals (normalize n) hs); reflexivity.
Qed.

Lemma accept_https r a : accept r = Some a -> q_https a = https_spec r.
Proof.
  intros Ha. destruct (accept_inv r a Ha) as [Hadd [_ [_ [E _]]]]. rewrite E. unfold https_spec.
  change k_xscheme with (normalize (t "x-scheme")). change k_xfproto with (normalize (t "x-forwarded-proto")).
  rewrite !(hm_get_joined _ _ _ Hadd). reflexivity.
Qed.

Lemma check_host_model https host name p :
  split_host host https = inl (name, p) -> check_host https host name (dec_N p) = true.
Proof.
  intros Hs. unfold check_host. rewrite canonical_dec_N. cbn [andb].
  destruct (host_spec host) as [[n ds]|] eqn:E; [|reflexivity].
  rewrite (split_host_agrees_with_spec _ _ _ https E) in Hs. inversion Hs; subst.
  rewrite text_eqb_refl, int_digits_dec_N. cbn [andb]. unfold port_of, default_port.
  destruct ds; apply N.eqb_refl.
Qed.

(* the model's environ passes the environ part of the checker, for every accepted request *)
Lemma check_env_model r a e :
  accept r = Some a -> environ r a = EnvOk e -> check_env r a e = true.
Proof.
  intros Ha He. destruct (accept_inv r a Ha) as [Hadd _].
  destruct (environ_fixed r a e He) as [E1 [E2 [E3 [E4 [E5 [E6 [E7 [p [E8 E9]]]]]]]]].
  unfold check_env. rewrite <- (accept_https r a Ha). rewrite <- (proj2 (proj2 (proj2 (proj2 (accept_inv r a Ha))))). rewrite E1, E2, E3, E4, E5, E6, E9, !text_eqb_refl.
  rewrite (path_info_bytes _ (accept_path_bytes r a Ha)) in E7. inversion E7 as [E7']. rewrite text_eqb_refl.
  rewrite (check_host_model _ _ _ _ E8). rewrite (environ_extra r a e He).
  rewrite (check_headers_extras _ _ Hadd). reflexivity.
Qed.
