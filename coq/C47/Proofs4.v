(* C47 — proofs, part 4: what reaches the transport is what the application produced (plus the
   defaults); chunked output is never used; instances for the two former defects. *)
From Coq Require Import List NArith ZArith Bool String Lia ZifyBool.
Import ListNotations.
From TV Require Import Lib.Obs Lib.C21_Utf8 Lib.C21_Pct C47.Model C47.Run C47.Proofs C47.Proofs2 C47.Proofs3.
Local Open Scope N_scope.

(* ---------------- get_all of a header map, per name ---------------- *)
Lemma values_of_app n l1 l2 : values_of n (l1 ++ l2) = values_of n l1 ++ values_of n l2.
Proof. unfold values_of. rewrite filter_app, map_app. reflexivity. Qed.

Lemma values_of_key k0 vs n :
  values_of n (map (fun v => (k0, v)) vs) = if hname_eq k0 n then vs else [].
Proof.
  unfold values_of. induction vs as [|v vs IH]; cbn [map filter fst]; [destruct (hname_eq k0 n); reflexivity|].
  destruct (hname_eq k0 n) eqn:E; cbn [map snd]; [rewrite IH; reflexivity|exact IH].
Qed.

Lemma hm_find_not_in k m : ~ In k (keys m) -> hm_find k m = None.
Proof.
  induction m as [|[k0 vs] m IH]; cbn [hm_find keys map]; [reflexivity|]. intros H.
  destruct (text_eqb k k0) eqn:E.
  - apply text_eqb_eq in E. subst. exfalso. apply H. left. reflexivity.
  - apply IH. intros Hin. apply H. right. exact Hin.
Qed.

Definition normal_keys (m : hmap) : Prop := forall k, In k (keys m) -> normalize k = k.

Lemma get_all_values n m : NoDup (keys m) -> normal_keys m ->
  values_of n (hm_get_all m) = match hm_find (normalize n) m with Some vs => vs | None => [] end.
Proof.
  induction m as [|[k0 vs] m IH]; intros Hnd Hnk; [reflexivity|].
  cbn [keys map fst] in Hnd. inversion Hnd as [|? ? Hk0 Hnd']; subst.
  assert (Hnk' : normal_keys m) by (intros k Hk; apply Hnk; right; exact Hk).
  cbn [hm_get_all flat_map fst snd]. rewrite values_of_app, values_of_key. fold (hm_get_all m).
  rewrite (IH Hnd' Hnk'). cbn [hm_find].
  assert (N0 : normalize k0 = k0) by (apply Hnk; left; reflexivity).
  destruct (hname_eq k0 n) eqn:E.
  - apply hname_eq_iff in E. rewrite N0 in E. rewrite <- E, text_eqb_refl.
    rewrite (hm_find_not_in k0 m Hk0), app_nil_r. reflexivity.
  - replace (text_eqb (normalize n) k0) with false; [reflexivity|].
    symmetry. apply text_eqb_neq. intros Heq. subst k0. rewrite hname_eq_normalize_l, hname_eq_refl in E. discriminate.
Qed.

Lemma hm_find_set k k' v m :
  hm_find k (hm_set k' v m) = if text_eqb k k' then Some [v] else hm_find k m.
Proof.
  induction m as [|[k0 vs] m IH]; cbn [hm_set hm_find].
  - destruct (text_eqb k k'); reflexivity.
  - destruct (text_eqb k' k0) eqn:E0.
    + apply text_eqb_eq in E0. subst k0. cbn [hm_find]. destruct (text_eqb k k'); reflexivity.
    + cbn [hm_find]. destruct (text_eqb k k0) eqn:E1.
      * apply text_eqb_eq in E1. subst k0. replace (text_eqb k k') with false; [reflexivity|].
        symmetry. apply text_eqb_neq. intros ->. rewrite text_eqb_refl in E0. discriminate.
      * exact IH.
Qed.

Lemma keys_set k v m : keys (hm_set k v m) = if hm_mem k m then keys m else keys m ++ [k].
Proof.
  unfold hm_mem. induction m as [|[k0 vs] m IH]; cbn [hm_set hm_find keys map]; [reflexivity|].
  destruct (text_eqb k k0) eqn:E; [reflexivity|]. cbn [map fst]. fold (keys (hm_set k v m)). rewrite IH.
  destruct (hm_find k m); reflexivity.
Qed.

Lemma nodup_set k v m : NoDup (keys m) -> NoDup (keys (hm_set k v m)).
Proof.
  intros H. rewrite keys_set. unfold hm_mem. destruct (hm_find k m) eqn:E; [exact H|].
  apply NoDup_snoc; [exact H|apply hm_find_None_keys; exact E].
Qed.

Lemma normal_set k v m : normalize k = k -> normal_keys m -> normal_keys (hm_set k v m).
Proof.
  intros Hk Hm x Hx. rewrite keys_set in Hx. destruct (hm_mem k m); [exact (Hm x Hx)|].
  apply in_app_or in Hx as [Hx|[<-|[]]]; [exact (Hm x Hx)|exact Hk].
Qed.

Lemma norm_conn : normalize (t "connection") = k_conn. Proof. reflexivity. Qed.
Lemma norm_k_conn : normalize k_conn = k_conn. Proof. reflexivity. Qed.

(* a Connection header written by the connection layer leaves every other name alone *)
Lemma values_after_set n x m : NoDup (keys m) -> normal_keys m -> hname_eq n (t "connection") = false ->
  values_of n (hm_get_all (hm_set k_conn x m)) = values_of n (hm_get_all m).
Proof.
  intros Hnd Hnk Hn. rewrite !get_all_values; try assumption; [|apply nodup_set; exact Hnd|apply normal_set; [exact norm_k_conn|exact Hnk]].
  rewrite hm_find_set. replace (text_eqb (normalize n) k_conn) with false; [reflexivity|].
  symmetry. apply text_eqb_neq. intros E. rewrite <- norm_conn in E. apply hname_eq_iff in E. congruence.
Qed.

(* ---------------- write_headers: what it writes ---------------- *)
Lemma write_headers_inv v11 m rh code reason ho chunk s wh b :
  NoDup (keys ho) -> normal_keys ho ->
  write_headers v11 m rh code reason ho chunk = Wire s wh b ->
  b = chunk /\ utf8_encode (t "HTTP/1.1 " ++ dec_N code ++ [32] ++ reason) = Some s /\
  (forall n, hname_eq n (t "connection") = false -> values_of n wh = values_of n (hm_get_all ho)) /\
  (text_eqb m (t "HEAD") = true \/ no_body_code code = true -> chunk = []).
Proof.
  intros Hnd Hnk. unfold write_headers.
  set (is_head := text_eqb m (t "HEAD")). set (disc := negb (can_keep_alive v11 m rh)).
  set (h1 := if v11 && disc then hm_set k_conn (t "close") ho else ho).
  set (disc' := if negb v11 && negb is_head && negb (no_body_code code) && negb (hm_mem k_clen h1) then true else disc).
  set (ka := match hm_get k_conn rh with Some x => text_eqb (text_lower x) (t "keep-alive") | None => false end).
  set (h2 := if negb v11 && ka && negb disc' then hm_set k_conn (t "Keep-Alive") h1 else h1).
  assert (H2 : forall n, hname_eq n (t "connection") = false ->
                         values_of n (hm_get_all h2) = values_of n (hm_get_all ho)).
  { intros n Hn. unfold h2, h1. destruct v11; cbn [negb andb].
    - destruct disc; cbn [andb]; [apply values_after_set; assumption|reflexivity].
    - destruct (ka && negb disc'); [apply values_after_set; assumption|reflexivity]. }
  destruct (v11 && negb is_head && negb (no_body_code code) && negb (hm_mem k_clen ho)); [discriminate|].
  set (expected := if is_head || no_body_code code then Some (Some 0)
                   else match hm_get k_clen h2 with
                        | Some v => match int_digits v with Some n => Some (Some n) | None => None end
                        | None => Some None
                        end).
  destruct expected as [ex|] eqn:Eex; [|discriminate].
  destruct (utf8_encode (t "HTTP/1.1 " ++ dec_N code ++ [32] ++ reason)) as [start|]; [|discriminate].
  destruct (negb (reason_ok reason)); [discriminate|].
  destruct (negb (forallb (fun nv => forallb value_char (snd nv)) (hm_get_all h2))); [discriminate|].
  destruct (negb (forallb (fun nv => is_token (fst nv)) (hm_get_all h2))); [discriminate|].
  match goal with |- (if ?c then _ else _) = _ -> _ => destruct c; [discriminate|] end.
  match goal with |- (if ?c then _ else _) = _ -> _ => destruct c; [discriminate|] end.
  match goal with |- (if ?c then _ else _) = _ -> _ => destruct c eqn:Etm; [discriminate|] end.
  intros H. inversion H; subst. split; [reflexivity|]. split; [reflexivity|]. split; [exact H2|].
  intros Hnb. unfold expected in Eex.
  assert (Ec : is_head || no_body_code code = true) by (destruct Hnb as [->| ->]; [reflexivity|apply orb_true_r]).
  rewrite Ec in Eex. inversion Eex; subst ex. destruct b as [|c0 b']; [reflexivity|].
  cbn [List.length] in Etm. lia.
Qed.

(* chunked transfer encoding is never selected: the container always supplies a Content-Length
   unless the status is 304 *)
Lemma app_has_spec k hs : app_has k hs = existsb (fun nv => text_eqb (t k) (text_lower (fst nv))) hs.
Proof. unfold app_has. induction hs as [|x hs IH]; [reflexivity|]. cbn [map existsb]. rewrite IH. reflexivity. Qed.

Lemma lower_cl : text_lower k_clen = t "content-length". Proof. reflexivity. Qed.

Lemma defaults_have_clen ver code hs body :
  (code =? 304) = false -> exists nv, In nv (with_defaults ver code hs body) /\ normalize (fst nv) = k_clen.
Proof.
  intros Hc. unfold with_defaults. rewrite Hc. cbn [negb].
  assert (Hin : exists nv,
    In nv (if negb (app_has "content-length" hs) then hs ++ [(k_clen, dec_N (N.of_nat (List.length body)))] else hs)
    /\ normalize (fst nv) = k_clen).
  { destruct (app_has "content-length" hs) eqn:E; cbn [negb].
    - rewrite app_has_spec in E. apply existsb_exists in E as [nv [Hin E]]. apply text_eqb_eq in E.
      exists nv. split; [exact Hin|]. rewrite <- norm_cl. apply normalize_eq_iff. rewrite <- E. reflexivity.
    - eexists. split; [apply in_or_app; right; left; reflexivity|reflexivity]. }
  destruct Hin as [nv [Hin Hn]]. exists nv. split; [|exact Hn].
  destruct (negb (app_has "server" hs)); [apply in_or_app; left|];
    (destruct (negb (app_has "content-type" hs)); [apply in_or_app; left; exact Hin|exact Hin]).
Qed.

Lemma hdr_add_all_normal l ho : hdr_add_all [] l = Some ho -> normal_keys ho.
Proof.
  intros H k Hk. destruct (hdr_add_all_keys _ _ _ H k Hk) as [[]|[nv [_ ->]]]. apply normalize_idem.
Qed.

Lemma get_all_of_added n l ho : hdr_add_all [] l = Some ho -> values_of n (hm_get_all ho) = values_of n l.
Proof.
  intros H. rewrite get_all_values; [|apply (hdr_add_all_nodup _ _ _ H); constructor|exact (hdr_add_all_normal _ _ H)].
  rewrite (hdr_add_all_find _ _ _ H). cbn [hm_find]. rewrite values_of_vals.
  destruct (vals (normalize n) l); reflexivity.
Qed.

Lemma handle_request_never_chunked ver r a o : handle_request ver r a o <> WChunked.
Proof.
  unfold handle_request. destruct (a_start o) as [[status hs]|]; [|discriminate].
  destruct (partition1 32 status) as [[cs sp] reason]. destruct sp; [|discriminate]. cbn [negb].
  destruct (py_int cs) as [code| |]; try discriminate.
  destruct (hdr_add_all [] (with_defaults ver code hs (List.concat (a_written o ++ a_chunks o)))) as [ho|] eqn:Ea; [|discriminate].
  unfold write_headers.
  destruct (r_v11 r && negb (text_eqb (r_method r) (t "HEAD")) && negb (no_body_code code) && negb (hm_mem k_clen ho)) eqn:Ec.
  - exfalso. apply andb_true_iff in Ec as [Ec Em]. apply andb_true_iff in Ec as [_ Enb].
    apply negb_true_iff in Em. apply negb_true_iff in Enb.
    assert (H304 : (code =? 304) = false).
    { unfold no_body_code in Enb. apply orb_false_iff in Enb as [Enb _]. apply orb_false_iff in Enb as [_ Enb]. exact Enb. }
    destruct (defaults_have_clen ver code hs (List.concat (a_written o ++ a_chunks o)) H304) as [nv [Hin Hn]].
    unfold hm_mem in Em. rewrite (hdr_add_all_find _ _ _ Ea k_clen) in Em. cbn [hm_find] in Em.
    destruct (vals k_clen (with_defaults ver code hs (List.concat (a_written o ++ a_chunks o)))) eqn:Ev; [|discriminate].
    exact (vals_nonempty k_clen _ nv Hin (eq_sym Hn) Ev).
  - repeat match goal with |- context [match ?x with _ => _ end] => destruct x; try discriminate end.
Qed.

(* the body handed to the connection: none for HEAD (fix a2172c8) *)
Definition sent_body (r : request) (o : app_out) : text :=
  if text_eqb (r_method r) (t "HEAD") then [] else app_body o.

(* what is written is what the application produced *)
Lemma handle_request_faithful ver r a o s wh b :
  handle_request ver r a o = Wire s wh b ->
  exists status hs cs reason code,
    a_start o = Some (status, hs) /\ partition1 32 status = (cs, true, reason) /\ py_int cs = IntOk code /\
    utf8_encode (t "HTTP/1.1 " ++ dec_N code ++ [32] ++ reason) = Some s /\
    b = sent_body r o /\
    (forall n, hname_eq n (t "connection") = false ->
               values_of n wh = values_of n (with_defaults ver code hs (app_body o))) /\
    (no_body_code code = true -> sent_body r o = []).
Proof.
  unfold handle_request. fold (app_body o). fold (sent_body r o). destruct (a_start o) as [[status hs]|]; [|discriminate].
  destruct (partition1 32 status) as [[cs sp] reason] eqn:P. destruct sp; [|discriminate]. cbn [negb].
  destruct (py_int cs) as [code| |] eqn:Ei; try discriminate.
  destruct (hdr_add_all [] (with_defaults ver code hs (app_body o))) as [ho|] eqn:Ea; [|discriminate].
  intros H. apply write_headers_inv in H as [Hb [Hs [Hv Hnb]]];
    [|apply (hdr_add_all_nodup _ _ _ Ea); constructor|exact (hdr_add_all_normal _ _ Ea)].
  exists status, hs, cs, reason, code. repeat split; try assumption; try reflexivity.
  - intros n Hn. rewrite (Hv n Hn). apply get_all_of_added. exact Ea.
  - intros Hn. apply Hnb. right. exact Hn.
Qed.

(* ---------------- a well-formed status line is reproduced exactly ---------------- *)
Definition D10 : list N := map N.of_nat (seq 48 10).
Lemma in_D10 c : is_digit c = true -> In c D10.
Proof.
  intros H. apply is_digit_spec in H. unfold D10. apply in_map_iff. exists (N.to_nat c). split; [lia|].
  apply in_seq. lia.
Qed.
Lemma dec3_table :
  forallb (fun a => forallb (fun b => forallb (fun c =>
     negb (in_range 49 57 a) || text_eqb (dec_N (digits_to_N 0 [a; b; c])) [a; b; c]) D10) D10) D10 = true.
Proof. vm_compute. reflexivity. Qed.
Lemma dec3 a b c : in_range 49 57 a = true -> is_digit b = true -> is_digit c = true ->
  dec_N (digits_to_N 0 [a; b; c]) = [a; b; c].
Proof.
  intros Ha Hb Hc. assert (Ha' : is_digit a = true) by (unfold is_digit, in_range in *; lia).
  pose proof dec3_table as T. rewrite forallb_forall in T. specialize (T a (in_D10 a Ha')).
  rewrite forallb_forall in T. specialize (T b (in_D10 b Hb)).
  rewrite forallb_forall in T. specialize (T c (in_D10 c Hc)).
  rewrite Ha in T. cbn [negb orb] in T. apply text_eqb_eq in T. exact T.
Qed.

Lemma status_ok_inv status : status_ok status = true ->
  exists a b c reason, status = a :: b :: c :: 32 :: reason /\
    partition1 32 status = ([a; b; c], true, reason) /\ py_int [a; b; c] = IntOk (status_code status) /\
    dec_N (status_code status) = [a; b; c] /\ Forall (fun x => x < 128) reason /\ has_crlf reason = false /\
    reason_ok reason = true.
Proof.
  unfold status_ok. destruct status as [|a [|b [|c [|sp reason]]]]; try discriminate.
  destruct sp as [|p]; [discriminate|]. do 6 (destruct p as [p|p|]; try discriminate).
  intros H. apply andb_true_iff in H as [H Hr]. apply andb_true_iff in H as [H Hc]. apply andb_true_iff in H as [Ha Hb].
  exists a, b, c, reason.
  assert (Na : (a =? 32) = false) by (unfold in_range in Ha; lia).
  assert (Nb : (b =? 32) = false) by (unfold is_digit, in_range in Hb; lia).
  assert (Nc : (c =? 32) = false) by (unfold is_digit, in_range in Hc; lia).
  assert (Da : is_digit a = true) by (unfold is_digit, in_range in *; lia).
  split; [reflexivity|]. split.
  { cbn [partition1]. rewrite Na. cbn [partition1]. rewrite Nb. cbn [partition1]. rewrite Nc. cbn [partition1].
    rewrite N.eqb_refl. reflexivity. }
  split.
  { unfold py_int, int_digits, status_code. cbn [forallb firstn]. rewrite Da, Hb, Hc. reflexivity. }
  split.
  { unfold status_code. cbn [firstn]. apply dec3; assumption. }
  split.
  - apply Forall_forall. intros x Hx. rewrite forallb_forall in Hr. specialize (Hr x Hx). unfold in_range in Hr. lia.
  - split.
    + unfold has_crlf. destruct (existsb (fun c0 => (c0 =? 13) || (c0 =? 10)) reason) eqn:E; [|reflexivity].
      apply existsb_exists in E as [x [Hx E]]. rewrite forallb_forall in Hr. specialize (Hr x Hx). unfold in_range in Hr. lia.
    + unfold reason_ok. apply forallb_forall. intros x Hx. rewrite forallb_forall in Hr. specialize (Hr x Hx).
      unfold value_char, in_range in *. lia.
Qed.

Lemma ascii_app a b : Forall (fun x => x < 128) a -> Forall (fun x => x < 128) b -> Forall (fun x => x < 128) (a ++ b).
Proof. intros. apply Forall_app. split; assumption. Qed.

Lemma handle_request_status_line ver r a o s wh b status hs :
  a_start o = Some (status, hs) -> status_ok status = true ->
  handle_request ver r a o = Wire s wh b ->
  s = t "HTTP/1.1 " ++ status /\ b = sent_body r o /\
  (forall n, hname_eq n (t "connection") = false ->
             values_of n wh = values_of n (with_defaults ver (status_code status) hs (app_body o))) /\
  (no_body_code (status_code status) = true -> sent_body r o = []).
Proof.
  intros Hst Hok H. destruct (handle_request_faithful _ _ _ _ _ _ _ H) as [st' [hs' [cs [reason [code [E1 [E2 [E3 [E4 [E5 [E6 E7]]]]]]]]]]].
  rewrite Hst in E1. inversion E1; subst st' hs'.
  destruct (status_ok_inv status Hok) as [x [y [z [rs [Es [Ep [Ei [Ed [Ha [Hc _]]]]]]]]]].
  rewrite Ep in E2. inversion E2; subst cs reason. rewrite Ei in E3. inversion E3; subst code.
  rewrite Ed in E4. rewrite utf8_encode_ascii in E4.
  - inversion E4. split; [|split; [exact E5|split; assumption]]. rewrite Es. reflexivity.
  - apply ascii_app; [repeat constructor; lia|]. apply ascii_app.
    + assert (Hd := proj1 (dec_N_spec (status_code status))). rewrite Ed in Hd.
      apply Forall_forall. intros q Hq. rewrite forallb_forall in Hd. specialize (Hd q Hq). apply is_digit_spec in Hd. lia.
    + constructor; [lia|exact Ha].
Qed.

(* ---------------- the defaults, per name ---------------- *)
Lemma values_of_snoc n l d :
  values_of n (l ++ [d]) = values_of n l ++ (if hname_eq (fst d) n then [snd d] else []).
Proof.
  rewrite values_of_app. f_equal. unfold values_of. cbn [filter]. destruct (hname_eq (fst d) n); reflexivity.
Qed.

Lemma values_of_with_defaults n ver code hs body :
  values_of n (with_defaults ver code hs body) =
  values_of n hs
  ++ (if negb (code =? 304) && negb (app_has "content-length" hs) && hname_eq k_clen n
      then [dec_N (N.of_nat (List.length body))] else [])
  ++ (if negb (code =? 304) && negb (app_has "content-type" hs) && hname_eq k_ctype n then [default_ctype] else [])
  ++ (if negb (app_has "server" hs) && hname_eq k_server n then [t "TornadoServer/" ++ ver] else []).
Proof.
  unfold with_defaults.
  destruct (code =? 304), (app_has "content-length" hs), (app_has "content-type" hs), (app_has "server" hs);
    cbn [negb andb]; rewrite ?values_of_snoc; cbn [fst snd app]; rewrite <- ?app_assoc, ?app_nil_r; reflexivity.
Qed.

(* ---------------- the two former defects (fixed by a2172c8, 9dbe448), as instances ---------------- *)
Definition head_request : request :=
  {| r_https := false; r_xheaders := false; r_remote_ip := t "1.2.3.4"; r_trusted := []; r_gai := []; r_v11 := true; r_method := t "HEAD"; r_uri := t "/";
     r_headers := [(t "Host", t " example.com")]; r_body := [] |}.
Definition hello_app : app_out := {| a_start := Some (t "200 OK", []); a_written := []; a_chunks := [t "hi"] |}.

(* a HEAD request to an application that computes the body anyway: status line and headers (with the
   Content-Length of that body) are written, the body is not *)
Lemma head_response_example :
  exists a, accept head_request = Some a /\ app_ok true hello_app = true /\
            handle_request (t "6.6") head_request a hello_app =
            Wire (t "HTTP/1.1 200 OK")
                 [(t "Content-Length", t "2"); (t "Content-Type", default_ctype); (t "Server", t "TornadoServer/6.6")] [].
Proof. eexists. split; [vm_compute; reflexivity|]. split; vm_compute; reflexivity. Qed.

(* a raw (not percent-encoded) non-ASCII byte in the path arrives unchanged in PATH_INFO *)
Definition raw_path_request : request :=
  {| r_https := false; r_xheaders := false; r_remote_ip := t "1.2.3.4"; r_trusted := []; r_gai := []; r_v11 := true; r_method := t "GET"; r_uri := [47; 233];
     r_headers := [(t "Host", t " example.com")]; r_body := [] |}.
Lemma raw_non_ascii_path_example :
  exists a e, accept raw_path_request = Some a /\ environ raw_path_request a = EnvOk e /\ e_path e = [47; 233].
Proof. eexists. eexists. split; [vm_compute; reflexivity|]. split; vm_compute; reflexivity. Qed.

(* ---------------- every request header is carried by its CGI variable ---------------- *)
Lemma header_variable r a e n v :
  accept r = Some a -> environ r a = EnvOk e ->
  let hs := map strip_value (r_headers r) in
  In (n, v) hs ->
  exists v', env_get (cgi_of n) (e_extra e) = Some v' /\
             (collides n hs = false -> v' = join [44] (values_of n hs)).
Proof.
  intros Ha He hs Hin. destruct (accept_inv r a Ha) as [Hadd _]. rewrite (environ_extra r a e He).
  destruct (hname_eq n (t "content-type")) eqn:H1.
  - assert (E : cgi_of n = K_CT) by (unfold cgi_of; rewrite H1; reflexivity).
    rewrite E, (extras_ct _ _ Hadd n v Hin H1). eauto.
  - destruct (hname_eq n (t "content-length")) eqn:H2.
    + assert (E : cgi_of n = K_CL) by (unfold cgi_of; rewrite H1, H2; reflexivity).
      rewrite E, (extras_cl _ _ Hadd n v Hin H2). eauto.
    + exact (extras_other _ _ Hadd n v Hin H1 H2).
Qed.

Lemma split_host_no_port name https :
  (~ In 58 name \/ exists x, name = x ++ [93]) -> split_host name https = inl (name, default_port https).
Proof. intros [H|[x ->]]; [apply split_host_plain; exact H|apply split_host_bracketed]. Qed.

Lemma serve_never_environ_raised ver r o : serve ver r o <> EnvironRaised.
Proof.
  unfold serve. destruct (accept r) as [a|] eqn:Ha; [|discriminate].
  destruct (environ_total r a Ha) as [e ->]. discriminate.
Qed.

(* concrete instances of the hypotheses used above *)
Example accept_example : exists a, accept head_request = Some a /\ q_host a = t "example.com" /\ q_path a = t "/".
Proof. eexists. split; [vm_compute; reflexivity|split; reflexivity]. Qed.
Example status_ok_example : status_ok (t "404 Not Found") = true.
Proof. reflexivity. Qed.
Example wire_example :
  exists a s wh, accept raw_path_request = Some a /\
    handle_request (t "6.6") raw_path_request a hello_app = Wire s wh (t "hi") /\ s = t "HTTP/1.1 200 OK".
Proof. eexists. eexists. eexists. split; [vm_compute; reflexivity|]. split; vm_compute; reflexivity. Qed.
Example host_spec_example : host_spec (t "[::1]:8080") = Some (t "[::1]", t "8080").
Proof. reflexivity. Qed.
