(* C47 — proofs, part 6: the model satisfies the checker that is applied to the implementation. *)
From Coq Require Import List NArith ZArith Bool String Lia ZifyBool.
Import ListNotations.
From TV Require Import Lib.Obs Lib.C21_Utf8 Lib.C21_Pct C47.Model C47.Run C47.Proofs C47.Proofs2 C47.Proofs3 C47.Proofs4 C47.Proofs5.
Local Open Scope N_scope.

(* ---------------- observables round-trip ---------------- *)
Lemma dec_pairs_enc h : dec_pairs (map enc_pair h) = Some h.
Proof. induction h as [|[k v] h IH]; [reflexivity|]. cbn [map enc_pair dec_pairs fst snd]. rewrite IH. reflexivity. Qed.

Lemma dec_wire_enc w : dec_wire (enc_wire w) = Some w.
Proof. destruct w; cbn [enc_wire dec_wire]; [rewrite dec_pairs_enc|..]; reflexivity. Qed.

Lemma dec_env_enc e : dec_env (enc_env e) = Some e.
Proof. destruct e. unfold enc_env, dec_env. cbn. rewrite dec_pairs_enc. reflexivity. Qed.

Lemma dec_outcome_enc o : dec_outcome (enc_outcome o) = Some o.
Proof.
  destruct o as [| |e w]; [reflexivity|reflexivity|]. cbn [enc_outcome dec_outcome].
  change (String.eqb "Served" "Served") with true. cbv iota. rewrite dec_env_enc, dec_wire_enc. reflexivity.
Qed.

Lemma list_eqb_refl l : list_eqb text_eqb l l = true.
Proof. induction l as [|x l IH]; [reflexivity|]. cbn [list_eqb]. rewrite text_eqb_refl. exact IH. Qed.

(* ---------------- "the application set this header" ---------------- *)
Lemma app_has_values (k : string) K hs :
  text_lower K = t k -> app_has k hs = match values_of K hs with [] => false | _ => true end.
Proof.
  intros HK. rewrite app_has_spec. unfold values_of, hname_eq. rewrite HK.
  induction hs as [|nv hs IH]; [reflexivity|]. cbn [existsb filter].
  rewrite (text_eqb_sym (t k)). destruct (text_eqb (text_lower (fst nv)) (t k)); [reflexivity|exact IH].
Qed.

Lemma has_name_values n hs :
  existsb (fun nv => hname_eq (fst nv) n) hs = match values_of n hs with [] => false | _ => true end.
Proof.
  unfold values_of. induction hs as [|nv hs IH]; [reflexivity|]. cbn [existsb filter].
  destruct (hname_eq (fst nv) n); [reflexivity|exact IH].
Qed.

Lemma values_of_In n v hs : In (n, v) hs -> In v (values_of n hs).
Proof.
  intros Hin. unfold values_of. apply in_map_iff. exists (n, v). split; [reflexivity|].
  apply filter_In. split; [exact Hin|apply hname_eq_refl].
Qed.

Lemma app_has_of_In (k : string) K hs n v :
  text_lower K = t k -> In (n, v) hs -> hname_eq K n = true -> app_has k hs = true.
Proof.
  intros HK Hin Hn. rewrite app_has_spec. apply existsb_exists. exists (n, v). split; [exact Hin|].
  cbn [fst]. unfold hname_eq in Hn. rewrite HK in Hn. exact Hn.
Qed.

Lemma lower_ct : text_lower k_ctype = t "content-type". Proof. reflexivity. Qed.
Lemma lower_sv : text_lower k_server = t "server". Proof. reflexivity. Qed.

(* ---------------- the response part ---------------- *)
Lemma check_resp_model ver r a o :
  version_ok ver = true -> check_resp ver r o (handle_request ver r a o) = true.
Proof.
  intros Hver. unfold check_resp.
  destruct (app_ok (text_eqb (r_method r) (t "HEAD")) o) eqn:Hok; [|reflexivity]. cbn [negb].
  destruct (handle_request_writes ver r a o Hver Hok) as [s [wh Hw]]. rewrite Hw.
  pose proof Hok as Hok'. unfold app_ok in Hok'.
  destruct (a_start o) as [[status hs]|] eqn:Hst; [|discriminate].
  apply andb_true_iff in Hok' as [Hok' _]. apply andb_true_iff in Hok' as [Hok' _].
  apply andb_true_iff in Hok' as [Hsok Hhs].
  destruct (handle_request_status_line ver r a o s wh (sent_body r o) status hs Hst Hsok Hw) as [Es [_ [Hv _]]].
  set (code := status_code status) in *.
  assert (Hwd : forall n, hname_eq n (t "connection") = false ->
     values_of n wh = values_of n hs
       ++ (if negb (code =? 304) && negb (app_has "content-length" hs) && hname_eq k_clen n
           then [dec_N (N.of_nat (List.length (app_body o)))] else [])
       ++ (if negb (code =? 304) && negb (app_has "content-type" hs) && hname_eq k_ctype n then [default_ctype] else [])
       ++ (if negb (app_has "server" hs) && hname_eq k_server n then [t "TornadoServer/" ++ ver] else [])).
  { intros n Hn. rewrite (Hv n Hn). apply values_of_with_defaults. }
  repeat (apply andb_true_iff; split).
  - rewrite Es. apply text_eqb_refl.
  - unfold sent_body. destruct (text_eqb (r_method r) (t "HEAD")); apply text_eqb_refl.
  - apply forallb_forall. intros [n v] Hin. cbn [fst].
    rewrite forallb_forall in Hhs. specialize (Hhs (n, v) Hin). cbn [fst snd] in Hhs.
    apply andb_true_iff in Hhs as [_ Hc]. apply negb_true_iff in Hc. unfold is_conn in Hc.
    apply orb_false_iff in Hc as [Hc _]. rewrite (Hwd n Hc).
    assert (D1 : negb (code =? 304) && negb (app_has "content-length" hs) && hname_eq k_clen n = false).
    { destruct (hname_eq k_clen n) eqn:E; [|apply andb_false_r].
      rewrite (app_has_of_In "content-length" k_clen hs n v lower_cl Hin E). cbn [negb]. rewrite andb_false_r. reflexivity. }
    assert (D2 : negb (code =? 304) && negb (app_has "content-type" hs) && hname_eq k_ctype n = false).
    { destruct (hname_eq k_ctype n) eqn:E; [|apply andb_false_r].
      rewrite (app_has_of_In "content-type" k_ctype hs n v lower_ct Hin E). cbn [negb]. rewrite andb_false_r. reflexivity. }
    assert (D3 : negb (app_has "server" hs) && hname_eq k_server n = false).
    { destruct (hname_eq k_server n) eqn:E; [|apply andb_false_r].
      rewrite (app_has_of_In "server" k_server hs n v lower_sv Hin E). reflexivity. }
    rewrite D1, D2, D3, !app_nil_r. apply list_eqb_refl.
  - apply forallb_forall. intros [k v] Hin. cbn [fst].
    destruct (hname_eq k (t "connection")) eqn:Hc.
    { unfold is_conn. rewrite Hc. cbn [orb]. rewrite !orb_true_r. reflexivity. }
    pose proof (values_of_In k v wh Hin) as Hv'. rewrite (Hwd k Hc) in Hv'.
    rewrite has_name_values. destruct (values_of k hs) as [|x xs]; [|reflexivity]. cbn [orb app] in *.
    rewrite (hname_eq_sym k k_clen), (hname_eq_sym k k_ctype), (hname_eq_sym k k_server).
    destruct (hname_eq k_clen k); [rewrite !orb_true_r; reflexivity|].
    destruct (hname_eq k_ctype k); [rewrite !orb_true_r; reflexivity|].
    destruct (hname_eq k_server k); [rewrite !orb_true_r; reflexivity|].
    rewrite !andb_false_r in Hv'. destruct Hv'.
  - rewrite has_name_values. destruct (values_of k_clen hs) as [|x xs] eqn:Ev; [|reflexivity]. cbn [orb].
    rewrite (Hwd k_clen eq_refl), Ev, (app_has_values "content-length" k_clen hs lower_cl), Ev.
    replace (hname_eq k_clen k_clen) with true by reflexivity.
    replace (hname_eq k_ctype k_clen) with false by reflexivity.
    replace (hname_eq k_server k_clen) with false by reflexivity.
    rewrite !andb_false_r. cbn [negb andb app]. destruct (code =? 304); cbn [negb andb app]; apply list_eqb_refl.
  - rewrite has_name_values. destruct (values_of k_ctype hs) as [|x xs] eqn:Ev; [|reflexivity]. cbn [orb].
    rewrite (Hwd k_ctype eq_refl), Ev, (app_has_values "content-type" k_ctype hs lower_ct), Ev.
    replace (hname_eq k_clen k_ctype) with false by reflexivity.
    replace (hname_eq k_ctype k_ctype) with true by reflexivity.
    replace (hname_eq k_server k_ctype) with false by reflexivity.
    rewrite !andb_false_r. cbn [negb andb app]. destruct (code =? 304); cbn [negb andb app]; apply list_eqb_refl.
  - rewrite has_name_values. destruct (values_of k_server hs) as [|x xs] eqn:Ev; [|reflexivity]. cbn [orb].
    rewrite (Hwd k_server eq_refl), Ev, (app_has_values "server" k_server hs lower_sv), Ev.
    replace (hname_eq k_clen k_server) with false by reflexivity.
    replace (hname_eq k_ctype k_server) with false by reflexivity.
    replace (hname_eq k_server k_server) with true by reflexivity.
    rewrite !andb_false_r. cbn [negb andb app]. apply list_eqb_refl.
Qed.

(* ---------------- the whole checker ---------------- *)
Theorem check_one_model c : version_ok (ver_of c) = true -> check_one c (run_one c) = true.
Proof.
  intros Hver. unfold check_one, run_one. rewrite dec_outcome_enc.
  unfold check_outcome, serve. destruct (accept (req_of c)) as [a|] eqn:Ha; [|reflexivity].
  destruct (environ_total _ a Ha) as [e He]. rewrite He.
  rewrite (check_env_model _ a e Ha He).
  rewrite (check_resp_model (ver_of c) (req_of c) a (app_of c) Hver). reflexivity.
Qed.

(* ---------------- sequences on one container ---------------- *)
Lemma container_run_map ver st l : container_run ver st l = map (fun ro => serve ver (fst ro) (snd ro)) l.
Proof. induction l as [|ro l IH]; [reflexivity|]. cbn [container_run container_step map]. rewrite IH. reflexivity. Qed.

(* the k-th outcome is that of the k-th request alone, whatever came before and after *)
Theorem container_stateless ver pre r o post :
  nth_error (container_run ver tt (pre ++ (r, o) :: post)) (List.length pre) = Some (serve ver r o).
Proof.
  rewrite container_run_map, map_app. rewrite nth_error_app2 by (rewrite map_length; apply Nat.le_refl).
  rewrite map_length, Nat.sub_diag. reflexivity.
Qed.

Theorem check_case_model c : version_ok (fst c) = true -> check_case c (run_case c) = true.
Proof.
  destruct c as [ver steps]. cbn [fst]. intros Hver. unfold check_case, run_case, steps_of. cbn [fst snd].
  rewrite container_run_map, map_map. induction steps as [|s steps IH]; [reflexivity|].
  cbn [map check_all fst snd]. rewrite IH, andb_true_r. exact (check_one_model (one_of ver s) Hver).
Qed.
